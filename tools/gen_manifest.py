#!/usr/bin/env python3
"""Regenerate MANIFEST.json from tools/registry.py + tools/manifest_text.py."""
import json, os, sys
ROOT = os.path.dirname(os.path.dirname(os.path.abspath(__file__)))
sys.path.insert(0, os.path.join(ROOT, "tools"))
from registry import PROPS
from manifest_text import TEXT, NOT_YET, HOOK_COMMITS

props = [json.loads(l) for l in open(os.path.join(ROOT, "properties.jsonl"))]
checks = []
na = []
for p in props:
    pid = p["id"]
    if pid in PROPS:
        t = TEXT[pid]
        checks.append({
            "property_id": pid,
            "quick_cmd": f"./check {pid} --tier quick",
            "thorough_cmd": f"./check {pid} --tier thorough",
            "evidence_file": f"/verif/evidence/{pid}.json",
            "replay_cmd_template": "./check " + pid + " --replay {path}",
            "engine": "lean4-model+correspondence",
            "level_claimed": {"category": "proof", "text": t["text"], "design_ref": t.get("design_ref", "DESIGN.md §6 " + pid)},
            "level_note": t["note"],
            "technique": t.get("technique", "Lean 4 theorems over a hand-written executable model + differential correspondence check against the Rust implementation"),
        })
    else:
        na.append({"property_id": pid, "reason": NOT_YET.get(pid, "check not built yet in this round; the Lean model does not cover it so far (no technique switch)")})
m = {
    "version": 1,
    "setup_cmd": "./check --setup",
    "hooks": {
        "guard": "--cfg sos_verif",
        "enable": "harness/.cargo/config.toml sets rustflags = [\"--cfg\", \"sos_verif\"] for every harness build of /repo's crates",
        "baseline_off_cmd": "cd /repo && cargo nextest run --workspace --no-fail-fast --tool-config-file pb:/w/lib/nextest.toml --profile pb --test-threads 8 --offline",
        "source_commits": HOOK_COMMITS,
        "add_only": True,
    },
    "engines": [
        {"name": "lean4-model+correspondence", "path": "/verif/check",
         "serves_properties": sorted(PROPS.keys()),
         "kind_free_text": "Lean 4.33 theorems (lean/SosModel/Props) about an executable model (lean/SosModel), compiled driver `sosmodel`, Rust harness crates (harness/*) driving the real code in-process and diffing line-protocol streams; python orchestrator ./check"}
    ],
    "checks": checks,
    "not_applicable": na,
    "notes": "Every check: lake build of the property's theorem module + #print axioms audit, cargo build of the harness against /repo's working tree, correspondence + oracle run, classification against KNOWN_FINDINGS.json. See DESIGN.md.",
}
json.dump(m, open(os.path.join(ROOT, "MANIFEST.json"), "w"), indent=1)
print("checks:", [c["property_id"] for c in checks], "not_applicable:", len(na))
