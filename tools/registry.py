"""Per-property configuration of ./check: theorem modules, harness runs."""

HASH_TB = "SHA-256 modelled as a free term algebra (collision-free, leaf/inner-node separated); shapes tied by evaluating symbolic terms with real SHA-256 in the harness"

LOG_TB = "sqlite modelled as a list of rows with insertion order, a transaction as atomic; a log file as the list of its records; FormatStream / SQL iteration tied by the correspondence run only"

CODEC_TB = "binary-stream 10 primitives modelled byte-exactly (LE integers, u32 length prefixes, 16 MiB guard before allocation); UTF-8 validity is the executable String.fromUTF8? and opaque in proofs; serde_json payload of DeviceEvent::Trust outside the model"

PROPS = {
    "C14": {
        "lean": ["SosModel.Props.C14"],
        "runs": [{"crate": "hcore", "domain": "codec"}],
        "classes": r"roundtrip|encode-not-deterministic",
        "trusted_base": [CODEC_TB, "translator tools/translate.py copies tag tables, decoder arms, flag mask, size cap from the source on every run"],
        "assumptions": ["modelled types: UtcDateTime, CommitHash, CommitProof, CommitState, Comparison, AeadPack, VaultEntry, VaultCommit, EventKind, WriteEvent, AccountEvent, DeviceEvent::Revoke, FileEvent, EventRecord; other types (vault header/contents, secrets, protobuf wire bindings) are not yet in the model"],
    },
    "C15": {
        "lean": ["SosModel.Props.C15"],
        "runs": [{"crate": "hcore", "domain": "codec"}],
        "classes": r"decode-panics|decode-allocation",
        "trusted_base": [CODEC_TB, "allocation requests measured by a tracking global allocator in the harness (single request above 16 MiB + 64 KiB slack is a failure; >= 1 GiB stops the run)"],
        "assumptions": ["decoders in the model: the core binary format listed for C14; FormatStream iteration, archives, pairing URLs, bearer tokens and HTTP handlers are not yet in the model",
                        "partial: allocator abort behaviour and stack depth are runtime properties the model cannot exhibit"],
    },
    "C01": {
        "lean": ["SosModel.Props.C01"],
        "runs": [{"crate": "haccount", "domain": "folder"}],
        "classes": r"^c01-",
        "trusted_base": ["decrypted secret content is an opaque token (harness: digest of label, kind, tags, favourite and the binary encoding of the secret)", "the vault mirror is written by the access point before memory on every mutation: modelled as equal to the served vault; reload is modelled as replay of the persisted log"],
        "assumptions": ["multi-folder operations (move, archive) are covered by the implementation-side oracle and by the per-folder theorems; only the default folder's history is replayed on the Lean model",
                        "caller-chosen re-used ids at the folder-level API: witness theorem only (account-level ids are fresh)"],
        "timeout": {"quick": 2400, "thorough": 14000},
    },
    "C02": {
        "lean": ["SosModel.Props.C02"],
        "runs": [{"crate": "haccount", "domain": "folder"}, {"crate": "haccount", "domain": "sync"}],
        "classes": r"^c02-",
        "trusted_base": ["decrypted content as opaque tokens; ciphertext identity not modelled (merge replay re-encrypts)"],
        "assumptions": ["force merges are proved in the model and reached by the sync harness only through hard conflicts"],
        "timeout": {"quick": 2400, "thorough": 14000},
    },
    "C11": {
        "lean": ["SosModel.Props.C11"],
        "runs": [{"crate": "haccount", "domain": "auth"}],
        "classes": r"^c11-",
        "trusted_base": ["Ed25519 symbolic: a signature is (key, signed bytes) and verifies iff both match", "translator extracts the route table and, per handler, whether it calls authenticate_endpoint and over which bytes (regex over server.rs and handlers/*.rs)", "axum routing/extractors, TLS and CORS not modelled"],
        "assumptions": ["websocket upgrade (/sync/changes) and relay are in the generated route table (theorem all_data_routes_authenticated) but not exercised over HTTP by the harness",
                        "valid-credential requests to destructive endpoints (delete/update account, file upload/move/delete) are not sent"],
        "timeout": {"quick": 1500, "thorough": 3000},
    },
    "C12": {
        "lean": ["SosModel.Props.C12"],
        "runs": [{"crate": "haccount", "domain": "folder"}],
        "classes": r"^c12-",
        "trusted_base": ["compaction at the level of decrypted folder content"],
        "assumptions": ["partial so far: password / cipher changes (old key no longer unlocks, no blob under the old key remains) are not yet modelled or exercised; this check covers compaction in any order and repetition with edits"],
        "timeout": {"quick": 2400, "thorough": 14000},
    },
    "C16": {
        "lean": ["SosModel.Props.C16"],
        "runs": [{"crate": "haccount", "domain": "integrity"}],
        "classes": r"^c16-",
        "trusted_base": [HASH_TB, "a stored row is (content bytes, stored checksum); row framing (length fields, identities) is not part of the model"],
        "assumptions": ["external file blobs (file_integrity) are not yet covered: vault rows, event records and folder parts only",
                        "corruption of row framing (length fields) is outside the property's content regions and is not exercised"],
        "timeout": {"quick": 1500, "thorough": 6000},
    },
    "C20": {
        "lean": ["SosModel.Props.C20"],
        "runs": [{"crate": "haccount", "domain": "folder"}],
        "classes": r"^c20-",
        "trusted_base": ["probly-search ranking not modelled: document membership, document data and counters only"],
        "assumptions": ["kind and tag counters are not yet recounted by the harness (folder and favourites counters are)"],
        "timeout": {"quick": 2400, "thorough": 14000},
    },
    "C04": {
        "lean": ["SosModel.Props.C04"],
        "runs": [{"crate": "haccount", "domain": "sync"}],
        "classes": r"^c04-",
        "trusted_base": [HASH_TB, LOG_TB, "one event log at a time (all log types run the same algorithm); a sync call is modelled sequentially (interleavings are C09); the in-process SyncClient calls server_helpers exactly as the HTTP handlers do"],
        "assumptions": ["partial: the n-device/any-order statement is proved for the two building blocks (fast-forward, auto-merge of distinct events); its composition over arbitrary sync orders is validated by the generated histories only",
                        "wall-clock timestamps (no clock hook yet): ties and skew are covered by the merge_patches stream, not by whole histories"],
        "timeout": {"quick": 1500, "thorough": 7200},
    },
    "C05": {
        "lean": ["SosModel.Props.C05"],
        "runs": [{"crate": "haccount", "domain": "sync"}],
        "classes": r"^c05-",
        "trusted_base": [HASH_TB, "Vec::sort_by modelled as a stable insertion sort by time"],
        "assumptions": ["consequences for decrypted folder content (last writer wins, deletes) go through the folder reducer (C02)"],
        "timeout": {"quick": 1500, "thorough": 7200},
    },
    "C09": {
        "lean": ["SosModel.Props.C09"],
        "runs": [{"crate": "haccount", "domain": "sched"}],
        "classes": r"^c09-",
        "trusted_base": [HASH_TB, LOG_TB, "request granularity: the server handles one request at a time under the account write lock (handlers take account.write()); scheduling inside one request, tokio/OS thread interleavings and lock fairness are not modelled"],
        "assumptions": ["partial: real thread interleavings inside one request cannot be exhibited by the model; interleavings are sampled by the harness scheduler (validation and search, not the proof)"],
        "timeout": {"quick": 1500, "thorough": 7200},
    },
    "C06": {
        "lean": ["SosModel.Props.C06"],
        "runs": [{"crate": "hbackend", "domain": "log"}],
        "classes": r"stream-error|reverse-stream|tree-differs|reopen|commit-not-hash|log-content-unexpected",
        "trusted_base": [HASH_TB, LOG_TB],
        "assumptions": ["records handed to apply_records / patches are well-formed (commit = SHA-256 of bytes): the log stores what it is given (theorem stored_commit_is_hash_of_bytes has this hypothesis)",
                        "last_commit field of file-system rows is not modelled (the database does not store it)"],
    },
    "C07": {
        "lean": ["SosModel.Props.C07"],
        "runs": [{"crate": "hbackend", "domain": "log"}, {"crate": "haccount", "domain": "epatch"}],
        "classes": r"patch-checked|refused-|rewind-|replace-all|event-patch",
        "trusted_base": [HASH_TB, LOG_TB],
        "assumptions": ["checkpoints carry one index (all the SDK builds); the real server_helpers::event_patch is driven on real server storage (domain epatch) and, composed from its primitives, on all log types (domain log)"],
    },
    "C08": {
        "lean": ["SosModel.Props.C08"],
        "runs": [{"crate": "hcore", "domain": "merkle"}],
        "trusted_base": [HASH_TB, "rs_merkle 1.5 modelled (root / single-index proof / verify with caller-supplied total); multi-index proofs outside the model"],
        "assumptions": ["proofs carry exactly one index (all the SDK ever builds)",
                        "the full client scan flow over the wire (event_scan + iterate_scan_proofs) is exercised in the C04 harness; here the same primitives are driven directly"],
    },
}
