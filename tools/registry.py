"""Per-property configuration of ./check: theorem modules, harness runs."""

HASH_TB = "SHA-256 modelled as a free term algebra (collision-free, leaf/inner-node separated); shapes tied by evaluating symbolic terms with real SHA-256 in the harness"

PROPS = {
    "C08": {
        "lean": ["SosModel.Props.C08"],
        "runs": [{"crate": "hcore", "domain": "merkle"}],
        "trusted_base": [HASH_TB, "rs_merkle 1.5 modelled (root / single-index proof / verify with caller-supplied total); multi-index proofs outside the model"],
        "assumptions": ["proofs carry exactly one index (all the SDK ever builds)",
                        "the full client scan flow over the wire (event_scan + iterate_scan_proofs) is exercised in the C04 harness; here the same primitives are driven directly"],
    },
}
