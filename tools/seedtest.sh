#!/bin/bash
# usage: seedtest.sh <patch.diff> <property> [tier]   -- apply a seeded change to /repo, run the check, undo
set -u
patch="$1"; prop="$2"; tier="${3:-quick}"
cd /repo || exit 2
if [ -n "$(git status --porcelain --untracked-files=no)" ]; then echo "repo not clean"; exit 2; fi
git apply "$patch" || { echo "patch does not apply"; exit 2; }
cd /verif && ./check "$prop" --tier "$tier" 2>&1 | grep -E 'VIOLATION|KNOWN-FINDING|obligations' | cut -c1-400
rc=${PIPESTATUS[0]}
git -C /repo checkout -- .
echo "exit=$rc"
