#!/usr/bin/env python3
"""keep_seed.py <seed-out-dir> <name> <property> <detected: yes|no> <check-output-summary>"""
import json, os, shutil, sys
src, name, prop, detected, summary = sys.argv[1:6]
dst = os.path.join("/verif/seeded", name)
os.makedirs(dst, exist_ok=True)
for f in ("patch.diff", "demo.rs", "confirm.txt"):
    if os.path.exists(os.path.join(src, f)):
        shutil.copy(os.path.join(src, f), os.path.join(dst, f))
meta = {}
mp = os.path.join(src, "meta.json")
if os.path.exists(mp):
    try:
        meta = json.load(open(mp))
    except Exception:
        meta = {"raw": open(mp).read()}
meta["property"] = prop
meta["confirmed_by_me"] = open(os.path.join(dst, "confirm.txt")).read() if os.path.exists(os.path.join(dst, "confirm.txt")) else "pending"
meta["check_result"] = {"detected": detected == "yes", "summary": summary,
                        "how_run": f"git -C /repo apply seeded/{name}/patch.diff && ./check {prop} --tier quick; git -C /repo checkout -- ."}
json.dump(meta, open(os.path.join(dst, "meta.json"), "w"), indent=1)
print("kept", dst)
