#!/bin/bash
# usage: run_all.sh [tier]  -- run every registered check once (refreshes evidence/), summary in run/run_all.log
tier="${1:-quick}"
cd /verif || exit 2
: > run/run_all.log
for p in C01 C02 C03 C04 C05 C06 C07 C08 C09 C10 C11 C12 C13 C14 C15 C16 C17 C18 C19 C20; do
  out=$(./check $p --tier $tier 2>&1); rc=$?
  echo "$p rc=$rc $(echo "$out" | grep -c '^VIOLATION') violations :: $(echo "$out" | tail -1 | cut -c1-160)" >> run/run_all.log
done
echo ALLDONE >> run/run_all.log
