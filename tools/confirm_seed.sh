#!/bin/bash
# usage: confirm_seed.sh <seed-out-dir> <name>
# Confirms in a scratch worktree (/tmp/confirm_wt, outside /repo and /verif) that the seeded
# change compiles, passes the existing suite (only the 3 always-failing tests fail), and that
# the demonstration fails with the change and passes without it.  Writes <dir>/confirm.txt.
set -u
dir="$1"; name="$2"; where="${3:-unit}"
wt=/tmp/confirm_wt
if [ ! -d "$wt" ]; then git -C /repo worktree add -q "$wt" HEAD || exit 2; fi
cd "$wt" && git checkout -q -- . && git clean -fdq tests/unit/src/tests tests/integration/tests && git reset -q --hard "$(git -C /repo rev-parse HEAD)"
mkdir -p tests/unit/target tests/integration/target
mod="seed_${name}"
if [[ "$where" == unit:* ]]; then
  sub="${where#unit:}"
  cp "$dir/demo.rs" "tests/unit/src/tests/${sub}/${mod}.rs"
  grep -q "mod ${mod};" "tests/unit/src/tests/${sub}/mod.rs" || echo "mod ${mod};" >> "tests/unit/src/tests/${sub}/mod.rs"
  pkg="sos-unit-tests"; extra=""
elif [ "$where" = "unit" ]; then
  cp "$dir/demo.rs" "tests/unit/src/tests/${mod}.rs"
  grep -q "mod ${mod};" tests/unit/src/tests/mod.rs || echo "mod ${mod};" >> tests/unit/src/tests/mod.rs
  pkg="sos-unit-tests"; extra=""
else
  sub="${where#integration:}"
  cp "$dir/demo.rs" "tests/integration/tests/${sub}/${mod}.rs"
  grep -q "mod ${mod};" "tests/integration/tests/${sub}/mod.rs" || echo "mod ${mod};" >> "tests/integration/tests/${sub}/mod.rs"
  pkg="sos-integration-tests"; extra="--test main"
fi
out="$dir/confirm.txt"; : > "$out"
# 1. demo on the unchanged tree: must pass
cargo test -p $pkg --offline $extra -- "${mod}" > /tmp/confirm_demo0.log 2>&1
echo "demo-without-change: rc=$? $(grep -E '^test result' /tmp/confirm_demo0.log | head -1)" >> "$out"
# 2. with the change: build + full existing suite + demo
git apply "$dir/patch.diff" || { echo "patch-does-not-apply" >> "$out"; exit 2; }
cargo nextest run --workspace --no-fail-fast --offline --test-threads 8 > /tmp/confirm_suite.log 2>&1
echo "suite-with-change: $(grep -E 'Summary' /tmp/confirm_suite.log)" >> "$out"
grep -E '^\s+FAIL' /tmp/confirm_suite.log | sort -u | sed 's/^/  /' >> "$out"
git checkout -q -- . ; git clean -fdq tests/unit/src/tests tests/integration/tests; git reset -q --hard
echo "done" >> "$out"
cat "$out"
