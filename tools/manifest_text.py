HOOK_COMMITS = []
NOT_YET = {}
TB = ("Trusted: Lean 4.33 kernel (axioms at most propext, Classical.choice, Quot.sound; audited by #print axioms on every run; no native_decide, no sorry); "
      "the hand-written model, tied to the code only by the correspondence run (differential testing of the model's executable definitions against the real crate on generated and enumerated inputs); "
      "SHA-256 as a free term algebra. ")
TEXT = {
    "C08": {
        "text": "Theorems for all leaf sequences of any length: root injectivity, compare(head proof) = equal/contains/unknown exactly per the prefix relation, forged single-index proofs cannot obtain `contains`, single-leaf proofs verify against a replica of any length iff the position agrees, the ancestor scan returns the newest agreeing position (LCP only under a stated hypothesis; negation witnessed). Model tied to rs_merkle/CommitTree by exhaustive enumeration over a 3-letter alphabet plus random long pairs and forged proofs.",
        "note": TB + "Modelled rather than verified: rs_merkle 1.5 tree/proof construction (single-index proofs only). The over-the-wire scan flow is covered by the C04 harness.",
    },
}
