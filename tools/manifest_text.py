HOOK_COMMITS = []
NOT_YET = {}
TB = ("Trusted: Lean 4.33 kernel (axioms at most propext, Classical.choice, Quot.sound; audited by #print axioms on every run; no native_decide, no sorry); "
      "the hand-written model, tied to the code only by the correspondence run (differential testing of the model's executable definitions against the real crate on generated and enumerated inputs); "
      "SHA-256 as a free term algebra. ")
TEXT = {
    "C14": {
        "text": "One round-trip theorem per modelled type (for every value within explicit size guards and any trailing bytes): decode(encode v ++ rest) = (v, rest); encoding is a function (deterministic); the EventKind tag tables, regenerated from the source each run, are proved mutually inverse and injective, and every variant's written kind is proved to have a decoder arm rebuilding that variant. Byte-exact tie: the model decodes and re-encodes the real encoder's output and thousands of mutations, verdict and canonical bytes must equal the real decoder's.",
        "note": TB + "Modelled rather than verified: binary-stream primitives; types outside the model are listed in evidence (assumptions); protobuf wire bindings not yet modelled.",
    },
    "C15": {
        "text": "Theorem `Good d` for every modelled decoder and EVERY input byte string: no panic, no single allocation request above the 16 MiB cap, unread rest is a suffix of the input, termination by construction; plus decide-checked facts on the regenerated decoder-arm tables (no panicking arm). Tie: truncation at every offset, bit flips, hostile length fields, splices, kind-tag substitution over the u16 space, short random strings into every decoder entry point, under catch_unwind with an allocation-tracking allocator; model verdict must equal the real decoder's.",
        "note": TB + "Partial: allocator abort and stack depth are runtime behaviour outside the model; decoders outside the core binary format (FormatStream, archives, URLs, tokens, HTTP bodies) not yet modelled.",
    },
    "C06": {
        "text": "Invariant proved by induction over arbitrary operation sequences on any number of co-resident logs: the in-memory tree equals the stored commits in order for every log, hence re-opening yields the same tree; stored commits are hashes of their bytes (for well-formed supplied records); append order/timestamps preserved; rewind keeps a prefix; operations on one log leave every other log's rows and tree untouched. One model for both backends (the repaired code behaves identically), each backend tied to it by generated scripts over 2-4 logs sharing a table/directory with duplicate events.",
        "note": TB + "Modelled rather than verified: sqlite (ordered rows, atomic transactions), file system (a log file is its record list), FormatStream iteration; fsync/durability not modelled.",
    },
    "C07": {
        "text": "Theorems for all log states, patches and single-index checkpoints: a checked patch is applied iff the root equals the checkpoint root, i.e. (free hash) iff the receiver holds exactly the sender's base sequence; every refused patch, rewind, rewind-and-patch (with rollback) and replace-all leaves every log's records and tree as before; an accepted replace-all yields exactly the supplied records. Tied to both backends by generated scripts with matching/stale/ahead/diverged/foreign/forged checkpoints and present/duplicate/absent rewind targets.",
        "note": TB + "Modelled rather than verified: storage as in C06; the server handler event_patch is composed in the harness from the real primitives; I/O errors in the middle of an operation are C13's subject.",
    },
    "C08": {
        "text": "Theorems for all leaf sequences of any length: root injectivity, compare(head proof) = equal/contains/unknown exactly per the prefix relation, forged single-index proofs cannot obtain `contains`, single-leaf proofs verify against a replica of any length iff the position agrees, the ancestor scan returns the newest agreeing position (LCP only under a stated hypothesis; negation witnessed). Model tied to rs_merkle/CommitTree by exhaustive enumeration over a 3-letter alphabet plus random long pairs and forged proofs.",
        "note": TB + "Modelled rather than verified: rs_merkle 1.5 tree/proof construction (single-index proofs only). The over-the-wire scan flow is covered by the C04 harness.",
    },
}
