HOOK_COMMITS = []
NOT_YET = {}
TB = ("Trusted: Lean 4.33 kernel (axioms at most propext, Classical.choice, Quot.sound; audited by #print axioms on every run; no native_decide, no sorry); "
      "the hand-written model, tied to the code only by the correspondence run (differential testing of the model's executable definitions against the real crate on generated and enumerated inputs); "
      "SHA-256 as a free term algebra. ")
TEXT = {
    "C17": {
        "text": "Theorems: for every sequence of file-secret operations (add, replace, move, delete secret, delete folder) the set of blobs on disk equals the replay of the file event log; after deleting a secret or a folder no blob of it remains; every blob is stored under the digest of its bytes; the server accepts an upload iff the received bytes hash to the requested name, and a refused upload changes nothing. Tie: generated histories on a real account (both backends) with, after every step, disk listing vs FileReducer replay, blob name vs SHA-256, decryption vs the original content, no blob without a live secret; uploads of correct / bit-flipped / truncated / empty / extended bodies to a live in-process server with a directory walk for stray files and a download comparison.",
        "note": TB + "Partial: mid-transfer connection loss is runtime behaviour outside the model. Modelled rather than verified: age encryption, the file system.",
    },
    "C18": {
        "text": "Theorems: importing an exported archive (distinct entry names) restores exactly the exported parts; a manifest-listed entry that does not hash to its checksum, or is missing, makes the import fail and nothing is restored; after sanitising, joining ANY entry name to the import target never walks above it. Tie: real export/import round trips on generated accounts for v2/file-system and v3/sqlite with decrypted-folder comparison; hostile archives rebuilt from the valid one with one change each (content byte, manifest checksum, `../`, absolute and drive-prefixed names, duplicate, missing entry) with a directory-tree diff around the target; the sanitiser model is compared with the real sanitize_file_path on generated names.",
        "note": TB + "Modelled rather than verified: zip container, sanitize_filename internals.",
    },
    "C19": {
        "text": "Theorem: importing any set of logs (distinct owners) into an empty database in any order leaves every log with exactly the source records in order and its tree equal to their commits (same root and length, hence the same sync status and conflict-free syncing); equal event sequences replay to the same folder on either backend. Tie (per-instance translation validation): generated file-system accounts are dry-run upgraded (directory tree digest unchanged), really upgraded, and compared before/after on sync status, decrypted folders and trusted devices; a synced account's upgraded device must sync without conflict and without changing the server; the same history executed directly on both backends must give the same folders and log lengths.",
        "note": TB + "Modelled rather than verified: sqlite, the file formats; preferences / servers / blobs not yet compared.",
    },
    "C03": {
        "text": "Theorems: every artefact skeleton the SDK persists or sends (vault rows, secret events, vault headers, identity-vault entries, file blobs, id-only events, audit rows, sync messages of any length) keeps every secret under an encryption; from ANY set of such terms, without a key, no secret and no key is derivable (Dolev-Yao induction); over the event definitions regenerated from the source, the only String payloads are folder/account names and every payload type is a known identifier / sealed / encoded type. Tie: implementation-side byte scan of all client and server files (sqlite pages, WAL, vaults, logs, blobs) and of every encoded sync message for 60+ high-entropy markers placed in every text position, in raw/hex/base64/UTF-16 forms, with a scanner self-check.",
        "note": TB + "Partial: cipher strength, memory, swap, stderr tracing are runtime aspects outside the model; pairing messages not exercised.",
    },
    "C10": {
        "text": "Theorems: the stored AeadPack encoding is canonical (whatever bytes decode to a pack ARE its encoding, so every byte-level modification decodes to an error or a different nonce/ciphertext); the nonce-length gate separates the two ciphers; same password with a different salt or seed derives a different key (the KDF input is password ++ seed); another password does not unlock; over any sequence of encryptions under a key all nonces are pairwise distinct. Definitional in the symbolic model (and therefore only TESTED against the real ciphers): decrypt∘encrypt = id, other key fails, tampering fails. Tie: differential tests on both ciphers (all sizes, all single-bit flips of small packs, structural mutations, wrong key, wrong cipher), KDF pairwise distinctness, and the nonce multiset of every pack found in the event logs after generated account histories.",
        "note": TB + "Partial: RNG quality and the cipher implementations themselves cannot be exhibited by the model.",
    },
    "C16": {
        "text": "Theorems: a folder whose rows all carry the digest of their content and whose parts are present reports nothing (for every history that produced it); replacing the content of any one vault row by any different byte string, or the stored checksum of any one event record by any different value, is reported (free hash); a missing vault or log is reported. Tie: the real account_integrity on accounts from generated histories on both backends: clean run, then single-bit flips in content / checksum regions (byte offsets from the real row iterator; sqlite cells) and removals; file-system cases are replayed on the model from the bytes actually on disk.",
        "note": TB + "Modelled rather than verified: row framing, sqlite, the concurrency/cancellation machinery of the report. External file blobs not yet covered.",
    },
    "C11": {
        "text": "Theorems on the authorisation decision for every request and server state: for an existing account `allow` iff the header names it, the token is well formed, the access lists do not exclude it and a currently trusted key signed exactly the authenticated bytes; unsigned/malformed refused; unknown, revoked, other-bytes and other-account signatures refused; a revoked key leaves the trusted set; deny-listed / not-allow-listed accounts refused on every endpoint; decide-checked over the route table regenerated from the source: every account/event/file route calls authenticate_endpoint, and which body-carrying routes do not sign their body (finding). Tie: the finite product route x credential form x access config x before/after revocation is enumerated completely against a live in-process server on loopback; status class and server state before/after must match the model.",
        "note": TB + "Modelled rather than verified: Ed25519 (symbolic), axum extractors, TLS.",
    },
    "C01": {
        "text": "Theorems on the folder model for all histories: a created (fresh id) or updated secret reads back exactly what was written, other secrets are untouched, a deleted secret is absent, listing = readable ids, a moved secret is in exactly one folder, and rebuilding from the persisted log gives the same answers (through C02's invariant). Tied to the real LocalAccount on both backends by generated histories with a served-vs-recorded oracle after every step, sign-out/sign-in and fresh-instance sign-in, and by replaying the default folder's operations on the model.",
        "note": TB + "Modelled rather than verified: encryption (content tokens), the vault mirror (equal to the served vault), sqlite/file system.",
    },
    "C02": {
        "text": "Invariant `reduce log = served vault` proved for every history of local operations (induction), for checked merges whose events are applicable, for force merges, and for prefixes of the log (replay up to an earlier point = folder as it was); the merge replay's disagreement with the reducer is a proved witness and a recorded finding. Tied by comparing, after every step and after every sync, the served folder with FolderReducer::reduce(log).build decrypted with the folder key, and by model correspondence of vault and replay views.",
        "note": TB + "Modelled rather than verified: encryption, storage.",
    },
    "C12": {
        "text": "Theorems: replaying the compacted event list yields exactly the folder (name, flags, description, secrets in order), the compacted log has 1 + live events, and any interleaving/repetition of edits and compactions keeps the folder equal to the replay of its log. Tied by compaction steps inside generated histories on both backends (content before/after, log length, reload).",
        "note": TB + "Partial: the key-change half of C12 (old key rejected, no old-key blob left) is not yet covered.",
    },
    "C20": {
        "text": "Theorem for ANY sequence of index calls (add/remove/update of present or absent documents): one document per (folder, secret) and per-folder and favourites counters equal a recount; witness that a merged update of an absent secret commits a stale document. Tied by comparing, after every step of generated histories (local edits, moves, folder removal, merges from a second device, re-sign-in), the index documents with the live secrets and the counters with a recount.",
        "note": TB + "Modelled rather than verified: probly-search ranking/tokenising; query results are covered only through document membership.",
    },
    "C09": {
        "text": "Theorems for every sequence of server requests (any interleaving of any number of devices at request granularity): each request leaves the server log unchanged or as a prefix followed by exactly the accepted patch; the storage/tree invariant is preserved; every state-changing request answers accepted / conflict / error; the paged ancestor scan always makes progress (no hang); no accepted event is dropped when the rewound records are contained in the applied patch (partial) and the unrestricted statement is refuted by a witness schedule, reproduced on the real server (recorded finding). Tie: real devices' sync calls run concurrently against real server storage with a harness scheduler releasing one request at a time in generated orders; server logs are checked after every request.",
        "note": TB + "Partial: tokio/OS scheduling inside a request and lock fairness are runtime behaviour outside the model.",
    },
    "C04": {
        "text": "Theorems about one sync call on one log for all logs of any length: agreeing logs are left alone; a proper prefix on either side is fast-forwarded to equality in one call; two different suffixes on a shared prefix converge in one call to prefix ++ stable-time-sorted union, provided no commit hash occurs twice (auto_merge_converges_partial); the negation without that hypothesis is a proved witness and a recorded finding. The model (compare/offer/scan/merge/rewind composition) is tied to the real stack: every sync call of generated multi-device histories against real server storage is replayed per log on the model and must produce the same record sequences on both sides.",
        "note": TB + "Modelled rather than verified: request transport (in-process client calling server_helpers like the handlers), storage as in C06. Partial: composition over all devices/orders validated by histories, not proved.",
    },
    "C05": {
        "text": "Theorems about merge_patches for all suffix pairs, any timestamps: the merged patch is a permutation of local ++ remote (nothing lost, nothing added), sorted by time, stable on ties; the subset branch returns the remote suffix unchanged; commits stay unique when the inputs' commits are pairwise distinct (exactly_once_partial); identical events are duplicated (witness, recorded finding). Tied by running the real AutoMerge::merge_patches on generated pairs (ties, skew, identical events) and by the converged-log oracle on whole histories.",
        "note": TB + "Modelled rather than verified: Vec::sort_by (stable). Folder-content consequences are C02's.",
    },
    "C14": {
        "text": "One round-trip theorem per modelled type (for every value within explicit size guards and any trailing bytes): decode(encode v ++ rest) = (v, rest); encoding is a function (deterministic); the EventKind tag tables, regenerated from the source each run, are proved mutually inverse and injective, and every variant's written kind is proved to have a decoder arm rebuilding that variant. Byte-exact tie: the model decodes and re-encodes the real encoder's output and thousands of mutations, verdict and canonical bytes must equal the real decoder's.",
        "note": TB + "Modelled rather than verified: binary-stream primitives; types outside the model are listed in evidence (assumptions); protobuf wire bindings not yet modelled.",
    },
    "C15": {
        "text": "Theorem `Good d` for every modelled decoder and EVERY input byte string: no panic, no single allocation request above the 16 MiB cap, unread rest is a suffix of the input, termination by construction; plus decide-checked facts on the regenerated decoder-arm tables (no panicking arm). Tie: truncation at every offset, bit flips, hostile length fields, splices, kind-tag substitution over the u16 space, short random strings into every decoder entry point, under catch_unwind with an allocation-tracking allocator; model verdict must equal the real decoder's.",
        "note": TB + "Partial: allocator abort and stack depth are runtime behaviour outside the model; decoders outside the core binary format (FormatStream, archives, URLs, tokens, HTTP bodies) not yet modelled.",
    },
    "C06": {
        "text": "Invariant proved by induction over arbitrary operation sequences on any number of co-resident logs: the in-memory tree equals the stored commits in order for every log, hence re-opening yields the same tree; stored commits are hashes of their bytes (for well-formed supplied records); append order/timestamps preserved; rewind keeps a prefix; operations on one log leave every other log's rows and tree untouched. One model for both backends (the repaired code behaves identically), each backend tied to it by generated scripts over 2-4 logs sharing a table/directory with duplicate events.",
        "note": TB + "Modelled rather than verified: sqlite (ordered rows, atomic transactions), file system (a log file is its record list), FormatStream iteration; fsync/durability not modelled.",
    },
    "C07": {
        "text": "Theorems for all log states, patches and single-index checkpoints: a checked patch is applied iff the root equals the checkpoint root, i.e. (free hash) iff the receiver holds exactly the sender's base sequence; every refused patch, rewind, rewind-and-patch (with rollback) and replace-all leaves every log's records and tree as before; an accepted replace-all yields exactly the supplied records. Tied to both backends by generated scripts with matching/stale/ahead/diverged/foreign/forged checkpoints and present/duplicate/absent rewind targets.",
        "note": TB + "Modelled rather than verified: storage as in C06; the server handler event_patch is composed in the harness from the real primitives; I/O errors in the middle of an operation are C13's subject.",
    },
    "C08": {
        "text": "Theorems for all leaf sequences of any length: root injectivity, compare(head proof) = equal/contains/unknown exactly per the prefix relation, forged single-index proofs cannot obtain `contains`, single-leaf proofs verify against a replica of any length iff the position agrees, the ancestor scan returns the newest agreeing position (LCP only under a stated hypothesis; negation witnessed). Model tied to rs_merkle/CommitTree by exhaustive enumeration over a 3-letter alphabet plus random long pairs and forged proofs.",
        "note": TB + "Modelled rather than verified: rs_merkle 1.5 tree/proof construction (single-index proofs only). The over-the-wire scan flow is covered by the C04 harness.",
    },
}
