import SosModel.Base
import SosModel.Merkle
