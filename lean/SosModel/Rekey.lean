/-
  C12 (key side)  Changing a folder's password or the account's cipher / KDF
  (crates/vault/src/change_password.rs ChangePassword::build, crates/account/src/convert.rs):
  every stored blob (the folder meta and, per secret, meta and content) is opened with the
  current key and sealed again under the new key with fresh nonces; the event log is rebuilt
  as a create-vault event plus one create-secret event per live secret.
-/
import SosModel.Crypto
namespace Sos.Rekey
open Sos Sos.Crypto

/-- an encrypted folder: its cipher, its key, the sealed folder meta and the sealed secrets -/
structure EncFolder where
  cipher : CipherId
  key : Key
  metaP : Pack
  rows : List (Nat × Pack × Pack)       -- secret id, sealed meta, sealed content
deriving Repr

def openRow (c : CipherId) (k : Key) (r : Nat × Pack × Pack) : Option (Nat × Bytes × Bytes) :=
  match decrypt c k r.2.1, decrypt c k r.2.2 with
  | some m, some s => some (r.1, m, s)
  | _, _ => none

/-- what the folder key reads: folder meta and every secret (`none` = some blob does not open) -/
def EncFolder.content (f : EncFolder) : Option (Bytes × List (Nat × Bytes × Bytes)) :=
  match decrypt f.cipher f.key f.metaP, f.rows.mapM (openRow f.cipher f.key) with
  | some m, some rs => some (m, rs)
  | _, _ => none

/-- every blob the folder stores (vault and rebuilt event log hold the same packs) -/
def EncFolder.blobs (f : EncFolder) : List Pack := f.metaP :: f.rows.flatMap (fun r => [r.2.1, r.2.2])

/-- seal the plaintext rows under a new cipher / key, nonces `n, n+1, …` -/
def sealRows (c : CipherId) (k : Key) : Nat → List (Nat × Bytes × Bytes) → List (Nat × Pack × Pack)
  | _, [] => []
  | n, (i, m, s) :: rest => (i, encrypt c k n m, encrypt c k (n + 1) s) :: sealRows c k (n + 2) rest

/-- `ChangePassword::build` / cipher conversion: open everything with the current key, seal
it under the new one; refused (`none`) when the current key does not open the folder -/
def rekey (f : EncFolder) (c' : CipherId) (k' : Key) (nonce0 : Nat) : Option EncFolder :=
  match f.content with
  | some (m, rs) => some { cipher := c', key := k', metaP := encrypt c' k' nonce0 m, rows := sealRows c' k' (nonce0 + 1) rs }
  | none => none

/-- the rebuilt event log: one create-vault event and one create-secret event per secret -/
def EncFolder.logLength (f : EncFolder) : Nat := 1 + f.rows.length

end Sos.Rekey
