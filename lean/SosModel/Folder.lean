/-
  Folder semantics: the vault served by the access point, the events it emits, and the
  folder reducer that replays an event log
  (crates/vault/src/{vault,access_point}.rs, crates/backend/src/folder.rs,
   crates/reducers/src/folder.rs, crates/storage/client/src/folder_sync.rs).

  Secret content (decrypted meta + value) is a token `Nat`; ciphertext identity is not
  modelled here (merge replay re-encrypts), only decrypted content, ids, name, flags and
  description, which is what C02 compares.
-/
import SosModel.Base
namespace Sos.Folder

/-- insertion-ordered map (`IndexMap<SecretId, VaultCommit>`) -/
abbrev Secrets := List (Nat × Nat)

def Secrets.get? : Secrets → Nat → Option Nat
  | [], _ => none
  | (k, w) :: rest, id => if k = id then some w else Secrets.get? rest id

/-- `IndexMap::insert`: replace in place, or append -/
def Secrets.insert : Secrets → Nat → Nat → Secrets
  | [], id, v => [(id, v)]
  | (k, w) :: rest, id, v => if k = id then (k, v) :: rest else (k, w) :: Secrets.insert rest id v

/-- `entry(id).or_insert(v)`: keep an existing entry -/
def Secrets.insertIfAbsent (s : Secrets) (id v : Nat) : Secrets :=
  if (s.get? id).isSome then s else s ++ [(id, v)]

/-- `shift_remove` -/
def Secrets.remove (s : Secrets) (id : Nat) : Secrets := s.filter (·.1 ≠ id)

structure Vault where
  name : Nat
  flags : Nat
  desc : Nat
  secrets : Secrets
deriving DecidableEq, Repr

inductive Ev where
  | createVault (name flags desc : Nat)
  | setName (n : Nat)
  | setFlags (f : Nat)
  | setMeta (d : Nat)
  | createSecret (id v : Nat)
  | updateSecret (id v : Nat)
  | deleteSecret (id : Nat)
deriving DecidableEq, Repr

/-- A mutation requested through the folder API. -/
inductive Op where
  | create (id v : Nat)
  | update (id v : Nat)
  | delete (id : Nat)
  | rename (n : Nat)
  | setFlags (f : Nat)
  | describe (d : Nat)
deriving DecidableEq, Repr

/-- `AccessPoint` mutation: new vault and the event it returns (none = nothing happened). -/
def applyOp (v : Vault) : Op → Vault × Option Ev
  | .create id x =>
    let s := v.secrets.insertIfAbsent id x
    -- the event carries the value that is in the vault afterwards (`value.clone()`)
    ({ v with secrets := s }, some (.createSecret id ((s.get? id).getD x)))
  | .update id x =>
    if (v.secrets.get? id).isSome then
      ({ v with secrets := v.secrets.insert id x }, some (.updateSecret id x))
    else (v, none)
  | .delete id =>
    if (v.secrets.get? id).isSome then
      ({ v with secrets := v.secrets.remove id }, some (.deleteSecret id))
    else (v, none)
  | .rename n => ({ v with name := n }, some (.setName n))
  | .setFlags f => ({ v with flags := f }, some (.setFlags f))
  | .describe d => ({ v with desc := d }, some (.setMeta d))

structure Folder where
  vault : Vault
  log : List Ev
deriving DecidableEq, Repr

/-- `Folder::{create,update,delete}_secret, rename_folder, …`: mutate the vault, append the
returned event. -/
def Folder.step (f : Folder) (op : Op) : Folder :=
  match applyOp f.vault op with
  | (v, some e) => { vault := v, log := f.log ++ [e] }
  | (v, none) => { f with vault := v }

def Folder.new (name flags desc : Nat) : Folder :=
  { vault := { name := name, flags := flags, desc := desc, secrets := [] },
    log := [.createVault name flags desc] }

/-- `FolderReducer::reduce` state after the first (CreateVault) event. -/
def reduceEv (v : Vault) : Ev → Vault
  | .createVault _ _ _ => v               -- a second CreateVault is an error in the code
  | .setName n => { v with name := n }
  | .setFlags f => { v with flags := f }
  | .setMeta d => { v with desc := d }
  | .createSecret id x => { v with secrets := v.secrets.insert id x }
  | .updateSecret id x => { v with secrets := v.secrets.insert id x }
  | .deleteSecret id => { v with secrets := v.secrets.remove id }

/-- `FolderReducer::new().reduce(log).build(true)`; `none` = log does not start with
CreateVault (`CreateEventMustBeFirst`) or is empty. -/
def reduce : List Ev → Option Vault
  | .createVault n f d :: rest =>
    some (rest.foldl reduceEv { name := n, flags := f, desc := d, secrets := [] })
  | _ => none

/-- Replaying a patch of remote events onto the access point
(`FolderMerge::merge` after `patch_checked` succeeded). -/
def replayEv (v : Vault) : Ev → Vault
  | .createVault _ _ _ => v
  | .setName n => { v with name := n }
  | .setFlags f => { v with flags := f }
  | .setMeta d => { v with desc := d }
  | .createSecret id x => { v with secrets := v.secrets.insertIfAbsent id x }
  | .updateSecret id x =>
    if (v.secrets.get? id).isSome then { v with secrets := v.secrets.insert id x } else v
  | .deleteSecret id => { v with secrets := v.secrets.remove id }

/-- A checked merge that applied: the log gains the patch, the vault replays it. -/
def Folder.merge (f : Folder) (patch : List Ev) : Folder :=
  { vault := patch.foldl replayEv f.vault, log := f.log ++ patch }

/-- Auto-merge on the client: the log is rewound to `keep` events and the merged patch is
appended; the vault is NOT rewound, the merged patch is replayed onto it. -/
def Folder.rewindMerge (f : Folder) (keep : Nat) (patch : List Ev) : Folder :=
  { vault := patch.foldl replayEv f.vault, log := f.log.take keep ++ patch }

/-- Force merge: the log is replaced and the vault rebuilt from it. -/
def Folder.forceMerge (f : Folder) (newLog : List Ev) : Folder :=
  match reduce newLog with
  | some v => { vault := v, log := newLog }
  | none => f

/-- `FolderReducer::compact`: one creation event carrying name, flags and description, plus
one CreateSecret per live secret. -/
def compactEvents (v : Vault) : List Ev :=
  .createVault v.name v.flags v.desc :: v.secrets.map (fun p => .createSecret p.1 p.2)

def Folder.compact (f : Folder) : Folder :=
  match reduce f.log with
  | some v => { f with log := compactEvents v }
  | none => f

end Sos.Folder
