/-
  Model of rs_merkle 1.5 (Sha256 hasher) as used by `sos_core::commit`:
  tree root, single-index proofs, proof verification with a caller supplied
  total leaf count, `CommitTree::{head, proof, compare, contains}`,
  `CommitProof::verify_leaves`, the server's `scan_log` and the client's
  `iterate_scan_proofs` ancestor search.
-/
import SosModel.Base
namespace Sos.Merkle
open Sos

/-- One layer up: pair adjacent nodes, promote a lone last node
(`concat_and_hash(left, None) = left`). -/
def nextLayer : List H → List H
  | a :: b :: rest => H.node a b :: nextLayer rest
  | [a] => [a]
  | [] => []

/-- `utils::indices::tree_depth`: bit length of the leaf count (fuelled so that
the kernel can evaluate it). -/
def bitLenAux : Nat → Nat → Nat
  | 0, _ => 0
  | f + 1, n => if n = 0 then 0 else bitLenAux f (n / 2) + 1

def bitLen (n : Nat) : Nat := bitLenAux n n

def iter (f : α → α) : Nat → α → α
  | 0, x => x
  | n + 1, x => iter f n (f x)

/-- `PartialTree::build_tree` run on all leaves: exactly `tree_depth` rounds. -/
def root (l : List H) : Option H := (iter nextLayer (bitLen l.length) l).head?

/-- All layers bottom-up (`tree_depth + 1` of them). -/
def layers : Nat → List H → List (List H)
  | 0, l => [l]
  | n + 1, l => l :: layers n (nextLayer l)

/-- `MerkleTree::proof(&[i])`: per layer the sibling when it exists. -/
def proofAux : Nat → List H → Nat → List H
  | 0, _, _ => []
  | n + 1, l, i =>
    let sib := if i % 2 = 0 then i + 1 else i - 1
    match l[sib]? with
    | some h => h :: proofAux n (nextLayer l) (i / 2)
    | none => proofAux n (nextLayer l) (i / 2)

def proof (l : List H) (i : Nat) : List H := proofAux (bitLen l.length + 1) l i

/-- `MerkleProof::root(&[idx], &[x], total)` for one leaf: walk `tree_depth(total)`
layers; a layer with an odd node count whose last node is ours needs no sibling,
every other layer consumes one proof hash (error when none is left). -/
def verifyAux : Nat → List H → Nat → Nat → H → Option H
  | 0, _, _, _, cur => some cur
  | d + 1, p, i, c, cur =>
    if c % 2 = 1 ∧ i = c - 1 then verifyAux d p (i / 2) ((c + 1) / 2) cur
    else match p with
      | [] => none
      | s :: p' =>
        verifyAux d p' (i / 2) ((c + 1) / 2) (if i % 2 = 0 then H.node cur s else H.node s cur)

def verifyRoot (p : List H) (idx : Nat) (x : H) (total : Nat) : Option H :=
  if total = 0 then none else verifyAux (bitLen total) p idx total x

structure CommitProof where
  root : H
  hashes : List H
  length : Nat
  indices : List Nat
deriving DecidableEq, Repr

inductive Comparison where
  | equal
  | contains (ix : List Nat)
  | unknown
deriving DecidableEq, Repr

/-- `MerkleProof::verify` restricted to the shapes the SDK builds: no index
(always false) or one index.  Other shapes are outside the model. -/
def verify (p : List H) (root : H) (indices : List Nat) (xs : List H) (total : Nat) : Option Bool :=
  if indices.length ≠ xs.length then some false else
  match indices, xs with
  | [], _ => some false
  | [i], [x] => some (verifyRoot p i x total = some root)
  | _, _ => none

/-- `CommitTree::proof(&[i])`. -/
def treeProof (l : List H) (i : Nat) : Option CommitProof :=
  match root l with
  | none => none
  | some r => some { root := r, hashes := proof l i, length := l.length, indices := [i] }

/-- `CommitTree::head`. -/
def head (l : List H) : Option CommitProof :=
  if l.isEmpty then none else treeProof l (l.length - 1)

/-- `CommitTree::contains_head`: a proof of the last leaf stands for the whole other
tree, which is contained only when the first `length` local leaves hash to its root;
proofs of other positions only claim the proven leaf. -/
def containsHead (l : List H) (r : H) (indices : List Nat) (length : Nat) : Bool :=
  if indices.length = 1 ∧ indices.head?.map (· + 1) = some length then
    if l.length < length then false else root (l.take length) = some r
  else true

/-- `CommitTree::compare`; outer `none` = `Err(NoRootCommit)`; inner `none` =
multi-index proof (outside the model). -/
def compare (l : List H) (p : CommitProof) : Option (Option Comparison) :=
  match root l with
  | none => none
  | some r =>
    if r = p.root then some (some .equal) else
    let toProve := p.indices.filterMap (fun i => l[i]?)
    if toProve.length = p.indices.length then
      match verify p.hashes p.root p.indices toProve p.length with
      | some true =>
        if containsHead l p.root p.indices p.length then some (some (.contains p.indices))
        else some (some .unknown)
      | some false => some (some .unknown)
      | none => some none
    else some (some .unknown)

/-- `CommitProof::verify_leaves`. -/
def verifyLeaves (p : CommitProof) (l : List H) : Option Bool × List H :=
  let toProve := p.indices.filterMap (fun i => l[i]?)
  (verify p.hashes p.root p.indices toProve p.length, toProve)

/-- Outcome of the client's ancestor search (`scan_proofs`). -/
inductive Scan where
  | hard                                   -- first proof does not verify: `ConflictError::Hard`
  | found (index : Nat) (commit : H) (checkpoint : CommitProof)
  | exhausted
  | unmodelled
deriving DecidableEq, Repr

/-- `compare_proof` on the single-index proof of remote position `i`. -/
def matchAt (local_ remote : List H) (i : Nat) : Bool :=
  match treeProof remote i with
  | none => false
  | some p => (verifyLeaves p local_).1 = some true

/-- Largest `i < n` (scanning downwards) with `matchAt`. -/
def scanDown (local_ remote : List H) : Nat → Option Nat
  | 0 => none
  | n + 1 => if matchAt local_ remote n then some n else scanDown local_ remote n

/-- `scan_proofs` against a server answering `scan_log` pages: reject when the
first commits differ, otherwise the newest remote position whose proof verifies
against the local leaves; the checkpoint is the head proof of the local prefix. -/
def scan (local_ remote : List H) : Scan :=
  if remote.isEmpty then .exhausted else
  if !matchAt local_ remote 0 then .hard else
  match scanDown local_ remote remote.length with
  | none => .exhausted
  | some i =>
    match local_[i]?, head (local_.take (i + 1)) with
    | some c, some cp => .found i c cp
    | _, _ => .unmodelled

/-- One `scan_log` response: indices of the proofs of a page (ascending), new offset. -/
def scanPage (n offset limit : Nat) : List Nat × Nat :=
  if offset ≥ n then ([], n) else
  let avail := n - offset
  let cnt := if limit = 0 then avail else min limit avail
  ((List.range cnt).map (fun k => n - offset - cnt + k), offset + cnt)

/-- The paged client loop (`iterate_scan_proofs`), `fuel` pages at most. -/
def scanPaged (local_ remote : List H) (limit : Nat) : Nat → Nat → Option Nat
  | 0, _ => none
  | fuel + 1, offset =>
    let (page, off') := scanPage remote.length offset limit
    if page.isEmpty then none else
    match page.reverse.find? (matchAt local_ remote) with
    | some i => some i
    | none => scanPaged local_ remote limit fuel off'

end Sos.Merkle
