/-
  External file blobs (crates/storage/client/src/files, crates/reducers/src/files.rs,
  crates/server/src/handlers/files.rs): encrypted attachments named by the SHA-256 of their
  bytes, a file event log, and the server's upload check.
-/
import SosModel.Base
namespace Sos.Files
open Sos

structure FileRef where
  folder : Nat
  secret : Nat
  name : H
deriving DecidableEq, Repr

inductive FileEv where
  | create (f : FileRef)
  | move (name : H) (fromFolder fromSecret destFolder destSecret : Nat)
  | delete (f : FileRef)
deriving DecidableEq, Repr

/-- `IndexSet::insert` / `shift_remove` -/
def ins (s : List FileRef) (f : FileRef) : List FileRef := if f ∈ s then s else s ++ [f]
def del (s : List FileRef) (f : FileRef) : List FileRef := s.filter (· ≠ f)

/-- `FileReducer::reduce(None)` -/
def reduceEv (s : List FileRef) : FileEv → List FileRef
  | .create f => ins s f
  | .move n ff fs df ds => ins (del s { folder := ff, secret := fs, name := n }) { folder := df, secret := ds, name := n }
  | .delete f => del s f

def reduce (log : List FileEv) : List FileRef := log.foldl reduceEv []

structure Client where
  blobs : List FileRef          -- files present under the blobs directory
  log : List FileEv
deriving DecidableEq, Repr

/-- writing an encrypted attachment: the blob is stored under the digest of its bytes -/
def addFile (c : Client) (folder secret : Nat) (cipherBytes : Bytes) : Client :=
  let f : FileRef := { folder := folder, secret := secret, name := H.leaf cipherBytes }
  { blobs := ins c.blobs f, log := c.log ++ [.create f] }

def removeFile (c : Client) (f : FileRef) : Client :=
  { blobs := del c.blobs f, log := c.log ++ [.delete f] }

def moveFile (c : Client) (f : FileRef) (df ds : Nat) : Client :=
  { blobs := ins (del c.blobs f) { folder := df, secret := ds, name := f.name },
    log := c.log ++ [.move f.name f.folder f.secret df ds] }

inductive Op where
  | add (folder secret : Nat) (bytes : Bytes)
  | remove (f : FileRef)
  | move (f : FileRef) (df ds : Nat)
  | deleteSecret (folder secret : Nat)
  | deleteFolder (folder : Nat)

def removeAll (c : Client) (fs : List FileRef) : Client := fs.foldl removeFile c

def step (c : Client) : Op → Client
  | .add fo se b => addFile c fo se b
  | .remove f => removeFile c f
  | .move f df ds => moveFile c f df ds
  | .deleteSecret fo se => removeAll c (c.blobs.filter fun f => f.folder = fo ∧ f.secret = se)
  | .deleteFolder fo => removeAll c (c.blobs.filter fun f => f.folder = fo)

/-- server `receive_file`: the body is hashed while it is written to a temporary file, which is
renamed into place only when the digest equals the requested name -/
def receive (store : List FileRef) (req : FileRef) (body : Bytes) : List FileRef × Bool :=
  if H.leaf body = req.name then (ins store req, true) else (store, false)

end Sos.Files
