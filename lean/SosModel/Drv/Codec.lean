import SosModel.Codec
import SosModel.SecretCodec
namespace Sos.Drv.Codec
open Sos Sos.Codec

def render (o : Out α) (enc : α → Bytes) (unmodelled : α → Bool := fun _ => false) : String :=
  match o.res with
  | .ok v rest =>
    if unmodelled v then "unmodelled"
    else s!"ok {hexBytes (enc v)} rest={rest.length} alloc={o.alloc}"
  | .error => s!"error alloc={o.alloc}"
  | .panic => "panic"

/-- order-insensitive summary of an encoding (tags and list items come out of hash sets / maps) -/
def summary (e : Bytes) : String :=
  let s1 := e.foldl (fun a x => a + x.toNat) 0
  let s2 := e.foldl (fun a x => a + x.toNat * x.toNat) 0
  s!"len={e.length} s1={s1} s2={s2}"

/-- decode with every external parser accepting and with every one rejecting: the verdict is
definite when both agree -/
def renderExt (dec : Ext → Dec α) (enc : α → Bytes) (b : Bytes) : String :=
  let yes := dec ⟨fun _ _ => true⟩ b
  let no := dec ⟨fun _ _ => false⟩ b
  match yes.res, no.res with
  | .ok v rest, .ok _ _ => s!"ok {summary (enc v)} rest={rest.length} alloc={yes.alloc}"
  | .error, .error => s!"error alloc={yes.alloc}"
  | .panic, _ => "panic"
  | _, .panic => "panic"
  | _, _ => "extern"

def step (args : List String) : String :=
  match args with
  | ["dec", ty, hex] =>
    let hex := if hex = "-" then "" else hex
    match parseHex hex with
    | none => "bad-op"
    | some b =>
      match ty with
      | "DateTime" => render (readDateTime b) encDateTime
      | "CommitProof" => render (readProof b) encProof
      | "CommitState" => render (readCommitState b) encCommitState
      | "Comparison" => render (readCmp b) encCmp
      | "AeadPack" => render (readAead b) encAead
      | "VaultEntry" => render (readEntry b) encEntry
      | "VaultCommit" => render (readVaultCommit b) encVaultCommit
      | "WriteEvent" => render (readWriteEvent b) encWriteEvent
      | "AccountEvent" => render (readAccountEvent b) encAccountEvent
      | "DeviceEvent" => render (readDeviceEvent b) encDeviceEvent (fun v => v == .trustUnmodelled)
      | "FileEvent" => render (readFileEvent b) encFileEvent
      | "EventRecord" => render (readRecord b) encRecord
      | "String" => render (readString b) encString
      | "VaultMeta" => render (readVaultMeta b) encVaultMeta
      | "Auth" => render (readAuth b) encAuth
      | "Summary" => render (readSummary b) encSummary
      | "SharedAccess" => render (readShared b) encShared (fun v => match v with | .write (_ :: _) => true | _ => false)
      | "Header" => render (readHeader b) encHeader (fun h => match h.shared with | .write (_ :: _) => true | _ => false)
      | "Secret" => renderExt decodeSecret encSecret b
      | "SecretRow" => renderExt decodeSRow encSRow b
      | "SecretMeta" => renderExt decodeMeta encVals b
      | "Vault" => render (readVault b) encVault (fun v => match v.header.shared with | .write (_ :: _) => true | _ => false)
      | _ => "bad-op"
  | _ => "bad-op"

end Sos.Drv.Codec
