import SosModel.Integrity
namespace Sos.Drv.Integrity
open Sos Sos.Integrity

/-- `contenthex/C` (checksum = digest of that content), `contenthex/C:<hex>` (checksum =
digest of other content), `contenthex/X:<hex>` (an arbitrary 32-byte value with no known
preimage, modelled as an atom distinct from every content digest) -/
def parseRow (s : String) : Option Row :=
  match s.splitOn "/" with
  | [c, k] => do
    let content ← parseHex (if c = "-" then "" else c)
    if k = "C" then pure { content := content, checksum := H.leaf content }
    else if k.startsWith "C:" then do
      let o ← parseHex (k.drop 2).toString
      pure { content := content, checksum := H.leaf o }
    else if k.startsWith "X:" then do
      let o ← parseHex (k.drop 2).toString
      pure { content := content, checksum := H.node (H.leaf o) (H.leaf o) }
    else none
  | _ => none

def step (args : List String) : String :=
  match args with
  | "report" :: rest =>
    match natArg rest "vault", natArg rest "log",
          (argOf rest "vrows").bind (fun s => (splitList s).mapM parseRow),
          (argOf rest "erows").bind (fun s => (splitList s).mapM parseRow) with
    | some v, some l, some vr, some er =>
      let rep := report { vaultPresent := v == 1, logPresent := l == 1, vaultRows := vr, eventRows := er }
      let missing := rep.filter (· == .missingFolder) |>.length
      s!"failures={rep.length} missing={missing}"
    | _, _, _, _ => "bad-op"
  | _ => "bad-op"

end Sos.Drv.Integrity
