import SosModel.Sync
import SosModel.Drv.Log
namespace Sos.Drv.Sync
open Sos Sos.Log Sos.Sync

def showSeq (l : LogSeq) : String :=
  if l.isEmpty then "-" else ",".intercalate (l.map fun r => s!"{r.time}/{hexBytes r.bytes}")

def showOutcome : Outcome → String
  | .inSync => "in-sync" | .pushed => "pushed" | .pulled => "pulled" | .merged => "merged"
  | .rewound => "rewound" | .hardConflict => "hard-conflict" | .noAncestor => "no-ancestor"
  | .stuck => "stuck"

def step (args : List String) : String :=
  match args with
  | "merge" :: rest =>
    match (argOf rest "local").bind Drv.Log.parseRecs, (argOf rest "remote").bind Drv.Log.parseRecs with
    | some l, some r =>
      match mergePatches l r with
      | .rewindLocal recs => s!"rewind-local {showSeq recs}"
      | .pushRemote recs => s!"push-remote {showSeq recs}"
    | _, _ => "bad-op"
  | "synclog" :: rest =>
    match (argOf rest "local").bind Drv.Log.parseRecs, (argOf rest "remote").bind Drv.Log.parseRecs with
    | some l, some r =>
      let (l', r', o) := syncLog l r
      s!"local={showSeq l'} remote={showSeq r'} outcome={showOutcome o}"
    | _, _ => "bad-op"
  | _ => "bad-op"

end Sos.Drv.Sync
