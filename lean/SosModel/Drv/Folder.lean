import SosModel.Folder
namespace Sos.Drv.Folder
open Sos Sos.Folder

structure St where
  f : Sos.Folder.Folder := Sos.Folder.Folder.new 0 0 0

def showSecrets (s : Secrets) : String :=
  if s.isEmpty then "-" else ",".intercalate (s.map fun p => s!"{p.1}:{p.2}")

def showVault (v : Vault) : String :=
  s!"name={v.name} flags={v.flags} desc={v.desc} secrets={showSecrets v.secrets}"

def observe (f : Sos.Folder.Folder) : String :=
  match reduce f.log with
  | some r => s!"vault: {showVault f.vault} | replay: {showVault r}"
  | none => s!"vault: {showVault f.vault} | replay: error"

def parseEv (s : String) : Option Ev :=
  match s.splitOn ":" with
  | ["c", id, v] => do pure (.createSecret (← id.toNat?) (← v.toNat?))
  | ["u", id, v] => do pure (.updateSecret (← id.toNat?) (← v.toNat?))
  | ["d", id] => do pure (.deleteSecret (← id.toNat?))
  | ["n", n] => do pure (.setName (← n.toNat?))
  | ["f", n] => do pure (.setFlags (← n.toNat?))
  | ["m", n] => do pure (.setMeta (← n.toNat?))
  | _ => none

def step (st : St) (args : List String) : St × String :=
  match args with
  | "new" :: rest =>
    match natArg rest "name", natArg rest "flags", natArg rest "desc" with
    | some n, some f, some d => ({ f := Sos.Folder.Folder.new n f d }, "ok")
    | _, _, _ => (st, "bad-op")
  | "op" :: kind :: rest =>
    let op : Option Op :=
      match kind with
      | "create" => do pure (.create (← natArg rest "id") (← natArg rest "v"))
      | "update" => do pure (.update (← natArg rest "id") (← natArg rest "v"))
      | "delete" => do pure (.delete (← natArg rest "id"))
      | "rename" => do pure (.rename (← natArg rest "n"))
      | "flags" => do pure (.setFlags (← natArg rest "f"))
      | "describe" => do pure (.describe (← natArg rest "d"))
      | _ => none
    match op with
    | some op => let f := st.f.step op; ({ f := f }, observe f)
    | none => (st, "bad-op")
  | "merge" :: rest =>
    match (argOf rest "evs").bind (fun s => (splitList s).mapM parseEv) with
    | some evs => let f := st.f.merge evs; ({ f := f }, observe f)
    | none => (st, "bad-op")
  | "rewindmerge" :: rest =>
    match natArg rest "keep", (argOf rest "evs").bind (fun s => (splitList s).mapM parseEv) with
    | some k, some evs => let f := st.f.rewindMerge k evs; ({ f := f }, observe f)
    | _, _ => (st, "bad-op")
  | "compact" :: _ => let f := st.f.compact; ({ f := f }, observe f)
  | "force" :: rest =>
    -- forced overwrite with a log saved earlier (the first `keep` events of the current log)
    match natArg rest "keep" with
    | some k => let f := st.f.forceMerge (st.f.log.take k); ({ f := f }, observe f)
    | none => (st, "bad-op")
  | _ => (st, "bad-op")

end Sos.Drv.Folder
