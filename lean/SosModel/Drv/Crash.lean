import SosModel.Crash
namespace Sos.Drv.Crash
open Sos Sos.Crash

def hdr : Bytes := [83, 79, 83, 87]
def initial : FS := { vault := some [1, 2, 3, 4, 5, 6], log := some (hdr ++ encRows [[1], [2, 2]]), tmp := none, snap := none }

def opSteps : String → Option (List Prim)
  | "CreateSecret" => some (folderEdit (vaultAppend [7, 7]) [3])
  | "UpdateSecret" => some (folderEdit (vaultRewrite [1, 2, 3, 9, 9, 9, 9]) [3])
  | "DeleteSecret" => some (folderEdit (vaultRewrite [1, 2, 5, 6]) [3])
  | "RenameFolder" => some (folderEdit (vaultRewrite [8, 8, 3, 4, 5, 6]) [3])
  | "Describe" => some (folderEdit (vaultRewrite [8, 8, 8, 3, 4, 5, 6]) [3])
  | "ApplyRecords" => some (applyRecords [[3], [4]])
  | "Rewind" => some (rewind hdr.length [[1], [2, 2]] 1)
  | "ReplaceAll" => some (replaceAll hdr [[5]])
  | _ => none

def sortStrings (l : List String) : List String := (l.toArray.qsort (· < ·)).toList

/-- `crash states op=<name>` -> the set of abstract descriptions of every crash state and of the
completed state -/
def step (args : List String) : String :=
  match args with
  | "states" :: rest =>
    match (argOf rest "op").bind opSteps with
    | some prims =>
      let sts := crashStates initial prims
      let ds := sts.map fun s => ",".intercalate (sortStrings (describe initial s))
      "states " ++ "|".intercalate (sortStrings ds.eraseDups)
    | none => "bad-op"
  | "dbstates" :: _ =>
    -- `crash dbstates`: for a folder edit on the database backend, which (rows, log) combinations a crash can leave:
    -- first letter = secret rows before/after, second = event log before/after
    let s0 : DB := { vault := [[1]], log := [[1]] }
    let after : DB := { vault := [[1], [2]], log := [[1], [2]] }
    let sts := dbCrashStates s0 (dbFolderEdit after.vault [2])
    let code (t : DB) : String :=
      (if t.vault = s0.vault then "b" else if t.vault = after.vault then "a" else "x") ++
      (if t.log = s0.log then "b" else if t.log = after.log then "a" else "x")
    "dbstates " ++ "|".intercalate (sortStrings (sts.map code).eraseDups)
  | "scan" :: rest =>
    -- `crash scan hex=<bytes after the header>`: records read by load_tree and bytes cut off
    match (argOf rest "hex").bind parseHex with
    | some b => let r := scan b.length b; s!"records={r.1.length} cut={r.2.length}"
    | none => "bad-op"
  | "open" :: rest =>
    -- `crash open rows=aa,bb torn=<hex>`: what load_tree reads from rows followed by a torn tail
    match (argOf rest "rows").bind (fun s => (splitList s).mapM parseHex), (argOf rest "tail").bind parseHex with
    | some rows, some tail => s!"records={(openLog (encRows rows ++ tail)).length}"
    | _, _ => "bad-op"
  | _ => "bad-op"

end Sos.Drv.Crash
