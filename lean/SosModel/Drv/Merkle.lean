import SosModel.Merkle
namespace Sos.Drv.Merkle
open Sos Sos.Merkle

def showProof (p : CommitProof) : String :=
  s!"{showTerm p.root}|{showTerms p.hashes}|{p.length}|{",".intercalate (p.indices.map toString)}"

def showCmp : Option (Option Comparison) → String
  | none => "err"
  | some none => "unmodelled"
  | some (some .equal) => "equal"
  | some (some (.contains ix)) => "contains:" ++ ",".intercalate (ix.map toString)
  | some (some .unknown) => "unknown"

def showOB : Option Bool → String
  | some true => "true" | some false => "false" | none => "unmodelled"

/-- A symbolic hash argument: `L<hex>` only (forged roots are leaves of arbitrary bytes)
or a root of a leaf list `R:<leaves>`. -/
def parseHashArg (s : String) : Option H :=
  if s.startsWith "R:" then (parseLeaves (s.drop 2).toString).bind root
  else (parseHex s).map H.leaf

def step (args : List String) : String :=
  match args with
  | "cmp" :: rest =>
    match (argOf rest "local").bind parseLeaves, (argOf rest "remote").bind parseLeaves with
    | some l, some r =>
      let rootL := match root l with | some h => showTerm h | none => "-"
      match head r with
      | none => s!"rootL={rootL} head=- cmp=-"
      | some p => s!"rootL={rootL} head={showProof p} cmp={showCmp (compare l p)}"
    | _, _ => "bad-op"
  | "vl" :: rest =>
    match (argOf rest "local").bind parseLeaves, (argOf rest "remote").bind parseLeaves,
          natArg rest "idx" with
    | some l, some r, some i =>
      match treeProof r i with
      | none => "proof=- vl=-"
      | some p => s!"proof={showProof p} vl={showOB (verifyLeaves p l).1} match={matchAt l r i}"
    | _, _, _ => "bad-op"
  | "forged" :: rest =>
    match (argOf rest "local").bind parseLeaves, (argOf rest "root").bind parseHashArg,
          (argOf rest "hashes").bind parseLeaves, natArg rest "len", natArg rest "idx" with
    | some l, some rt, some hs, some len, some idx =>
      let p : CommitProof := { root := rt, hashes := hs, length := len, indices := [idx] }
      s!"cmp={showCmp (compare l p)} vl={showOB (verifyLeaves p l).1}"
    | _, _, _, _, _ => "bad-op"
  | "page" :: rest =>
    match natArg rest "n", natArg rest "offset", natArg rest "limit" with
    | some n, some o, some lim =>
      let (ix, off) := scanPage n o lim
      s!"page={",".intercalate (ix.map toString)} offset={off}"
    | _, _, _ => "bad-op"
  | "scan" :: rest =>
    match (argOf rest "local").bind parseLeaves, (argOf rest "remote").bind parseLeaves with
    | some l, some r =>
      match scan l r with
      | .hard => "scan=hard"
      | .exhausted => "scan=exhausted"
      | .unmodelled => "scan=unmodelled"
      | .found i c cp => s!"scan=found:{i}:{showTerm c}:{showProof cp}"
    | _, _ => "bad-op"
  | _ => "bad-op"

end Sos.Drv.Merkle
