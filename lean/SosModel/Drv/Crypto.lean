import SosModel.Crypto
namespace Sos.Drv.Crypto
open Sos Sos.Crypto

def parseCipher : String → Option CipherId
  | "xchacha" => some .xchacha
  | "aesgcm" => some .aesgcm
  | _ => none

/-- `crypto open sealed=<cipher> key=<n> with=<cipher> wkey=<n> tamper=<0|1>`
    `crypto derive alg=<n> pw=<hex> salt=<hex> seed=<hex|-> alg2=.. pw2=.. salt2=.. seed2=..` -/
def step (args : List String) : String :=
  match args with
  | "open" :: rest =>
    match (argOf rest "sealed").bind parseCipher, natArg rest "key", (argOf rest "with").bind parseCipher,
          natArg rest "wkey", natArg rest "tamper" with
    | some c, some k, some c', some k', some t =>
      let p := encrypt c (.random k) 0 [1]
      -- a tampered pack carries a different box (AEAD: authentication fails): modelled as sealed by no key we hold
      let p' : Pack := if t = 1 then { p with box := { p.box with key := .random 1000003 } } else p
      match decrypt c' (.random k') p' with
      | some _ => "opens"
      | none => "fails"
    | _, _, _, _, _ => "bad-op"
  | "derive" :: rest =>
    let hexArg (k : String) : Option Bytes := (argOf rest k).bind (fun s => parseHex (if s = "-" then "" else s))
    let seedArg (k : String) : Option (Option Bytes) :=
      match argOf rest k with
      | some "-" => some none
      | some s => (parseHex s).map some
      | none => none
    match natArg rest "alg", hexArg "pw", hexArg "salt", seedArg "seed", natArg rest "alg2", hexArg "pw2", hexArg "salt2", seedArg "seed2" with
    | some a, some pw, some sa, some sd, some a2, some pw2, some sa2, some sd2 =>
      if derive a pw sa sd = derive a2 pw2 sa2 sd2 then "same-key" else "different-key"
    | _, _, _, _, _, _, _, _ => "bad-op"
  | _ => "bad-op"

end Sos.Drv.Crypto
