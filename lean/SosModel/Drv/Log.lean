import SosModel.Log
import SosModel.Drv.Merkle
namespace Sos.Drv.Log
open Sos Sos.Merkle Sos.Log

structure St where
  sys : Sys := Log.init
  n : Nat := 0

def showRec (r : Rec) : String := s!"{r.time}:{showTerm r.commit}:{hexBytes r.bytes}"
def showRecs (rs : List Rec) : String :=
  if rs.isEmpty then "-" else ",".intercalate (rs.map showRec)
def showLeaves (l : List H) : String :=
  if l.isEmpty then "-" else ",".intercalate (l.map showTerm)

def parseRec (s : String) : Option Rec :=
  match s.splitOn "/" with
  | [t, b] => do
    let t ← t.toNat?
    let b ← parseHex b
    pure { time := t, commit := H.leaf b, bytes := b }
  | [t, b, c] => do
    let t ← t.toNat?
    let b ← parseHex b
    let c ← parseHex c
    pure { time := t, commit := H.leaf c, bytes := b }
  | _ => none

def parseRecs (s : String) : Option (List Rec) := (splitList s).mapM parseRec

/-- `H:<leaf bytes list>` head proof of that sequence; `F:<root>|<hashes>|<len>|<idx>` forged. -/
def parseProof (s : String) : Option CommitProof :=
  if s.startsWith "H:" then (parseLeaves (s.drop 2).toString).bind head
  else if s.startsWith "F:" then
    match (s.drop 2).toString.splitOn "|" with
    | [r, hs, len, idx] => do
      let r ← Drv.Merkle.parseHashArg r
      let hs ← parseLeaves hs
      let len ← len.toNat?
      let idx ← idx.toNat?
      pure { root := r, hashes := hs, length := len, indices := [idx] }
    | _ => none
  else none

def showErr : Err → String
  | .noRootCommit => "no-root-commit"
  | .commitNotFound => "commit-not-found"
  | .rewindLeavesLength => "rewind-leaves-length"
  | .checkpointVerification => "checkpoint-verification"

def showOut : Out → String
  | .ok => "ok"
  | .err e => "err:" ++ showErr e
  | .patched h => "patched:" ++ Drv.Merkle.showProof h
  | .conflict h k => "conflict:" ++ Drv.Merkle.showProof h ++ ":" ++
      (match k with | some p => Drv.Merkle.showProof p | none => "-")
  | .records rs => "records:" ++ showRecs rs
  | .unmodelled => "unmodelled"

def showTarget (s : Sys) (o : Nat) : String :=
  s!"T{o} rows={showRecs (s.rowsOf o)} tree={showLeaves (s.trees o)}"

def showOther (s : Sys) (o : Nat) : String :=
  let rows := s.rowsOf o
  let last := match rows.getLast? with | some r => showTerm r.commit | none => "-"
  s!"O{o} {rows.length}:{last}:{(s.trees o).length}"

def observe (st : St) (o : Nat) (out : Out) : String :=
  let others := (List.range st.n).filter (· ≠ o)
  s!"out={showOut out} | {showTarget st.sys o} | " ++ " ".intercalate (others.map (showOther st.sys))

def parseCommitArg (s : String) : Option (Option H) :=
  if s = "-" then some none else (parseHex s).map (fun b => some (H.leaf b))

def step (st : St) (args : List String) : St × String :=
  match args with
  | "reset" :: rest =>
    match natArg rest "n" with
    | some n => ({ sys := Log.init, n := n }, "ok")
    | none => (st, "bad-op")
  | "dump" :: _ =>
    (st, " | ".intercalate ((List.range st.n).map (showTarget st.sys)))
  | "load" :: rest =>
    match natArg rest "o" with
    | some o => (st, s!"tree={showLeaves ((loadTree st.sys o).trees o)}")
    | none => (st, "bad-op")
  | "diff" :: rest =>
    match natArg rest "o", (argOf rest "c").bind parseCommitArg with
    | some o, some c => (st, s!"out={showOut (diffRecords st.sys o c)}")
    | _, _ => (st, "bad-op")
  | kind :: rest =>
    match natArg rest "o" with
    | none => (st, "bad-op")
    | some o =>
      let op : Option Op :=
        match kind with
        | "apply" => do
          let t ← natArg rest "t"
          let evs ← (argOf rest "evs").bind (fun s => (splitList s).mapM parseHex)
          pure (.apply o t evs)
        | "records" => do
          let rs ← (argOf rest "rs").bind parseRecs
          pure (.applyRecords o rs)
        | "punchecked" => do
          let rs ← (argOf rest "rs").bind parseRecs
          pure (.patchUnchecked o rs)
        | "pchecked" => do
          let rs ← (argOf rest "rs").bind parseRecs
          let cp ← (argOf rest "cp").bind parseProof
          pure (.patchChecked o cp rs)
        | "rewind" => do
          let c ← (argOf rest "c").bind parseHex
          pure (.rewind o (H.leaf c))
        | "clear" => some (.clear o)
        | "replace" => do
          let rs ← (argOf rest "rs").bind parseRecs
          let cp ← (argOf rest "cp").bind parseProof
          pure (.replaceAll o rs cp)
        | "epatch" => do
          let rs ← (argOf rest "rs").bind parseRecs
          let cp ← (argOf rest "cp").bind parseProof
          let c ← (argOf rest "c").bind parseCommitArg
          pure (.eventPatch o c cp rs)
        | _ => none
      match op with
      | none => (st, "bad-op")
      | some op =>
        let (s', out) := Sos.Log.step st.sys op
        let st' := { st with sys := s' }
        (st', observe st' o out)
  | _ => (st, "bad-op")

end Sos.Drv.Log
