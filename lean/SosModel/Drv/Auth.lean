import SosModel.Auth
namespace Sos.Drv.Auth
open Sos Sos.Auth

def parseList (s : String) : List Nat := (splitList s).filterMap String.toNat?

def parseEv (s : String) : Option DevEv :=
  match s.toList with
  | 't' :: r => (String.ofList r).toNat?.map .trust
  | 'r' :: r => (String.ofList r).toNat?.map .revoke
  | _ => none

def parseEvs (s : String) : Option (List DevEv) :=
  if s = "-" || s = "" then some [] else (s.splitOn ".").mapM parseEv

def parseDevOp (s : String) : Option DevOp :=
  match s.splitOn ":" with
  | ["p", e] => (parseEvs e).map .patch
  | ["f", e] => (parseEvs e).map .force
  | _ => none

/-- `auth req handler=<h> hdr=<acct|-> cred=<none|malformed|token:key:msg> signed=<msg>
     cfg=<none|allow:a,b|deny:a,b> trusted=<k1,k2>` (account 1 exists with those keys) -/
def step (args : List String) : String :=
  match args with
  | "req" :: rest =>
    let hdr := (argOf rest "hdr").bind String.toNat?
    let cred : Option Cred :=
      match (argOf rest "cred").map (·.splitOn ":") with
      | some ["none"] => some .none
      | some ["malformed"] => some .malformed
      | some ["token", k, m] => do pure (.token { key := (← k.toNat?), msg := (← m.toNat?) })
      | _ => none
    let access : Option (Option Access) :=
      match (argOf rest "cfg").map (·.splitOn ":") with
      | some ["none"] => some none
      | some ["allow", l] => some (some { allow := some (parseList l), deny := none })
      | some ["deny", l] => some (some { allow := none, deny := some (parseList l) })
      | some ["both", al, dl] => some (some { allow := some (parseList al), deny := some (parseList dl) })
      | _ => none
    match cred, access, natArg rest "signed", argOf rest "trusted" with
    | some c, some a, some sg, some tr =>
      let srv : Server := { access := a, trusted := fun x => if x = 1 then some (parseList tr) else none }
      match authenticate srv { headerAccount := hdr, cred := c, signedBytes := sg } with
      | .allow _ => "allow"
      | .badRequest => "bad-request"
      | .forbidden => "forbidden"
    | _, _, _, _ => "bad-op"
  | "devices" :: rest =>
    -- `auth devices create=t1 ops=p:t2.t3;f:t1.t2.r2` -> the trusted set the server checks against
    match (argOf rest "create").bind parseEvs, (argOf rest "ops").bind (fun o => if o = "-" then some [] else (o.splitOn ";").mapM parseDevOp) with
    | some l0, some ops =>
      let st := (DevStore.create l0).run ops
      "trusted=" ++ ",".intercalate (st.cache.mergeSort (· ≤ ·) |>.map toString) ++ " log=" ++ toString st.log.length
    | _, _ => "bad-op"
  | _ => "bad-op"

end Sos.Drv.Auth
