import SosModel.Archive
namespace Sos.Drv.Archive
open Sos Sos.Archive

def parseComp : String → Option Comp
  | "dd" => some .dotdot
  | "d" => some .dot
  | "e" => some .empty
  | s => if s.startsWith "n" then (s.drop 1).toString.toNat?.map Comp.normal else none

/-- `archive sanitize comps=n1,dd,e,n2` -> depth below the target after sanitising -/
def step (args : List String) : String :=
  match args with
  | "sanitize" :: rest =>
    match (argOf rest "comps").bind (fun s => (splitList s).mapM parseComp) with
    | some cs =>
      match walk 0 (sanitizePath cs) with
      | some d => s!"inside depth={d}"
      | none => "escapes"
    | none => "bad-op"
  | _ => "bad-op"

end Sos.Drv.Archive
