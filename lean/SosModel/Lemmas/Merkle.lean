import SosModel.Merkle
namespace Sos.Merkle
open Sos

def flatten : H → List H
  | .leaf b => [.leaf b]
  | .node l r => flatten l ++ flatten r

def Atom : H → Prop
  | .leaf _ => True
  | .node _ _ => False

theorem flatten_atom {h : H} (ha : Atom h) : flatten h = [h] := by
  cases h <;> simp_all [Atom, flatten]

theorem flatMap_flatten_atoms {l : List H} (h : ∀ x ∈ l, Atom x) : l.flatMap flatten = l := by
  induction l with
  | nil => rfl
  | cons a t ih =>
    simp only [List.flatMap_cons]
    rw [flatten_atom (h a (by simp)), ih (fun x hx => h x (by simp [hx]))]; rfl

theorem nextLayer_flatten (l : List H) : (nextLayer l).flatMap flatten = l.flatMap flatten := by
  fun_induction nextLayer l <;> simp_all [flatten]

theorem nextLayer_length (l : List H) : (nextLayer l).length = (l.length + 1) / 2 := by
  fun_induction nextLayer l <;> simp_all <;> omega

theorem iter_flatten (n : Nat) (l : List H) :
    (iter nextLayer n l).flatMap flatten = l.flatMap flatten := by
  induction n generalizing l with
  | zero => rfl
  | succ n ih => simp [iter, ih, nextLayer_flatten]

theorem lt_two_pow_bitLenAux (f : Nat) : ∀ n, n ≤ f → n < 2 ^ bitLenAux f n := by
  induction f with
  | zero => intro n h; simp [bitLenAux]; omega
  | succ f ih =>
    intro n h
    unfold bitLenAux
    by_cases h0 : n = 0
    · simp [h0]
    · simp only [h0, if_false]
      have := ih (n / 2) (by omega)
      rw [Nat.pow_succ]; omega

theorem lt_two_pow_bitLen (n : Nat) : n < 2 ^ bitLen n :=
  lt_two_pow_bitLenAux n n (Nat.le_refl _)

theorem nextLayer_ne_nil {l : List H} (h : l ≠ []) : nextLayer l ≠ [] := by
  fun_induction nextLayer l <;> simp_all

theorem iter_length_one_of_le (d : Nat) (l : List H) (h : l ≠ []) (hd : l.length ≤ 2 ^ d) :
    (iter nextLayer d l).length = 1 := by
  induction d generalizing l with
  | zero =>
    simp only [iter]
    have : l.length ≠ 0 := by simpa using h
    simp at hd; omega
  | succ d ih =>
    simp only [iter]
    apply ih _ (nextLayer_ne_nil h)
    rw [nextLayer_length, Nat.pow_succ] at *; omega

theorem iter_length_one (l : List H) (h : l ≠ []) :
    (iter nextLayer (bitLen l.length) l).length = 1 :=
  iter_length_one_of_le _ l h (Nat.le_of_lt (lt_two_pow_bitLen _))

/-- The root of a non-empty tree exists and its in-order leaves are the leaf sequence. -/
theorem root_flatten {l : List H} (h : l ≠ []) :
    ∃ r, root l = some r ∧ flatten r = l.flatMap flatten := by
  have h1 := iter_length_one l h
  have h2 := iter_flatten (bitLen l.length) l
  unfold root
  match hm : iter nextLayer (bitLen l.length) l, h1 with
  | [r], _ =>
    refine ⟨r, rfl, ?_⟩
    rw [hm] at h2; simpa using h2

@[simp] theorem root_nil : root ([] : List H) = none := by
  simp [root, bitLen, bitLenAux, iter]

theorem root_eq_none {l : List H} : root l = none ↔ l = [] := by
  constructor
  · intro h
    by_cases hl : l = []
    · exact hl
    · obtain ⟨r, hr, _⟩ := root_flatten hl; rw [hr] at h; cases h
  · intro h; subst h; simp

/-- Two sequences of leaf digests with the same root are the same sequence. -/
theorem root_injective {l r : List H} (hl : ∀ x ∈ l, Atom x) (hr : ∀ x ∈ r, Atom x)
    (h : root l = root r) : l = r := by
  by_cases h1 : l = []
  · subst h1
    have : root r = none := by rw [← h]; simp
    exact (root_eq_none.mp this).symm
  · obtain ⟨a, ha, fa⟩ := root_flatten h1
    have h2 : r ≠ [] := by
      intro h0; subst h0; rw [ha] at h; simp at h
    obtain ⟨b, hb, fb⟩ := root_flatten h2
    rw [ha, hb] at h
    cases h
    rw [flatMap_flatten_atoms hl] at fa
    rw [flatMap_flatten_atoms hr] at fb
    rw [← fa, ← fb]

end Sos.Merkle

namespace Sos.Merkle
open Sos

theorem nextLayer_getElem? (L : List H) (j : Nat) :
    (nextLayer L)[j]? =
      match L[2 * j]?, L[2 * j + 1]? with
      | some a, some b => some (H.node a b)
      | some a, none => some a
      | none, _ => none := by
  fun_induction nextLayer L generalizing j with
  | case1 a b rest ih =>
    cases j with
    | zero => simp
    | succ j =>
      have e1 : 2 * (j + 1) = 2 * j + 1 + 1 := by omega
      have e2 : 2 * (j + 1) + 1 = 2 * j + 1 + 1 + 1 := by omega
      simp only [List.getElem?_cons_succ, e1]
      exact ih j
  | case2 a =>
    cases j with
    | zero => simp
    | succ j =>
      have e1 : 2 * (j + 1) = 2 * j + 1 + 1 := by omega
      simp [e1]
  | case3 => simp

/-- The node above position `i` once the leaf there is replaced by `x`. -/
def up (L : List H) (i : Nat) (x : H) : H :=
  match L[if i % 2 = 0 then i + 1 else i - 1]? with
  | some s => if i % 2 = 0 then H.node x s else H.node s x
  | none => x

theorem nextLayer_set (L : List H) (i : Nat) (x : H) (hi : i < L.length) :
    nextLayer (L.set i x) = (nextLayer L).set (i / 2) (up L i x) := by
  apply List.ext_getElem?
  intro j
  rw [nextLayer_getElem?]
  rw [List.getElem?_set (l := nextLayer L)]
  rw [nextLayer_getElem?]
  simp only [List.getElem?_set, nextLayer_length, up]
  by_cases hj : i / 2 = j
  · subst hj
    by_cases hp : i % 2 = 0
    · have e : 2 * (i / 2) = i := by omega
      simp only [e, hp, if_true]
      have hne : ¬ (i = i + 1) := by omega
      simp only [hi, if_true, hne, if_false]
      have hlt : i / 2 < (L.length + 1) / 2 := by omega
      simp only [hlt, if_true]
      cases h : L[i + 1]? <;> simp
    · have e : 2 * (i / 2) + 1 = i := by omega
      have e0 : 2 * (i / 2) = i - 1 := by omega
      simp only [e, e0, hp, if_false]
      have hne : ¬ (i = i - 1) := by omega
      simp only [hi, if_true, hne, if_false]
      have hlt : i / 2 < (L.length + 1) / 2 := by omega
      simp only [hlt, if_true]
      have : i - 1 < L.length := by omega
      rw [List.getElem?_eq_getElem this]
      have e3 : i = i - 1 + 1 := by omega
      simp [← e3]
  · have h1 : ¬ (i = 2 * j) := by omega
    have h2 : ¬ (i = 2 * j + 1) := by omega
    simp only [h1, h2, hj, if_false]

end Sos.Merkle

namespace Sos.Merkle
open Sos

theorem verifyAux_proofAux (d : Nat) : ∀ (k : Nat) (L : List H) (i : Nat) (x : H),
    i < L.length → L.length ≤ 2 ^ d → d ≤ k →
    verifyAux d (proofAux k L i) i L.length x = (iter nextLayer d (L.set i x)).head? := by
  induction d with
  | zero =>
    intro k L i x hi hL _
    simp at hL
    have hi0 : i = 0 := by omega
    subst hi0
    match L, hi with
    | [a], _ => simp [verifyAux, iter]
  | succ d ih =>
    intro k L i x hi hL hk
    obtain ⟨k', rfl⟩ : ∃ k', k = k' + 1 := ⟨k - 1, by omega⟩
    have hlen : (nextLayer L).length = (L.length + 1) / 2 := nextLayer_length L
    have hi2 : i / 2 < (nextLayer L).length := by omega
    have hL2 : (nextLayer L).length ≤ 2 ^ d := by rw [hlen, Nat.pow_succ] at *; omega
    have hk2 : d ≤ k' := by omega
    have IH := fun y => ih k' (nextLayer L) (i / 2) y hi2 hL2 hk2
    simp only [iter, nextLayer_set L i x hi]
    unfold verifyAux proofAux
    by_cases hc : L.length % 2 = 1 ∧ i = L.length - 1
    · have hp : i % 2 = 0 := by omega
      have hsib : (if i % 2 = 0 then i + 1 else i - 1) = i + 1 := by simp [hp]
      have hs : L[i + 1]? = none := by
        apply List.getElem?_eq_none; omega
      rw [if_pos hc]
      simp only [up, hsib, hs]
      have := IH x
      rw [hlen] at this
      exact this
    · rw [if_neg hc]
      by_cases hp : i % 2 = 0
      · have hlt : i + 1 < L.length := by omega
        have hsib : (if i % 2 = 0 then i + 1 else i - 1) = i + 1 := by simp [hp]
        simp only [up, hsib, List.getElem?_eq_getElem hlt, if_pos hp]
        have := IH (H.node x L[i + 1])
        rw [hlen] at this
        exact this
      · have hlt : i - 1 < L.length := by omega
        have hsib : (if i % 2 = 0 then i + 1 else i - 1) = i - 1 := by simp [hp]
        simp only [up, hsib, List.getElem?_eq_getElem hlt, if_neg hp]
        have := IH (H.node L[i - 1] x)
        rw [hlen] at this
        exact this

/-- Verifying the single-index proof taken from `r` at `i` with candidate leaf `x`
recomputes the root of `r` with position `i` replaced by `x`. -/
theorem verify_recomputes (r : List H) (i : Nat) (x : H) (hi : i < r.length) :
    verifyRoot (proof r i) i x r.length = root (r.set i x) := by
  unfold verifyRoot proof root
  have hne : r.length ≠ 0 := by omega
  simp only [hne, if_false, List.length_set]
  exact verifyAux_proofAux _ _ r i x hi (Nat.le_of_lt (lt_two_pow_bitLen _)) (by omega)

theorem set_getElem_self (r : List H) (i : Nat) (hi : i < r.length) : r.set i r[i] = r := by
  apply List.ext_getElem?; intro j
  rw [List.getElem?_set]
  by_cases h : i = j
  · subst h; simp [hi]
  · simp [h]

/-- Soundness and completeness of single-leaf proofs (free hash, leaf digests). -/
theorem verify_iff (r : List H) (i : Nat) (x : H) (hi : i < r.length)
    (hr : ∀ y ∈ r, Atom y) (hx : Atom x) :
    verifyRoot (proof r i) i x r.length = root r ↔ x = r[i] := by
  rw [verify_recomputes r i x hi]
  constructor
  · intro h
    have hs : ∀ y ∈ r.set i x, Atom y := by
      intro y hy
      rcases List.mem_or_eq_of_mem_set hy with h1 | h1
      · exact hr y h1
      · exact h1 ▸ hx
    have := root_injective hs hr h
    have h2 : (r.set i x)[i]? = r[i]? := by rw [this]
    rw [List.getElem?_set] at h2
    simp [hi] at h2
    exact h2
  · intro h; subst h; rw [set_getElem_self r i hi]

end Sos.Merkle
