import SosModel.Sync
import SosModel.Lemmas.Log
import SosModel.Props.C08
namespace Sos.Sync
open Sos Sos.Merkle Sos.Log Sos.Props

theorem findLast_unique (pre suf : LogSeq) (x : Rec) (h : ∀ y ∈ suf, y.commit ≠ x.commit) :
    findLast (pre ++ x :: suf) x.commit = some pre.length := by
  rw [findLast_spec]
  refine ⟨by simp, by simp, ?_⟩
  intro j h1 h2
  have hj : (pre ++ x :: suf)[j]? = suf[j - pre.length - 1]? := by
    rw [List.getElem?_append_right (by omega)]
    obtain ⟨m, hm⟩ : ∃ m, j - pre.length = m + 1 := ⟨j - pre.length - 1, by omega⟩
    rw [hm, List.getElem?_cons_succ]
    simp
  rw [hj]
  cases hg : suf[j - pre.length - 1]? with
  | none => simp
  | some y =>
    simp only [Option.map_some, ne_eq, Option.some.injEq]
    exact h y (List.mem_of_getElem? hg)

theorem after_unique (pre suf : LogSeq) (x : Rec) (h : ∀ y ∈ suf, y.commit ≠ x.commit) :
    after (pre ++ x :: suf) x.commit = some suf := by
  unfold after; rw [findLast_unique pre suf x h]; simp

theorem upTo_unique (pre suf : LogSeq) (x : Rec) (h : ∀ y ∈ suf, y.commit ≠ x.commit) :
    upTo (pre ++ x :: suf) x.commit = some (pre ++ [x]) := by
  unfold upTo; rw [findLast_unique pre suf x h]
  simp only [Option.map_some, Option.some.injEq]
  have : List.take (pre.length + 1) (pre ++ x :: suf) = pre ++ [x] := by
    rw [List.take_append]
    simp [List.take_of_length_le]
  exact this

theorem commits_append (a b : LogSeq) : commits (a ++ b) = commits a ++ commits b := by
  simp [commits]

theorem commits_ne_nil {l : LogSeq} (h : l ≠ []) : commits l ≠ [] := by
  cases l <;> simp_all [commits]

/-- The other side is a proper prefix of mine and its last commit does not recur in what I
have beyond it: I offer exactly the records it lacks. -/
theorem offer_prefix (pre a : LogSeq) (x : Rec) (ha : a ≠ [])
    (hat : C08.Atoms (commits (pre ++ x :: a)))
    (hx : ∀ y ∈ a, y.commit ≠ x.commit) :
    offer (pre ++ x :: a) (pre ++ [x]) = .patch a := by
  unfold offer
  have hon : commits (pre ++ [x]) ≠ [] := commits_ne_nil (by simp)
  obtain ⟨p, hp⟩ := head_some hon
  rw [hp]
  simp only
  have hmn : commits (pre ++ x :: a) ≠ [] := commits_ne_nil (by simp)
  have hoat : C08.Atoms (commits (pre ++ [x])) := by
    intro y hy; apply hat
    simp only [commits, List.map_append, List.map_cons, List.mem_append, List.mem_map,
      List.mem_cons] at hy ⊢
    rcases hy with h | h
    · exact Or.inl h
    · rcases h with h | h
      · exact Or.inr (Or.inl h)
      · simp at h
  have hspec := C08.compare_head_spec _ _ hat hoat hmn hon p hp
  have hne : commits (pre ++ x :: a) ≠ commits (pre ++ [x]) := by
    intro e
    have := congrArg List.length e
    simp [commits] at this
    cases a with
    | nil => exact ha rfl
    | cons _ _ => simp at this
  have hpre : commits (pre ++ [x]) <+: commits (pre ++ x :: a) := by
    refine ⟨commits a, ?_⟩
    simp [commits]
  simp only [hne, if_false, hpre, if_true] at hspec
  rw [hspec]
  simp only [List.getLast?_append, List.getLast?_singleton, Option.some_or]
  have := after_unique pre a x hx
  rw [this]
  have : a.isEmpty = false := by cases a <;> simp_all
  simp [this]

/-- My log is a proper prefix of the other's, or the two diverge: I can only ask the
other side to compare. -/
theorem offer_compare_of_not_prefix (mine other : LogSeq)
    (ham : C08.Atoms (commits mine)) (hao : C08.Atoms (commits other))
    (hm : mine ≠ []) (ho : other ≠ [])
    (hne : commits mine ≠ commits other) (hnp : ¬ commits other <+: commits mine) :
    offer mine other = .compare := by
  unfold offer
  obtain ⟨p, hp⟩ := head_some (commits_ne_nil ho)
  rw [hp]
  simp only
  have hspec := C08.compare_head_spec _ _ ham hao (commits_ne_nil hm) (commits_ne_nil ho) p hp
  simp only [hne, if_false, hnp] at hspec
  rw [hspec]

end Sos.Sync
