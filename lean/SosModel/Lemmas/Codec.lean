import SosModel.Codec
namespace Sos.Codec
open Sos

/-! ## generic facts about the decoder monad -/

@[simp] theorem bind_res_ok {m : Out α} {f : α → Bytes → Out β} {v : α} {r : Bytes}
    (h : m.res = .ok v r) : (m.bind f).res = (f v r).res := by
  unfold Out.bind; rw [h]

theorem ret_res (v : α) (b : Bytes) : (ret v b).res = .ok v b := rfl

/-- What C15 asks of a decoder, for every input: the largest allocation request is
within the configured cap, it never panics, and what it leaves unread is a suffix of
the input (it cannot read past the end or grow the input). -/
def Good (d : Dec α) : Prop :=
  ∀ b, (d b).alloc ≤ cap ∧ (d b).res ≠ .panic ∧
    ∀ v rest, (d b).res = .ok v rest → ∃ pre, b = pre ++ rest

theorem Good.ret (v : α) : Good (ret v) := by
  intro b; refine ⟨Nat.zero_le _, by simp [Codec.ret], ?_⟩
  intro v' rest h; simp [Codec.ret] at h; exact ⟨[], by simp [h.2]⟩

theorem Good.fail : Good (fun _ => (fail : Out α)) := by
  intro b; refine ⟨Nat.zero_le _, by simp [Codec.fail], ?_⟩
  intro v rest h; simp [Codec.fail] at h

theorem Good.bind {d : Dec α} {f : α → Dec β} (hd : Good d) (hf : ∀ v, Good (f v)) :
    Good (fun b => (d b).bind f) := by
  intro b
  obtain ⟨ha, hp, hs⟩ := hd b
  show ((d b).bind f).alloc ≤ cap ∧ ((d b).bind f).res ≠ .panic ∧
    ∀ v rest, ((d b).bind f).res = .ok v rest → ∃ pre, b = pre ++ rest
  unfold Out.bind
  split
  · rename_i v rest hr
    obtain ⟨ha2, hp2, hs2⟩ := hf v rest
    refine ⟨Nat.max_le.mpr ⟨ha, ha2⟩, hp2, ?_⟩
    intro v' rest' h
    obtain ⟨pre, hpre⟩ := hs v rest hr
    obtain ⟨pre2, hpre2⟩ := hs2 v' rest' h
    exact ⟨pre ++ pre2, by rw [hpre, hpre2]; simp⟩
  · exact ⟨ha, by simp, by intro v rest h; cases h⟩
  · rename_i hr; exact absurd hr hp

theorem Good.ite {c : Prop} [Decidable c] {d e : Dec α} (hd : Good d) (he : Good e) :
    Good (fun b => if c then d b else e b) := by
  intro b; by_cases h : c <;> simp [h]
  · exact hd b
  · exact he b

theorem Good.readFixed (k : Nat) : Good (readFixed k) := by
  intro b
  unfold Codec.readFixed
  by_cases h : b.length < k
  · simp [h, Codec.fail]
  · simp only [h, if_false]
    refine ⟨Nat.zero_le _, by simp, ?_⟩
    intro v rest hh
    simp at hh
    exact ⟨b.take k, by rw [← hh.2]; simp⟩

theorem Good.readN (n : Nat) : Good (readN n) := by
  intro b
  unfold Codec.readN
  by_cases hc : n > cap
  · simp [hc, Codec.fail]
  · simp only [hc, if_false]
    by_cases h : b.length < n
    · simp only [h, if_true]; exact ⟨by omega, by simp, by intro v rest hh; cases hh⟩
    · simp only [h, if_false]
      refine ⟨by omega, by simp, ?_⟩
      intro v rest hh
      simp at hh
      exact ⟨b.take n, by rw [← hh.2]; simp⟩

theorem Good.readNat (k : Nat) : Good (readNat k) :=
  Good.bind (Good.readFixed k) (fun _ => Good.ret _)

theorem Good.readLenBytes : Good readLenBytes :=
  Good.bind (Good.readNat 4) (fun n => Good.readN n)

theorem Good.readString : Good readString :=
  Good.bind Good.readLenBytes (fun _ => Good.ite (Good.ret _) Good.fail)

theorem Good.readMany {item : Dec α} (hi : Good item) : ∀ n, Good (readMany item n)
  | 0 => Good.ret _
  | n + 1 => Good.bind hi (fun _ => Good.bind (Good.readMany hi n) (fun _ => Good.ret _))

theorem Good.readVec {item : Dec α} (hi : Good item) : Good (readVec item) :=
  Good.bind (Good.readNat 4) (fun n => Good.readMany hi n)

/-! ## little-endian numbers -/

@[simp] theorem leBytes_length (k n : Nat) : (leBytes k n).length = k := by
  induction k generalizing n with
  | zero => rfl
  | succ k ih => simp [leBytes, ih]

theorem leVal_leBytes (k n : Nat) (h : n < 256 ^ k) : leVal (leBytes k n) = n := by
  induction k generalizing n with
  | zero => simp at h; subst h; rfl
  | succ k ih =>
    simp only [leBytes, leVal]
    rw [ih (n / 256) (by rw [Nat.pow_succ] at h; omega)]
    simp
    omega

theorem readFixed_append (xs rest : Bytes) (k : Nat) (h : xs.length = k) :
    readFixed k (xs ++ rest) = ⟨.ok xs rest, 0⟩ := by
  subst h
  unfold readFixed
  have : ¬ (xs ++ rest).length < xs.length := by simp
  rw [if_neg this]
  simp

theorem readNat_enc (k n : Nat) (rest : Bytes) (h : n < 256 ^ k) :
    (readNat k (leBytes k n ++ rest)).res = .ok n rest := by
  unfold readNat
  rw [readFixed_append _ _ _ (leBytes_length k n)]
  simp [Out.bind, ret, leVal_leBytes k n h]

theorem readN_append (xs rest : Bytes) (n : Nat) (h : xs.length = n) (hc : n ≤ cap) :
    (readN n (xs ++ rest)).res = .ok xs rest := by
  subst h
  unfold readN
  have h1 : ¬ xs.length > cap := by omega
  have h2 : ¬ (xs ++ rest).length < xs.length := by simp
  rw [if_neg h1, if_neg h2]
  simp

theorem cap_lt : cap < 256 ^ 4 := by decide

theorem readLenBytes_enc (bs rest : Bytes) (h : bs.length ≤ cap) :
    (readLenBytes (encLenBytes bs ++ rest)).res = .ok bs rest := by
  unfold readLenBytes encLenBytes readU32 encU32
  rw [List.append_assoc]
  rw [bind_res_ok (readNat_enc 4 bs.length (bs ++ rest) (by have := cap_lt; omega))]
  exact readN_append bs rest bs.length rfl h

theorem readString_enc (s rest : Bytes) (h : s.length ≤ cap) (hu : utf8Ok s = true) :
    (readString (encString s ++ rest)).res = .ok s rest := by
  unfold readString encString
  rw [bind_res_ok (readLenBytes_enc s rest h)]
  simp [hu, ret]

theorem readI64_enc (i : Int) (rest : Bytes) (hlo : -(2 ^ 63) ≤ i) (hhi : i < 2 ^ 63) :
    (readI64 (encI64 i ++ rest)).res = .ok i rest := by
  unfold readI64 encI64
  by_cases h : i ≥ 0
  · simp only [h, if_true]
    have hlt : i.toNat < 256 ^ 8 := by omega
    have h1 := readNat_enc 8 i.toNat rest hlt
    rw [bind_res_ok h1]
    have : i.toNat < 2 ^ 63 := by omega
    simp only [this, if_true, ret]
    congr 1; omega
  · simp only [h, if_false]
    have hlt : (i + 2 ^ 64).toNat < 256 ^ 8 := by omega
    have h1 := readNat_enc 8 (i + 2 ^ 64).toNat rest hlt
    rw [bind_res_ok h1]
    have : ¬ (i + 2 ^ 64).toNat < 2 ^ 63 := by omega
    simp only [this, if_false, ret]
    congr 1; omega

theorem readMany_enc {item : Dec α} {enc : α → Bytes} (xs : List α) (rest : Bytes)
    (hi : ∀ x ∈ xs, ∀ r, (item (enc x ++ r)).res = .ok x r) :
    (readMany item xs.length ((xs.map enc).flatten ++ rest)).res = .ok xs rest := by
  induction xs with
  | nil => simp [readMany, ret]
  | cons x t ih =>
    simp only [List.length_cons, readMany, List.map_cons, List.flatten_cons, List.append_assoc]
    rw [bind_res_ok (hi x (by simp) _)]
    rw [bind_res_ok (ih (fun y hy => hi y (by simp [hy])))]
    rfl

theorem readVec_enc {item : Dec α} {enc : α → Bytes} (xs : List α) (rest : Bytes)
    (hl : xs.length < 256 ^ 4) (hi : ∀ x ∈ xs, ∀ r, (item (enc x ++ r)).res = .ok x r) :
    (readVec item (encVec enc xs ++ rest)).res = .ok xs rest := by
  unfold readVec encVec readU32 encU32
  rw [List.append_assoc]
  rw [bind_res_ok (readNat_enc 4 xs.length _ hl)]
  exact readMany_enc xs rest hi

end Sos.Codec
