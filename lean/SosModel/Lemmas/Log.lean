import SosModel.Log
import SosModel.Lemmas.Merkle
namespace Sos.Log
open Sos Sos.Merkle

/-- Storage and tree agree for every log. -/
def Inv (s : Sys) : Prop := ∀ o, s.trees o = (s.rowsOf o).map (·.commit)

/-- Two systems that every log observes identically. -/
def Equiv (s t : Sys) : Prop := ∀ o, s.rowsOf o = t.rowsOf o ∧ s.trees o = t.trees o

theorem Equiv.refl (s : Sys) : Equiv s s := fun _ => ⟨rfl, rfl⟩

@[simp] theorem rowsOf_mk (st : List Row) (tr : Nat → List H) (o : Nat) :
    Sys.rowsOf { store := st, trees := tr } o = (st.filter (·.owner = o)).map (·.r) := rfl

theorem rowsOf_applyRecords (s : Sys) (o o' : Nat) (rs : List Rec) :
    (applyRecords s o rs).rowsOf o' = if o' = o then s.rowsOf o' ++ rs else s.rowsOf o' := by
  unfold applyRecords
  cases rs with
  | nil => simp
  | cons a t =>
    simp only [List.isEmpty_cons, Bool.false_eq_true, if_false, rowsOf_mk, Sys.rowsOf,
      List.filter_append, List.map_append]
    by_cases h : o' = o
    · subst h
      simp [List.filter_map, Function.comp_def]
    · have : ¬ o = o' := fun e => h e.symm
      simp [h, List.filter_map, Function.comp_def, this]

theorem trees_applyRecords (s : Sys) (o o' : Nat) (rs : List Rec) :
    (applyRecords s o rs).trees o' =
      if o' = o then s.trees o' ++ rs.map (·.commit) else s.trees o' := by
  unfold applyRecords
  cases rs with
  | nil => simp
  | cons a t =>
    by_cases h : o' = o
    · subst h; simp
    · simp [h]

theorem rowsOf_keepFirst (st : List Row) (o n o' : Nat) (tr : Nat → List H) :
    Sys.rowsOf { store := keepFirst st o n, trees := tr } o' =
      if o' = o then (Sys.rowsOf { store := st, trees := tr } o').take n
      else Sys.rowsOf { store := st, trees := tr } o' := by
  induction st generalizing n with
  | nil => simp [keepFirst]
  | cons r rest ih =>
    unfold keepFirst
    by_cases hr : r.owner = o
    · simp only [hr, if_true]
      cases n with
      | zero =>
        have := ih 0
        simp only [rowsOf_mk] at this ⊢
        rw [this]
        by_cases h : o' = o
        · simp [h]
        · have : ¬ r.owner = o' := by rw [hr]; exact fun e => h e.symm
          simp [h, this]
      | succ k =>
        have := ih k
        simp only [rowsOf_mk] at this ⊢
        by_cases h : o' = o
        · subst h
          simp only [if_true] at this
          simp [hr, this]
        · have hne : ¬ r.owner = o' := by rw [hr]; exact fun e => h e.symm
          simp only [h, if_false] at this
          simp [h, hne, this]
    · simp only [hr, if_false]
      have := ih n
      simp only [rowsOf_mk] at this ⊢
      by_cases h : o' = o
      · subst h
        simp only [if_true] at this
        simp [hr, this]
      · simp only [h, if_false] at this
        by_cases h2 : r.owner = o'
        · simp [h, h2, this]
        · simp [h, h2, this]

theorem rowsOf_clear (s : Sys) (o o' : Nat) :
    (clear s o).rowsOf o' = if o' = o then [] else s.rowsOf o' := by
  unfold clear Sys.rowsOf
  simp only [List.filter_filter]
  by_cases h : o' = o
  · subst h
    simp
  · simp only [h, if_false]
    congr 1
    apply List.filter_congr
    intro x _
    by_cases hx : x.owner = o'
    · have : ¬ x.owner = o := by rw [hx]; exact h
      simp [hx, h]
    · simp [hx]

theorem findLastAux_spec (rows : List Rec) (c : H) (n k : Nat) :
    findLastAux rows c n = some k ↔
      (k < n ∧ (rows[k]?.map (·.commit)) = some c ∧
        ∀ j, k < j → j < n → (rows[j]?.map (·.commit)) ≠ some c) := by
  induction n with
  | zero => simp [findLastAux]
  | succ n ih =>
    unfold findLastAux
    by_cases h : (rows[n]?.map (·.commit)) = some c
    · simp only [h, if_true, Option.some.injEq]
      constructor
      · intro e; subst e; exact ⟨by omega, h, fun j h1 h2 => by omega⟩
      · intro ⟨h1, h2, h3⟩
        by_cases e : n = k
        · exact e
        · exact absurd h (h3 n (by omega) (by omega))
    · simp only [h, if_false]
      rw [ih]
      constructor
      · intro ⟨h1, h2, h3⟩
        refine ⟨by omega, h2, fun j h4 h5 => ?_⟩
        by_cases e : j = n
        · subst e; exact h
        · exact h3 j h4 (by omega)
      · intro ⟨h1, h2, h3⟩
        have : k ≠ n := by intro e; subst e; exact h h2
        exact ⟨by omega, h2, fun j h4 h5 => h3 j h4 (by omega)⟩

theorem findLast_spec (rows : List Rec) (c : H) (k : Nat) :
    findLast rows c = some k ↔
      (k < rows.length ∧ (rows[k]?.map (·.commit)) = some c ∧
        ∀ j, k < j → j < rows.length → (rows[j]?.map (·.commit)) ≠ some c) :=
  findLastAux_spec rows c rows.length k

theorem findLast_some {rows : List Rec} {c : H} {k : Nat} (h : findLast rows c = some k) :
    k < rows.length ∧ (rows[k]?.map (·.commit)) = some c := by
  have := (findLast_spec rows c k).mp h
  exact ⟨this.1, this.2.1⟩

end Sos.Log

namespace Sos.Log
open Sos Sos.Merkle

theorem inv_applyRecords {s : Sys} (h : Inv s) (o : Nat) (rs : List Rec) :
    Inv (applyRecords s o rs) := by
  intro o'
  rw [rowsOf_applyRecords, trees_applyRecords]
  by_cases e : o' = o
  · simp [e, h o]
  · simp [e, h o']

theorem inv_clear {s : Sys} (h : Inv s) (o : Nat) : Inv (clear s o) := by
  intro o'
  rw [rowsOf_clear]
  by_cases e : o' = o
  · simp [e, clear]
  · simp [e, clear, h o']

theorem inv_loadTree {s : Sys} (h : Inv s) (o : Nat) : Inv (loadTree s o) := by
  intro o'
  unfold loadTree Sys.setTree
  by_cases e : o' = o
  · subst e; simp [Sys.rowsOf]
  · have := h o'
    simp only [Sys.rowsOf] at this
    simp [e, Sys.rowsOf, this]

/-- What a successful rewind does, log by log. -/
theorem rewind_spec {s s1 : Sys} {o : Nat} {c : H} {removed : List Rec} (h : Inv s)
    (hr : rewind s o c = (s1, .records removed)) :
    ∃ k, findLast (s.rowsOf o) c = some k ∧ k < (s.rowsOf o).length ∧
      removed = (s.rowsOf o).drop (k + 1) ∧
      s1.rowsOf o = (s.rowsOf o).take (k + 1) ∧
      s1.trees o = (s.trees o).take (k + 1) ∧
      ∀ o', o' ≠ o → s1.rowsOf o' = s.rowsOf o' ∧ s1.trees o' = s.trees o' := by
  unfold rewind at hr
  simp only at hr
  split at hr
  · cases hr
  · rename_i k hk
    have ⟨hlt, _⟩ := findLast_some hk
    split at hr
    · cases hr
    · rename_i hlen
      simp only [Prod.mk.injEq, Out.records.injEq] at hr
      obtain ⟨hs, hrem⟩ := hr
      subst hs
      refine ⟨k, hk, hlt, hrem.symm, ?_, ?_, ?_⟩
      · rw [rowsOf_keepFirst]; simp [Sys.rowsOf]
      · have hl : (s.trees o).length = (s.rowsOf o).length := by rw [h o]; simp
        simp only [if_true, List.length_drop]
        congr 1
        omega
      · intro o' hne
        rw [rowsOf_keepFirst]
        simp [hne, Sys.rowsOf]

theorem rewind_err_unchanged {s s1 : Sys} {o : Nat} {c : H} {e : Err}
    (hr : rewind s o c = (s1, .err e)) : s1 = s := by
  unfold rewind at hr
  simp only at hr
  split at hr
  · cases hr; rfl
  · split at hr
    · cases hr; rfl
    · cases hr

theorem rewind_out (s : Sys) (o : Nat) (c : H) :
    (∃ rs, (rewind s o c).2 = .records rs) ∨ (∃ e, (rewind s o c).2 = .err e) := by
  unfold rewind
  simp only
  split
  · exact Or.inr ⟨_, rfl⟩
  · split
    · exact Or.inr ⟨_, rfl⟩
    · exact Or.inl ⟨_, rfl⟩

theorem inv_rewind {s : Sys} (h : Inv s) (o : Nat) (c : H) : Inv (rewind s o c).1 := by
  rcases rewind_out s o c with ⟨rs, hrs⟩ | ⟨e, he⟩
  · have hr : rewind s o c = ((rewind s o c).1, .records rs) := by rw [← hrs]
    obtain ⟨k, _, hlt, _, h1, h2, h3⟩ := rewind_spec h hr
    intro o'
    by_cases e : o' = o
    · subst e; rw [h1, h2, h o', List.map_take]
    · rw [(h3 o' e).1, (h3 o' e).2]; exact h o'
  · have hr : rewind s o c = ((rewind s o c).1, .err e) := by rw [← he]
    rw [rewind_err_unchanged hr]; exact h

/-- `patch_checked` either appends the records or leaves the system as it was. -/
theorem patchChecked_cases (s : Sys) (o : Nat) (cp : CommitProof) (rs : List Rec) :
    ((patchChecked s o cp rs).1 = applyRecords s o rs ∧
        Merkle.compare (s.trees o) cp = some (some .equal)) ∨
    ((patchChecked s o cp rs).1 = s ∧ Merkle.compare (s.trees o) cp ≠ some (some .equal) ∧
        ∀ h, (patchChecked s o cp rs).2 ≠ .patched h) := by
  unfold patchChecked
  split
  · right; simp_all
  · right; simp_all
  · left
    rename_i hc
    refine ⟨?_, hc⟩
    simp only
    split <;> rfl
  · right
    rename_i ix hc
    split <;> simp_all
  · right
    rename_i hc
    split <;> simp_all

theorem inv_patchChecked {s : Sys} (h : Inv s) (o : Nat) (cp : CommitProof) (rs : List Rec) :
    Inv (patchChecked s o cp rs).1 := by
  rcases patchChecked_cases s o cp rs with ⟨h1, _⟩ | ⟨h1, _⟩
  · rw [h1]; exact inv_applyRecords h o rs
  · rw [h1]; exact h

theorem replaceAll_cases (s : Sys) (o : Nat) (rs : List Rec) (cp : CommitProof) :
    ((replaceAll s o rs cp).1 = applyRecords (clear s o) o rs ∧ (replaceAll s o rs cp).2 = .ok ∧
        head (rs.map (·.commit)) = some cp) ∨
    ((replaceAll s o rs cp).1 = s ∧ ∃ e, (replaceAll s o rs cp).2 = .err e) := by
  unfold replaceAll
  split
  · right; exact ⟨rfl, _, rfl⟩
  · rename_i hd hh
    by_cases e : hd = cp
    · left; simp [e, hh]
    · right; simp [e]

theorem inv_replaceAll {s : Sys} (h : Inv s) (o : Nat) (rs : List Rec) (cp : CommitProof) :
    Inv (replaceAll s o rs cp).1 := by
  rcases replaceAll_cases s o rs cp with ⟨h1, _⟩ | ⟨h1, _⟩
  · rw [h1]; exact inv_applyRecords (inv_clear h o) o rs
  · rw [h1]; exact h

/-- Rewinding and then applying the removed records again restores every log. -/
theorem rewind_rollback {s s1 : Sys} {o : Nat} {c : H} {removed : List Rec} (h : Inv s)
    (hr : rewind s o c = (s1, .records removed)) : Equiv (applyRecords s1 o removed) s := by
  obtain ⟨k, _, hlt, hrem, h1, h2, h3⟩ := rewind_spec h hr
  intro o'
  rw [rowsOf_applyRecords, trees_applyRecords]
  by_cases e : o' = o
  · subst e
    simp only [if_true]
    rw [h1, h2, hrem, List.take_append_drop]
    refine ⟨rfl, ?_⟩
    rw [h o', ← List.map_take, ← List.map_append, List.take_append_drop]
  · simp only [e, if_false]; exact h3 o' e

theorem head_some {l : List H} (h : l ≠ []) : ∃ p, head l = some p := by
  obtain ⟨b, hb, _⟩ := root_flatten h
  unfold head treeProof
  have : l.isEmpty = false := by cases l <;> simp_all
  simp [this, hb]

theorem compare_some_ne_nil {l : List H} {cp : CommitProof} {r : Option Comparison}
    (h : Merkle.compare l cp = some r) : l ≠ [] := by
  intro e; subst e
  simp [Merkle.compare] at h

theorem patchChecked_equal (s : Sys) (o : Nat) (cp : CommitProof) (rs : List Rec)
    (hc : Merkle.compare (s.trees o) cp = some (some .equal)) :
    ∃ hd, patchChecked s o cp rs = (applyRecords s o rs, .patched hd) := by
  have hne := compare_some_ne_nil hc
  have hne2 : (applyRecords s o rs).trees o ≠ [] := by
    rw [trees_applyRecords]; simp [hne]
  obtain ⟨p, hp⟩ := head_some hne2
  refine ⟨p, ?_⟩
  unfold patchChecked
  simp only [hc, hp]

theorem compare_single_modelled (l : List H) (cp : CommitProof) (i : Nat)
    (hi : cp.indices = [i]) (hne : l ≠ []) :
    Merkle.compare l cp = some (some .equal) ∨ Merkle.compare l cp = some (some (.contains [i])) ∨
    Merkle.compare l cp = some (some .unknown) := by
  obtain ⟨b, hb, _⟩ := root_flatten hne
  unfold Merkle.compare
  simp only [hb, hi]
  by_cases e : b = cp.root
  · simp [e]
  · simp only [e, if_false]
    cases hg : l[i]? with
    | none => simp [hg]
    | some x =>
      simp only [List.filterMap_cons, hg, List.filterMap_nil, List.length_cons, List.length_nil,
        if_true, verify]
      simp only [ne_eq, not_true_eq_false, if_false]
      by_cases hv : verifyRoot cp.hashes i x cp.length = some cp.root
      · by_cases hp : containsHead l cp.root [i] cp.length = true
        · simp [hv, hp]
        · simp [hv, hp]
      · simp [hv]

/-- On a non-empty log and for a single-index checkpoint, `patch_checked` answers
success or conflict (never an error). -/
theorem patchChecked_out (s : Sys) (o : Nat) (cp : CommitProof) (rs : List Rec) (i : Nat)
    (hi : cp.indices = [i]) (hne : s.trees o ≠ []) :
    (∃ hd, (patchChecked s o cp rs).2 = .patched hd) ∨
    (∃ hd k, (patchChecked s o cp rs).2 = .conflict hd k) := by
  obtain ⟨p, hp⟩ := head_some hne
  rcases compare_single_modelled (s.trees o) cp i hi hne with hc | hc | hc
  · obtain ⟨hd, h⟩ := patchChecked_equal s o cp rs hc
    left; exact ⟨hd, by rw [h]⟩
  · right; unfold patchChecked; simp only [hc, hp]; exact ⟨_, _, rfl⟩
  · right; unfold patchChecked; simp only [hc, hp]; exact ⟨_, _, rfl⟩

/-- `event_patch` is its guarded body, or a refusal that leaves the state as it was. -/
theorem eventPatch_guard (s : Sys) (o : Nat) (c : Option H) (cp : CommitProof) (rs : List Rec) :
    eventPatch s o c cp rs = eventPatchCore s o c cp rs ∨
    ((eventPatch s o c cp rs).1 = s ∧
      ((∃ h, (eventPatch s o c cp rs).2 = .conflict h none) ∨
        ∃ e, (eventPatch s o c cp rs).2 = .err e)) := by
  unfold eventPatch
  cases c with
  | none => left; rfl
  | some c' =>
    simp only
    cases hst : staleRewind s o c' rs with
    | none => left; rfl
    | some r =>
      right
      simp only
      unfold staleRewind at hst
      split at hst
      · split at hst
        · cases hst; exact ⟨rfl, Or.inr ⟨_, rfl⟩⟩
        · split at hst
          · cases hst
          · cases hst; exact ⟨rfl, Or.inl ⟨_, rfl⟩⟩
      · cases hst; exact ⟨rfl, Or.inr ⟨_, rfl⟩⟩
      · cases hst

theorem eventPatchCore_cases (s : Sys) (o : Nat) (c : Option H) (cp : CommitProof) (rs : List Rec)
    (h : Inv s) (i : Nat) (hi : cp.indices = [i]) :
    (∃ hd, (eventPatchCore s o c cp rs).2 = .patched hd) ∨ Equiv (eventPatchCore s o c cp rs).1 s := by
  unfold eventPatchCore
  cases c with
  | none =>
    simp only
    rcases patchChecked_cases s o cp rs with ⟨_, hc⟩ | ⟨h1, _⟩
    · obtain ⟨hd, hp⟩ := patchChecked_equal s o cp rs hc
      left; exact ⟨hd, by rw [hp]⟩
    · right; rw [h1]; exact Equiv.refl s
  | some c =>
    simp only
    rcases rewind_out s o c with ⟨removed, hrs⟩ | ⟨e, he⟩
    · have hr : rewind s o c = ((rewind s o c).1, .records removed) := by rw [← hrs]
      rw [hr]
      simp only
      obtain ⟨k, _, hlt, _, _, h2, _⟩ := rewind_spec h hr
      have hne : (rewind s o c).1.trees o ≠ [] := by
        rw [h2]
        have hl : (s.trees o).length = (s.rowsOf o).length := by rw [h o]; simp
        intro e0
        have := congrArg List.length e0
        simp only [List.length_take, List.length_nil] at this
        omega
      rcases patchChecked_out (rewind s o c).1 o cp rs i hi hne with ⟨hd, hp⟩ | ⟨hd, kk, hp⟩
      · left
        generalize hpc : patchChecked (rewind s o c).1 o cp rs = res at hp
        obtain ⟨s2, out⟩ := res
        simp only at hp
        subst hp
        exact ⟨hd, rfl⟩
      · right
        have hroll := rewind_rollback h hr
        rcases patchChecked_cases (rewind s o c).1 o cp rs with ⟨_, hc⟩ | ⟨h1, _, _⟩
        · obtain ⟨hd2, hp2⟩ := patchChecked_equal (rewind s o c).1 o cp rs hc
          rw [hp2] at hp; cases hp
        · generalize hpc : patchChecked (rewind s o c).1 o cp rs = res at hp h1
          obtain ⟨s2, out⟩ := res
          simp only at hp h1
          subst hp h1
          exact hroll
    · have hr : rewind s o c = ((rewind s o c).1, .err e) := by rw [← he]
      rw [hr]
      right
      rw [rewind_err_unchanged hr]; exact Equiv.refl s

theorem eventPatch_cases (s : Sys) (o : Nat) (c : Option H) (cp : CommitProof) (rs : List Rec)
    (h : Inv s) (i : Nat) (hi : cp.indices = [i]) :
    (∃ hd, (eventPatch s o c cp rs).2 = .patched hd) ∨ Equiv (eventPatch s o c cp rs).1 s := by
  rcases eventPatch_guard s o c cp rs with hc | ⟨hs, _⟩
  · rw [hc]; exact eventPatchCore_cases s o c cp rs h i hi
  · right; rw [hs]; exact Equiv.refl s

end Sos.Log
