import SosModel.Folder
namespace Sos.Folder

def keys (s : Secrets) : List Nat := s.map (·.1)

theorem get?_none_iff {s : Secrets} {id : Nat} : s.get? id = none ↔ id ∉ keys s := by
  induction s with
  | nil => simp [Secrets.get?, keys]
  | cons p rest ih =>
    obtain ⟨k, w⟩ := p
    by_cases h : k = id
    · subst h; simp [Secrets.get?, keys]
    · have : ¬ id = k := fun e => h e.symm
      simp only [Secrets.get?, h, if_false, keys, List.map_cons, List.mem_cons, this, false_or]
      exact ih

theorem insert_absent {s : Secrets} {id v : Nat} (h : id ∉ keys s) :
    Secrets.insert s id v = s ++ [(id, v)] := by
  induction s with
  | nil => rfl
  | cons p rest ih =>
    obtain ⟨k, w⟩ := p
    simp only [keys, List.map_cons, List.mem_cons, not_or] at h
    have hk : ¬ k = id := fun e => h.1 e.symm
    simp only [Secrets.insert, hk, if_false, List.cons_append]
    rw [ih h.2]

theorem insert_get_self {s : Secrets} {id w : Nat} (h : s.get? id = some w) :
    Secrets.insert s id w = s := by
  induction s with
  | nil => simp [Secrets.get?] at h
  | cons p rest ih =>
    obtain ⟨k, x⟩ := p
    by_cases hk : k = id
    · subst hk
      simp [Secrets.get?] at h
      simp [Secrets.insert, h]
    · simp only [Secrets.insert, hk, if_false]
      have : Secrets.get? rest id = some w := by
        simpa [Secrets.get?, hk] using h
      rw [ih this]

theorem get?_append_absent {s : Secrets} {id v : Nat} (h : id ∉ keys s) :
    (s ++ [(id, v)]).get? id = some v := by
  induction s with
  | nil => simp [Secrets.get?]
  | cons p rest ih =>
    obtain ⟨k, w⟩ := p
    simp only [keys, List.map_cons, List.mem_cons, not_or] at h
    have hk : ¬ k = id := fun e => h.1 e.symm
    have := ih h.2
    simpa [Secrets.get?, hk] using this

theorem keys_insert (s : Secrets) (id v : Nat) :
    keys (Secrets.insert s id v) = if id ∈ keys s then keys s else keys s ++ [id] := by
  induction s with
  | nil => simp [Secrets.insert, keys]
  | cons p rest ih =>
    obtain ⟨k, w⟩ := p
    by_cases hk : k = id
    · subst hk; simp [Secrets.insert, keys]
    · have hne : ¬ id = k := fun e => hk e.symm
      simp only [Secrets.insert, hk, if_false, keys, List.map_cons, List.mem_cons, hne, false_or]
      simp only [keys] at ih
      rw [ih]
      by_cases hm : id ∈ List.map (fun x => x.fst) rest <;> simp [hm]

theorem nodup_insert {s : Secrets} (h : (keys s).Nodup) (id v : Nat) :
    (keys (Secrets.insert s id v)).Nodup := by
  rw [keys_insert]
  split
  · exact h
  · rename_i hn
    rw [List.nodup_append]
    refine ⟨h, by simp, ?_⟩
    intro a ha b hb
    simp at hb; subst hb
    intro e; subst e; exact hn ha

theorem nodup_remove {s : Secrets} (h : (keys s).Nodup) (id : Nat) :
    (keys (Secrets.remove s id)).Nodup := by
  unfold Secrets.remove keys
  exact (List.filter_sublist.map _).nodup h

/-- inserting the entries of a key-distinct map one by one rebuilds it -/
theorem foldl_insert_rebuild (s acc : Secrets) (hs : (keys (acc ++ s)).Nodup) :
    s.foldl (fun a p => Secrets.insert a p.1 p.2) acc = acc ++ s := by
  induction s generalizing acc with
  | nil => simp
  | cons p rest ih =>
    obtain ⟨k, w⟩ := p
    simp only [List.foldl_cons]
    have hk : k ∉ keys acc := by
      simp only [keys, List.map_append, List.map_cons] at hs
      have := (List.nodup_append.mp hs).2.2
      intro hmem
      exact this k hmem k (by simp) rfl
    rw [insert_absent hk]
    have : (keys ((acc ++ [(k, w)]) ++ rest)).Nodup := by simpa using hs
    rw [ih _ this]
    simp

end Sos.Folder
