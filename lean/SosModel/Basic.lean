def hello := "world"
