/-
  Search index bookkeeping (crates/search/src/search.rs) and the places that call it:
  local edits (crates/storage/client/src/secret_storage.rs) and merge replay
  (crates/storage/client/src/folder_sync.rs).  Ranking (probly-search) is not modelled,
  only document membership, the data a document carries, and the counters.
-/
import SosModel.Folder
namespace Sos.Search
open Sos.Folder

/-- what a document carries for the purposes of C20: content token (label, tags, kind) and
the favourite flag -/
structure Doc where
  content : Nat
  fav : Bool
  kind : Nat := 0
  tags : List Nat := []              -- a set in the code: a tag counts once per document
deriving DecidableEq, Repr

structure Index where
  docs : List ((Nat × Nat) × Doc)      -- key: (folder, secret)
  vaults : Nat → Nat                   -- per-folder counter
  favorites : Nat
  kinds : Nat → Nat := fun _ => 0      -- per-kind counter; documents of the archive folder are not counted
  tags : Nat → Nat := fun _ => 0       -- per-tag counter
  archive : Option Nat := none         -- the archive folder, when the account has one

def Index.empty : Index := { docs := [], vaults := fun _ => 0, favorites := 0 }


def findIn : List ((Nat × Nat) × Doc) → Nat × Nat → Option Doc
  | [], _ => none
  | (k, d) :: rest, key => if k = key then some d else findIn rest key

def Index.find (ix : Index) (f s : Nat) : Option Doc := findIn ix.docs (f, s)

/-- `prepare` + `commit`: no duplicate for the same (folder, secret) -/
def Index.add (ix : Index) (f s : Nat) (d : Doc) : Index :=
  if (ix.find f s).isSome then ix else
  { ix with
    docs := ix.docs ++ [((f, s), d)],
    vaults := fun x => if x = f then ix.vaults f + 1 else ix.vaults x,
    favorites := if d.fav then ix.favorites + 1 else ix.favorites,
    kinds := fun k => if k = d.kind ∧ ix.archive ≠ some f then ix.kinds k + 1 else ix.kinds k,   -- `is_archived` guard
    tags := fun t => if t ∈ d.tags then ix.tags t + 1 else ix.tags t }

/-- `remove`: only a document that was in the index changes the counters -/
def Index.remove (ix : Index) (f s : Nat) : Index :=
  match ix.find f s with
  | none => ix
  | some d =>
    { ix with
      docs := ix.docs.filter (·.1 ≠ (f, s)),
      vaults := fun x => if x = f then ix.vaults f - 1 else ix.vaults x,
      favorites := if d.fav then ix.favorites - 1 else ix.favorites,
      kinds := fun k => if k = d.kind ∧ ix.archive ≠ some f then ix.kinds k - 1 else ix.kinds k,
      tags := fun t => if t ∈ d.tags then ix.tags t - 1 else ix.tags t }

def Index.update (ix : Index) (f s : Nat) (d : Doc) : Index := (ix.remove f s).add f s d

/-- One folder's live secrets as the index sees them: secret id ↦ document data. -/
abbrev Live := List (Nat × Doc)

def Live.get? : Live → Nat → Option Doc
  | [], _ => none
  | (k, d) :: rest, s => if k = s then some d else Live.get? rest s

/-- a local edit of folder `f` together with the index call made next to it -/
inductive LocalOp where
  | create (s : Nat) (d : Doc)       -- fresh id
  | update (s : Nat) (d : Doc)
  | delete (s : Nat)

structure Sys where
  live : Live           -- folder f's secrets
  ix : Index

def localStep (f : Nat) (st : Sys) : LocalOp → Sys
  | .create s d =>
    if (st.live.get? s).isSome then st else
    { live := st.live ++ [(s, d)], ix := st.ix.add f s d }
  | .update s d =>
    if (st.live.get? s).isSome then
      { live := st.live.map (fun p => if p.1 = s then (s, d) else p), ix := st.ix.update f s d }
    else st
  | .delete s =>
    if (st.live.get? s).isSome then
      { live := st.live.filter (·.1 ≠ s), ix := st.ix.remove f s }
    else st

/-- an incoming event replayed by `FolderMerge::merge` with `FolderMergeOptions::Search` -/
inductive MergeEv where
  | create (s : Nat) (d : Doc)
  | update (s : Nat) (d : Doc)
  | delete (s : Nat)

def mergeStep (f : Nat) (st : Sys) : MergeEv → Sys
  | .create s d =>
    -- prepare before, commit after `create_secret` (which keeps an existing entry)
    let live' := if (st.live.get? s).isSome then st.live else st.live ++ [(s, d)]
    { live := live', ix := st.ix.add f s d }
  | .update s d =>
    -- index.remove; prepare; update_secret (only if present); commit
    let live' := if (st.live.get? s).isSome then st.live.map (fun p => if p.1 = s then (s, d) else p)
                 else st.live
    { live := live', ix := (st.ix.remove f s).add f s d }
  | .delete s =>
    { live := st.live.filter (·.1 ≠ s), ix := st.ix.remove f s }

end Sos.Search
