/-
  Sync / auto-merge at the level of one event log (every log type runs the same
  algorithm: crates/protocol/src/diff.rs, crates/remote_sync/src/{remote,auto_merge}.rs,
  crates/storage/server/src/server_helpers.rs).  A replica's log is its list of
  records; commits are symbolic digests, times are numbers.
-/
import SosModel.Log
namespace Sos.Sync
open Sos Sos.Merkle Sos.Log

abbrev LogSeq := List Rec

def commits (l : LogSeq) : List H := l.map (·.commit)

/-- `Vec::sort_by(|a, b| a.time().cmp(b.time()))`: stable sort by time (insertion sort
from the right is stable: equal times keep their original order). -/
def sortByTime : LogSeq → LogSeq
  | [] => []
  | x :: xs => insertByTime' x (sortByTime xs)
where
  /-- insert before the first strictly later record, i.e. before equal-time records that
  came later in the input -/
  insertByTime' (r : Rec) : LogSeq → LogSeq
    | [] => [r]
    | y :: ys => if y.time < r.time then y :: insertByTime' r ys else r :: y :: ys

inductive MergeStatus where
  | rewindLocal (records : LogSeq)
  | pushRemote (records : LogSeq)
deriving Repr, DecidableEq

def notIn (remote : LogSeq) (r : Rec) : Bool := !(commits remote).contains r.commit

/-- `AutoMerge::merge_patches` (as repaired: a local record whose commit is already in the
remote patch is not added a second time). -/
def mergePatches (local_ remote : LogSeq) : MergeStatus :=
  if (commits local_).all (fun c => (commits remote).contains c) then .rewindLocal remote
  else .pushRemote (sortByTime (local_.filter (notIn remote) ++ remote))

/-- records after the newest record whose commit is `c` (`diff_records(Some(c))`) -/
def after (l : LogSeq) (c : H) : Option LogSeq :=
  (findLast l c).map (fun k => l.drop (k + 1))

/-- `rewind(c)` on a bare sequence -/
def upTo (l : LogSeq) (c : H) : Option LogSeq :=
  (findLast l c).map (fun k => l.take (k + 1))

/-- what one side sends for a log given the other side's state (`SyncComparison::diff`) -/
inductive Offer where
  | nothing
  | patch (records : LogSeq)          -- fast-forward: records the other side lacks
  | compare                           -- diverged: ask the other side to compare
deriving Repr, DecidableEq

def offer (mine other : LogSeq) : Offer :=
  match head (commits other) with
  | none => .compare
  | some p =>
    match compare (commits mine) p with
    | some (some .equal) => .nothing
    | some (some (.contains _)) =>
      (match other.getLast? with
       | some lastRec =>
         (match after mine lastRec.commit with
          | some recs => if recs.isEmpty then .nothing else .patch recs
          | none => .compare)
       | none => .compare)
    | _ => .compare

/-- Outcome of one `sync` call for one log. -/
inductive Outcome where
  | inSync | pushed | pulled | merged | rewound | hardConflict | noAncestor | stuck
deriving Repr, DecidableEq

/-- The ancestor search over the wire: position in the *local* log (same index as on
the remote). -/
def ancestor (local_ remote : LogSeq) : Scan := scan (commits local_) (commits remote)

/-- One sequential `sync` call of a device for one log: returns (local', remote', outcome). -/
def syncLog (local_ remote : LogSeq) : LogSeq × LogSeq × Outcome :=
  if commits local_ = commits remote then (local_, remote, .inSync) else
  match offer local_ remote with
  | .patch recs =>
    -- server: patch_checked with the checkpoint being its own head: accepted
    (local_, remote ++ recs, .pushed)
  | .nothing | .compare =>
    match offer remote local_ with
    | .patch recs => (local_ ++ recs, remote, .pulled)
    | .nothing => (local_, remote, .stuck)
    | .compare =>
      -- both sides answer "unknown": soft conflict -> auto merge
      match ancestor local_ remote with
      | .hard => (remote, remote, .hardConflict)          -- fetch + force merge
      | .exhausted | .unmodelled => (local_, remote, .noAncestor)
      | .found i c _ =>
        match after local_ c, after remote c, upTo local_ c, upTo remote c with
        | some lp, some rp, some lbase, some rbase =>
          (match mergePatches lp rp with
           | .rewindLocal recs =>
             -- local rewinds to the ancestor commit, checked patch against the scan checkpoint
             if commits lbase = commits (local_.take (i + 1)) then (lbase ++ recs, remote, .rewound)
             else (local_, remote, .stuck)
           | .pushRemote recs =>
             -- server event_patch: rewind + patch_checked(checkpoint = head of local prefix)
             if commits rbase = commits (local_.take (i + 1)) then
               (if commits lbase = commits (local_.take (i + 1)) then (lbase ++ recs, rbase ++ recs, .merged)
                else (local_, rbase ++ recs, .stuck))
             else (local_, remote, .stuck))
        | _, _, _, _ => (local_, remote, .stuck)

end Sos.Sync
