/-
  Byte-level model of the secret codec (crates/vault/src/encoding/secret.rs):
  `SecretMeta`, `Secret` (all 15 kinds), `SecretRow`, `UserData` (custom fields nest:
  a field is a row whose secret carries user data with fields …).

  Every decode arm of the source is a straight line of primitive reads; the model keeps
  that line as a schema (a list of fields) per kind and one generic reader / writer per
  field.  The translator extracts the sequence of reads of every arm from the source and
  `Props/C14.lean` proves that it equals the fingerprint of the schema below.

  Payloads that the source hands to an external parser (URL / JSON list of URLs, PEM,
  vCard, TOTP JSON, age identity, URN) are kept as the raw string; whether the parser
  accepts them is a parameter (`Ext`).

  Recursion on the input needs fuel; running out of fuel is modelled as `panic`, so the
  C15 theorem "no panic for every input" is at the same time the proof that the fuel
  (the input length + 1) is always enough.
-/
import SosModel.Codec
namespace Sos.Codec
open Sos

inductive ExtP where
  | url | pem | vcard | totp | age | urn | owner
deriving DecidableEq, Repr

/-- the external parsers: which payloads they accept -/
structure Ext where
  ok : ExtP → Bytes → Bool

/-- the owner id is parsed into a `String` (`String::from_str` cannot fail) -/
def Ext.accepts (ext : Ext) (p : ExtP) (s : Bytes) : Bool :=
  match p with
  | .owner => true
  | _ => ext.ok p s

/-- one primitive step of a decode arm -/
inductive SFld where
  | str                         -- read_string
  | extStr (p : ExtP)           -- read_string, then an external parser
  | optStr                      -- read_bool, read_string when true
  | optExtStr (p : ExtP)
  | date                        -- UtcDateTime::decode
  | optDate
  | bool
  | u8In (allowed : List Nat)   -- read_u8 + TryFrom
  | u32Mask (mask : Nat)        -- read_u32 + from_bits
  | u64
  | lenBytes                    -- read_u32 + read_bytes
  | extLenBytes (p : ExtP)      -- read_u32 + read_bytes, then an external parser
  | fixed (n : Nat)             -- read_bytes(n)
  | strs                        -- read_u32, that many strings inserted into a set
  | pairs                       -- read_u32, that many (string, string) inserted into a map
deriving DecidableEq, Repr

/-- the value a step yields; it carries its own encoding -/
inductive SVal where
  | str (s : Bytes)
  | optStr (o : Option Bytes)
  | date (d : DateTime)
  | optDate (o : Option DateTime)
  | bool (b : Bool)
  | u8 (n : Nat)
  | u32 (n : Nat)
  | u64 (n : Nat)
  | bytes (b : Bytes)           -- length-prefixed
  | raw (b : Bytes)             -- fixed size, no prefix
  | strs (l : List Bytes)
  | pairs (l : List (Bytes × Bytes))
deriving DecidableEq, Repr

/-- a field of an arm: a primitive step, or a tag byte selecting one of several lines -/
inductive Fld where
  | s (f : SFld)
  | choice (alts : List (Nat × List SFld))
deriving Repr

inductive Val where
  | s (v : SVal)
  | choice (tag : Nat) (vs : List SVal)
deriving DecidableEq, Repr

/-! ### writers -/

def insertStr (l : List Bytes) (s : Bytes) : List Bytes := if l.contains s then l else l ++ [s]

def insertPair (l : List (Bytes × Bytes)) (kv : Bytes × Bytes) : List (Bytes × Bytes) :=
  if l.any (fun e => e.1 == kv.1) then l.map (fun e => if e.1 == kv.1 then kv else e) else l ++ [kv]

def encPair (kv : Bytes × Bytes) : Bytes := encString kv.1 ++ encString kv.2

def encSVal : SVal → Bytes
  | .str s => encString s
  | .optStr o => encOpt encString o
  | .date d => encDateTime d
  | .optDate o => encOpt encDateTime o
  | .bool b => encBool b
  | .u8 n => encU8 n
  | .u32 n => encU32 n
  | .u64 n => encU64 n
  | .bytes b => encLenBytes b
  | .raw b => b
  | .strs l => encVec encString l
  | .pairs l => encVec encPair l

def encSVals (vs : List SVal) : Bytes := (vs.map encSVal).flatten

def encVal : Val → Bytes
  | .s v => encSVal v
  | .choice t vs => encU8 t ++ encSVals vs

def encVals (vs : List Val) : Bytes := (vs.map encVal).flatten

/-! ### readers -/

def readExtStr (ext : Ext) (p : ExtP) : Dec Bytes := fun b => (readString b).bind fun s rest =>
  if ext.accepts p s then ret s rest else fail

/-- `for _ in 0..count { set.insert(read_string()) }` -/
def readStrs : Nat → List Bytes → Dec (List Bytes)
  | 0, acc => ret acc
  | n + 1, acc => fun b => (readString b).bind fun s rest => readStrs n (insertStr acc s) rest

def readPairs : Nat → List (Bytes × Bytes) → Dec (List (Bytes × Bytes))
  | 0, acc => ret acc
  | n + 1, acc => fun b => (readString b).bind fun k rest => (readString rest).bind fun v rest =>
      readPairs n (insertPair acc (k, v)) rest

def readSFld (ext : Ext) : SFld → Dec SVal
  | .str => fun b => (readString b).bind fun s rest => ret (.str s) rest
  | .extStr p => fun b => (readExtStr ext p b).bind fun s rest => ret (.str s) rest
  | .optStr => fun b => (readBool b).bind fun h rest => (readOpt h readString rest).bind fun o rest => ret (.optStr o) rest
  | .optExtStr p => fun b => (readBool b).bind fun h rest => (readOpt h (readExtStr ext p) rest).bind fun o rest => ret (.optStr o) rest
  | .date => fun b => (readDateTime b).bind fun d rest => ret (.date d) rest
  | .optDate => fun b => (readBool b).bind fun h rest => (readOpt h readDateTime rest).bind fun o rest => ret (.optDate o) rest
  | .bool => fun b => (readBool b).bind fun x rest => ret (.bool x) rest
  | .u8In allowed => fun b => (readU8 b).bind fun n rest => if allowed.contains n then ret (.u8 n) rest else fail
  | .u32Mask mask => fun b => (readU32 b).bind fun n rest => if n &&& mask = n then ret (.u32 n) rest else fail
  | .u64 => fun b => (readU64 b).bind fun n rest => ret (.u64 n) rest
  | .lenBytes => fun b => (readLenBytes b).bind fun x rest => ret (.bytes x) rest
  | .extLenBytes p => fun b => (readLenBytes b).bind fun x rest => if ext.accepts p x then ret (.bytes x) rest else fail
  | .fixed n => fun b => (readN n b).bind fun x rest => ret (.raw x) rest
  | .strs => fun b => (readU32 b).bind fun n rest => (readStrs n [] rest).bind fun l rest => ret (.strs l) rest
  | .pairs => fun b => (readU32 b).bind fun n rest => (readPairs n [] rest).bind fun l rest => ret (.pairs l) rest

def readSFlds (ext : Ext) : List SFld → Dec (List SVal)
  | [] => ret []
  | f :: fs => fun b => (readSFld ext f b).bind fun v rest => (readSFlds ext fs rest).bind fun vs rest => ret (v :: vs) rest

def readFld (ext : Ext) : Fld → Dec Val
  | .s f => fun b => (readSFld ext f b).bind fun v rest => ret (.s v) rest
  | .choice alts => fun b => (readU8 b).bind fun t rest =>
      match alts.lookup t with
      | none => fail
      | some fs => (readSFlds ext fs rest).bind fun vs rest => ret (.choice t vs) rest

def readFlds (ext : Ext) : List Fld → Dec (List Val)
  | [] => ret []
  | f :: fs => fun b => (readFld ext f b).bind fun v rest => (readFlds ext fs rest).bind fun vs rest => ret (v :: vs) rest

/-! ### the arms (crates/vault/src/encoding/secret.rs, `impl Decodable for Secret`) -/

def fileAlts : List (Nat × List SFld) :=
  [(1, [.str, .str, .lenBytes, .fixed 32]),     -- embedded: name, mime, buffer, checksum
   (2, [.str, .str, .fixed 32, .u64])]          -- external: name, mime, checksum, size

def signerAlts : List (Nat × List SFld) := [(1, [.lenBytes]), (2, [.lenBytes])]

/-- `AgeVersion::decode`: one version, no payload -/
def ageAlts : List (Nat × List SFld) := [(1, [])]

def identityKinds : List Nat := [1, 2, 3, 4, 5, 6, 7]
def secretKinds : List Nat := [1, 2, 3, 4, 5, 6, 7, 8, 9, 10, 11, 12, 13, 14, 15]

/-- kind tag ↦ the reads of its arm, before the user data -/
def schema : Nat → Option (List Fld)
  | 1 => some [.s .str, .s .str, .s (.optExtStr .url)]                       -- Account
  | 2 => some [.s .str]                                                       -- Note
  | 3 => some [.s .pairs]                                                     -- List
  | 4 => some [.choice fileAlts]                                              -- File
  | 5 => some [.s (.extStr .pem)]                                             -- Pem
  | 6 => some [.s .str, .s .str, .s .str]                                     -- Page
  | 7 => some [.s (.u8In identityKinds), .s .str, .s .optStr, .s .optDate, .s .optDate]   -- Identity
  | 8 => some [.choice signerAlts]                                            -- Signer
  | 9 => some [.s (.extStr .vcard)]                                           -- Contact
  | 10 => some [.s (.extLenBytes .totp)]                                      -- Totp
  | 11 => some [.s .str, .s .optDate, .s .str, .s .optStr, .s .optStr]        -- Card
  | 12 => some [.s .str, .s .str, .s .optStr, .s .optStr, .s .optStr]         -- Bank
  | 13 => some [.s .str, .s .optStr, .s .optStr]                              -- Link
  | 14 => some [.s .str, .s .optStr]                                          -- Password
  | 15 => some [.choice ageAlts, .s (.extStr .age)]                           -- Age
  | _ => none

/-- `SecretMeta::decode`: kind, flags, two dates, label, tags, urn, owner id, favourite -/
def metaSchema : List Fld :=
  [.s (.u8In secretKinds), .s (.u32Mask 1), .s .date, .s .date, .s .str, .s .strs,
   .s (.optExtStr .urn), .s (.optExtStr .owner), .s .bool]

/-! ### secrets, user data, rows -/

mutual
inductive Secret where
  | mk (kind : Nat) (vals : List Val) (ud : UserData)
inductive UserData where
  | mk (fields : SRows) (comment : Option Bytes) (note : Option Bytes)
inductive SRows where
  | nil
  | cons (r : SRow) (rs : SRows)
inductive SRow where
  | mk (id : Bytes) (mt : List Val) (secret : Secret)
end

def SRows.length : SRows → Nat
  | .nil => 0
  | .cons _ rs => rs.length + 1

mutual
def encSecret : Secret → Bytes
  | .mk k vs ud => encU8 k ++ (encVals vs ++ encUD ud)
def encUD : UserData → Bytes
  | .mk rs c n => encU32 rs.length ++ (encSRows rs ++ (encOpt encString c ++ encOpt encString n))
def encSRows : SRows → Bytes
  | .nil => []
  | .cons r rs => encSRow r ++ encSRows rs
def encSRow : SRow → Bytes
  | .mk id m s => id ++ (encVals m ++ encSecret s)
end

def fuelOut : Out α := ⟨.panic, 0⟩

mutual
/-- `Secret::decode` -/
def readSecret (ext : Ext) : Nat → Dec Secret
  | 0 => fun _ => fuelOut
  | f + 1 => fun b => (readU8 b).bind fun k rest =>
      match schema k with
      | none => fail
      | some flds => (readFlds ext flds rest).bind fun vs rest =>
          (readUD ext f rest).bind fun ud rest => ret (.mk k vs ud) rest
/-- `read_user_data` -/
def readUD (ext : Ext) : Nat → Dec UserData
  | 0 => fun _ => fuelOut
  | f + 1 => fun b => (readU32 b).bind fun n rest => (readSRows ext f n rest).bind fun rs rest =>
      (readBool rest).bind fun hc rest => (readOpt hc readString rest).bind fun c rest =>
      (readBool rest).bind fun hn rest => (readOpt hn readString rest).bind fun nt rest =>
      ret (.mk rs c nt) rest
/-- `for _ in 0..count { SecretRow::decode }` -/
def readSRows (ext : Ext) : Nat → Nat → Dec SRows
  | 0, _ => fun _ => fuelOut
  | _ + 1, 0 => ret .nil
  | f + 1, n + 1 => fun b => (readSRow ext f b).bind fun r rest =>
      (readSRows ext f n rest).bind fun rs rest => ret (.cons r rs) rest
/-- `SecretRow::decode` -/
def readSRow (ext : Ext) : Nat → Dec SRow
  | 0 => fun _ => fuelOut
  | f + 1 => fun b => (readFixed 16 b).bind fun id rest => (readFlds ext metaSchema rest).bind fun m rest =>
      (readSecret ext f rest).bind fun s rest => ret (.mk id m s) rest
end

/-! unfolding equations of the recursive readers -/

theorem readSecret_succ (ext : Ext) (f : Nat) (b : Bytes) :
    readSecret ext (f + 1) b = (readU8 b).bind fun k rest =>
      match schema k with
      | none => fail
      | some flds => (readFlds ext flds rest).bind fun vs rest =>
          (readUD ext f rest).bind fun ud rest => ret (Secret.mk k vs ud) rest := by
  rw [readSecret] <;> rfl

theorem readUD_succ (ext : Ext) (f : Nat) (b : Bytes) :
    readUD ext (f + 1) b = (readU32 b).bind fun n rest => (readSRows ext f n rest).bind fun rs rest =>
      (readBool rest).bind fun hc rest => (readOpt hc readString rest).bind fun c rest =>
      (readBool rest).bind fun hn rest => (readOpt hn readString rest).bind fun nt rest =>
      ret (UserData.mk rs c nt) rest := by
  rw [readUD] <;> rfl

theorem readSRows_zero (ext : Ext) (f : Nat) (b : Bytes) :
    readSRows ext (f + 1) 0 b = ret SRows.nil b := by
  rw [readSRows]

theorem readSRows_succ (ext : Ext) (f n : Nat) (b : Bytes) :
    readSRows ext (f + 1) (n + 1) b = (readSRow ext f b).bind fun r rest =>
      (readSRows ext f n rest).bind fun rs rest => ret (SRows.cons r rs) rest := by
  rw [readSRows]

theorem readSRow_succ (ext : Ext) (f : Nat) (b : Bytes) :
    readSRow ext (f + 1) b = (readFixed 16 b).bind fun id rest => (readFlds ext metaSchema rest).bind fun m rest =>
      (readSecret ext f rest).bind fun s rest => ret (SRow.mk id m s) rest := by
  rw [readSRow] <;> rfl

/-- enough fuel for any input: every recursive call happens after at least one byte was
consumed, except `readSRows → readSRow`, which is paid for by the 16-byte row id -/
def fuelFor (b : Bytes) : Nat := 2 * b.length + 4

def decodeSecret (ext : Ext) : Dec Secret := fun b => readSecret ext (fuelFor b) b
def decodeSRow (ext : Ext) : Dec SRow := fun b => readSRow ext (fuelFor b) b
def decodeMeta (ext : Ext) : Dec (List Val) := readFlds ext metaSchema

/-! ### fingerprint of the schema, compared with what the translator reads from the source -/

def SFld.reads : SFld → List String
  | .str => ["read_string"]
  | .extStr _ => ["read_string", "parse"]
  | .optStr => ["read_bool", "read_string"]
  | .optExtStr _ => ["read_bool", "read_string", "parse"]
  | .date => ["decode"]
  | .optDate => ["read_bool", "decode"]
  | .bool => ["read_bool"]
  | .u8In _ => ["read_u8", "try_into"]
  | .u32Mask _ => ["from_bits", "read_u32"]
  | .u64 => ["read_u64"]
  | .lenBytes => ["read_u32", "read_bytes"]
  | .extLenBytes _ => ["read_u32", "read_bytes", "parse"]
  | .fixed _ => ["read_bytes", "try_into"]
  | .strs => ["read_u32", "loop", "read_string"]
  | .pairs => ["read_u32", "loop", "read_string", "read_string"]

def SFld.writes : SFld → List String
  | .str | .extStr _ => ["write_string"]
  | .optStr | .optExtStr _ => ["write_bool", "write_string"]
  | .date => ["encode"]
  | .optDate => ["write_bool", "encode"]
  | .bool => ["write_bool"]
  | .u8In _ => ["write_u8"]
  | .u32Mask _ => ["write_u32"]
  | .u64 => ["write_u64"]
  | .lenBytes | .extLenBytes _ => ["write_u32", "write_bytes"]
  | .fixed _ => ["write_bytes"]
  | .strs => ["write_u32", "loop", "write_string"]
  | .pairs => ["write_u32", "loop", "write_string", "write_string"]

def Fld.writes : Fld → List String
  | .s f => f.writes
  | .choice _ => ["encode"]

def fldsWrites (flds : List Fld) : List String := (flds.map Fld.writes).flatten

def modelSecretEncArms : List (String × List String) :=
  Generated.secretKindTags.map fun (v, t) =>
    match schema t with
    | some flds => (v, fldsWrites flds ++ ["write_user_data"])
    | none => (v, ["?"])

def Fld.reads : Fld → List String
  | .s f => f.reads
  | .choice _ => ["decode"]          -- a nested Decodable (FileContent, SecretSigner)

def fldsReads (flds : List Fld) : List String := (flds.map Fld.reads).flatten
def armReads (flds : List Fld) : List String := fldsReads flds ++ ["read_user_data"]

/-- reads without the external parsers, and how many payloads go to one -/
def fingerprint (reads : List String) : List String × Nat :=
  (reads.filter (· != "parse"), (reads.filter (· == "parse")).length)

def modelSecretArms : List (String × List String × Nat) :=
  Generated.secretKindTags.map fun (v, t) =>
    match schema t with
    | some flds => (v, fingerprint (armReads flds))
    | none => (v, [], 999)

def modelChoiceArms : List (String × List (Nat × List String × Nat)) :=
  [("FileContent", fileAlts), ("SecretSigner", signerAlts), ("AgeVersion", ageAlts)].map fun (ty, alts) =>
    (ty, alts.map fun (t, fs) => (t, fingerprint ((fs.map SFld.reads).flatten)))

end Sos.Codec
