/-
  Symbolic model of the SDK's use of authenticated encryption and key derivation
  (crates/core/src/crypto, crates/vault/src/{vault,access_point}.rs).

  Ciphers and KDFs are free constructors: `kdf alg input salt` is injective, a ciphertext
  is the term `(key, nonce, plaintext)` and opens only with the same key, the same nonce and
  untouched bytes.  These are DEFINITIONS of the model (assumptions on AES-GCM / XChaCha20 /
  Argon2), not theorems; the theorems are about how the SDK uses them.
-/
import SosModel.Codec
namespace Sos.Crypto
open Sos

inductive Key where
  | kdf (alg : Nat) (input salt : Bytes)        -- SHA-256 of the PHC string of KDF(password ++ seed, salt)
  | random (n : Nat)
deriving DecidableEq, Repr

/-- `Deriver::derive(password, salt, seed)`: the KDF input is `password ++ seed`. -/
def derive (alg : Nat) (password : Bytes) (salt : Bytes) (seed : Option Bytes) : Key :=
  .kdf alg (password ++ (seed.getD [])) salt

inductive CipherId where
  | xchacha | aesgcm
deriving DecidableEq, Repr

def nonceLen : CipherId → Nat
  | .xchacha => 24
  | .aesgcm => 12

/-- symbolic AEAD box: which key sealed which plaintext under which nonce -/
structure Box where
  key : Key
  nonce : Nat
  pt : Bytes
deriving DecidableEq, Repr

/-- the stored pack: nonce length (decides which cipher may open it) and the box -/
structure Pack where
  nonceBytes : Nat
  box : Box
deriving DecidableEq, Repr

def encrypt (c : CipherId) (k : Key) (nonce : Nat) (pt : Bytes) : Pack :=
  { nonceBytes := nonceLen c, box := { key := k, nonce := nonce, pt := pt } }

/-- `decrypt_symmetric`: the nonce length must be the cipher's, the key the sealing key -/
def decrypt (c : CipherId) (k : Key) (p : Pack) : Option Bytes :=
  if p.nonceBytes ≠ nonceLen c then none
  else if p.box.key = k then some p.box.pt else none

/-- A folder key's encryption history: every encryption draws the next fresh nonce
(`Nonce::new_random_*`, modelled as a counter: the RNG never repeats). -/
structure KeyUse where
  next : Nat
  made : List Pack

def KeyUse.seal (u : KeyUse) (c : CipherId) (k : Key) (pt : Bytes) : KeyUse × Pack :=
  let p := encrypt c k u.next pt
  ({ next := u.next + 1, made := u.made ++ [p] }, p)

/-- The third cipher (X25519 through the age format, shared folders): the age ciphertext is
self-contained (recipients, payload, MAC); the pack's nonce field is random filler that
`x25519::decrypt` never reads. -/
structure AgePack where
  nonceField : Bytes
  recipients : List Nat            -- identities the file key was wrapped for
  pt : Bytes
deriving DecidableEq, Repr

def encryptAge (nonceField : Bytes) (recipients : List Nat) (pt : Bytes) : AgePack :=
  { nonceField := nonceField, recipients := recipients, pt := pt }

def decryptAge (identity : Nat) (p : AgePack) : Option Bytes :=
  if p.recipients.contains identity then some p.pt else none

/-- `AccessPoint`: the vault's parameters, its sealed meta data and the key installed by the
last successful `unlock` (none = locked). -/
structure AccessPoint where
  cipher : CipherId
  alg : Nat
  salt : Bytes
  seed : Option Bytes
  sealedMeta : Pack
  installed : Option Key := none

/-- `AccessPoint::unlock`: derive, install, read the meta data; a key that does not open the
meta data does not stay installed.  `unlockOld` is the code before the repair. -/
def AccessPoint.unlock (ap : AccessPoint) (password : Bytes) : AccessPoint × Bool :=
  let k := derive ap.alg password ap.salt ap.seed
  match decrypt ap.cipher k ap.sealedMeta with
  | some _ => ({ ap with installed := some k }, true)
  | none => ({ ap with installed := none }, false)

def AccessPoint.unlockOld (ap : AccessPoint) (password : Bytes) : AccessPoint × Bool :=
  let k := derive ap.alg password ap.salt ap.seed
  ({ ap with installed := some k }, (decrypt ap.cipher k ap.sealedMeta).isSome)

/-- writing a row needs an installed key (`VaultLocked` otherwise) -/
def AccessPoint.canWrite (ap : AccessPoint) : Bool := ap.installed.isSome

/-- `Vault::verify(key)`: derive the key and try to open the encrypted vault meta data; the
answer is whether that worked (nothing is unlocked) -/
def verify (c : CipherId) (alg : Nat) (salt : Bytes) (seed : Option Bytes) (sealedMeta : Pack) (password : Bytes) : Bool :=
  (decrypt c (derive alg password salt seed) sealedMeta).isSome

end Sos.Crypto
