/-
  Byte-level model of the SDK's binary encoding (crates/core/src/encoding/v1,
  binary-stream 10 little-endian primitives, 16 MiB `max_buffer_size` guard).

  A decoder returns the value and the unread rest, `error`, or `panic`, together
  with the largest single allocation it requested (`alloc`) so that C15's
  "memory in proportion to the input" can be stated.
-/
import SosModel.Base
import SosModel.Generated
namespace Sos.Codec
open Sos

inductive R (α : Type) where
  | ok (v : α) (rest : Bytes)
  | error
  | panic
deriving Repr, DecidableEq

structure Out (α : Type) where
  res : R α
  alloc : Nat

abbrev Dec (α : Type) := Bytes → Out α

def ret (v : α) : Dec α := fun b => ⟨.ok v b, 0⟩
def fail : Out α := ⟨.error, 0⟩

def Out.bind (m : Out α) (f : α → Bytes → Out β) : Out β :=
  match m.res with
  | .ok v rest => let o := f v rest; ⟨o.res, max m.alloc o.alloc⟩
  | .error => ⟨.error, m.alloc⟩
  | .panic => ⟨.panic, m.alloc⟩

def cap : Nat := Generated.maxBufferSize

/-- little-endian bytes of `n` on `k` bytes -/
def leBytes : Nat → Nat → Bytes
  | 0, _ => []
  | k + 1, n => UInt8.ofNat (n % 256) :: leBytes k (n / 256)

def leVal : Bytes → Nat
  | [] => 0
  | b :: bs => b.toNat + 256 * leVal bs

/-- fixed-size read into a stack buffer (`read_u8` … `read_u64`): no guard, no allocation -/
def readFixed (k : Nat) : Dec Bytes := fun b =>
  if b.length < k then fail else ⟨.ok (b.take k) (b.drop k), 0⟩

/-- `read_bytes(n)`: size guard, then `vec![0; n]`, then `read_exact` -/
def readN (n : Nat) : Dec Bytes := fun b =>
  if n > cap then fail
  else if b.length < n then ⟨.error, n⟩
  else ⟨.ok (b.take n) (b.drop n), n⟩

def readNat (k : Nat) : Dec Nat := fun b => (readFixed k b).bind fun bs rest => ret (leVal bs) rest
def readU8 : Dec Nat := readNat 1
def readU16 : Dec Nat := readNat 2
def readU32 : Dec Nat := readNat 4
def readU64 : Dec Nat := readNat 8

def encU8 (n : Nat) : Bytes := leBytes 1 n
def encU16 (n : Nat) : Bytes := leBytes 2 n
def encU32 (n : Nat) : Bytes := leBytes 4 n
def encU64 (n : Nat) : Bytes := leBytes 8 n

def readI64 : Dec Int := fun b => (readNat 8 b).bind fun v rest =>
  ret (if v < 2 ^ 63 then (v : Int) else (v : Int) - 2 ^ 64) rest
def encI64 (i : Int) : Bytes := leBytes 8 (if i ≥ 0 then i.toNat else (i + 2 ^ 64).toNat)

/-- u32 length prefix followed by that many bytes (`read_u32` + `read_bytes`) -/
def readLenBytes : Dec Bytes := fun b => (readU32 b).bind fun n rest => readN n rest
def encLenBytes (bs : Bytes) : Bytes := encU32 bs.length ++ bs

/-- UTF-8 validity as decided by `String::from_utf8` (executable; opaque in proofs) -/
def utf8Ok (b : Bytes) : Bool := (String.fromUTF8? ⟨b.toArray⟩).isSome

/-- `read_string` (32-bit length): guard, allocate, read, validate -/
def readString : Dec Bytes := fun b => (readLenBytes b).bind fun s rest =>
  if utf8Ok s then ret s rest else fail
def encString (s : Bytes) : Bytes := encLenBytes s

/-! ### UtcDateTime -/

structure DateTime where
  secs : Int
  nanos : Nat
deriving Repr, DecidableEq

def minSecs : Int := -377705116800     -- -9999-01-01T00:00:00Z
def maxSecs : Int := 253402300799      -- 9999-12-31T23:59:59Z
def nanosPerSec : Nat := 1000000000

/-- `OffsetDateTime::from_unix_timestamp(secs)?.checked_add(nanos)?` -/
def readDateTime : Dec DateTime := fun b => (readI64 b).bind fun secs rest =>
  (readU32 rest).bind fun nanos rest =>
    if secs < minSecs ∨ secs > maxSecs then fail else
    let total : Int := secs * nanosPerSec + nanos
    if total > maxSecs * nanosPerSec + 999999999 then fail else
    ret { secs := total / nanosPerSec, nanos := (total % nanosPerSec).toNat } rest
def encDateTime (t : DateTime) : Bytes := encI64 t.secs ++ encU32 t.nanos

/-! ### commits -/

/-- `MerkleProof::from_bytes`: concatenated 32-byte hashes -/
def chunks32 : Nat → Bytes → Option (List Bytes)
  | _, [] => some []
  | 0, _ => none
  | f + 1, b => if b.length < 32 then none else (chunks32 f (b.drop 32)).map (b.take 32 :: ·)

structure Proof where
  root : Bytes
  hashes : List Bytes
  length : Nat
  indices : List Nat
deriving Repr, DecidableEq

/-- `Vec<T>::decode`: u32 count then the items (no pre-allocation) -/
def readMany (item : Dec α) : Nat → Dec (List α)
  | 0 => ret []
  | n + 1 => fun b => (item b).bind fun x rest => (readMany item n rest).bind fun xs rest => ret (x :: xs) rest

def readVec (item : Dec α) : Dec (List α) := fun b => (readU32 b).bind fun n rest => readMany item n rest
def encVec (enc : α → Bytes) (xs : List α) : Bytes := encU32 xs.length ++ (xs.map enc).flatten

def readProof : Dec Proof := fun b => (readN 32 b).bind fun root rest =>
  (readLenBytes rest).bind fun pb rest =>
    match chunks32 (pb.length + 1) pb with
    | none => fail
    | some hs => (readU64 rest).bind fun len rest => (readVec readU64 rest).bind fun ix rest =>
        ret { root := root, hashes := hs, length := len, indices := ix } rest
def encProof (p : Proof) : Bytes :=
  p.root ++ encLenBytes p.hashes.flatten ++ encU64 p.length ++ encVec encU64 p.indices

structure CommitState where
  commit : Bytes
  proof : Proof
deriving Repr, DecidableEq
def readCommitState : Dec CommitState := fun b => (readN 32 b).bind fun c rest =>
  (readProof rest).bind fun p rest => ret { commit := c, proof := p } rest
def encCommitState (s : CommitState) : Bytes := s.commit ++ encProof s.proof

inductive Cmp where
  | equal | contains (ix : List Nat) | unknown
deriving Repr, DecidableEq
def readCmp : Dec Cmp := fun b => (readU8 b).bind fun k rest =>
  if k = 1 then ret .equal rest
  else if k = 2 then (readVec readU64 rest).bind fun ix rest => ret (.contains ix) rest
  else if k = 3 then ret .unknown rest
  else fail
def encCmp : Cmp → Bytes
  | .equal => encU8 1
  | .contains ix => encU8 2 ++ encVec encU64 ix
  | .unknown => encU8 3

/-! ### crypto containers -/

structure AeadPack where
  nonce : Bytes        -- 12 or 24 bytes
  ct : Bytes
deriving Repr, DecidableEq
def readAead : Dec AeadPack := fun b => (readU8 b).bind fun n rest => (readN n rest).bind fun nonce rest =>
  if n = 12 ∨ n = 24 then (readLenBytes rest).bind fun ct rest => ret { nonce := nonce, ct := ct } rest
  else fail
def encAead (p : AeadPack) : Bytes := encU8 p.nonce.length ++ p.nonce ++ encLenBytes p.ct

structure VaultEntry where
  metaP : AeadPack
  secret : AeadPack
deriving Repr, DecidableEq
def readEntry : Dec VaultEntry := fun b => (readAead b).bind fun m rest => (readAead rest).bind fun s rest =>
  ret { metaP := m, secret := s } rest
def encEntry (e : VaultEntry) : Bytes := encAead e.metaP ++ encAead e.secret

structure VaultCommit where
  commit : Bytes
  entry : VaultEntry
deriving Repr, DecidableEq
/-- the u32 row length is back-patched by the encoder and ignored by the decoder -/
def readVaultCommit : Dec VaultCommit := fun b => (readN 32 b).bind fun c rest => (readU32 rest).bind fun _ rest =>
  (readEntry rest).bind fun e rest => ret { commit := c, entry := e } rest
def encVaultCommit (c : VaultCommit) : Bytes :=
  c.commit ++ encU32 (encEntry c.entry).length ++ encEntry c.entry

/-! ### event kinds (tables regenerated from the source on every run) -/

def tagOf (variant : String) : Nat :=
  match Generated.kindEnc.lookup variant with
  | some t => t
  | none => 65536            -- not a u16: makes every use visible (proved unreachable below)

def kindOfTag (t : Nat) : Option String := Generated.kindDec.lookup t

def readKind : Dec String := fun b => (readU16 b).bind fun t rest =>
  match kindOfTag t with
  | some k => ret k rest
  | none => fail

/-! ### events -/

inductive WriteEvent where
  | createVault (b : Bytes)
  | setVaultName (s : Bytes)
  | setVaultFlags (f : Nat)
  | setVaultMeta (p : AeadPack)
  | createSecret (id : Bytes) (c : VaultCommit)
  | updateSecret (id : Bytes) (c : VaultCommit)
  | deleteSecret (id : Bytes)
deriving Repr, DecidableEq

def flagsOk (f : Nat) : Bool := f &&& Generated.vaultFlagsMask = f

def readWriteEvent : Dec WriteEvent := fun b => (readKind b).bind fun k rest =>
  if k = "CreateVault" then (readLenBytes rest).bind fun v rest => ret (.createVault v) rest
  else if k = "SetVaultName" then (readString rest).bind fun s rest => ret (.setVaultName s) rest
  else if k = "SetVaultFlags" then (readU64 rest).bind fun f rest =>
    if flagsOk f then ret (.setVaultFlags f) rest else fail
  else if k = "SetVaultMeta" then (readAead rest).bind fun p rest => ret (.setVaultMeta p) rest
  else if k = "CreateSecret" then (readN 16 rest).bind fun id rest => (readVaultCommit rest).bind fun c rest =>
    ret (.createSecret id c) rest
  else if k = "UpdateSecret" then (readN 16 rest).bind fun id rest => (readVaultCommit rest).bind fun c rest =>
    ret (.updateSecret id c) rest
  else if k = "DeleteSecret" then (readN 16 rest).bind fun id rest => ret (.deleteSecret id) rest
  else fail

def encWriteEvent : WriteEvent → Bytes
  | .createVault v => encU16 (tagOf "CreateVault") ++ encLenBytes v
  | .setVaultName s => encU16 (tagOf "SetVaultName") ++ encString s
  | .setVaultFlags f => encU16 (tagOf "SetVaultFlags") ++ encU64 f
  | .setVaultMeta p => encU16 (tagOf "SetVaultMeta") ++ encAead p
  | .createSecret id c => encU16 (tagOf "CreateSecret") ++ id ++ encVaultCommit c
  | .updateSecret id c => encU16 (tagOf "UpdateSecret") ++ id ++ encVaultCommit c
  | .deleteSecret id => encU16 (tagOf "DeleteSecret") ++ id

/-- The decoder arms the model implements (kind, variant); proved equal to the arms
extracted from `impl Decodable for WriteEvent` (C14/C15 obligation). -/
def modelArmsWrite : List (String × String) :=
  [("Noop", "!error"), ("CreateVault", "CreateVault"), ("SetVaultName", "SetVaultName"),
   ("SetVaultFlags", "SetVaultFlags"), ("SetVaultMeta", "SetVaultMeta"),
   ("CreateSecret", "CreateSecret"), ("UpdateSecret", "UpdateSecret"),
   ("DeleteSecret", "DeleteSecret")]

inductive AccountEvent where
  | renameAccount (s : Bytes)
  | updateIdentity (b : Bytes)
  | createFolder (id : Bytes) (b : Bytes)
  | renameFolder (id : Bytes) (s : Bytes)
  | updateFolder (id : Bytes) (b : Bytes)
  | compactFolder (id : Bytes) (b : Bytes)
  | changeFolderPassword (id : Bytes) (b : Bytes)
  | deleteFolder (id : Bytes)
deriving Repr, DecidableEq

def readIdBuf (mk : Bytes → Bytes → AccountEvent) : Dec AccountEvent := fun b =>
  (readN 16 b).bind fun id rest => (readLenBytes rest).bind fun v rest => ret (mk id v) rest

def readAccountEvent : Dec AccountEvent := fun b => (readKind b).bind fun k rest =>
  if k = "RenameAccount" then (readString rest).bind fun s rest => ret (.renameAccount s) rest
  else if k = "UpdateIdentity" then (readLenBytes rest).bind fun v rest => ret (.updateIdentity v) rest
  else if k = "CreateVault" then readIdBuf .createFolder rest
  else if k = "ChangePassword" then readIdBuf .changeFolderPassword rest
  else if k = "UpdateVault" then readIdBuf .updateFolder rest
  else if k = "CompactVault" then readIdBuf .compactFolder rest
  else if k = "SetVaultName" then (readN 16 rest).bind fun id rest => (readString rest).bind fun s rest =>
    ret (.renameFolder id s) rest
  else if k = "DeleteVault" then (readN 16 rest).bind fun id rest => ret (.deleteFolder id) rest
  else fail

def encAccountEvent : AccountEvent → Bytes
  | .renameAccount s => encU16 (tagOf "RenameAccount") ++ encString s
  | .updateIdentity v => encU16 (tagOf "UpdateIdentity") ++ encLenBytes v
  | .createFolder id v => encU16 (tagOf "CreateVault") ++ id ++ encLenBytes v
  | .renameFolder id s => encU16 (tagOf "SetVaultName") ++ id ++ encString s
  | .updateFolder id v => encU16 (tagOf "UpdateVault") ++ id ++ encLenBytes v
  | .compactFolder id v => encU16 (tagOf "CompactVault") ++ id ++ encLenBytes v
  | .changeFolderPassword id v => encU16 (tagOf "ChangePassword") ++ id ++ encLenBytes v
  | .deleteFolder id => encU16 (tagOf "DeleteVault") ++ id

def modelArmsAccount : List (String × String) :=
  [("Noop", "!error"), ("RenameAccount", "RenameAccount"), ("UpdateIdentity", "UpdateIdentity"),
   ("CreateVault", "CreateFolder"), ("ChangePassword", "ChangeFolderPassword"),
   ("UpdateVault", "UpdateFolder"), ("CompactVault", "CompactFolder"),
   ("SetVaultName", "RenameFolder"), ("DeleteVault", "DeleteFolder")]

/-- `DeviceEvent::Trust` carries serde_json of `TrustedDevice`: outside the model. -/
inductive DeviceEvent where
  | revoke (key : Bytes)
  | trustUnmodelled
deriving Repr, DecidableEq

def readDeviceEvent : Dec DeviceEvent := fun b => (readKind b).bind fun k rest =>
  if k = "RevokeDevice" then (readN 32 rest).bind fun key rest => ret (.revoke key) rest
  else if k = "TrustDevice" then ret .trustUnmodelled rest
  else fail
def encDeviceEvent : DeviceEvent → Bytes
  | .revoke key => encU16 (tagOf "RevokeDevice") ++ key
  | .trustUnmodelled => encU16 (tagOf "TrustDevice")

def modelArmsDevice : List (String × String) :=
  [("Noop", "!error"), ("TrustDevice", "Trust"), ("RevokeDevice", "Revoke")]

inductive FileEvent where
  | createFile (folder secret name : Bytes)
  | deleteFile (folder secret name : Bytes)
  | moveFile (name fromFolder fromSecret destFolder destSecret : Bytes)
deriving Repr, DecidableEq

def readFileEvent : Dec FileEvent := fun b => (readKind b).bind fun k rest =>
  if k = "CreateFile" then (readN 16 rest).bind fun f rest => (readN 16 rest).bind fun s rest =>
    (readN 32 rest).bind fun n rest => ret (.createFile f s n) rest
  else if k = "DeleteFile" then (readN 16 rest).bind fun f rest => (readN 16 rest).bind fun s rest =>
    (readN 32 rest).bind fun n rest => ret (.deleteFile f s n) rest
  else if k = "MoveFile" then (readN 32 rest).bind fun n rest => (readN 16 rest).bind fun ff rest =>
    (readN 16 rest).bind fun fs rest => (readN 16 rest).bind fun df rest => (readN 16 rest).bind fun ds rest =>
      ret (.moveFile n ff fs df ds) rest
  else fail
def encFileEvent : FileEvent → Bytes
  | .createFile f s n => encU16 (tagOf "CreateFile") ++ f ++ s ++ n
  | .deleteFile f s n => encU16 (tagOf "DeleteFile") ++ f ++ s ++ n
  | .moveFile n ff fs df ds => encU16 (tagOf "MoveFile") ++ n ++ ff ++ fs ++ df ++ ds

def modelArmsFile : List (String × String) :=
  [("Noop", "!error"), ("CreateFile", "CreateFile"), ("DeleteFile", "DeleteFile"), ("MoveFile", "MoveFile")]

/-! ### event record (the framed row: length prefix and suffix are ignored on decode) -/

structure EventRecord where
  time : DateTime
  last : Bytes
  commit : Bytes
  event : Bytes
deriving Repr, DecidableEq

def encRecordBody (r : EventRecord) : Bytes :=
  encDateTime r.time ++ r.last ++ r.commit ++ encLenBytes r.event
def encRecord (r : EventRecord) : Bytes :=
  encU32 (encRecordBody r).length ++ encRecordBody r ++ encU32 (encRecordBody r).length
def readRecord : Dec EventRecord := fun b => (readU32 b).bind fun _ rest => (readDateTime rest).bind fun t rest =>
  (readN 32 rest).bind fun l rest => (readN 32 rest).bind fun c rest => (readLenBytes rest).bind fun e rest =>
    (readU32 rest).bind fun _ rest => ret { time := t, last := l, commit := c, event := e } rest


/-! ### vault header and contents (crates/vault/src/encoding/vault.rs) -/

/-- `read_bool`: any non-zero byte is true -/
def readBool : Dec Bool := fun b => (readU8 b).bind fun n rest => ret (decide (n > 0)) rest
def encBool (x : Bool) : Bytes := encU8 (if x then 1 else 0)

def readOpt (present : Bool) (d : Dec α) : Dec (Option α) := fun b =>
  if present then (d b).bind fun v rest => ret (some v) rest else ret none b

structure VaultMeta where
  created : DateTime
  description : Bytes
deriving Repr, DecidableEq
def readVaultMeta : Dec VaultMeta := fun b => (readDateTime b).bind fun t rest =>
  (readString rest).bind fun d rest => ret { created := t, description := d } rest
def encVaultMeta (m : VaultMeta) : Bytes := encDateTime m.created ++ encString m.description

structure Auth where
  salt : Option Bytes
  seed : Option Bytes          -- 32 bytes
deriving Repr, DecidableEq
def readAuth : Dec Auth := fun b => (readBool b).bind fun hs rest =>
  (readOpt hs readString rest).bind fun salt rest => (readBool rest).bind fun hd rest =>
    (readOpt hd (readN 32) rest).bind fun seed rest => ret { salt := salt, seed := seed } rest
def encOpt (enc : α → Bytes) : Option α → Bytes
  | none => encBool false
  | some v => encBool true ++ enc v
def encAuth (a : Auth) : Bytes := encOpt encString a.salt ++ encOpt id a.seed

/-- one-byte identifier that must be in a table regenerated from the source -/
def readId (table : List (String × Nat)) : Dec Nat := fun b => (readU8 b).bind fun n rest =>
  if table.any (fun e => e.2 == n) then ret n rest else fail

structure Summary where
  version : Nat
  cipher : Nat
  kdf : Nat
  id : Bytes                    -- 16 bytes
  name : Bytes
  flags : Nat
deriving Repr, DecidableEq
def readSummary : Dec Summary := fun b => (readU16 b).bind fun v rest =>
  (readId Generated.cipherIds rest).bind fun c rest => (readId Generated.kdfIds rest).bind fun k rest =>
    (readN 16 rest).bind fun i rest => (readString rest).bind fun n rest => (readU64 rest).bind fun f rest =>
      if flagsOk f then ret { version := v, cipher := c, kdf := k, id := i, name := n, flags := f } rest else fail
def encSummary (s : Summary) : Bytes :=
  encU16 s.version ++ encU8 s.cipher ++ encU8 s.kdf ++ s.id ++ encString s.name ++ encU64 s.flags

inductive SharedAccess where
  | write (recipients : List Bytes)      -- age recipients; their syntax check is not modelled
  | readOnly (p : AeadPack)
deriving Repr, DecidableEq
def readShared : Dec SharedAccess := fun b => (readU8 b).bind fun k rest =>
  if k = 1 then (readU16 rest).bind fun n rest => (readMany readString n rest).bind fun rs rest => ret (.write rs) rest
  else if k = 2 then (readAead rest).bind fun p rest => ret (.readOnly p) rest
  else fail
def encShared : SharedAccess → Bytes
  | .write rs => encU8 1 ++ encU16 rs.length ++ (rs.map encString).flatten
  | .readOnly p => encU8 2 ++ encAead p

def vaultIdentity : Bytes := [0x53, 0x4F, 0x53, 0x56]

structure Header where
  summary : Summary
  metaP : Option AeadPack
  auth : Auth
  shared : SharedAccess
deriving Repr, DecidableEq
/-- identity bytes, a back-patched u32 header length the decoder ignores, then the fields -/
def readHeader : Dec Header := fun b => (readFixed 4 b).bind fun idb rest =>
  if idb = vaultIdentity then
    (readU32 rest).bind fun _ rest => (readSummary rest).bind fun s rest => (readBool rest).bind fun hm rest =>
      (readOpt hm readAead rest).bind fun m rest => (readAuth rest).bind fun a rest =>
        (readShared rest).bind fun sh rest => ret { summary := s, metaP := m, auth := a, shared := sh } rest
  else fail
def encHeaderBody (h : Header) : Bytes :=
  encSummary h.summary ++ encOpt encAead h.metaP ++ encAuth h.auth ++ encShared h.shared
def encHeader (h : Header) : Bytes := vaultIdentity ++ encU32 (encHeaderBody h).length ++ encHeaderBody h

/-- one row of the vault contents: length, secret id, commit + entry, length again (both
lengths back-patched by the encoder and ignored by the decoder) -/
def readRow : Dec (Bytes × VaultCommit) := fun b => (readU32 b).bind fun _ rest => (readN 16 rest).bind fun i rest =>
  (readVaultCommit rest).bind fun c rest => (readU32 rest).bind fun _ rest => ret (i, c) rest
def encRow (r : Bytes × VaultCommit) : Bytes :=
  let body := r.1 ++ encVaultCommit r.2
  encU32 body.length ++ body ++ encU32 body.length

/-- `IndexMap::insert`: an existing key keeps its position and gets the new value -/
def insertRow (rows : List (Bytes × VaultCommit)) (r : Bytes × VaultCommit) : List (Bytes × VaultCommit) :=
  if rows.any (fun x => x.1 == r.1) then rows.map (fun x => if x.1 == r.1 then r else x) else rows ++ [r]

/-- `Contents::decode`: rows until the input is exhausted (every row takes at least 24
bytes, so the input length is enough fuel) -/
def readRows : Nat → Dec (List (Bytes × VaultCommit))
  | 0 => fun b => if b = [] then ret [] b else fail
  | fuel + 1 => fun b =>
    if b = [] then ret [] b
    else (readRow b).bind fun r rest => (readRows fuel rest).bind fun rs rest => ret (r :: rs) rest
def readContents : Dec (List (Bytes × VaultCommit)) := fun b =>
  (readRows b.length b).bind fun rows rest => ret (rows.foldl insertRow []) rest
def encContents (rows : List (Bytes × VaultCommit)) : Bytes := (rows.map encRow).flatten

structure VaultFile where
  header : Header
  rows : List (Bytes × VaultCommit)
deriving Repr, DecidableEq
def readVault : Dec VaultFile := fun b => (readHeader b).bind fun h rest =>
  (readContents rest).bind fun rows rest => ret { header := h, rows := rows } rest
def encVault (v : VaultFile) : Bytes := encHeader v.header ++ encContents v.rows

end Sos.Codec
