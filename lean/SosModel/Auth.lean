/-
  The server's authorisation decision (crates/server/src/handlers/mod.rs
  authenticate_endpoint, authenticate.rs BearerToken, backend.rs verify_device,
  config.rs AccessControlConfig) over symbolic signatures.

  A signature is the pair (signing key, signed bytes); it verifies against a key and
  a message iff both are equal (Ed25519 modelled symbolically).
-/
import SosModel.Base
import SosModel.Generated
namespace Sos.Auth

structure Sig where
  key : Nat
  msg : Nat          -- identifier of the signed byte string
deriving DecidableEq, Repr

inductive Cred where
  | none                           -- no Authorization header
  | malformed                      -- not base58 / not an encoded signature / contains '.'
  | token (s : Sig)
deriving DecidableEq, Repr

structure Access where
  allow : Option (List Nat)
  deny : Option (List Nat)
deriving DecidableEq, Repr

/-- `AccessControlConfig::is_allowed_access` -/
def Access.allowed (a : Access) (acct : Nat) : Bool :=
  match a.deny, a.allow with
  | some d, none => !d.contains acct
  | none, some al => al.contains acct
  | some d, some al => if d.contains acct then false else al.contains acct     -- denied entries take precedence (as repaired)
  | none, none => true

structure Request where
  headerAccount : Option Nat       -- X-SOS-ACCOUNT-ID (parsed)
  cred : Cred
  signedBytes : Nat                -- what this route passes to authenticate_endpoint (body or path)
deriving DecidableEq, Repr

structure Server where
  access : Option Access
  trusted : Nat → Option (List Nat)      -- account ↦ its trusted device keys (none = no such account)

inductive Decision where
  | allow (acct : Nat)
  | badRequest                     -- 400
  | forbidden                      -- 403
deriving DecidableEq, Repr

/-- the access lists exclude this account -/
def blocked (srv : Server) (acct : Nat) : Bool :=
  match srv.access with
  | some a => !a.allowed acct
  | none => false

/-- `Backend::verify_device`: some trusted key verifies exactly the authenticated bytes -/
def signedBy (keys : List Nat) (s : Sig) (bytes : Nat) : Bool :=
  keys.any (fun k => k = s.key ∧ s.msg = bytes)

/-- `authenticate_endpoint` -/
def authenticate (srv : Server) (r : Request) : Decision :=
  match r.headerAccount, r.cred with
  | some acct, .token s =>
    if blocked srv acct then .forbidden else
    match srv.trusted acct with
    | none => .allow acct                      -- unknown account: nothing to verify against yet
    | some keys => if signedBy keys s r.signedBytes then .allow acct else .forbidden
  | _, _ => .badRequest

/-- `DeviceReducer`: trusted set after a device log (trust k / revoke k) -/
inductive DevEv where
  | trust (k : Nat)
  | revoke (k : Nat)
deriving DecidableEq, Repr

def devStep (acc : List Nat) : DevEv → List Nat
  | .trust k => if acc.contains k then acc else acc ++ [k]
  | .revoke k => acc.filter (· ≠ k)

def reduceDevices (log : List DevEv) : List Nat := log.foldl devStep []

/-! ### The server's device log and the cached trusted set (`ServerAccountStorage`)

`verify_device` consults the cache (`list_device_keys`), not the log.  `merge_device` appends a
patch and re-reduces; `force_merge_device` (update_account) replaces the whole log and
re-reduces. -/

structure DevStore where
  log : List DevEv
  cache : List Nat
deriving DecidableEq, Repr

inductive DevOp where
  | patch (evs : List DevEv)       -- merge_device: apply the patch, reduce, set_devices
  | force (log : List DevEv)       -- force_merge_device: replace_all_events, reduce, set_devices
deriving DecidableEq, Repr

def DevStore.apply (s : DevStore) : DevOp → DevStore
  | .patch evs => { log := s.log ++ evs, cache := reduceDevices (s.log ++ evs) }
  | .force l => { log := l, cache := reduceDevices l }

/-- account creation: the device log of the create set, reduced -/
def DevStore.create (log : List DevEv) : DevStore := { log := log, cache := reduceDevices log }

def DevStore.run (s : DevStore) (ops : List DevOp) : DevStore := ops.foldl DevStore.apply s

end Sos.Auth
