/-
  The parts of an account that the upgrade to the database backend carries over beside the
  event logs (crates/database_upgrader/src/upgrader/{mod.rs copy_file_blobs, db_import.rs
  import_globals / import_account}): external file blobs, preferences (global and per
  account), the server list (with the optional URL remapping).

  Blobs: `files/<vault>/<secret>/<name>` of every account is copied to
  `blobs/<account>/<vault>/<secret>/<name>`; the destination directory is created when it
  does not exist yet; `File::create` replaces an existing file of that name.
  Preferences: one table, a row belongs to an account or (owner = none) is global.
-/
import SosModel.Base
namespace Sos.Upgrade
open Sos

/-- vault id, secret id, file name (a digest) -/
structure BlobKey where
  vault : Nat
  secret : Nat
  name : Bytes
deriving DecidableEq, Repr

structure FsAccount where
  id : Nat
  files : List (BlobKey × Bytes)                 -- legacy files/ tree
  prefs : Option (List (String × String))        -- preferences file, when there is one
  servers : Option (List (String × String))      -- remote origins file: (name, url)
deriving Repr

structure FsData where
  globalPrefs : Option (List (String × String))
  accounts : List FsAccount
deriving Repr

structure PrefRow where
  owner : Option Nat
  key : String
  value : String
deriving DecidableEq, Repr

structure Db where
  blobs : List ((Nat × BlobKey) × Bytes)         -- blobs/<account>/<vault>/<secret>/<name>
  prefs : List PrefRow
  servers : List (Nat × String × String)
deriving Repr

def Db.empty : Db := { blobs := [], prefs := [], servers := [] }

/-- `File::create` + copy: the file of that name now holds these bytes -/
def putBlob (store : List ((Nat × BlobKey) × Bytes)) (k : Nat × BlobKey) (b : Bytes) : List ((Nat × BlobKey) × Bytes) :=
  if store.any (fun e => e.1 == k) then store.map (fun e => if e.1 == k then (k, b) else e) else store ++ [(k, b)]

def copyBlobs (acct : Nat) (files : List (BlobKey × Bytes)) (store : List ((Nat × BlobKey) × Bytes)) : List ((Nat × BlobKey) × Bytes) :=
  files.foldl (fun st f => putBlob st (acct, f.1) f.2) store

/-- `remap_servers`: a remapped origin takes the new URL as its name and URL -/
def remapServer (remap : String → Option String) (o : String × String) : String × String :=
  match remap o.2 with
  | some u => (u, u)
  | none => o

def importAccount (remap : String → Option String) (db : Db) (a : FsAccount) : Db :=
  { blobs := copyBlobs a.id a.files db.blobs,
    prefs := db.prefs ++ (a.prefs.getD []).map (fun kv => { owner := some a.id, key := kv.1, value := kv.2 }),
    servers := db.servers ++ (a.servers.getD []).map (fun o => (a.id, remapServer remap o)) }

def importGlobals (d : FsData) : Db :=
  { Db.empty with prefs := (d.globalPrefs.getD []).map (fun kv => { owner := none, key := kv.1, value := kv.2 }) }

def upgrade (remap : String → Option String) (d : FsData) : Db :=
  d.accounts.foldl (importAccount remap) (importGlobals d)

/-- what the upgraded account serves -/
def Db.blobsOf (db : Db) (acct : Nat) : List (BlobKey × Bytes) :=
  (db.blobs.filter (fun e => e.1.1 == acct)).map (fun e => (e.1.2, e.2))
def Db.prefsOf (db : Db) (owner : Option Nat) : List (String × String) :=
  (db.prefs.filter (fun r => r.owner == owner)).map (fun r => (r.key, r.value))
def Db.serversOf (db : Db) (acct : Nat) : List (String × String) :=
  (db.servers.filter (fun e => e.1 == acct)).map (fun e => e.2)

end Sos.Upgrade
