/-
  Backup archives (crates/backend/src/archive.rs, crates/{filesystem,database}/src/archive,
  crates/archive): a zip of named entries plus a manifest of SHA-256 checksums; import
  verifies every manifest entry against its checksum before restoring, and attachment entry
  names go through `sanitize_file_path` before being joined to the target directory.
-/
import SosModel.Base
namespace Sos.Archive
open Sos

structure Entry where
  name : Nat
  bytes : Bytes
deriving DecidableEq, Repr

structure Archive where
  entries : List Entry
  manifest : List (Nat × H)          -- entry name ↦ checksum
deriving DecidableEq, Repr

/-- export: every part of the account becomes an entry, the manifest lists its digest -/
def exportArchive (parts : List Entry) : Archive :=
  { entries := parts, manifest := parts.map fun e => (e.name, H.leaf e.bytes) }

def lookup (es : List Entry) (n : Nat) : Option Bytes := (es.find? (·.name = n)).map (·.bytes)

inductive ImportError where
  | missingEntry (n : Nat)
  | checksumMismatch (n : Nat)
deriving DecidableEq, Repr

/-- import: for each manifest line the entry must exist (first entry of that name) and hash to
the listed checksum; the verified parts are what is restored -/
def verifyAll (a : Archive) : List (Nat × H) → Except ImportError (List Entry)
  | [] => .ok []
  | (n, h) :: rest =>
    match lookup a.entries n with
    | none => .error (.missingEntry n)
    | some b =>
      if H.leaf b = h then
        match verifyAll a rest with
        | .ok es => .ok ({ name := n, bytes := b } :: es)
        | .error e => .error e
      else .error (.checksumMismatch n)

def importArchive (a : Archive) : Except ImportError (List Entry) := verifyAll a a.manifest

/-! ### entry names and the import target -/

/-- a path component of an entry name after splitting on `/` and `\` -/
inductive Comp where
  | normal (s : Nat)
  | dotdot
  | dot
  | empty            -- leading `/`, `C:` style prefixes and doubled separators give empty / reserved parts
deriving DecidableEq, Repr

/-- `sanitize_filename::sanitize` on one component: separators cannot occur (already split),
`.` and `..` become empty, anything else stays a plain name -/
def sanitizeComp : Comp → Comp
  | .normal s => .normal s
  | _ => .empty

def sanitizePath (p : List Comp) : List Comp := p.map sanitizeComp

/-- depth reached, relative to the import target, when the components are joined to it
(`none` = walked above the target) -/
def walk : Nat → List Comp → Option Nat
  | d, [] => some d
  | d, .normal _ :: rest => walk (d + 1) rest
  | d, .dot :: rest => walk d rest
  | d, .empty :: rest => walk d rest
  | 0, .dotdot :: _ => none
  | d + 1, .dotdot :: rest => walk d rest

end Sos.Archive
