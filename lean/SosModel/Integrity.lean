/-
  Integrity report (crates/integrity): every vault row and every event record carries the
  digest of its content; the report re-hashes and compares.  Content and digests are the
  symbolic hash terms of Base.lean.
-/
import SosModel.Base
namespace Sos.Integrity
open Sos

/-- a stored row: content bytes and the stored checksum -/
structure Row where
  content : Bytes
  checksum : H
deriving DecidableEq, Repr

/-- a folder as the report sees it: vault rows and event records, or a missing part -/
structure FolderStore where
  vaultPresent : Bool
  logPresent : Bool
  vaultRows : List Row
  eventRows : List Row
deriving DecidableEq, Repr

def rowOk (r : Row) : Bool := H.leaf r.content = r.checksum

inductive Failure where
  | missingFolder
  | corrupted (expected actual : H)
deriving DecidableEq, Repr

/-- failures reported for one folder (`check_folder`: missing parts first, then every vault
row and event record that does not hash to its stored checksum) -/
def report (f : FolderStore) : List Failure :=
  if !f.vaultPresent || !f.logPresent then [.missingFolder] else
  (f.vaultRows ++ f.eventRows).filterMap fun r =>
    if rowOk r then none else some (.corrupted r.checksum (H.leaf r.content))

/-- what writing a row stores: the digest of the content -/
def mkRow (content : Bytes) : Row := { content := content, checksum := H.leaf content }

/-! ### external file blobs (`file_integrity`) -/

/-- an expected external file: the digest that names it and what is on disk (`none` = absent) -/
structure BlobFile where
  name : H
  onDisk : Option Bytes
deriving DecidableEq, Repr

inductive FileFailure where
  | missingFile (name : H)
  | corruptedFile (name actual : H)
deriving DecidableEq, Repr

def checkFile (f : BlobFile) : Option FileFailure :=
  match f.onDisk with
  | none => some (.missingFile f.name)
  | some bytes => if H.leaf bytes = f.name then none else some (.corruptedFile f.name (H.leaf bytes))

/-- failures reported for a set of expected files -/
def fileReport (files : List BlobFile) : List FileFailure := files.filterMap checkFile

/-- what storing a blob leaves on disk: the bytes under the name of their digest -/
def mkBlob (bytes : Bytes) : BlobFile := { name := H.leaf bytes, onDisk := some bytes }

end Sos.Integrity
