/-
  What the SDK persists and sends, as symbolic terms, and what an observer holding every
  byte (but no key) can derive (Dolev-Yao).
-/
import SosModel.Base
import SosModel.Generated
namespace Sos.Secrecy

inductive Term where
  | pub (tag : Nat)                 -- ids, names, flags, timestamps, hashes, kinds: stored in the clear
  | secret (s : Nat)                -- a secret's label, tags, fields, attachment bytes, description, folder password, signing key
  | key (k : Nat)
  | enc (k : Nat) (t : Term)        -- AEAD / age encryption under key k
  | pair (a b : Term)
deriving DecidableEq, Repr

/-- every `secret` (and every `key`) occurrence lies under an encryption -/
def Guarded : Term → Prop
  | .pub _ => True
  | .secret _ => False
  | .key _ => False
  | .enc _ _ => True
  | .pair a b => Guarded a ∧ Guarded b

/-- what can be computed from a set of observed terms without any key -/
inductive Derivable (S : Term → Prop) : Term → Prop where
  | obs {t} : S t → Derivable S t
  | fst {a b} : Derivable S (.pair a b) → Derivable S a
  | snd {a b} : Derivable S (.pair a b) → Derivable S b
  | dec {k t} : Derivable S (.enc k t) → Derivable S (.key k) → Derivable S t

/-! ### skeletons of what is written / sent (one per artefact kind) -/

/-- a vault row or a CreateSecret / UpdateSecret event: id and commit hash in the clear, meta
data and value each sealed under the folder key -/
def secretRow (id commit folderKey metaS value : Nat) : Term :=
  .pair (.pub id) (.pair (.pub commit) (.pair (.enc folderKey (.secret metaS)) (.enc folderKey (.secret value))))

/-- vault header / CreateVault / SetVaultMeta: name and flags clear, description sealed -/
def vaultHeader (name flags folderKey desc : Nat) : Term :=
  .pair (.pub name) (.pair (.pub flags) (.enc folderKey (.secret desc)))

/-- identity vault entry holding a folder password or the account signing key, sealed under
the identity key (derived from the account password) -/
def identityEntry (id identityKey material : Nat) : Term :=
  .pair (.pub id) (.enc identityKey (.secret material))

/-- external file blob: the name is the digest of the ciphertext (public), the bytes are age
encrypted under the folder password -/
def fileBlob (nameHash folderKey contents : Nat) : Term :=
  .pair (.pub nameHash) (.enc folderKey (.secret contents))

/-- events that carry only identifiers / names -/
def clearEvent (kind a b : Nat) : Term := .pair (.pub kind) (.pair (.pub a) (.pub b))

/-- audit row -/
def auditRow (time kind account id : Nat) : Term := .pair (.pub time) (.pair (.pub kind) (.pair (.pub account) (.pub id)))

/-- sync messages are tuples of commit proofs / states (public) and event records -/
def message (status : Nat) (records : List Term) : Term :=
  records.foldr (fun r acc => .pair r acc) (.pub status)

end Sos.Secrecy
