/-
  C13  Crash consistency of the file-system backend, as a model of
    crates/filesystem/src/event_log.rs   (apply_records, rewind, load_tree, replace_all_events)
    crates/filesystem/src/vault_writer.rs (insert_secret = append; write_header / splice = rewrite)
    crates/backend/src/folder.rs          (vault mirror written first, then the event appended)

  A storage operation is a list of primitive file-system steps.  A crash leaves the state
  after any prefix of that list and, inside an append, after any byte prefix of the appended
  bytes.  `openLog` is what `load_tree` reads on the next start (complete rows; a torn tail is
  discarded), `openVault` what decoding a vault file accepts (complete rows only).
-/
import SosModel.Codec
namespace Sos.Crash
open Sos Sos.Codec

/-- A stored row: 4-byte little-endian length, body, the same length again. -/
def frame (body : Bytes) : Bytes := leBytes 4 body.length ++ (body ++ leBytes 4 body.length)

def encRows : List Bytes → Bytes
  | [] => []
  | r :: rs => frame r ++ encRows rs

/-- Forward scan of the rows of a file (after its header): the complete rows and the bytes
left over (empty unless the tail is torn).  Every step consumes at least 8 bytes, so the
length of the input is enough fuel. -/
def scan : Nat → Bytes → List Bytes × Bytes
  | 0, b => ([], b)
  | fuel + 1, b =>
    if b.length < 4 then ([], b)
    else
      let n := leVal (b.take 4)
      if b.length < n + 8 then ([], b)
      else
        let r := scan fuel (b.drop (n + 8))
        ((b.drop 4).take n :: r.1, r.2)

/-- `load_tree` (event log): the complete records; a torn tail is cut off. -/
def openLog (b : Bytes) : List Bytes := (scan b.length b).1

/-- Decoding a vault file: every row must be complete. -/
def openVault (b : Bytes) : Option (List Bytes) :=
  let r := scan b.length b
  if r.2 = [] then some r.1 else none

/-! ## Files and primitive steps -/

inductive P where
  | vault | log | tmp | snap
deriving DecidableEq, Repr

structure FS where
  vault : Option Bytes
  log : Option Bytes
  tmp : Option Bytes
  snap : Option Bytes
deriving DecidableEq, Repr

def FS.get (s : FS) : P → Option Bytes
  | .vault => s.vault | .log => s.log | .tmp => s.tmp | .snap => s.snap

def FS.set (s : FS) (p : P) (v : Option Bytes) : FS :=
  match p with
  | .vault => { s with vault := v } | .log => { s with log := v }
  | .tmp => { s with tmp := v } | .snap => { s with snap := v }

inductive Prim where
  | append (p : P) (b : Bytes)      -- one write_all at the end of the file
  | setLen (p : P) (n : Nat)        -- set_len / open with truncate
  | create (p : P)                  -- create or truncate to empty
  | rename (src dst : P)
  | remove (p : P)
  | copy (src dst : P)
deriving Repr

def Prim.run (s : FS) : Prim → FS
  | .append p b => s.set p (some ((s.get p).getD [] ++ b))
  | .setLen p n => s.set p ((s.get p).map (·.take n))
  | .create p => s.set p (some [])
  | .rename a b => (s.set b (s.get a)).set a none
  | .remove p => s.set p none
  | .copy a b => s.set b (s.get a)

/-- states a crash can leave while one primitive step is in progress: before it, after it,
and for an append every byte prefix of the appended bytes -/
def Prim.crashStates (s : FS) : Prim → List FS
  | .append p b => (List.range (b.length + 1)).map fun n => s.set p (some ((s.get p).getD [] ++ b.take n))
  | q => [s, q.run s]

def runAll (s : FS) : List Prim → FS
  | [] => s
  | q :: qs => runAll (q.run s) qs

def crashStates (s : FS) : List Prim → List FS
  | [] => [s]
  | q :: qs => q.crashStates s ++ crashStates (q.run s) qs

/-! ## The storage operations as primitive steps -/

/-- `apply_records`: all records in one buffer, one write. -/
def applyRecords (new : List Bytes) : List Prim := [.append .log (encRows new)]

/-- `rewind`: one `set_len` (the header of `hdr` bytes and the first `keep` rows stay). -/
def rewind (hdr : Nat) (rows : List Bytes) (keep : Nat) : List Prim :=
  [.setLen .log (hdr + (encRows (rows.take keep)).length)]

/-- `replace_all_events`: snapshot copy, truncate and write the identity, write the records,
remove the snapshot. -/
def replaceAll (hdr : Bytes) (new : List Bytes) : List Prim :=
  [.copy .log .snap, .setLen .log 0, .append .log hdr, .append .log (encRows new), .remove .snap]

/-- vault `write_header` / `splice` (as repaired): temporary file, then rename. -/
def vaultRewrite (content : Bytes) : List Prim :=
  [.create .tmp, .append .tmp content, .rename .tmp .vault]

/-- vault `insert_secret`: one appended row. -/
def vaultAppend (row : Bytes) : List Prim := [.append .vault (frame row)]

/-- A folder edit (`Folder::create_secret`, `update_secret`, `rename_folder`, …): the vault
mirror first, then the event. -/
def folderEdit (vaultSteps : List Prim) (event : Bytes) : List Prim := vaultSteps ++ applyRecords [event]

/-- what the next start reads from the log file with a header of `hdr` bytes -/
def logView (hdr : Nat) (s : FS) : List Bytes := openLog ((s.log.getD []).drop hdr)

/-- What opening an event log does first (`initialize_event_log`, as repaired): a file shorter
than its header holds no records and gets its header written again. -/
def initLog (hdr : Bytes) (s : FS) : FS :=
  if (s.log.getD []).length < hdr.length then { s with log := some hdr } else s

/-- before the repair only an EMPTY file was initialised -/
def initLogOld (hdr : Bytes) (s : FS) : FS :=
  if (s.log.getD []).length = 0 then { s with log := some hdr } else s

/-! ## Abstract description of a crash state (for the correspondence run) -/

def how (before now : Option Bytes) : Option String :=
  match before, now with
  | none, none => none
  | none, some _ => some "new"
  | some _, none => some "removed"
  | some b, some v =>
    if b = v then none
    else if v = [] then some "emptied"
    else if b.length < v.length ∧ v.take b.length = b then some "appended"
    else if v.length < b.length ∧ b.take v.length = v then some "truncated"
    else some "rewritten"

def describe (s0 s : FS) : List String :=
  let f (kind : String) (p : P) : List String := match how (s0.get p) (s.get p) with
    | some h => [kind ++ ":" ++ h] | none => []
  let l := f "vault" .vault ++ f "folder-log" .log ++ f "other" .tmp ++ f "other" .snap
  if l = [] then ["unchanged"] else l.eraseDups

/-! ## database backend: every call is one transaction (atomic), an operation is a list of calls -/

structure DB where
  vault : List Bytes          -- folder_secrets rows of the folder
  log : List Bytes            -- folder_events rows of the folder, in order
deriving DecidableEq, Repr

inductive Txn where
  | setVault (rows : List Bytes)        -- insert / update / delete of secret rows, header columns
  | appendLog (recs : List Bytes)       -- `insert_records` (one transaction for the whole batch)
  | replaceLog (recs : List Bytes)      -- `replace_all_events`: delete + insert in one transaction
  | truncateLog (keep : Nat)            -- `rewind`: delete after a row id
deriving Repr

def Txn.run (s : DB) : Txn → DB
  | .setVault rows => { s with vault := rows }
  | .appendLog recs => { s with log := s.log ++ recs }
  | .replaceLog recs => { s with log := recs }
  | .truncateLog k => { s with log := s.log.take k }

/-- a crash leaves the state after some prefix of the calls -/
def dbCrashStates (s : DB) : List Txn → List DB
  | [] => [s]
  | t :: ts => s :: dbCrashStates (t.run s) ts

/-- a folder edit on the database backend: the secret rows first, the event afterwards (two calls) -/
def dbFolderEdit (newVault : List Bytes) (event : Bytes) : List Txn := [.setVault newVault, .appendLog [event]]

end Sos.Crash
