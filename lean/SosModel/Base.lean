/-
  Base types shared by all model files.  No imports beyond core Lean so that
  the driver executable links.
-/
namespace Sos

/-- Bytes of an encoded value. -/
abbrev Bytes := List UInt8

/-- Symbolic SHA-256: a free term algebra.  `leaf b` is the digest of the byte
string `b` (an event's encoding, a blob), `node l r` the digest of the
concatenation of two digests (an inner Merkle node).  Freeness = collision
freedom + leaf/inner domain separation; this is the modelling assumption on
the hash recorded in DESIGN.md §2. -/
inductive H where
  | leaf (b : Bytes)
  | node (l r : H)
deriving DecidableEq, Repr, Inhabited

def hexDigit (n : Nat) : Char :=
  if n < 10 then Char.ofNat (48 + n) else Char.ofNat (87 + n)

def hexByte (b : UInt8) : String :=
  String.ofList [hexDigit (b.toNat / 16), hexDigit (b.toNat % 16)]

def hexBytes (b : Bytes) : String := String.join (b.map hexByte)

/-- Canonical text of a symbolic hash, evaluated with real SHA-256 by the harness. -/
def H.show : H → String
  | .leaf b => "L" ++ hexBytes b
  | .node l r => "N(" ++ l.show ++ "," ++ r.show ++ ")"

def hexVal (c : Char) : Option Nat :=
  if '0' ≤ c ∧ c ≤ '9' then some (c.toNat - 48)
  else if 'a' ≤ c ∧ c ≤ 'f' then some (c.toNat - 87)
  else none

def parseHexChars : List Char → Option Bytes
  | [] => some []
  | [_] => none
  | a :: b :: rest => do
      let x ← hexVal a
      let y ← hexVal b
      let r ← parseHexChars rest
      pure (UInt8.ofNat (x * 16 + y) :: r)

def parseHex (s : String) : Option Bytes := parseHexChars s.toList

end Sos

namespace Sos

/-- `k=v` arguments of a protocol line. -/
def argOf (args : List String) (key : String) : Option String :=
  args.findSome? fun a =>
    match a.splitOn "=" with
    | k :: rest => if k = key ∧ !rest.isEmpty then some ("=".intercalate rest) else none
    | _ => none

def splitList (s : String) : List String :=
  if s = "-" ∨ s = "" then [] else s.splitOn ","

/-- `a1,b2,c9` -> leaves (each item the hex of the hashed bytes); `-` = empty. -/
def parseLeaves (s : String) : Option (List H) :=
  (splitList s).mapM fun t => (parseHex t).map H.leaf

def natArg (args : List String) (key : String) : Option Nat :=
  (argOf args key).bind String.toNat?

def showTerm (h : H) : String := "<" ++ h.show ++ ">"

def showTerms (l : List H) : String :=
  if l.isEmpty then "-" else ";".intercalate (l.map showTerm)

end Sos
