/-
  Event-log state machine shared by both backends
  (`FileSystemEventLog`, `DatabaseEventLog`; `BackendEventLog` dispatches).

  Storage is one table of rows tagged with the owning log (the sqlite tables
  are shared by all folders / accounts; file-system logs are separate files,
  which is the special case where the tag is the file).  Each open log also
  holds its in-memory commit tree (the list of leaves).
-/
import SosModel.Merkle
namespace Sos.Log
open Sos Sos.Merkle

structure Rec where
  time : Nat
  commit : H
  bytes : Bytes
deriving DecidableEq, Repr

structure Row where
  owner : Nat
  r : Rec
deriving DecidableEq, Repr

structure Sys where
  store : List Row
  trees : Nat → List H

def Sys.rowsOf (s : Sys) (o : Nat) : List Rec :=
  (s.store.filter (·.owner = o)).map (·.r)

def Sys.setTree (s : Sys) (o : Nat) (t : List H) : Sys :=
  { s with trees := fun x => if x = o then t else s.trees x }

inductive Err where
  | noRootCommit
  | commitNotFound
  | rewindLeavesLength
  | checkpointVerification
deriving DecidableEq, Repr

inductive Out where
  | ok
  | err (e : Err)
  | patched (head : CommitProof)                       -- CheckedPatch::Success
  | conflict (head : CommitProof) (contains : Option CommitProof)
  | records (rs : List Rec)
  | unmodelled
deriving DecidableEq, Repr

/-- `EventRecord::encode_event`: the commit is the digest of the event bytes. -/
def encodeEvent (time : Nat) (bytes : Bytes) : Rec :=
  { time := time, commit := H.leaf bytes, bytes := bytes }

/-- `apply_records`: rows are appended in order, the same commits are appended
to the tree; an empty batch is a no-op. -/
def applyRecords (s : Sys) (o : Nat) (rs : List Rec) : Sys :=
  if rs.isEmpty then s else
  { store := s.store ++ rs.map (fun r => { owner := o, r := r }),
    trees := fun x => if x = o then s.trees o ++ rs.map (·.commit) else s.trees x }

/-- Search positions `< n` downwards for a record with commit `c` (backward iteration). -/
def findLastAux (rows : List Rec) (c : H) : Nat → Option Nat
  | 0 => none
  | n + 1 => if (rows[n]?.map (·.commit)) = some c then some n else findLastAux rows c n

/-- Position (in this log's rows) of the newest record with the given commit. -/
def findLast (rows : List Rec) (c : H) : Option Nat := findLastAux rows c rows.length

/-- Keep the first `n` rows of log `o`, leave every other log's rows alone. -/
def keepFirst : List Row → Nat → Nat → List Row
  | [], _, _ => []
  | r :: rest, o, n =>
    if r.owner = o then
      (match n with
       | 0 => keepFirst rest o 0
       | k + 1 => r :: keepFirst rest o k)
    else r :: keepFirst rest o n

/-- `rewind`: cut after the newest record whose commit is `c`; the tree keeps as
many leaves as rows remain; returns the removed records in log order. -/
def rewind (s : Sys) (o : Nat) (c : H) : Sys × Out :=
  let rows := s.rowsOf o
  match findLast rows c with
  | none => (s, .err .commitNotFound)
  | some k =>
    let removed := rows.drop (k + 1)
    if (s.trees o).length ≤ removed.length then (s, .err .rewindLeavesLength) else
    ({ store := keepFirst s.store o (k + 1),
       trees := fun x => if x = o then (s.trees o).take ((s.trees o).length - removed.length)
                         else s.trees x },
     .records removed)

def clear (s : Sys) (o : Nat) : Sys :=
  { store := s.store.filter (·.owner ≠ o),
    trees := fun x => if x = o then [] else s.trees x }

/-- `patch_checked`. -/
def patchChecked (s : Sys) (o : Nat) (cp : CommitProof) (rs : List Rec) : Sys × Out :=
  match compare (s.trees o) cp with
  | none => (s, .err .noRootCommit)
  | some none => (s, .unmodelled)
  | some (some .equal) =>
    let s' := applyRecords s o rs
    (match head (s'.trees o) with
     | some h => (s', .patched h)
     | none => (s', .err .noRootCommit))
  | some (some (.contains ix)) =>
    (match head (s.trees o), ix with
     | some h, [i] => (s, .conflict h (treeProof (s.trees o) i))
     | some _, _ => (s, .unmodelled)
     | none, _ => (s, .err .noRootCommit))
  | some (some .unknown) =>
    (match head (s.trees o) with
     | some h => (s, .conflict h none)
     | none => (s, .err .noRootCommit))

/-- `replace_all_events`: the head proof of the replacement records must equal the
checkpoint, otherwise nothing changes. -/
def replaceAll (s : Sys) (o : Nat) (rs : List Rec) (cp : CommitProof) : Sys × Out :=
  match head (rs.map (·.commit)) with
  | none => (s, .err .noRootCommit)
  | some h =>
    if h = cp then (applyRecords (clear s o) o rs, .ok)
    else (s, .err .checkpointVerification)

def loadTree (s : Sys) (o : Nat) : Sys :=
  s.setTree o ((s.rowsOf o).map (·.commit))

/-- `diff_records`. -/
def diffRecords (s : Sys) (o : Nat) (c : Option H) : Out :=
  match c with
  | none => .records (s.rowsOf o)
  | some c =>
    match findLast (s.rowsOf o) c with
    | none => .err .commitNotFound
    | some k => .records ((s.rowsOf o).drop (k + 1))

/-- The body of the server's `event_patch` after its guard: optional rewind, checked patch,
and on conflict the rewound records are applied again. -/
def eventPatchCore (s : Sys) (o : Nat) (c : Option H) (cp : CommitProof) (rs : List Rec) : Sys × Out :=
  match c with
  | none => patchChecked s o cp rs
  | some c =>
    match rewind s o c with
    | (s1, .records removed) =>
      (match patchChecked s1 o cp rs with
       | (s2, .conflict h k) => (applyRecords s2 o removed, .conflict h k)
       | r => r)
    | (s1, out) => (s1, out)

/-- every record the rewind would remove is carried by the patch (compared by commit) -/
def coveredBy (removed rs : List Rec) : Bool :=
  removed.all (fun r => rs.any (fun x => x.commit = r.commit))

/-- The guard of `event_patch` (`event_diff` from the rewind target, then the test): `some`
answer when the request is refused before anything is touched. -/
def staleRewind (s : Sys) (o : Nat) (c : H) (rs : List Rec) : Option (Sys × Out) :=
  match diffRecords s o (some c) with
  | .records removed =>
    (match head (s.trees o) with
     | none => some (s, .err .noRootCommit)
     | some h => if coveredBy removed rs then none else some (s, .conflict h none))
  | .err e => some (s, .err e)
  | _ => none

/-- The server's `event_patch`: a rewind that would remove records the patch does not carry
(another device's patch landed after this one was computed) is refused as a conflict and
nothing changes; otherwise rewind, checked patch, rollback on conflict. -/
def eventPatch (s : Sys) (o : Nat) (c : Option H) (cp : CommitProof) (rs : List Rec) : Sys × Out :=
  match c with
  | none => eventPatchCore s o none cp rs
  | some c' =>
    match staleRewind s o c' rs with
    | some r => r
    | none => eventPatchCore s o (some c') cp rs

inductive Op where
  | apply (o : Nat) (time : Nat) (evs : List Bytes)
  | applyRecords (o : Nat) (rs : List Rec)
  | patchChecked (o : Nat) (cp : CommitProof) (rs : List Rec)
  | patchUnchecked (o : Nat) (rs : List Rec)
  | rewind (o : Nat) (c : H)
  | clear (o : Nat)
  | replaceAll (o : Nat) (rs : List Rec) (cp : CommitProof)
  | loadTree (o : Nat)
  | eventPatch (o : Nat) (c : Option H) (cp : CommitProof) (rs : List Rec)

def Op.owner : Op → Nat
  | .apply o _ _ | .applyRecords o _ | .patchChecked o _ _ | .patchUnchecked o _
  | .rewind o _ | .clear o | .replaceAll o _ _ | .loadTree o | .eventPatch o _ _ _ => o

def step (s : Sys) : Op → Sys × Out
  | .apply o t evs => (applyRecords s o (evs.map (encodeEvent t)), .ok)
  | .applyRecords o rs => (applyRecords s o rs, .ok)
  | .patchChecked o cp rs => patchChecked s o cp rs
  | .patchUnchecked o rs => (applyRecords s o rs, .ok)
  | .rewind o c => rewind s o c
  | .clear o => (clear s o, .ok)
  | .replaceAll o rs cp => replaceAll s o rs cp
  | .loadTree o => (loadTree s o, .ok)
  | .eventPatch o c cp rs => eventPatch s o c cp rs

def init : Sys := { store := [], trees := fun _ => [] }

def run (s : Sys) (ops : List Op) : Sys := ops.foldl (fun s op => (step s op).1) s

end Sos.Log
