/-
  C15 for the secret codec (`SecretMeta`, `Secret`, `SecretRow`, nested user data):
  for EVERY input byte string and whatever the external parsers answer, the decoder
    * never panics — in particular the fuel the model gives the recursion (2·|input| + 4)
      is never used up, so no verdict of the model is an artefact of the fuel,
    * never requests a single allocation above the 16 MiB cap (counts of tags, list items
      and custom fields are not used to reserve memory),
    * leaves unread a suffix of its input.
  The real decoder recurses once per nesting level of custom fields on the native stack; the
  depth at which that stack ends is a runtime limit the model cannot exhibit (known finding).
-/
import SosModel.Props.C15
import SosModel.SecretCodec
namespace Sos.Props.C15
open Sos Sos.Codec

/-- what C15 asks, of one output for one input -/
def GoodOut (o : Out α) (b : Bytes) : Prop :=
  o.alloc ≤ cap ∧ o.res ≠ .panic ∧ ∀ v rest, o.res = .ok v rest → ∃ pre, b = pre ++ rest

theorem Good.out {d : Dec α} (h : Good d) (b : Bytes) : GoodOut (d b) b := h b

theorem GoodOut.bind {o : Out α} {f : α → Bytes → Out β} {b : Bytes} (hd : GoodOut o b)
    (hf : ∀ v rest, o.res = .ok v rest → GoodOut (f v rest) rest) :
    GoodOut (o.bind f) b := by
  obtain ⟨ha, hp, hs⟩ := hd
  unfold GoodOut Out.bind
  split
  · rename_i v rest hr
    obtain ⟨ha2, hp2, hs2⟩ := hf v rest hr
    refine ⟨Nat.max_le.mpr ⟨ha, ha2⟩, hp2, ?_⟩
    intro v' rest' h
    obtain ⟨pre, hpre⟩ := hs v rest hr
    obtain ⟨pre2, hpre2⟩ := hs2 v' rest' h
    exact ⟨pre ++ pre2, by rw [hpre, hpre2]; simp⟩
  · exact ⟨ha, by simp, by intro v rest h; cases h⟩
  · rename_i hr; exact absurd hr hp

theorem GoodOut.len {o : Out α} {b : Bytes} (h : GoodOut o b) {v : α} {rest : Bytes}
    (hr : o.res = .ok v rest) : rest.length ≤ b.length := by
  obtain ⟨pre, hpre⟩ := h.2.2 v rest hr
  rw [hpre]; simp

/-- a successful fixed-size read consumes exactly its size -/
theorem readFixed_consumes {k : Nat} {b v rest : Bytes} (h : (readFixed k b).res = .ok v rest) :
    rest.length + k = b.length := by
  unfold readFixed at h
  by_cases hl : b.length < k
  · simp [hl, Codec.fail] at h
  · simp only [hl, if_false] at h
    simp at h
    rw [← h.2]; simp; omega

theorem readNat_consumes {k : Nat} {b : Bytes} {v : Nat} {rest : Bytes} (h : (readNat k b).res = .ok v rest) :
    rest.length + k = b.length := by
  unfold readNat Out.bind at h
  split at h
  · rename_i bs r hr
    simp [Codec.ret] at h
    rw [← h.2]; exact readFixed_consumes hr
  · cases h
  · cases h

/-! ### the fields (no recursion, no fuel) -/

theorem good_ExtStr (ext : Ext) (p : ExtP) : Good (readExtStr ext p) :=
  Good.bind Good.readString (fun _ => Good.ite (Good.ret _) Good.fail)

theorem good_Strs : ∀ (n : Nat) (acc : List Bytes), Good (readStrs n acc)
  | 0, _ => Good.ret _
  | n + 1, acc => Good.bind Good.readString (fun s => good_Strs n (insertStr acc s))

theorem good_Pairs : ∀ (n : Nat) (acc : List (Bytes × Bytes)), Good (readPairs n acc)
  | 0, _ => Good.ret _
  | n + 1, acc => Good.bind Good.readString (fun k => Good.bind Good.readString (fun v => good_Pairs n (insertPair acc (k, v))))

theorem good_SFld (ext : Ext) : ∀ f : SFld, Good (readSFld ext f)
  | .str => Good.bind Good.readString (fun _ => Good.ret _)
  | .extStr p => Good.bind (good_ExtStr ext p) (fun _ => Good.ret _)
  | .optStr => Good.bind good_Bool (fun h => Good.bind (good_Opt h Good.readString) (fun _ => Good.ret _))
  | .optExtStr p => Good.bind good_Bool (fun h => Good.bind (good_Opt h (good_ExtStr ext p)) (fun _ => Good.ret _))
  | .date => Good.bind good_DateTime (fun _ => Good.ret _)
  | .optDate => Good.bind good_Bool (fun h => Good.bind (good_Opt h good_DateTime) (fun _ => Good.ret _))
  | .bool => Good.bind good_Bool (fun _ => Good.ret _)
  | .u8In _ => Good.bind (Good.readNat 1) (fun _ => Good.ite (Good.ret _) Good.fail)
  | .u32Mask _ => Good.bind (Good.readNat 4) (fun _ => Good.ite (Good.ret _) Good.fail)
  | .u64 => Good.bind (Good.readNat 8) (fun _ => Good.ret _)
  | .lenBytes => Good.bind Good.readLenBytes (fun _ => Good.ret _)
  | .extLenBytes _ => Good.bind Good.readLenBytes (fun _ => Good.ite (Good.ret _) Good.fail)
  | .fixed n => Good.bind (Good.readN n) (fun _ => Good.ret _)
  | .strs => Good.bind (Good.readNat 4) (fun n => Good.bind (good_Strs n []) (fun _ => Good.ret _))
  | .pairs => Good.bind (Good.readNat 4) (fun n => Good.bind (good_Pairs n []) (fun _ => Good.ret _))

theorem good_SFlds (ext : Ext) : ∀ fs : List SFld, Good (readSFlds ext fs)
  | [] => Good.ret _
  | f :: fs => Good.bind (good_SFld ext f) (fun _ => Good.bind (good_SFlds ext fs) (fun _ => Good.ret _))

theorem good_Fld (ext : Ext) : ∀ f : Fld, Good (readFld ext f)
  | .s f => Good.bind (good_SFld ext f) (fun _ => Good.ret _)
  | .choice alts => by
    apply Good.bind (Good.readNat 1); intro t
    cases h : alts.lookup t with
    | none => simpa [h] using (Good.fail (α := Val))
    | some fs => simpa [h] using Good.bind (good_SFlds ext fs) (fun vs => Good.ret (Val.choice t vs))

theorem good_Flds (ext : Ext) : ∀ fs : List Fld, Good (readFlds ext fs)
  | [] => Good.ret _
  | f :: fs => Good.bind (good_Fld ext f) (fun _ => Good.bind (good_Flds ext fs) (fun _ => Good.ret _))

/-- C15 for `SecretMeta::decode`, every input. -/
theorem good_SecretMeta (ext : Ext) : Good (decodeMeta ext) := good_Flds ext metaSchema

/-! ### the recursion: secrets, user data, rows -/

/-- what the four mutually recursive readers satisfy with fuel `f` -/
structure FuelOk (ext : Ext) (f : Nat) : Prop where
  secret : ∀ b : Bytes, 2 * b.length + 2 ≤ f → GoodOut (readSecret ext f b) b
  ud : ∀ b : Bytes, 2 * b.length + 2 ≤ f → GoodOut (readUD ext f b) b
  rows : ∀ (n : Nat) (b : Bytes), 2 * b.length + 2 ≤ f → GoodOut (readSRows ext f n b) b
  row : ∀ b : Bytes, 2 * b.length + 1 ≤ f → GoodOut (readSRow ext f b) b ∧
    ∀ r rest, (readSRow ext f b).res = .ok r rest → rest.length + 16 ≤ b.length

theorem fuelOk (ext : Ext) : ∀ f, FuelOk ext f
  | 0 => ⟨fun _ h => by omega, fun _ h => by omega, fun _ _ h => by omega, fun _ h => by omega⟩
  | f + 1 => by
    have ih := fuelOk ext f
    refine ⟨?_, ?_, ?_, ?_⟩
    · -- readSecret
      intro b hb
      rw [readSecret_succ]
      apply GoodOut.bind (Good.out (Good.readNat 1) b)
      intro k rest hk
      have hl := readNat_consumes hk
      cases hs : schema k with
      | none => exact Good.out (Good.fail (α := Secret)) rest
      | some flds =>
        simp only
        apply GoodOut.bind (Good.out (good_Flds ext flds) rest)
        intro vs rest2 hvs
        have hl2 := GoodOut.len (Good.out (good_Flds ext flds) rest) hvs
        apply GoodOut.bind (ih.ud rest2 (by omega))
        intro ud rest3 _
        exact Good.out (Good.ret _) rest3
    · -- readUD
      intro b hb
      rw [readUD_succ]
      apply GoodOut.bind (Good.out (Good.readNat 4) b)
      intro n rest hn
      have hl := readNat_consumes hn
      apply GoodOut.bind (ih.rows n rest (by omega))
      intro rs rest2 _
      exact Good.out (Good.bind good_Bool (fun hc => Good.bind (good_Opt hc Good.readString) (fun c =>
        Good.bind good_Bool (fun hn => Good.bind (good_Opt hn Good.readString) (fun nt => Good.ret (UserData.mk rs c nt)))))) rest2
    · -- readSRows
      intro n b hb
      cases n with
      | zero => rw [readSRows_zero]; exact Good.out (Good.ret SRows.nil) b
      | succ n =>
        rw [readSRows_succ]
        obtain ⟨hg, hc⟩ := ih.row b (by omega)
        apply GoodOut.bind hg
        intro r rest hr
        have hl := hc r rest hr
        apply GoodOut.bind (ih.rows n rest (by omega))
        intro rs rest2 _
        exact Good.out (Good.ret _) rest2
    · -- readSRow
      intro b hb
      rw [readSRow_succ]
      constructor
      · apply GoodOut.bind (Good.out (Good.readFixed 16) b)
        intro id rest hid
        have hl := readFixed_consumes hid
        apply GoodOut.bind (Good.out (good_Flds ext metaSchema) rest)
        intro m rest2 hm
        have hl2 := GoodOut.len (Good.out (good_Flds ext metaSchema) rest) hm
        apply GoodOut.bind (ih.secret rest2 (by omega))
        intro s rest3 _
        exact Good.out (Good.ret _) rest3
      · intro r rest' h
        unfold Out.bind at h
        split at h
        · rename_i id rest hid
          have hl := readFixed_consumes hid
          simp only at h
          split at h
          · rename_i m rest2 hm
            have hl2 := GoodOut.len (Good.out (good_Flds ext metaSchema) rest) hm
            simp only at h
            split at h
            · rename_i s rest3 hs
              have hl3 := GoodOut.len (ih.secret rest2 (by omega)) hs
              simp [Codec.ret] at h
              rw [← h.2]; omega
            · cases h
            · cases h
          · cases h
          · cases h
        · cases h
        · cases h

/-- C15 for `Secret::decode`, every input: no panic (so the fuel never runs out), no
allocation above the cap, the unread rest is a suffix of the input. -/
theorem good_Secret (ext : Ext) : Good (decodeSecret ext) := by
  intro b
  exact (fuelOk ext (fuelFor b)).secret b (by unfold fuelFor; omega)

/-- C15 for `SecretRow::decode`, every input. -/
theorem good_SecretRow (ext : Ext) : Good (decodeSRow ext) := by
  intro b
  exact ((fuelOk ext (fuelFor b)).row b (by unfold fuelFor; omega)).1

/-- more fuel than `fuelFor` never changes a verdict: the fuel is not part of the semantics -/
theorem secret_decoder_never_runs_out_of_fuel (ext : Ext) (b : Bytes) (f : Nat) (h : fuelFor b ≤ f) :
    (readSecret ext f b).res ≠ .panic :=
  ((fuelOk ext f).secret b (by unfold fuelFor at h; omega)).2.1

/-- the premises are satisfiable and the statement is not vacuous: a note with one custom field -/
example : (match (decodeSecret ⟨fun _ _ => true⟩
    ([2, 1, 0, 0, 0, 0x61] ++ [1, 0, 0, 0] ++ List.replicate 16 7 ++
      ([2, 0, 0, 0, 0] ++ List.replicate 12 0 ++ List.replicate 12 0 ++ [0, 0, 0, 0] ++ [0, 0, 0, 0] ++ [0, 0, 0]) ++
      ([2, 0, 0, 0, 0] ++ [0, 0, 0, 0, 0, 0]) ++ [0, 0])).res with
    | .ok (.mk k _ (.mk rs _ _)) rest => (k, rs.length, rest.length) | _ => (0, 0, 99)) = (2, 1, 0) := by decide

end Sos.Props.C15
