/-
  C04 for any number of devices.

  The server and n devices share the prefix `pre ++ [x]`; device i has appended its own
  events `tl[i]` (non-empty, in time order, as its clock produced them); all events are
  pairwise distinct.  Edits have stopped.  Sync calls happen one at a time in ANY order and
  any number of times; the only convention is that devices are numbered by their first
  sync call (a renaming).  Then
    * after every call the server holds the shared prefix followed by a time-ordered
      permutation of everything that has reached it, and every device that has synced holds
      the shared prefix followed by a part of that, in the same order (`Inv`);
    * a device's call makes it equal to the server, and a call of a device that had synced
      before never changes the server;
    * hence once every device has made its first call, and then each device one more, the
      server and all devices hold the same log, and they stay there whatever calls follow.
  This is the composition of the per-call theorems of `Props/C04.lean` (fast-forward push /
  pull, automatic merge of distinct events, re-sync after a foreign merge).
-/
import SosModel.Props.C04
namespace Sos.Props.C04
open Sos Sos.Merkle Sos.Log Sos.Sync

/-- the server and any number of devices, one log -/
structure WorldN where
  s : LogSeq
  ds : List LogSeq
deriving DecidableEq, Repr

/-- one sync call of device `i` (a call of a device that does not exist changes nothing) -/
def WorldN.sync (w : WorldN) (i : Nat) : WorldN :=
  match w.ds[i]? with
  | none => w
  | some d => { s := (syncLog d w.s).2.1, ds := w.ds.set i (syncLog d w.s).1 }

def WorldN.run (w : WorldN) (σ : List Nat) : WorldN := σ.foldl WorldN.sync w

/-- a device that holds the shared prefix and, in order, a part of the server's suffix `M` -/
def Behind (pre : LogSeq) (x : Rec) (M d : LogSeq) : Prop :=
  d = pre ++ x :: M ∨ ∃ a, d = pre ++ x :: a ∧ a.length < M.length ∧ a.Sublist M

theorem not_mem_commit_of_nodup {pre M : LogSeq} {x : Rec} (hnd : (commits (pre ++ x :: M)).Nodup) :
    ∀ y ∈ M, y.commit ≠ x.commit := by
  intro y hy e
  have h1 : (commits pre ++ x.commit :: commits M).Nodup := by simpa [commits] using hnd
  have h2 := (List.nodup_cons.mp (List.nodup_append.mp h1).2.1).1
  apply h2; rw [← e]; exact List.mem_map_of_mem hy

/-- a device that is behind makes one call: it now equals the server, the server is unchanged -/
theorem behind_sync (pre M d : LogSeq) (x : Rec) (h : Behind pre x M d)
    (hat : C08.Atoms (commits (pre ++ x :: M))) (hnd : (commits (pre ++ x :: M)).Nodup) :
    ∃ o, syncLog d (pre ++ x :: M) = (pre ++ x :: M, pre ++ x :: M, o) := by
  rcases h with rfl | ⟨a, rfl, hlen, hsub⟩
  · exact ⟨.inSync, in_sync_unchanged _ _ rfl⟩
  · cases a with
    | nil =>
      have hM : M ≠ [] := by intro e; rw [e] at hlen; simp at hlen
      exact ⟨.pulled, fast_forward_pull_converges pre M x hM hat (not_mem_commit_of_nodup hnd)⟩
    | cons a0 at_ =>
      exact resync_after_foreign_merge pre (a0 :: at_) M x (by simp) hlen hsub hat hnd

/-- What holds after every call: `k` devices have made their first call; the server holds
the shared prefix and `M`, a time-ordered permutation of their events. -/
structure Inv (pre : LogSeq) (x : Rec) (tl : List LogSeq) (k : Nat) (M : LogSeq) (w : WorldN) : Prop where
  server : w.s = pre ++ x :: M
  len : w.ds.length = tl.length
  joined : ∀ i, i < k → ∀ d, w.ds[i]? = some d → Behind pre x M d
  waiting : ∀ i, k ≤ i → w.ds[i]? = (tl[i]?).map (fun a => pre ++ x :: a)
  sorted : C05.SortedT M
  perm : M.Perm (tl.take k).flatten
  kle : k ≤ tl.length

/-- the events that have reached the server are among all events -/
theorem take_flatten_sublist (tl : List LogSeq) (k : Nat) : (tl.take k).flatten.Sublist tl.flatten := by
  have h : (tl.take k).flatten.Sublist ((tl.take k).flatten ++ (tl.drop k).flatten) := List.sublist_append_left _ _
  rwa [← List.flatten_append, List.take_append_drop] at h

section
variable (pre : LogSeq) (x : Rec) (tl : List LogSeq)
variable (hne : ∀ a ∈ tl, a ≠ []) (hs : ∀ a ∈ tl, C05.SortedT a)
variable (hat : C08.Atoms (commits (pre ++ x :: tl.flatten)))
variable (hnd : (commits (pre ++ x :: tl.flatten)).Nodup)

include hat in
theorem atoms_part {L : LogSeq} (hsub : ∀ y ∈ L, y ∈ tl.flatten) : C08.Atoms (commits (pre ++ x :: L)) := by
  apply atoms_of_subset hat
  intro c hc
  simp only [commits, List.map_append, List.map_cons, List.mem_append, List.mem_cons, List.mem_map] at hc ⊢
  rcases hc with h | h | ⟨y, hy, rfl⟩
  · exact Or.inl h
  · exact Or.inr (Or.inl h)
  · exact Or.inr (Or.inr ⟨y, hsub y hy, rfl⟩)

include hnd in
theorem nodup_part {L : LogSeq} (hp : ∃ L', L.Perm L' ∧ L'.Sublist tl.flatten) : (commits (pre ++ x :: L)).Nodup := by
  obtain ⟨L', hperm, hsub⟩ := hp
  have h1 : (pre ++ x :: L').Sublist (pre ++ x :: tl.flatten) :=
    List.Sublist.append (List.Sublist.refl _) (List.Sublist.cons_cons x hsub)
  have h2 : (commits (pre ++ x :: L')).Nodup := (commits_sublist h1).nodup hnd
  have h3 : (commits (pre ++ x :: L)).Perm (commits (pre ++ x :: L')) :=
    List.Perm.map _ (List.Perm.append_left _ (List.Perm.cons _ hperm))
  exact h3.nodup_iff.mpr h2

include hat hnd in
/-- a device that has synced before makes another call -/
theorem inv_resync {k : Nat} {M : LogSeq} {w : WorldN} (h : Inv pre x tl k M w) (i : Nat) (hi : i < k) :
    Inv pre x tl k M (w.sync i) ∧ (w.sync i).ds[i]? = some (pre ++ x :: M) := by
  have hik : i < w.ds.length := by rw [h.len]; exact Nat.lt_of_lt_of_le hi h.kle
  have hMsub : ∀ y ∈ M, y ∈ tl.flatten := fun y hy =>
    (take_flatten_sublist tl k).subset (h.perm.mem_iff.mp hy)
  have hatM := atoms_part pre x tl hat hMsub
  have hndM := nodup_part pre x tl hnd ⟨_, h.perm, take_flatten_sublist tl k⟩
  obtain ⟨d, hd⟩ : ∃ d, w.ds[i]? = some d := ⟨w.ds[i], List.getElem?_eq_getElem hik⟩
  obtain ⟨o, ho⟩ := behind_sync pre M d x (h.joined i hi d hd) hatM hndM
  have hsync : w.sync i = { s := pre ++ x :: M, ds := w.ds.set i (pre ++ x :: M) } := by
    unfold WorldN.sync
    rw [hd]; simp only [h.server, ho]
  rw [hsync]
  refine ⟨⟨rfl, by simp [h.len], ?_, ?_, h.sorted, h.perm, h.kle⟩, by simp [hik]⟩
  · intro j hj d' hd'
    simp only at hd'
    by_cases e : i = j
    · subst e
      rw [List.getElem?_set_self hik] at hd'
      exact Or.inl (Option.some.inj hd').symm
    · rw [List.getElem?_set_ne e] at hd'
      exact h.joined j hj d' hd'
  · intro j hj
    simp only
    have e : i ≠ j := by omega
    rw [List.getElem?_set_ne e]
    exact h.waiting j hj

include hne hs hat hnd in
/-- the next device makes its first call: its events are merged into the server's suffix in
time order; every device that synced before is still behind the server in the sense of `Behind` -/
theorem inv_join {k : Nat} {M : LogSeq} {w : WorldN} (h : Inv pre x tl k M w) (hk : k < tl.length) :
    Inv pre x tl (k + 1) (sortByTime (tl[k] ++ M)) (w.sync k) ∧
      (w.sync k).ds[k]? = some (pre ++ x :: sortByTime (tl[k] ++ M)) := by
  have hkw : k < w.ds.length := by rw [h.len]; exact hk
  have hak : tl[k] ∈ tl := List.getElem_mem hk
  have hd : w.ds[k]? = some (pre ++ x :: tl[k]) := by
    rw [h.waiting k (Nat.le_refl k), List.getElem?_eq_getElem hk]; rfl
  have htake : (tl.take (k + 1)).flatten = (tl.take k).flatten ++ tl[k] := by
    rw [List.take_add_one, List.getElem?_eq_getElem hk]
    simp only [Option.toList, List.flatten_append, List.flatten_cons, List.flatten_nil, List.append_nil]
  have hMsub : ∀ y ∈ M, y ∈ tl.flatten := fun y hy =>
    (take_flatten_sublist tl k).subset (h.perm.mem_iff.mp hy)
  have haksub : ∀ y ∈ tl[k], y ∈ tl.flatten := fun y hy => List.mem_flatten.mpr ⟨tl[k], hak, hy⟩
  have hpermNew : (tl[k] ++ M).Perm (tl.take (k + 1)).flatten := by
    rw [htake]
    exact (List.perm_append_comm).trans (List.Perm.append_right _ h.perm)
  -- the call itself
  have hcall : syncLog (pre ++ x :: tl[k]) (pre ++ x :: M) =
      (pre ++ x :: sortByTime (tl[k] ++ M), pre ++ x :: sortByTime (tl[k] ++ M),
        if M = [] then Outcome.pushed else Outcome.merged) := by
    by_cases hM : M = []
    · subst hM
      simp only [List.append_nil, if_true]
      rw [sort_of_sorted _ (hs _ hak)]
      have hatk := atoms_part pre x tl hat haksub
      have hndk := nodup_part pre x tl hnd ⟨tl[k], List.Perm.refl _, by
        have := take_flatten_sublist tl (k + 1)
        rw [htake] at this
        exact (List.sublist_append_right _ _).trans this⟩
      exact fast_forward_push_converges pre tl[k] x (hne _ hak) hatk (not_mem_commit_of_nodup hndk)
    · simp only [hM, if_false]
      exact auto_merge_converges_distinct pre tl[k] M x (hne _ hak) hM
        (atoms_part pre x tl hat haksub) (atoms_part pre x tl hat hMsub)
        (nodup_part pre x tl hnd ⟨_, hpermNew, take_flatten_sublist tl (k + 1)⟩)
  have hsync : w.sync k =
      { s := pre ++ x :: sortByTime (tl[k] ++ M), ds := w.ds.set k (pre ++ x :: sortByTime (tl[k] ++ M)) } := by
    unfold WorldN.sync
    rw [hd]; simp only [h.server, hcall]
  rw [hsync]
  have hsubM : M.Sublist (sortByTime (tl[k] ++ M)) := sorted_sublist_of_merge M tl[k] h.sorted
  have hlenM : M.length < (sortByTime (tl[k] ++ M)).length := by
    rw [(C05.sort_perm _).length_eq, List.length_append]
    have : tl[k].length ≠ 0 := fun e => hne _ hak (List.length_eq_zero_iff.mp e)
    omega
  refine ⟨⟨rfl, by simp [h.len], ?_, ?_, C05.sort_sorted _, (C05.sort_perm _).trans hpermNew, hk⟩, by simp [hkw]⟩
  · intro j hj d' hd'
    simp only at hd'
    by_cases e : k = j
    · subst e
      rw [List.getElem?_set_self hkw] at hd'
      exact Or.inl (Option.some.inj hd').symm
    · rw [List.getElem?_set_ne e] at hd'
      have hjk : j < k := by omega
      rcases h.joined j hjk d' hd' with rfl | ⟨a, rfl, hl, hsub⟩
      · exact Or.inr ⟨M, rfl, hlenM, hsubM⟩
      · exact Or.inr ⟨a, rfl, Nat.lt_trans hl hlenM, hsub.trans hsubM⟩
  · intro j hj
    simp only
    have e : k ≠ j := by omega
    rw [List.getElem?_set_ne e]
    exact h.waiting j (by omega)

/-- a sequence of calls in which the devices make their first calls in the order of their
numbers: the number of devices that have joined after it, starting from `k` -/
def joinRun : Nat → List Nat → Option Nat
  | k, [] => some k
  | k, i :: τ => if i < k then joinRun k τ else if i = k then joinRun (k + 1) τ else none

/-- the merged suffix the server holds after such a sequence -/
def mergedAfter (tl : List LogSeq) : Nat → LogSeq → List Nat → LogSeq
  | _, M, [] => M
  | k, M, i :: τ =>
    if i < k then mergedAfter tl k M τ
    else if h : i = k ∧ k < tl.length then mergedAfter tl (k + 1) (sortByTime (tl[k]'h.2 ++ M)) τ
    else M

include hne hs hat hnd in
theorem inv_run (τ : List Nat) : ∀ {k k' : Nat} {M : LogSeq} {w : WorldN}, Inv pre x tl k M w →
    joinRun k τ = some k' → k' ≤ tl.length →
    Inv pre x tl k' (mergedAfter tl k M τ) (w.run τ) := by
  induction τ with
  | nil => intro k k' M w h hj _; simp [joinRun] at hj; subst hj; simpa [WorldN.run, mergedAfter] using h
  | cons i τ ih =>
    intro k k' M w h hj hk'
    simp only [joinRun] at hj
    have hrun : w.run (i :: τ) = (w.sync i).run τ := rfl
    rw [hrun]
    by_cases h1 : i < k
    · simp only [h1, if_true] at hj
      simp only [mergedAfter, h1, if_true]
      exact ih (inv_resync pre x tl hat hnd h i h1).1 hj hk'
    · simp only [h1, if_false] at hj
      by_cases h2 : i = k
      · simp only [h2, if_true] at hj
        subst h2
        -- the number of joined devices only grows: k + 1 ≤ k' ≤ n
        have hmono : ∀ (τ : List Nat) (a b : Nat), joinRun a τ = some b → a ≤ b := by
          intro τ
          induction τ with
          | nil => intro a b e; simp [joinRun] at e; omega
          | cons j τ ih2 =>
            intro a b e
            simp only [joinRun] at e
            by_cases c1 : j < a
            · simp only [c1, if_true] at e; exact ih2 a b e
            · simp only [c1, if_false] at e
              by_cases c2 : j = a
              · simp only [c2, if_true] at e; have := ih2 (a + 1) b e; omega
              · simp [c2] at e
        have hlt : i < tl.length := by have := hmono τ (i + 1) k' hj; omega
        have hcond : i = i ∧ i < tl.length := ⟨rfl, hlt⟩
        simp only [mergedAfter, h1, if_false, hcond, and_self, dite_true]
        exact ih (inv_join pre x tl hne hs hat hnd h hlt).1 hj hk'
      · simp [h2] at hj

/-- the starting world: the server holds the shared prefix, device i the prefix and its own events -/
def start (pre : LogSeq) (x : Rec) (tl : List LogSeq) : WorldN :=
  { s := pre ++ [x], ds := tl.map (fun a => pre ++ x :: a) }

theorem inv_start : Inv pre x tl 0 [] (start pre x tl) := by
  refine ⟨rfl, by simp [start], ?_, ?_, by simp [C05.SortedT], by simp, Nat.zero_le _⟩
  · intro i hi; omega
  · intro i _; simp [start]

include hne hs hat hnd in
/-- **C04, n devices.**  Any sequence `τ` of sync calls in which every device makes its first
call (numbered in that order), followed by any sequence `ρ` in which every device calls at
least once more: the server and every device hold the shared prefix followed by the same
time-ordered permutation `M` of all events of all devices. -/
theorem n_devices_converge (τ ρ : List Nat) (hτ : joinRun 0 τ = some tl.length)
    (hρ : ∀ i, i < tl.length → i ∈ ρ) (hρr : ∀ i ∈ ρ, i < tl.length) :
    ∃ M, M.Perm tl.flatten ∧ C05.SortedT M ∧
      (start pre x tl).run (τ ++ ρ) =
        { s := pre ++ x :: M, ds := List.replicate tl.length (pre ++ x :: M) } := by
  have h0 := inv_run pre x tl hne hs hat hnd τ (inv_start pre x tl) hτ (Nat.le_refl _)
  refine ⟨mergedAfter tl 0 [] τ, by simpa using h0.perm, h0.sorted, ?_⟩
  have hsplit : (start pre x tl).run (τ ++ ρ) = ((start pre x tl).run τ).run ρ := by
    simp [WorldN.run, List.foldl_append]
  rw [hsplit]
  generalize (start pre x tl).run τ = w at h0
  generalize mergedAfter tl 0 [] τ = M at h0
  -- every further call keeps the invariant, fixes the calling device, and never unfixes one
  have key : ∀ (ρ : List Nat) (w : WorldN), Inv pre x tl tl.length M w → (∀ i ∈ ρ, i < tl.length) →
      Inv pre x tl tl.length M (w.run ρ) ∧
      (∀ j : Nat, w.ds[j]? = some (pre ++ x :: M) → (w.run ρ).ds[j]? = some (pre ++ x :: M)) ∧
      (∀ i ∈ ρ, (w.run ρ).ds[i]? = some (pre ++ x :: M)) := by
    intro ρ
    induction ρ with
    | nil => intro w h _; exact ⟨h, fun _ hj => hj, fun i hi => by simp at hi⟩
    | cons i ρ ih =>
      intro w h hr
      have hi : i < tl.length := hr i (by simp)
      obtain ⟨h1, h2⟩ := inv_resync pre x tl hat hnd h i hi
      obtain ⟨g1, g2, g3⟩ := ih (w.sync i) h1 (fun j hj => hr j (by simp [hj]))
      have hrun : w.run (i :: ρ) = (w.sync i).run ρ := rfl
      rw [hrun]
      refine ⟨g1, ?_, ?_⟩
      · intro j hj
        apply g2
        -- one call never unfixes a device
        have hik : i < w.ds.length := by rw [h.len]; exact hi
        have hMsub : ∀ y ∈ M, y ∈ tl.flatten := fun y hy =>
          (take_flatten_sublist tl tl.length).subset (h.perm.mem_iff.mp hy)
        obtain ⟨d, hd⟩ : ∃ d, w.ds[i]? = some d := ⟨w.ds[i], List.getElem?_eq_getElem hik⟩
        obtain ⟨o, ho⟩ := behind_sync pre M d x (h.joined i hi d hd)
          (atoms_part pre x tl hat hMsub) (nodup_part pre x tl hnd ⟨_, h.perm, take_flatten_sublist tl _⟩)
        have hsync : w.sync i = { s := pre ++ x :: M, ds := w.ds.set i (pre ++ x :: M) } := by
          unfold WorldN.sync
          rw [hd]; simp only [h.server, ho]
        rw [hsync]
        simp only
        by_cases e : i = j
        · subst e; simp [hik]
        · rw [List.getElem?_set_ne e]; exact hj
      · intro j hj
        rcases List.mem_cons.mp hj with rfl | hj'
        · exact g2 _ h2
        · exact g3 j hj'
  obtain ⟨g1, _, g3⟩ := key ρ w h0 hρr
  have hs' : (w.run ρ).s = pre ++ x :: M := g1.server
  have hds : (w.run ρ).ds = List.replicate tl.length (pre ++ x :: M) := by
    apply List.ext_getElem?
    intro j
    by_cases hj : j < tl.length
    · rw [g3 j (hρ j hj)]; simp [hj]
    · have h1 : (w.run ρ).ds[j]? = none := by
        apply List.getElem?_eq_none; rw [g1.len]; omega
      rw [h1]; simp; omega
  cases hw : w.run ρ with
  | mk s ds => rw [hw] at hs' hds; simp only at hs' hds; rw [hs', hds]

include hne hs hat hnd in
/-- C05 over n devices: in the log everybody ends with, every event of every device occurs
exactly as often as it was made (once), and nothing else occurs. -/
theorem n_devices_every_event_exactly_once (τ ρ : List Nat) (hτ : joinRun 0 τ = some tl.length)
    (hρ : ∀ i, i < tl.length → i ∈ ρ) (hρr : ∀ i ∈ ρ, i < tl.length) :
    ∃ M, ((start pre x tl).run (τ ++ ρ)).s = pre ++ x :: M ∧ ∀ r : Rec, M.count r = tl.flatten.count r := by
  obtain ⟨M, hperm, _, hrun⟩ := n_devices_converge pre x tl hne hs hat hnd τ ρ hτ hρ hρr
  exact ⟨M, by rw [hrun], fun r => hperm.count_eq r⟩

end

/-! ### the premises are satisfiable: three devices, interleaved times -/

private def bx : Rec := { time := 1, commit := H.leaf [0], bytes := [0] }
private def e1 : Rec := { time := 2, commit := H.leaf [1], bytes := [1] }
private def e2 : Rec := { time := 6, commit := H.leaf [2], bytes := [2] }
private def f1 : Rec := { time := 3, commit := H.leaf [3], bytes := [3] }
private def g1 : Rec := { time := 4, commit := H.leaf [4], bytes := [4] }
private def g2 : Rec := { time := 5, commit := H.leaf [5], bytes := [5] }

/-- device 0 calls, device 1 calls, device 0 again, device 2 joins, then everybody once more -/
example : ((start [] bx [[e1, e2], [f1], [g1, g2]]).run ([0, 1, 0, 2] ++ [2, 0, 1])) =
    { s := [bx, e1, f1, g1, g2, e2], ds := List.replicate 3 [bx, e1, f1, g1, g2, e2] } := by decide

example : joinRun 0 [0, 1, 0, 2] = some 3 := by decide

end Sos.Props.C04
