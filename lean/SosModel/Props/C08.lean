/-
  C08  Commit comparison tells the truth about who is ahead.
  Property theorems only; helper lemmas live in SosModel/Lemmas/Merkle.lean.
-/
import SosModel.Lemmas.Merkle
namespace Sos.Props.C08
open Sos Sos.Merkle

/-- All elements are digests of event bytes (every commit hash in a log is). -/
def Atoms (l : List H) : Prop := ∀ x ∈ l, Atom x

/-- C08/1.  Two logs have the same root iff they hold the same sequence. -/
theorem root_eq_iff_same_sequence {l r : List H} (hl : Atoms l) (hr : Atoms r) :
    root l = root r ↔ l = r :=
  ⟨root_injective hl hr, fun h => h ▸ rfl⟩

theorem head_eq {r : List H} (hr : r ≠ []) :
    ∃ b, root r = some b ∧
      head r = some { root := b, hashes := proof r (r.length - 1), length := r.length,
                      indices := [r.length - 1] } := by
  obtain ⟨b, hb, _⟩ := root_flatten hr
  refine ⟨b, hb, ?_⟩
  unfold head treeProof
  have : r.isEmpty = false := by cases r <;> simp_all
  simp [this, hb]

/-- C08/2 (full statement).  Comparing a non-empty log `l` with the head proof of a
non-empty log `r` answers `equal` exactly when they are the same sequence,
`contains [|r|-1]` exactly when `r` is a proper prefix of `l` (so the events after
the reported position are what the other side lacks), and `unknown` otherwise. -/
theorem compare_head_spec (l r : List H) (hl : Atoms l) (hr : Atoms r)
    (hln : l ≠ []) (hrn : r ≠ []) (p : CommitProof) (hp : head r = some p) :
    Merkle.compare l p = some (some
      (if l = r then .equal
       else if r <+: l then .contains [r.length - 1]
       else .unknown)) := by
  obtain ⟨b, hb, hh⟩ := head_eq hrn
  obtain ⟨a, ha, _⟩ := root_flatten hln
  rw [hh] at hp; cases hp
  have hrpos : 0 < r.length := List.length_pos_iff.mpr hrn
  unfold Merkle.compare
  simp only [ha]
  by_cases hab : a = b
  · have : l = r := root_injective hl hr (by rw [ha, hb, hab])
    simp [hab, this]
  · have hne : l ≠ r := by
      intro h; subst h; rw [ha] at hb; cases hb; exact hab rfl
    simp only [hab, if_false, hne]
    by_cases hlen : r.length - 1 < l.length
    · have hget : l[r.length - 1]? = some l[r.length - 1] := List.getElem?_eq_getElem hlen
      simp only [List.filterMap_cons, hget, List.filterMap_nil, List.length_cons, List.length_nil,
        if_true]
      have hx : Atom l[r.length - 1] := hl _ (List.getElem_mem hlen)
      have hv := verify_iff r (r.length - 1) l[r.length - 1] (by omega) hr hx
      rw [hb] at hv
      by_cases hpre : r <+: l
      · have hxe : l[r.length - 1] = r[r.length - 1]'(by omega) := by
          obtain ⟨t, rfl⟩ := hpre
          rw [List.getElem_append_left]
        have hvt : verifyRoot (proof r (r.length - 1)) (r.length - 1) l[r.length - 1] r.length = some b :=
          hv.mpr hxe
        have htake : l.take r.length = r := by
          obtain ⟨t, rfl⟩ := hpre; simp
        have hle : ¬ l.length < r.length := by
          obtain ⟨t, rfl⟩ := hpre; simp
        have hidx : r.length - 1 + 1 = r.length := by omega
        have hp2 : containsHead l b [r.length - 1] r.length = true := by
          unfold containsHead
          simp only [List.length_cons, List.length_nil, List.head?_cons, Option.map_some, hidx,
            and_self, if_true, if_neg hle, htake, hb]
          simp
        simp [verify, hvt, hp2, hpre]
      · simp only [hpre, if_false]
        by_cases hvt : verifyRoot (proof r (r.length - 1)) (r.length - 1) l[r.length - 1] r.length = some b
        · have hidx : r.length - 1 + 1 = r.length := by omega
          have hp2 : containsHead l b [r.length - 1] r.length = false := by
            unfold containsHead
            simp only [List.length_cons, List.length_nil, List.head?_cons, Option.map_some, hidx,
              and_self, if_true]
            by_cases hc : l.length < r.length
            · rw [if_pos hc]
            · rw [if_neg hc]
              have hne2 : ¬ root (l.take r.length) = some b := by
                intro h
                have : l.take r.length = r :=
                  root_injective (fun x hx => hl x (List.mem_of_mem_take hx)) hr (by rw [h, hb])
                exact hpre ⟨l.drop r.length, by
                  have e := List.take_append_drop r.length l
                  rw [this] at e; exact e⟩
              simp [hne2]
          simp [verify, hvt, hp2]
        · simp [verify, hvt]
    · have hget : l[r.length - 1]? = none := List.getElem?_eq_none (by omega)
      have hpre : ¬ r <+: l := by
        intro h; have := h.length_le; omega
      simp [hget, hpre]

/-- C08/3.  `equal` only for the same sequence. -/
theorem compare_equal_iff (l r : List H) (hl : Atoms l) (hr : Atoms r)
    (hln : l ≠ []) (hrn : r ≠ []) (p : CommitProof) (hp : head r = some p) :
    Merkle.compare l p = some (some .equal) ↔ l = r := by
  rw [compare_head_spec l r hl hr hln hrn p hp]
  by_cases h : l = r
  · simp [h]
  · by_cases h2 : r <+: l <;> simp [h, h2]

/-- C08/4.  `contains` only when the other log is a prefix of this one. -/
theorem compare_contains_iff (l r : List H) (hl : Atoms l) (hr : Atoms r)
    (hln : l ≠ []) (hrn : r ≠ []) (p : CommitProof) (hp : head r = some p) (ix : List Nat) :
    Merkle.compare l p = some (some (.contains ix)) ↔ (r <+: l ∧ l ≠ r ∧ ix = [r.length - 1]) := by
  rw [compare_head_spec l r hl hr hln hrn p hp]
  by_cases h : l = r
  · simp [h]
  · by_cases h2 : r <+: l
    · simp [h, h2]; exact eq_comm
    · simp [h, h2]

/-- C08/5.  Whatever head-shaped proof is presented (stale, forged, from a diverged
log: any root, any hashes, any length, proving the last position), `contains` is
answered only if the claimed root really is the root of the first `length` local
leaves. -/
theorem compare_contains_any_head_proof (l : List H) (p : CommitProof) (ix : List Nat)
    (hshape : p.indices = [p.length - 1]) (hlen : 0 < p.length)
    (h : Merkle.compare l p = some (some (.contains ix))) :
    p.length ≤ l.length ∧ root (l.take p.length) = some p.root := by
  have hidx : p.length - 1 + 1 = p.length := by omega
  cases hpf : containsHead l p.root p.indices p.length with
  | false =>
    exfalso
    unfold Merkle.compare at h
    simp only [hpf] at h
    split at h
    · cases h
    · split at h
      · cases h
      · split at h
        · split at h <;> simp at h
        · cases h
  | true =>
    unfold containsHead at hpf
    rw [hshape] at hpf
    simp only [List.length_cons, List.length_nil, List.head?_cons, Option.map_some, hidx,
      and_self, if_true] at hpf
    split at hpf
    · cases hpf
    · rename_i hc
      exact ⟨by omega, by simpa using hpf⟩

/-- C08/6.  A single-leaf proof taken from a log `r` at position `i` verifies
against a replica `l` of any length exactly when `l` holds the same commit at `i`. -/
theorem verify_leaves_iff (l r : List H) (hl : Atoms l) (hr : Atoms r) (i : Nat)
    (hi : i < r.length) (p : CommitProof) (hp : treeProof r i = some p) :
    (verifyLeaves p l).1 = some true ↔ l[i]? = some r[i] := by
  have hrn : r ≠ [] := by intro h; subst h; simp at hi
  obtain ⟨b, hb, _⟩ := root_flatten hrn
  unfold treeProof at hp
  rw [hb] at hp; cases hp
  unfold verifyLeaves
  cases hg : l[i]? with
  | none => simp [hg, verify]
  | some x =>
    have hx : Atom x := hl x (List.mem_of_getElem? hg)
    have hv := verify_iff r i x hi hr hx
    rw [hb] at hv
    simp [hg, verify, hv]

/-- C08/7.  The ancestor search reports position `i` iff `i` is the newest remote
position at which both logs hold the same commit (and the first commits agree). -/
theorem matchAt_iff (l r : List H) (hl : Atoms l) (hr : Atoms r) (i : Nat) (hi : i < r.length) :
    matchAt l r i = true ↔ l[i]? = some r[i] := by
  have hrn : r ≠ [] := by intro h; subst h; simp at hi
  obtain ⟨b, hb, _⟩ := root_flatten hrn
  unfold matchAt
  have : treeProof r i = some { root := b, hashes := proof r i, length := r.length, indices := [i] } := by
    simp [treeProof, hb]
  rw [this]
  simpa using verify_leaves_iff l r hl hr i hi _ this

theorem scanDown_spec (l r : List H) (n i : Nat) :
    scanDown l r n = some i ↔
      (i < n ∧ matchAt l r i = true ∧ ∀ j, i < j → j < n → matchAt l r j = false) := by
  induction n with
  | zero => simp [scanDown]
  | succ n ih =>
    unfold scanDown
    by_cases h : matchAt l r n = true
    · simp only [h, if_true, Option.some.injEq]
      constructor
      · intro e; subst e; exact ⟨by omega, h, fun j h1 h2 => by omega⟩
      · intro ⟨h1, h2, h3⟩
        by_cases e : n = i
        · exact e
        · have := h3 n (by omega) (by omega); simp [h] at this
    · have hf : matchAt l r n = false := by simpa using h
      simp only [hf, Bool.false_eq_true, if_false]
      rw [ih]
      constructor
      · intro ⟨h1, h2, h3⟩
        refine ⟨by omega, h2, fun j h4 h5 => ?_⟩
        by_cases e : j = n
        · subst e; simpa using h
        · exact h3 j h4 (by omega)
      · intro ⟨h1, h2, h3⟩
        have : i ≠ n := by intro e; subst e; exact h h2
        exact ⟨by omega, h2, fun j h4 h5 => h3 j h4 (by omega)⟩

/-- C08/8 (partial).  When the two logs share the prefix `pre` and no later
position holds the same commit on both sides, the search returns the end of the
common prefix, i.e. the true ancestor.  The unrestricted statement ("the scan
returns the longest common prefix") is false of the code: see `scan_not_lcp`. -/
theorem scan_finds_lcp_partial (pre a b : List H) (hpre : pre ≠ [])
    (hl : Atoms (pre ++ a)) (hr : Atoms (pre ++ b))
    (hdis : ∀ (j : Nat) (x : H), a[j]? = some x → b[j]? ≠ some x) :
    scanDown (pre ++ a) (pre ++ b) (pre ++ b).length = some (pre.length - 1) := by
  rw [scanDown_spec]
  have hp : 0 < pre.length := List.length_pos_iff.mpr hpre
  refine ⟨by simp; omega, ?_, ?_⟩
  · rw [matchAt_iff _ _ hl hr _ (by simp; omega)]
    rw [List.getElem?_append_left (by omega), List.getElem_append_left (by omega)]
    exact List.getElem?_eq_getElem _
  · intro j h1 h2
    have hj : j < (pre ++ b).length := h2
    cases hm : matchAt (pre ++ a) (pre ++ b) j with
    | false => rfl
    | true =>
      rw [matchAt_iff _ _ hl hr _ hj] at hm
      have hge : pre.length ≤ j := by omega
      rw [List.getElem?_append_right hge] at hm
      have hb : (pre ++ b)[j] = b[j - pre.length]'(by simp at hj; omega) := by
        rw [List.getElem_append_right hge]
      rw [hb] at hm
      exact absurd (List.getElem?_eq_getElem _) (hdis _ _ hm)

/-- The newest position of a block of `cnt` positions below `m`, or the flat scan of the rest. -/
theorem scanDown_block (l r : List H) (cnt m : Nat) (h : cnt ≤ m) :
    scanDown l r m =
      match (((List.range cnt).map (fun k => m - cnt + k)).reverse.find? (matchAt l r)) with
      | some i => some i
      | none => scanDown l r (m - cnt) := by
  induction cnt generalizing m with
  | zero => simp
  | succ c ih =>
    obtain ⟨m', rfl⟩ : ∃ m', m = m' + 1 := ⟨m - 1, by omega⟩
    have hmap : (List.range (c + 1)).map (fun k => m' + 1 - (c + 1) + k)
        = (List.range c).map (fun k => m' - c + k) ++ [m'] := by
      rw [List.range_succ, List.map_append]
      congr 1
      · apply List.map_congr_left; intro k _; omega
      · simp only [List.map_cons, List.map_nil, List.cons.injEq, and_true]; omega
    rw [hmap, List.reverse_append]
    simp only [List.reverse_cons, List.reverse_nil, List.nil_append, List.cons_append, List.find?_cons]
    rw [show scanDown l r (m' + 1) = if matchAt l r m' = true then some m' else scanDown l r m' from rfl]
    cases hm : matchAt l r m' with
    | true => simp
    | false =>
      simp only [Bool.false_eq_true, if_false]
      rw [ih m' (by omega)]
      have : m' + 1 - (c + 1) = m' - c := by omega
      rw [this]

/-- C08/9.  Paging changes nothing: the client's paged loop over `scan_log` responses
(any page size > 0, enough rounds) visits the same positions in the same order as one flat
scan from the newest position down, so it stops at the same position or is exhausted alike. -/
theorem paged_scan_eq_flat_scan (l r : List H) (limit : Nat) (hlim : 0 < limit) :
    ∀ (fuel offset : Nat), offset ≤ r.length → r.length - offset ≤ fuel →
      scanPaged l r limit (fuel + 1) offset = scanDown l r (r.length - offset) := by
  intro fuel
  induction fuel with
  | zero =>
    intro offset h1 h2
    have : offset = r.length := by omega
    subst this
    simp [scanPaged, scanPage, scanDown]
  | succ f ih =>
    intro offset h1 h2
    by_cases hge : offset ≥ r.length
    · have : offset = r.length := by omega
      subst this
      simp [scanPaged, scanPage, scanDown]
    · have hlt : offset < r.length := by omega
      have hl0 : limit ≠ 0 := by omega
      rw [scanPaged]
      simp only [scanPage, hge, if_false, hl0]
      have hcpos : 0 < min limit (r.length - offset) := by rw [Nat.lt_min]; omega
      have hcle : min limit (r.length - offset) ≤ r.length - offset := Nat.min_le_right _ _
      generalize hc : min limit (r.length - offset) = cnt at hcpos hcle
      have hne : ((List.range cnt).map (fun k => r.length - offset - cnt + k)).isEmpty = false := by
        cases cnt with
        | zero => omega
        | succ c => simp [List.range_succ]
      simp only [hne, Bool.false_eq_true, if_false]
      rw [scanDown_block l r cnt (r.length - offset) hcle]
      cases hf : ((List.range cnt).map (fun k => r.length - offset - cnt + k)).reverse.find? (matchAt l r) with
      | some i => rfl
      | none =>
        simp only
        rw [ih (offset + cnt) (by omega) (by omega)]
        congr 1; omega

/-- Pages tile the log: a page holds exactly the positions `[n - offset - cnt, n - offset)`
in ascending order and the next offset is `offset + cnt`. -/
theorem scan_page_positions (n offset limit : Nat) (h : offset < n) (hlim : 0 < limit) :
    (scanPage n offset limit).1 =
      (List.range (min limit (n - offset))).map (fun k => n - offset - min limit (n - offset) + k)
    ∧ (scanPage n offset limit).2 = offset + min limit (n - offset) := by
  unfold scanPage
  have h1 : ¬ offset ≥ n := by omega
  have h2 : limit ≠ 0 := by omega
  simp [h1, h2]

private def A : H := .leaf [1]
private def B : H := .leaf [2]
private def C : H := .leaf [3]
private def X : H := .leaf [9]

/-- Witness: an equal commit at the same position after the divergence point makes
the search stop there, although the true common prefix is `[A]`.
(KNOWN FINDING C08/scan-not-lcp; replayed on the implementation by the harness.) -/
theorem scan_not_lcp : scanDown [A, B, C] [A, X, C] 3 = some 2 := by decide

/- Non-vacuity: the hypotheses of the theorems above are met by concrete logs. -/
example : scanPage 5 2 2 = ([1, 2], 4) := by decide
example : scanPaged [A, B, C] [A, X, X] 1 4 0 = some 0 := by decide
example : Merkle.compare [A, B, C] ((head [A, B]).get (by decide)) = some (some (.contains [1])) := by decide
example : Merkle.compare [A, X, C] ((head [A, B, C]).get (by decide)) = some (some .unknown) := by decide
example : Merkle.compare [A, B] ((head [A, B, C]).get (by decide)) = some (some .unknown) := by decide
example : scanDown ([A] ++ [B]) ([A] ++ [X, C]) 3 = some 0 := by decide
example : Atoms [A, B, C] := by intro x hx; simp [A, B, C] at hx; rcases hx with h | h | h <;> subst h <;> trivial

end Sos.Props.C08
