/-
  C06  Persisted event logs are faithful: storage, tree and order agree.
  Property theorems only (helpers: SosModel/Lemmas/Log.lean).
-/
import SosModel.Lemmas.Log
namespace Sos.Props.C06
open Sos Sos.Merkle Sos.Log

/-- C06/1.  Every operation keeps, for every co-resident log, the in-memory tree equal
to the commits of the stored rows in order. -/
theorem step_preserves_inv (s : Sys) (op : Op) (h : Inv s) : Inv (step s op).1 := by
  cases op with
  | apply o t evs => exact inv_applyRecords h o _
  | applyRecords o rs => exact inv_applyRecords h o rs
  | patchChecked o cp rs => exact inv_patchChecked h o cp rs
  | patchUnchecked o rs => exact inv_applyRecords h o rs
  | rewind o c => exact inv_rewind h o c
  | clear o => exact inv_clear h o
  | replaceAll o rs cp => exact inv_replaceAll h o rs cp
  | loadTree o => exact inv_loadTree h o
  | eventPatch o c cp rs =>
    simp only [step]
    rcases eventPatch_guard s o c cp rs with hg | ⟨hs, _⟩
    case inr => rw [hs]; exact h
    rw [hg]
    unfold eventPatchCore
    cases c with
    | none => exact inv_patchChecked h o cp rs
    | some c =>
      simp only
      have hi := inv_rewind h o c
      generalize hrw : rewind s o c = res at hi
      obtain ⟨s1, out⟩ := res
      simp only at hi ⊢
      cases out with
      | records removed =>
        simp only
        have hi2 := inv_patchChecked hi o cp rs
        generalize hpc : patchChecked s1 o cp rs = res2 at hi2
        obtain ⟨s2, out2⟩ := res2
        simp only at hi2 ⊢
        cases out2 with
        | conflict hd k => exact inv_applyRecords hi2 o removed
        | _ => exact hi2
      | _ => exact hi

/-- C06/2.  After any sequence of operations on any number of co-resident logs,
re-opening a log from storage (`load_tree`) yields exactly the tree held in memory:
same leaves in the same order, hence same root and length. -/
theorem reopen_yields_same_tree (ops : List Op) (o : Nat) :
    (loadTree (run init ops) o).trees o = (run init ops).trees o := by
  have hinv : Inv (run init ops) := by
    unfold run
    have : ∀ (s : Sys), Inv s → Inv (ops.foldl (fun s op => (step s op).1) s) := by
      induction ops with
      | nil => intro s h; exact h
      | cons a t ih => intro s h; exact ih _ (step_preserves_inv s a h)
    exact this init (fun _ => rfl)
  unfold loadTree Sys.setTree
  simp [hinv o]

/-- Records supplied from outside carry the digest of their own bytes. -/
def RecWF (r : Rec) : Prop := r.commit = H.leaf r.bytes

def OpWF : Op → Prop
  | .applyRecords _ rs | .patchChecked _ _ rs | .patchUnchecked _ rs
  | .replaceAll _ rs _ | .eventPatch _ _ _ rs => ∀ r ∈ rs, RecWF r
  | _ => True

def StoreWF (s : Sys) : Prop := ∀ row ∈ s.store, RecWF row.r

theorem storeWF_applyRecords {s : Sys} (h : StoreWF s) (o : Nat) (rs : List Rec)
    (hr : ∀ r ∈ rs, RecWF r) : StoreWF (applyRecords s o rs) := by
  unfold applyRecords
  split
  · exact h
  · intro row hrow
    simp only [List.mem_append, List.mem_map] at hrow
    rcases hrow with h1 | ⟨r, hr1, rfl⟩
    · exact h row h1
    · exact hr r hr1

theorem mem_keepFirst {st : List Row} {o n : Nat} {row : Row} (h : row ∈ keepFirst st o n) :
    row ∈ st := by
  induction st generalizing n with
  | nil => simp [keepFirst] at h
  | cons r rest ih =>
    unfold keepFirst at h
    split at h
    · cases n with
      | zero => exact List.mem_cons_of_mem _ (ih h)
      | succ k =>
        simp only [List.mem_cons] at h ⊢
        rcases h with h | h
        · exact Or.inl h
        · exact Or.inr (ih h)
    · simp only [List.mem_cons] at h ⊢
      rcases h with h | h
      · exact Or.inl h
      · exact Or.inr (ih h)

theorem storeWF_rewind {s : Sys} (h : StoreWF s) (o : Nat) (c : H) : StoreWF (rewind s o c).1 := by
  unfold rewind
  simp only
  split
  · exact h
  · split
    · exact h
    · intro row hrow; exact h row (mem_keepFirst hrow)

theorem removed_wf {s s1 : Sys} {o : Nat} {c : H} {removed : List Rec} (h : StoreWF s)
    (hr : rewind s o c = (s1, .records removed)) : ∀ r ∈ removed, RecWF r := by
  unfold rewind at hr
  simp only at hr
  split at hr
  · cases hr
  · split at hr
    · cases hr
    · simp only [Prod.mk.injEq, Out.records.injEq] at hr
      intro r hrm
      rw [← hr.2] at hrm
      have := List.mem_of_mem_drop hrm
      simp only [Sys.rowsOf, List.mem_map, List.mem_filter] at this
      obtain ⟨row, ⟨hrow, _⟩, rfl⟩ := this
      exact h row hrow

theorem storeWF_patchChecked {s : Sys} (h : StoreWF s) (o : Nat) (cp : CommitProof)
    (rs : List Rec) (hr : ∀ r ∈ rs, RecWF r) : StoreWF (patchChecked s o cp rs).1 := by
  rcases patchChecked_cases s o cp rs with ⟨h1, _⟩ | ⟨h1, _⟩
  · rw [h1]; exact storeWF_applyRecords h o rs hr
  · rw [h1]; exact h

/-- C06/3.  Every stored record's commit hash is the SHA-256 of its event bytes,
provided records handed in from outside (patches, replacements) are themselves
well-formed; events appended through `apply` are hashed by the log itself. -/
theorem stored_commit_is_hash_of_bytes (s : Sys) (op : Op) (h : StoreWF s) (hop : OpWF op) :
    StoreWF (step s op).1 := by
  cases op with
  | apply o t evs =>
    apply storeWF_applyRecords h
    intro r hr
    simp only [List.mem_map] at hr
    obtain ⟨b, _, rfl⟩ := hr
    rfl
  | applyRecords o rs => exact storeWF_applyRecords h o rs hop
  | patchChecked o cp rs => exact storeWF_patchChecked h o cp rs hop
  | patchUnchecked o rs => exact storeWF_applyRecords h o rs hop
  | rewind o c => exact storeWF_rewind h o c
  | clear o =>
    intro row hrow
    simp only [step, clear, List.mem_filter] at hrow
    exact h row hrow.1
  | replaceAll o rs cp =>
    rcases replaceAll_cases s o rs cp with ⟨h1, _⟩ | ⟨h1, _⟩
    · simp only [step]; rw [h1]
      apply storeWF_applyRecords _ o rs hop
      intro row hrow
      simp only [clear, List.mem_filter] at hrow
      exact h row hrow.1
    · simp only [step]; rw [h1]; exact h
  | loadTree o => exact h
  | eventPatch o c cp rs =>
    simp only [step]
    rcases eventPatch_guard s o c cp rs with hg | ⟨hs, _⟩
    case inr => rw [hs]; exact h
    rw [hg]
    unfold eventPatchCore
    cases c with
    | none => exact storeWF_patchChecked h o cp rs hop
    | some c =>
      simp only
      have hi := storeWF_rewind h o c
      generalize hrw : rewind s o c = res at hi
      obtain ⟨s1, out⟩ := res
      simp only at hi ⊢
      cases out with
      | records removed =>
        simp only
        have hrem := removed_wf h hrw
        have hi2 := storeWF_patchChecked hi o cp rs hop
        generalize hpc : patchChecked s1 o cp rs = res2 at hi2
        obtain ⟨s2, out2⟩ := res2
        simp only at hi2 ⊢
        cases out2 with
        | conflict hd k => exact storeWF_applyRecords hi2 o removed hrem
        | _ => exact hi2
      | _ => exact hi

/-- C06/4.  Appending keeps append order and the original records (timestamps
included): the log afterwards is the log before followed by the new records. -/
theorem append_order_preserved (s : Sys) (o : Nat) (rs : List Rec) :
    (step s (.applyRecords o rs)).1.rowsOf o = s.rowsOf o ++ rs := by
  simp [step, rowsOf_applyRecords]

theorem apply_appends_encoded (s : Sys) (o t : Nat) (evs : List Bytes) :
    (step s (.apply o t evs)).1.rowsOf o = s.rowsOf o ++ evs.map (encodeEvent t) := by
  simp [step, rowsOf_applyRecords]

/-- C06/5.  A successful rewind keeps a prefix and hands back exactly the rest, in
log order: `before = after ++ removed`. -/
theorem rewind_keeps_prefix (s s1 : Sys) (o : Nat) (c : H) (removed : List Rec) (h : Inv s)
    (hr : rewind s o c = (s1, .records removed)) :
    s.rowsOf o = s1.rowsOf o ++ removed ∧ (s1.rowsOf o).getLast?.map (·.commit) = some c := by
  obtain ⟨k, hk, hlt, hrem, h1, _, _⟩ := rewind_spec h hr
  refine ⟨by rw [h1, hrem, List.take_append_drop], ?_⟩
  rw [h1]
  have ⟨_, hc⟩ := findLast_some hk
  rw [List.getLast?_take]
  simp only [Nat.add_sub_cancel, Nat.succ_ne_zero, if_false]
  rw [List.getElem?_eq_getElem hlt] at hc ⊢
  simpa using hc

/-- C06/6.  Isolation: an operation on one log never changes the rows or the tree of
any other log sharing the same table / directory. -/
theorem other_logs_untouched (s : Sys) (op : Op) (o' : Nat) (hne : o' ≠ op.owner) (h : Inv s) :
    (step s op).1.rowsOf o' = s.rowsOf o' ∧ (step s op).1.trees o' = s.trees o' := by
  have happ : ∀ (t : Sys) (o : Nat) (rs : List Rec), o' ≠ o →
      (applyRecords t o rs).rowsOf o' = t.rowsOf o' ∧ (applyRecords t o rs).trees o' = t.trees o' := by
    intro t o rs hn
    rw [rowsOf_applyRecords, trees_applyRecords]; simp [hn]
  have hpc : ∀ (t : Sys) (o : Nat) (cp : CommitProof) (rs : List Rec), o' ≠ o →
      (patchChecked t o cp rs).1.rowsOf o' = t.rowsOf o' ∧
      (patchChecked t o cp rs).1.trees o' = t.trees o' := by
    intro t o cp rs hn
    rcases patchChecked_cases t o cp rs with ⟨h1, _⟩ | ⟨h1, _⟩
    · rw [h1]; exact happ t o rs hn
    · rw [h1]; exact ⟨rfl, rfl⟩
  have hrw : ∀ (t : Sys) (o : Nat) (c : H), Inv t → o' ≠ o →
      (rewind t o c).1.rowsOf o' = t.rowsOf o' ∧ (rewind t o c).1.trees o' = t.trees o' := by
    intro t o c ht hn
    rcases rewind_out t o c with ⟨rs, hrs⟩ | ⟨e, he⟩
    · have hr : rewind t o c = ((rewind t o c).1, .records rs) := by rw [← hrs]
      obtain ⟨_, _, _, _, _, _, h3⟩ := rewind_spec ht hr
      exact h3 o' hn
    · have hr : rewind t o c = ((rewind t o c).1, .err e) := by rw [← he]
      rw [rewind_err_unchanged hr]; exact ⟨rfl, rfl⟩
  cases op with
  | apply o t evs => exact happ s o _ hne
  | applyRecords o rs => exact happ s o rs hne
  | patchChecked o cp rs => exact hpc s o cp rs hne
  | patchUnchecked o rs => exact happ s o rs hne
  | rewind o c => exact hrw s o c h hne
  | clear o =>
    simp only [step]
    rw [rowsOf_clear]
    have : ¬ o' = o := hne
    simp [this, clear]
  | replaceAll o rs cp =>
    simp only [step]
    rcases replaceAll_cases s o rs cp with ⟨h1, _⟩ | ⟨h1, _⟩
    · rw [h1]
      have := happ (clear s o) o rs hne
      rw [this.1, this.2, rowsOf_clear]
      have hn : ¬ o' = o := hne
      simp [hn, clear]
    · rw [h1]; exact ⟨rfl, rfl⟩
  | loadTree o =>
    have hn : ¬ o' = o := hne
    simp [step, loadTree, Sys.setTree, Sys.rowsOf, hn]
  | eventPatch o c cp rs =>
    simp only [step]
    rcases eventPatch_guard s o c cp rs with hg | ⟨hs, _⟩
    case inr => rw [hs]; exact ⟨rfl, rfl⟩
    rw [hg]
    unfold eventPatchCore
    cases c with
    | none => exact hpc s o cp rs hne
    | some c =>
      simp only
      have h1 := hrw s o c h hne
      have hi := inv_rewind h o c
      generalize hrwd : rewind s o c = res at h1 hi
      obtain ⟨s1, out⟩ := res
      simp only at h1 hi ⊢
      cases out with
      | records removed =>
        simp only
        have h2 := hpc s1 o cp rs hne
        generalize hpcd : patchChecked s1 o cp rs = res2 at h2
        obtain ⟨s2, out2⟩ := res2
        simp only at h2 ⊢
        cases out2 with
        | conflict hd k =>
          have h3 := happ s2 o removed hne
          exact ⟨by rw [h3.1, h2.1, h1.1], by rw [h3.2, h2.2, h1.2]⟩
        | _ => exact ⟨by rw [h2.1, h1.1], by rw [h2.2, h1.2]⟩
      | _ => exact h1

/-- C06/7.  Reverse iteration is the exact mirror of forward iteration (the model
streams are `rowsOf` and its reverse; the real `FormatStream` / SQL `ORDER BY` are tied
to them by the correspondence run). -/
theorem reverse_stream_mirrors_forward (s : Sys) (o : Nat) :
    ((s.rowsOf o).reverse).reverse = s.rowsOf o := List.reverse_reverse _

/- Non-vacuity: a reachable two-log state with a duplicate event across logs. -/
private def e1 : Bytes := [1]
private def e2 : Bytes := [2]
private def demo : Sys :=
  run init [.apply 0 10 [e1, e2], .apply 1 11 [e1], .rewind 0 (H.leaf e1), .apply 0 12 [e2]]
example : demo.rowsOf 0 = [encodeEvent 10 e1, encodeEvent 12 e2] := by decide
example : demo.rowsOf 1 = [encodeEvent 11 e1] := by decide
example : demo.trees 0 = [H.leaf e1, H.leaf e2] := by decide

end Sos.Props.C06
