/-
  C12  Compaction and key changes keep the data and really change the key.
  Compaction and history rewrites at the folder-content level; key changes (password,
  cipher, KDF) in the symbolic crypto model of SosModel/Rekey.lean.
-/
import SosModel.Props.C02
import SosModel.Rekey
namespace Sos.Props.C12
open Sos Sos.Folder

/-- keys of the secrets map are pairwise distinct (IndexMap invariant) -/
def WFVault (v : Vault) : Prop := (keys v.secrets).Nodup

theorem reduceEv_wf (v : Vault) (e : Ev) (h : WFVault v) : WFVault (reduceEv v e) := by
  unfold WFVault at *
  cases e <;> simp only [reduceEv] <;> try exact h
  · exact nodup_insert h _ _
  · exact nodup_insert h _ _
  · exact nodup_remove h _

theorem reduce_wf (log : List Ev) (v : Vault) (h : reduce log = some v) : WFVault v := by
  cases log with
  | nil => simp [reduce] at h
  | cons a rest =>
    cases a with
    | createVault n f d =>
      simp only [reduce, Option.some.injEq] at h
      subst h
      have : ∀ (l : List Ev) (w : Vault), WFVault w → WFVault (l.foldl reduceEv w) := by
        intro l
        induction l with
        | nil => intro w hw; exact hw
        | cons e t ih => intro w hw; exact ih _ (reduceEv_wf w e hw)
      exact this rest _ (by simp [WFVault, keys])
    | _ => simp [reduce] at h

/-- C12/1.  Replaying the compacted event list gives back exactly the folder: same name,
flags, description, the same secret ids in the same order with the same content. -/
theorem compact_preserves_content (v : Vault) (h : WFVault v) : reduce (compactEvents v) = some v := by
  unfold compactEvents
  simp only [reduce, Option.some.injEq]
  have hfold : ∀ (s : Secrets) (w : Vault),
      (s.map (fun p => Ev.createSecret p.1 p.2)).foldl reduceEv w =
        { w with secrets := s.foldl (fun a p => Secrets.insert a p.1 p.2) w.secrets } := by
    intro s
    induction s with
    | nil => intro w; rfl
    | cons p t ih => intro w; simp only [List.map_cons, List.foldl_cons, reduceEv]; rw [ih]
  rw [hfold]
  simp only
  rw [foldl_insert_rebuild v.secrets [] (by simpa [WFVault] using h)]
  simp

/-- C12/2.  Compacting any consistent folder keeps it consistent and leaves the served
vault untouched. -/
theorem compact_keeps_folder (f : Folder) (h : C02.Consistent f) :
    C02.Consistent f.compact ∧ f.compact.vault = f.vault := by
  unfold Folder.compact C02.Consistent at *
  rw [h]
  exact ⟨compact_preserves_content f.vault (reduce_wf f.log f.vault h), rfl⟩

/-- C12/3.  The compacted log has exactly one creation event plus one event per live
secret. -/
theorem compact_log_shape (v : Vault) : (compactEvents v).length = 1 + v.secrets.length := by
  simp [compactEvents]; omega

/-- C12/4.  Any interleaving and repetition of local edits and compactions keeps the
folder consistent (induction over the maintenance history). -/
inductive Maint where
  | op (o : Op)
  | compact

def Maint.run (f : Folder) : Maint → Folder
  | .op o => f.step o
  | .compact => f.compact

theorem maintenance_history_consistent (n fl d : Nat) (ms : List Maint) :
    C02.Consistent (ms.foldl Maint.run (Folder.new n fl d)) := by
  have : ∀ (f : Folder), C02.Consistent f → C02.Consistent (ms.foldl Maint.run f) := by
    induction ms with
    | nil => intro f h; exact h
    | cons m t ih =>
      intro f h
      apply ih
      cases m with
      | op o => exact C02.local_op_preserves f o h
      | compact => exact (compact_keeps_folder f h).1
  exact this _ (C02.new_consistent n fl d)

example : (([Maint.op (.create 1 5), .op (.setFlags 256), .op (.delete 1), .op (.create 2 7), .compact].foldl
    Maint.run (Folder.new 3 0 0)).log) = [.createVault 3 256 0, .createSecret 2 7] := by decide


/-! ### key changes -/
section Rekey
open Sos.Crypto Sos.Rekey

theorem openRow_sealRows (c : CipherId) (k : Key) (n : Nat) (rs : List (Nat × Bytes × Bytes)) :
    (sealRows c k n rs).mapM (openRow c k) = some rs := by
  induction rs generalizing n with
  | nil => rfl
  | cons r rest ih =>
    obtain ⟨i, m, s⟩ := r
    simp only [sealRows, List.mapM_cons, openRow, decrypt, encrypt, ne_eq, not_true_eq_false,
      if_false, if_true, ih]
    rfl

/-- C12/5.  A key change keeps the data: the re-keyed folder, read with the NEW key, has the
same folder meta and the same secrets (ids, order, meta, content). -/
theorem rekey_preserves_content (f f' : EncFolder) (c' : CipherId) (k' : Key) (n : Nat)
    (h : rekey f c' k' n = some f') : f'.content = f.content := by
  unfold rekey at h
  cases hc : f.content with
  | none => simp [hc] at h
  | some mr =>
    obtain ⟨m, rs⟩ := mr
    simp only [hc, Option.some.injEq] at h
    subst h
    simp only [EncFolder.content, decrypt, encrypt, ne_eq, not_true_eq_false, if_false, if_true,
      openRow_sealRows]

theorem mem_sealRows_blobs (c : CipherId) (k : Key) (n : Nat) (rs : List (Nat × Bytes × Bytes)) (p : Pack)
    (hp : p ∈ (sealRows c k n rs).flatMap (fun r => [r.2.1, r.2.2])) :
    p.box.key = k ∧ p.nonceBytes = nonceLen c := by
  induction rs generalizing n with
  | nil => simp [sealRows] at hp
  | cons r rest ih =>
    obtain ⟨i, m, s⟩ := r
    simp only [sealRows, List.flatMap_cons, List.mem_append, List.mem_cons, List.not_mem_nil,
      or_false] at hp
    rcases hp with (h | h) | h
    · subst h; simp [encrypt]
    · subst h; simp [encrypt]
    · exact ih _ h

/-- C12/6.  A key change really changes the key: after re-keying to a different key (new
password, or new salt / KDF) NO stored blob of the folder opens with the old key, with either
cipher. -/
theorem old_key_opens_nothing (f f' : EncFolder) (c' : CipherId) (k' : Key) (n : Nat)
    (h : rekey f c' k' n = some f') (hk : k' ≠ f.key) :
    ∀ p ∈ f'.blobs, ∀ c, decrypt c f.key p = none := by
  unfold rekey at h
  cases hc : f.content with
  | none => simp [hc] at h
  | some mr =>
    obtain ⟨m, rs⟩ := mr
    simp only [hc, Option.some.injEq] at h
    subst h
    intro p hp c
    simp only [EncFolder.blobs, List.mem_cons] at hp
    have hkey : p.box.key = k' := by
      rcases hp with h | h
      · subst h; simp [encrypt]
      · exact (mem_sealRows_blobs c' k' _ rs p h).1
    unfold decrypt
    split
    · rfl
    · simp [hkey, hk]

/-- C12/7.  A cipher change with the SAME key derivation still leaves no blob readable the
old way: every blob carries the new cipher's nonce length, so the old cipher refuses it. -/
theorem old_cipher_opens_nothing (f f' : EncFolder) (c' : CipherId) (k' : Key) (n : Nat)
    (h : rekey f c' k' n = some f') (hc' : c' ≠ f.cipher) :
    ∀ p ∈ f'.blobs, ∀ k, decrypt f.cipher k p = none := by
  unfold rekey at h
  cases hc : f.content with
  | none => simp [hc] at h
  | some mr =>
    obtain ⟨m, rs⟩ := mr
    simp only [hc, Option.some.injEq] at h
    subst h
    intro p hp k
    simp only [EncFolder.blobs, List.mem_cons] at hp
    have hlen : p.nonceBytes = nonceLen c' := by
      rcases hp with h | h
      · subst h; simp [encrypt]
      · exact (mem_sealRows_blobs c' k' _ rs p h).2
    unfold decrypt
    have : p.nonceBytes ≠ nonceLen f.cipher := by
      rw [hlen]
      cases c' <;> cases hf : f.cipher <;> simp_all [nonceLen]
    simp [this]

theorem sealRows_length (c : CipherId) (k : Key) (n : Nat) (rs : List (Nat × Bytes × Bytes)) :
    (sealRows c k n rs).length = rs.length := by
  induction rs generalizing n with
  | nil => rfl
  | cons r rest ih => obtain ⟨i, m, s⟩ := r; simp [sealRows, ih]

theorem mapM_openRow_length (c : CipherId) (k : Key) (rows : List (Nat × Pack × Pack))
    (rs : List (Nat × Bytes × Bytes)) (h : rows.mapM (openRow c k) = some rs) : rs.length = rows.length := by
  induction rows generalizing rs with
  | nil => simp at h; subst h; rfl
  | cons r rest ih =>
    simp only [List.mapM_cons] at h
    cases h1 : openRow c k r with
    | none => simp [h1] at h
    | some x =>
      cases h2 : rest.mapM (openRow c k) with
      | none => simp [h1, h2] at h
      | some xs =>
        simp [h1, h2] at h
        subst h
        simp [ih xs h2]

/-- C12/8.  The rebuilt log has one creation event plus one event per live secret. -/
theorem rekey_log_shape (f f' : EncFolder) (c' : CipherId) (k' : Key) (n : Nat)
    (h : rekey f c' k' n = some f') : f'.logLength = 1 + f.rows.length := by
  unfold rekey at h
  cases hc : f.content with
  | none => simp [hc] at h
  | some mr =>
    obtain ⟨m, rs⟩ := mr
    simp only [hc, Option.some.injEq] at h
    subst h
    simp only [EncFolder.logLength, sealRows_length]
    unfold EncFolder.content at hc
    cases h1 : decrypt f.cipher f.key f.metaP with
    | none => simp [h1] at hc
    | some m' =>
      cases h2 : f.rows.mapM (openRow f.cipher f.key) with
      | none => simp [h1, h2] at hc
      | some rs' =>
        simp [h1, h2] at hc
        rw [← hc.2, mapM_openRow_length _ _ _ _ h2]

/-- a key that does not open the folder cannot re-key it -/
theorem rekey_needs_current_key (f : EncFolder) (c' : CipherId) (k' : Key) (n : Nat)
    (h : f.content = none) : rekey f c' k' n = none := by
  simp [rekey, h]

private def k1 : Key := .kdf 1 [1] [7]
private def k2 : Key := .kdf 1 [2] [7]
private def f0 : EncFolder :=
  { cipher := .aesgcm, key := k1, metaP := encrypt .aesgcm k1 0 [5],
    rows := [(1, encrypt .aesgcm k1 1 [6], encrypt .aesgcm k1 2 [7])] }

example : (rekey f0 .xchacha k2 10).map (·.content) = some (some ([5], [(1, [6], [7])])) := by rfl
example : ∃ f', rekey f0 .aesgcm k2 10 = some f' ∧ ∀ p ∈ f'.blobs, decrypt .aesgcm k1 p = none := by
  refine ⟨_, rfl, ?_⟩
  decide

end Rekey

end Sos.Props.C12
