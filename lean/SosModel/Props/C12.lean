/-
  C12  Compaction and key changes keep the data and really change the key.
  (This file: compaction and history rewrites at the folder-content level; the key
  side is in the symbolic crypto model, Props/C10.)
-/
import SosModel.Props.C02
namespace Sos.Props.C12
open Sos Sos.Folder

/-- keys of the secrets map are pairwise distinct (IndexMap invariant) -/
def WFVault (v : Vault) : Prop := (keys v.secrets).Nodup

theorem reduceEv_wf (v : Vault) (e : Ev) (h : WFVault v) : WFVault (reduceEv v e) := by
  unfold WFVault at *
  cases e <;> simp only [reduceEv] <;> try exact h
  · exact nodup_insert h _ _
  · exact nodup_insert h _ _
  · exact nodup_remove h _

theorem reduce_wf (log : List Ev) (v : Vault) (h : reduce log = some v) : WFVault v := by
  cases log with
  | nil => simp [reduce] at h
  | cons a rest =>
    cases a with
    | createVault n f d =>
      simp only [reduce, Option.some.injEq] at h
      subst h
      have : ∀ (l : List Ev) (w : Vault), WFVault w → WFVault (l.foldl reduceEv w) := by
        intro l
        induction l with
        | nil => intro w hw; exact hw
        | cons e t ih => intro w hw; exact ih _ (reduceEv_wf w e hw)
      exact this rest _ (by simp [WFVault, keys])
    | _ => simp [reduce] at h

/-- C12/1.  Replaying the compacted event list gives back exactly the folder: same name,
flags, description, the same secret ids in the same order with the same content. -/
theorem compact_preserves_content (v : Vault) (h : WFVault v) : reduce (compactEvents v) = some v := by
  unfold compactEvents
  simp only [reduce, Option.some.injEq]
  have hfold : ∀ (s : Secrets) (w : Vault),
      (s.map (fun p => Ev.createSecret p.1 p.2)).foldl reduceEv w =
        { w with secrets := s.foldl (fun a p => Secrets.insert a p.1 p.2) w.secrets } := by
    intro s
    induction s with
    | nil => intro w; rfl
    | cons p t ih => intro w; simp only [List.map_cons, List.foldl_cons, reduceEv]; rw [ih]
  rw [hfold]
  simp only
  rw [foldl_insert_rebuild v.secrets [] (by simpa [WFVault] using h)]
  simp

/-- C12/2.  Compacting any consistent folder keeps it consistent and leaves the served
vault untouched. -/
theorem compact_keeps_folder (f : Folder) (h : C02.Consistent f) :
    C02.Consistent f.compact ∧ f.compact.vault = f.vault := by
  unfold Folder.compact C02.Consistent at *
  rw [h]
  exact ⟨compact_preserves_content f.vault (reduce_wf f.log f.vault h), rfl⟩

/-- C12/3.  The compacted log has exactly one creation event plus one event per live
secret. -/
theorem compact_log_shape (v : Vault) : (compactEvents v).length = 1 + v.secrets.length := by
  simp [compactEvents]; omega

/-- C12/4.  Any interleaving and repetition of local edits and compactions keeps the
folder consistent (induction over the maintenance history). -/
inductive Maint where
  | op (o : Op)
  | compact

def Maint.run (f : Folder) : Maint → Folder
  | .op o => f.step o
  | .compact => f.compact

theorem maintenance_history_consistent (n fl d : Nat) (ms : List Maint) :
    C02.Consistent (ms.foldl Maint.run (Folder.new n fl d)) := by
  have : ∀ (f : Folder), C02.Consistent f → C02.Consistent (ms.foldl Maint.run f) := by
    induction ms with
    | nil => intro f h; exact h
    | cons m t ih =>
      intro f h
      apply ih
      cases m with
      | op o => exact C02.local_op_preserves f o h
      | compact => exact (compact_keeps_folder f h).1
  exact this _ (C02.new_consistent n fl d)

example : (([Maint.op (.create 1 5), .op (.setFlags 256), .op (.delete 1), .op (.create 2 7), .compact].foldl
    Maint.run (Folder.new 3 0 0)).log) = [.createVault 3 256 0, .createSecret 2 7] := by decide

end Sos.Props.C12
