/-
  C09  Concurrent syncs from several devices are safe in every interleaving.
  The server processes one request at a time under the account write lock, so an
  interleaving of several devices' sync calls is a sequence of server requests on the
  `Log` state machine (C06/C07).  Theorems hold for every such sequence.
-/
import SosModel.Lemmas.Log
import SosModel.Props.C07
import SosModel.Props.C06
namespace Sos.Props.C09
open Sos Sos.Merkle Sos.Log

/-- A request of the sync protocol as seen by one server log. -/
inductive Req where
  | status                                             -- sync_status: read only
  | scan (offset limit : Nat)                          -- event_scan: read only
  | diff (from_ : Option H)                            -- event_diff: read only
  | syncPatch (cp : CommitProof) (rs : List Rec)       -- sync_account: checked patch
  | patch (c : Option H) (cp : CommitProof) (rs : List Rec)   -- event_patch: rewind + checked patch

def handle (s : Sys) (o : Nat) : Req → Sys × Out
  | .status | .scan _ _ => (s, .ok)
  | .diff c => (s, diffRecords s o c)
  | .syncPatch cp rs => patchChecked s o cp rs
  | .patch c cp rs => eventPatch s o c cp rs

def SingleIndex : Req → Prop
  | .syncPatch cp _ | .patch _ cp _ => ∃ i, cp.indices = [i]
  | _ => True

theorem eventPatch_accepted_rows (s : Sys) (o : Nat) (c : Option H) (cp : CommitProof)
    (rs : List Rec) (hinv : Inv s) (hd : CommitProof)
    (h : (eventPatch s o c cp rs).2 = .patched hd) :
    ∃ k, k ≤ (s.rowsOf o).length ∧ (eventPatch s o c cp rs).1.rowsOf o = (s.rowsOf o).take k ++ rs := by
  unfold eventPatch at h ⊢
  cases c with
  | none =>
    simp only at h ⊢
    rcases patchChecked_cases s o cp rs with ⟨h1, _⟩ | ⟨_, _, hn⟩
    · refine ⟨(s.rowsOf o).length, Nat.le_refl _, ?_⟩
      rw [h1, rowsOf_applyRecords]; simp
    · exact absurd h (hn hd)
  | some c =>
    simp only at h ⊢
    rcases rewind_out s o c with ⟨removed, hrs⟩ | ⟨e, he⟩
    · have hr : rewind s o c = ((rewind s o c).1, .records removed) := by rw [← hrs]
      rw [hr] at h ⊢
      simp only at h ⊢
      obtain ⟨k, _, hlt, _, h1, _, _⟩ := rewind_spec hinv hr
      rcases patchChecked_cases (rewind s o c).1 o cp rs with ⟨h2, hc⟩ | ⟨h2, _, hn⟩
      · obtain ⟨hd2, hp⟩ := patchChecked_equal (rewind s o c).1 o cp rs hc
        rw [hp]
        refine ⟨k + 1, by omega, ?_⟩
        simp only
        rw [rowsOf_applyRecords, h1]; simp
      · generalize hpc : patchChecked (rewind s o c).1 o cp rs = res at h hn
        obtain ⟨s2, out⟩ := res
        simp only at h hn
        cases out with
        | patched hd' => exact absurd rfl (hn hd')
        | conflict a b => simp at h
        | ok => simp at h
        | err e => simp at h
        | records r => simp at h
        | unmodelled => simp at h
    · have hr : rewind s o c = ((rewind s o c).1, .err e) := by rw [← he]
      rw [hr] at h
      simp at h

/-- C09/1.  Whatever requests arrive in whatever order, each one leaves the server log
either as it was or as a prefix of it followed by exactly the accepted patch: the log only
ever changes by whole accepted patches (never a partial or reordered one). -/
theorem server_changes_by_whole_patches (s : Sys) (o : Nat) (r : Req) (hinv : Inv s)
    (hr : SingleIndex r) :
    (handle s o r).1.rowsOf o = s.rowsOf o ∨
    ∃ k rs, k ≤ (s.rowsOf o).length ∧ (handle s o r).1.rowsOf o = (s.rowsOf o).take k ++ rs := by
  cases r with
  | status => exact Or.inl rfl
  | scan a b => exact Or.inl rfl
  | diff c => exact Or.inl rfl
  | syncPatch cp rs =>
    simp only [handle]
    rcases patchChecked_cases s o cp rs with ⟨h1, _⟩ | ⟨h1, _⟩
    · right; refine ⟨(s.rowsOf o).length, rs, Nat.le_refl _, ?_⟩
      rw [h1, rowsOf_applyRecords]; simp
    · left; rw [h1]
  | patch c cp rs =>
    simp only [handle]
    obtain ⟨i, hi⟩ := hr
    rcases eventPatch_cases s o c cp rs hinv i hi with ⟨hd, hp⟩ | he
    · right
      obtain ⟨k, hk, hrows⟩ := eventPatch_accepted_rows s o c cp rs hinv hd hp
      exact ⟨k, rs, hk, hrows⟩
    · left; exact (he o).1

/-- The invariant of C06 is kept along any interleaving, so the theorems above apply to
every reachable server state. -/
theorem handle_preserves_inv (s : Sys) (o : Nat) (r : Req) (hinv : Inv s) : Inv (handle s o r).1 := by
  cases r with
  | status => exact hinv
  | scan a b => exact hinv
  | diff c => exact hinv
  | syncPatch cp rs => exact inv_patchChecked hinv o cp rs
  | patch c cp rs => exact C06.step_preserves_inv s (.eventPatch o c cp rs) hinv

/-- C09/2.  Every state-changing request ends in an explicit answer: accepted, conflict,
or an error (rewind target absent, empty log); never anything else. -/
theorem every_request_answers (s : Sys) (o : Nat) (c : Option H) (cp : CommitProof) (rs : List Rec)
    (hinv : Inv s) (i : Nat) (hi : cp.indices = [i]) :
    (∃ hd, (eventPatch s o c cp rs).2 = .patched hd) ∨
    (∃ hd k, (eventPatch s o c cp rs).2 = .conflict hd k) ∨
    (∃ e, (eventPatch s o c cp rs).2 = .err e) := by
  unfold eventPatch
  cases c with
  | none =>
    simp only
    by_cases hne : s.trees o = []
    · right; right
      unfold patchChecked
      simp [hne, Merkle.compare]
    · rcases patchChecked_out s o cp rs i hi hne with h | h
      · exact Or.inl h
      · exact Or.inr (Or.inl h)
  | some c =>
    simp only
    rcases rewind_out s o c with ⟨removed, hrs⟩ | ⟨e, he⟩
    · have hr : rewind s o c = ((rewind s o c).1, .records removed) := by rw [← hrs]
      rw [hr]
      simp only
      obtain ⟨k, _, hlt, _, _, h2, _⟩ := rewind_spec hinv hr
      have hne : (rewind s o c).1.trees o ≠ [] := by
        rw [h2]
        have hl : (s.trees o).length = (s.rowsOf o).length := by rw [hinv o]; simp
        intro e0
        have := congrArg List.length e0
        simp only [List.length_take, List.length_nil] at this
        omega
      rcases patchChecked_out (rewind s o c).1 o cp rs i hi hne with ⟨hd, hp⟩ | ⟨hd, kk, hp⟩
      · left
        generalize hpc : patchChecked (rewind s o c).1 o cp rs = res at hp
        obtain ⟨s2, out⟩ := res
        simp only at hp; subst hp
        exact ⟨hd, rfl⟩
      · right; left
        generalize hpc : patchChecked (rewind s o c).1 o cp rs = res at hp
        obtain ⟨s2, out⟩ := res
        simp only at hp; subst hp
        exact ⟨hd, kk, rfl⟩
    · have hr : rewind s o c = ((rewind s o c).1, .err e) := by rw [← he]
      rw [hr]
      exact Or.inr (Or.inr ⟨e, rfl⟩)

/-- C09/3.  The paged ancestor scan makes progress: every non-empty page moves the offset
forward, so the client's loop ends after at most `length` pages (no hang). -/
theorem scan_page_progress (n offset limit : Nat) (h : offset < n) :
    offset < (scanPage n offset limit).2 ∧ (scanPage n offset limit).2 ≤ n := by
  unfold scanPage
  have : ¬ offset ≥ n := by omega
  simp only [this, if_false]
  by_cases hl : limit = 0
  · simp [hl]; omega
  · simp only [hl, if_false]
    constructor
    · have : 0 < min limit (n - offset) := by
        rw [Nat.lt_min]; omega
      omega
    · have : min limit (n - offset) ≤ n - offset := Nat.min_le_right _ _
      omega

/-- C09/4 (partial).  A rewind-and-patch request drops no accepted event when everything it
rewinds is contained in the patch it applies (which is what a client computes when no other
device's patch landed between its `diff` and its `patch` request). -/
theorem no_accepted_event_dropped_partial (s s1 : Sys) (o : Nat) (c : H) (cp : CommitProof)
    (rs removed : List Rec) (hinv : Inv s) (hd : CommitProof)
    (hrw : rewind s o c = (s1, .records removed))
    (hacc : (eventPatch s o (some c) cp rs).2 = .patched hd)
    (hsub : ∀ x ∈ removed, x ∈ rs) :
    ∀ x ∈ s.rowsOf o, x ∈ (eventPatch s o (some c) cp rs).1.rowsOf o := by
  intro x hx
  obtain ⟨k, _, hlt, hrem, h1, _, _⟩ := rewind_spec hinv hrw
  unfold eventPatch at hacc ⊢
  simp only [hrw] at hacc ⊢
  rcases patchChecked_cases s1 o cp rs with ⟨h2, hc⟩ | ⟨h2, _, hn⟩
  · obtain ⟨hd2, hp⟩ := patchChecked_equal s1 o cp rs hc
    rw [hp]
    simp only
    rw [rowsOf_applyRecords, h1]
    simp only [if_true, List.mem_append]
    have hsplit : s.rowsOf o = (s.rowsOf o).take (k + 1) ++ (s.rowsOf o).drop (k + 1) :=
      (List.take_append_drop _ _).symm
    rw [hsplit] at hx
    rcases List.mem_append.mp hx with h | h
    · exact Or.inl h
    · exact Or.inr (hsub x (by rw [hrem]; exact h))
  · generalize hpc : patchChecked s1 o cp rs = res at hacc hn
    obtain ⟨s2, out⟩ := res
    simp only at hacc hn
    cases out with
    | patched hd' => exact absurd rfl (hn hd')
    | conflict a b => simp at hacc
    | ok => simp at hacc
    | err e => simp at hacc
    | records r => simp at hacc
    | unmodelled => simp at hacc

private def e1 : Bytes := [1]
private def eA : Bytes := [10]
private def eB : Bytes := [11]
private def base : Sys := Log.run Log.init [.apply 0 1 [e1]]
private def cpBase : CommitProof := (head [H.leaf e1]).get (by decide)

/-- Witness (KNOWN FINDING C09/stale-rewind): device B's patch is accepted between device A's
`diff` and A's `patch` request; A's request rewinds to the ancestor it computed earlier and
applies its merged patch, which does not contain B's event: the accepted event is gone. -/
theorem stale_rewind_drops_accepted_event :
    let s1 := (handle base 0 (.patch (some (H.leaf e1)) cpBase [encodeEvent 5 eB])).1   -- B accepted
    let s2 := (handle s1 0 (.patch (some (H.leaf e1)) cpBase [encodeEvent 4 eA])).1     -- A, stale
    s1.rowsOf 0 = [encodeEvent 1 e1, encodeEvent 5 eB] ∧
    s2.rowsOf 0 = [encodeEvent 1 e1, encodeEvent 4 eA] := by decide

end Sos.Props.C09
