/-
  C09  Concurrent syncs from several devices are safe in every interleaving.
  The server processes one request at a time under the account write lock, so an
  interleaving of several devices' sync calls is a sequence of server requests on the
  `Log` state machine (C06/C07).  Theorems hold for every such sequence.
-/
import SosModel.Lemmas.Log
import SosModel.Props.C07
import SosModel.Props.C06
namespace Sos.Props.C09
open Sos Sos.Merkle Sos.Log

/-- A request of the sync protocol as seen by one server log. -/
inductive Req where
  | status                                             -- sync_status: read only
  | scan (offset limit : Nat)                          -- event_scan: read only
  | diff (from_ : Option H)                            -- event_diff: read only
  | syncPatch (cp : CommitProof) (rs : List Rec)       -- sync_account: checked patch
  | patch (c : Option H) (cp : CommitProof) (rs : List Rec)   -- event_patch: rewind + checked patch

def handle (s : Sys) (o : Nat) : Req → Sys × Out
  | .status | .scan _ _ => (s, .ok)
  | .diff c => (s, diffRecords s o c)
  | .syncPatch cp rs => patchChecked s o cp rs
  | .patch c cp rs => eventPatch s o c cp rs

def SingleIndex : Req → Prop
  | .syncPatch cp _ | .patch _ cp _ => ∃ i, cp.indices = [i]
  | _ => True

theorem eventPatchCore_accepted_rows (s : Sys) (o : Nat) (c : Option H) (cp : CommitProof)
    (rs : List Rec) (hinv : Inv s) (hd : CommitProof)
    (h : (eventPatchCore s o c cp rs).2 = .patched hd) :
    ∃ k, k ≤ (s.rowsOf o).length ∧ (eventPatchCore s o c cp rs).1.rowsOf o = (s.rowsOf o).take k ++ rs := by
  unfold eventPatchCore at h ⊢
  cases c with
  | none =>
    simp only at h ⊢
    rcases patchChecked_cases s o cp rs with ⟨h1, _⟩ | ⟨_, _, hn⟩
    · refine ⟨(s.rowsOf o).length, Nat.le_refl _, ?_⟩
      rw [h1, rowsOf_applyRecords]; simp
    · exact absurd h (hn hd)
  | some c =>
    simp only at h ⊢
    rcases rewind_out s o c with ⟨removed, hrs⟩ | ⟨e, he⟩
    · have hr : rewind s o c = ((rewind s o c).1, .records removed) := by rw [← hrs]
      rw [hr] at h ⊢
      simp only at h ⊢
      obtain ⟨k, _, hlt, _, h1, _, _⟩ := rewind_spec hinv hr
      rcases patchChecked_cases (rewind s o c).1 o cp rs with ⟨h2, hc⟩ | ⟨h2, _, hn⟩
      · obtain ⟨hd2, hp⟩ := patchChecked_equal (rewind s o c).1 o cp rs hc
        rw [hp]
        refine ⟨k + 1, by omega, ?_⟩
        simp only
        rw [rowsOf_applyRecords, h1]; simp
      · generalize hpc : patchChecked (rewind s o c).1 o cp rs = res at h hn
        obtain ⟨s2, out⟩ := res
        simp only at h hn
        cases out with
        | patched hd' => exact absurd rfl (hn hd')
        | conflict a b => simp at h
        | ok => simp at h
        | err e => simp at h
        | records r => simp at h
        | unmodelled => simp at h
    · have hr : rewind s o c = ((rewind s o c).1, .err e) := by rw [← he]
      rw [hr] at h
      simp at h

theorem eventPatch_accepted_rows (s : Sys) (o : Nat) (c : Option H) (cp : CommitProof)
    (rs : List Rec) (hinv : Inv s) (hd : CommitProof)
    (h : (eventPatch s o c cp rs).2 = .patched hd) :
    ∃ k, k ≤ (s.rowsOf o).length ∧ (eventPatch s o c cp rs).1.rowsOf o = (s.rowsOf o).take k ++ rs := by
  rcases eventPatch_guard s o c cp rs with hg | ⟨_, ⟨h', hc⟩ | ⟨e, he⟩⟩
  · rw [hg] at h ⊢; exact eventPatchCore_accepted_rows s o c cp rs hinv hd h
  · rw [hc] at h; cases h
  · rw [he] at h; cases h

/-- C09/1.  Whatever requests arrive in whatever order, each one leaves the server log
either as it was or as a prefix of it followed by exactly the accepted patch: the log only
ever changes by whole accepted patches (never a partial or reordered one). -/
theorem server_changes_by_whole_patches (s : Sys) (o : Nat) (r : Req) (hinv : Inv s)
    (hr : SingleIndex r) :
    (handle s o r).1.rowsOf o = s.rowsOf o ∨
    ∃ k rs, k ≤ (s.rowsOf o).length ∧ (handle s o r).1.rowsOf o = (s.rowsOf o).take k ++ rs := by
  cases r with
  | status => exact Or.inl rfl
  | scan a b => exact Or.inl rfl
  | diff c => exact Or.inl rfl
  | syncPatch cp rs =>
    simp only [handle]
    rcases patchChecked_cases s o cp rs with ⟨h1, _⟩ | ⟨h1, _⟩
    · right; refine ⟨(s.rowsOf o).length, rs, Nat.le_refl _, ?_⟩
      rw [h1, rowsOf_applyRecords]; simp
    · left; rw [h1]
  | patch c cp rs =>
    simp only [handle]
    obtain ⟨i, hi⟩ := hr
    rcases eventPatch_cases s o c cp rs hinv i hi with ⟨hd, hp⟩ | he
    · right
      obtain ⟨k, hk, hrows⟩ := eventPatch_accepted_rows s o c cp rs hinv hd hp
      exact ⟨k, rs, hk, hrows⟩
    · left; exact (he o).1

/-- The invariant of C06 is kept along any interleaving, so the theorems above apply to
every reachable server state. -/
theorem handle_preserves_inv (s : Sys) (o : Nat) (r : Req) (hinv : Inv s) : Inv (handle s o r).1 := by
  cases r with
  | status => exact hinv
  | scan a b => exact hinv
  | diff c => exact hinv
  | syncPatch cp rs => exact inv_patchChecked hinv o cp rs
  | patch c cp rs => exact C06.step_preserves_inv s (.eventPatch o c cp rs) hinv

theorem eventPatchCore_answers (s : Sys) (o : Nat) (c : Option H) (cp : CommitProof) (rs : List Rec)
    (hinv : Inv s) (i : Nat) (hi : cp.indices = [i]) :
    (∃ hd, (eventPatchCore s o c cp rs).2 = .patched hd) ∨
    (∃ hd k, (eventPatchCore s o c cp rs).2 = .conflict hd k) ∨
    (∃ e, (eventPatchCore s o c cp rs).2 = .err e) := by
  unfold eventPatchCore
  cases c with
  | none =>
    simp only
    by_cases hne : s.trees o = []
    · right; right
      unfold patchChecked
      simp [hne, Merkle.compare]
    · rcases patchChecked_out s o cp rs i hi hne with h | h
      · exact Or.inl h
      · exact Or.inr (Or.inl h)
  | some c =>
    simp only
    rcases rewind_out s o c with ⟨removed, hrs⟩ | ⟨e, he⟩
    · have hr : rewind s o c = ((rewind s o c).1, .records removed) := by rw [← hrs]
      rw [hr]
      simp only
      obtain ⟨k, _, hlt, _, _, h2, _⟩ := rewind_spec hinv hr
      have hne : (rewind s o c).1.trees o ≠ [] := by
        rw [h2]
        have hl : (s.trees o).length = (s.rowsOf o).length := by rw [hinv o]; simp
        intro e0
        have := congrArg List.length e0
        simp only [List.length_take, List.length_nil] at this
        omega
      rcases patchChecked_out (rewind s o c).1 o cp rs i hi hne with ⟨hd, hp⟩ | ⟨hd, kk, hp⟩
      · left
        generalize hpc : patchChecked (rewind s o c).1 o cp rs = res at hp
        obtain ⟨s2, out⟩ := res
        simp only at hp; subst hp
        exact ⟨hd, rfl⟩
      · right; left
        generalize hpc : patchChecked (rewind s o c).1 o cp rs = res at hp
        obtain ⟨s2, out⟩ := res
        simp only at hp; subst hp
        exact ⟨hd, kk, rfl⟩
    · have hr : rewind s o c = ((rewind s o c).1, .err e) := by rw [← he]
      rw [hr]
      exact Or.inr (Or.inr ⟨e, rfl⟩)


/-- C09/2.  Every state-changing request ends in an explicit answer: accepted, conflict,
or an error (rewind target absent, empty log); never anything else. -/
theorem every_request_answers (s : Sys) (o : Nat) (c : Option H) (cp : CommitProof) (rs : List Rec)
    (hinv : Inv s) (i : Nat) (hi : cp.indices = [i]) :
    (∃ hd, (eventPatch s o c cp rs).2 = .patched hd) ∨
    (∃ hd k, (eventPatch s o c cp rs).2 = .conflict hd k) ∨
    (∃ e, (eventPatch s o c cp rs).2 = .err e) := by
  rcases eventPatch_guard s o c cp rs with hg | ⟨_, ⟨h', hc⟩ | ⟨e, he⟩⟩
  · rw [hg]; exact eventPatchCore_answers s o c cp rs hinv i hi
  · exact Or.inr (Or.inl ⟨h', none, hc⟩)
  · exact Or.inr (Or.inr ⟨e, he⟩)

/-- C09/3.  The paged ancestor scan makes progress: every non-empty page moves the offset
forward, so the client's loop ends after at most `length` pages (no hang). -/
theorem scan_page_progress (n offset limit : Nat) (h : offset < n) :
    offset < (scanPage n offset limit).2 ∧ (scanPage n offset limit).2 ≤ n := by
  unfold scanPage
  have : ¬ offset ≥ n := by omega
  simp only [this, if_false]
  by_cases hl : limit = 0
  · simp [hl]; omega
  · simp only [hl, if_false]
    constructor
    · have : 0 < min limit (n - offset) := by
        rw [Nat.lt_min]; omega
      omega
    · have : min limit (n - offset) ≤ n - offset := Nat.min_le_right _ _
      omega

theorem coveredBy_spec {removed rs : List Rec} (h : coveredBy removed rs = true) :
    ∀ x ∈ removed, ∃ y ∈ rs, y.commit = x.commit := by
  intro x hx
  unfold coveredBy at h
  rw [List.all_eq_true] at h
  have := h x hx
  rw [List.any_eq_true] at this
  obtain ⟨y, hy, he⟩ := this
  exact ⟨y, hy, by simpa using he⟩

/-- the guard lets a request through only when the records after the rewind target are all
carried by the patch -/
theorem staleRewind_none {s : Sys} {o : Nat} {c : H} {rs : List Rec}
    (h : staleRewind s o c rs = none) (k : Nat) (hk : findLast (s.rowsOf o) c = some k) :
    coveredBy ((s.rowsOf o).drop (k + 1)) rs = true := by
  unfold staleRewind diffRecords at h
  simp only [hk] at h
  split at h
  · cases h
  · split at h
    · assumption
    · cases h

/-- The body of `event_patch`: when everything it rewinds is carried (by commit) by the patch it
applies, no event of the log is lost. -/
theorem eventPatchCore_keeps_covered (s s1 : Sys) (o : Nat) (c : H) (cp : CommitProof)
    (rs removed : List Rec) (hinv : Inv s) (hd : CommitProof)
    (hrw : rewind s o c = (s1, .records removed))
    (hacc : (eventPatchCore s o (some c) cp rs).2 = .patched hd)
    (hsub : ∀ x ∈ removed, ∃ y ∈ rs, y.commit = x.commit) :
    ∀ x ∈ s.rowsOf o, ∃ y ∈ (eventPatchCore s o (some c) cp rs).1.rowsOf o, y.commit = x.commit := by
  intro x hx
  obtain ⟨k, _, hlt, hrem, h1, _, _⟩ := rewind_spec hinv hrw
  unfold eventPatchCore at hacc ⊢
  simp only [hrw] at hacc ⊢
  rcases patchChecked_cases s1 o cp rs with ⟨h2, hc⟩ | ⟨h2, _, hn⟩
  · obtain ⟨hd2, hp⟩ := patchChecked_equal s1 o cp rs hc
    rw [hp]
    simp only
    rw [rowsOf_applyRecords, h1]
    simp only [if_true]
    have hsplit : s.rowsOf o = (s.rowsOf o).take (k + 1) ++ (s.rowsOf o).drop (k + 1) :=
      (List.take_append_drop _ _).symm
    rw [hsplit] at hx
    rcases List.mem_append.mp hx with h | h
    · exact ⟨x, List.mem_append.mpr (Or.inl h), rfl⟩
    · obtain ⟨y, hy, he⟩ := hsub x (by rw [hrem]; exact h)
      exact ⟨y, List.mem_append.mpr (Or.inr hy), he⟩
  · generalize hpc : patchChecked s1 o cp rs = res at hacc hn
    obtain ⟨s2, out⟩ := res
    simp only at hacc hn
    cases out with
    | patched hd' => exact absurd rfl (hn hd')
    | conflict a b => simp at hacc
    | ok => simp at hacc
    | err e => simp at hacc
    | records r => simp at hacc
    | unmodelled => simp at hacc

/-- C09/4.  An accepted rewind-and-patch request drops no accepted event: every event
(commit) the server log held before the request is in the log afterwards — whatever other
devices' patches landed between the client's `diff` and its `patch` request, because a request
that would rewind a record its patch does not carry is refused (`staleRewind`). -/
theorem no_accepted_event_dropped (s : Sys) (o : Nat) (c : H) (cp : CommitProof)
    (rs : List Rec) (hinv : Inv s) (hd : CommitProof)
    (hacc : (eventPatch s o (some c) cp rs).2 = .patched hd) :
    ∀ x ∈ s.rowsOf o, ∃ y ∈ (eventPatch s o (some c) cp rs).1.rowsOf o, y.commit = x.commit := by
  unfold eventPatch at hacc ⊢
  simp only at hacc ⊢
  cases hst : staleRewind s o c rs with
  | some r =>
    -- a refusal is never `patched`
    exfalso
    have hg := eventPatch_guard s o (some c) cp rs
    unfold eventPatch at hg
    simp only [hst] at hg hacc
    unfold staleRewind at hst
    split at hst
    · split at hst
      · cases hst; simp at hacc
      · split at hst
        · cases hst
        · cases hst; simp at hacc
    · cases hst; simp at hacc
    · cases hst
  | none =>
    simp only [hst] at hacc ⊢
    rcases rewind_out s o c with ⟨removed, hrs⟩ | ⟨e, he⟩
    · have hr : rewind s o c = ((rewind s o c).1, .records removed) := by rw [← hrs]
      obtain ⟨k, hk, _, hrem, _, _, _⟩ := rewind_spec hinv hr
      have hcov := coveredBy_spec (staleRewind_none hst k hk)
      exact eventPatchCore_keeps_covered s _ o c cp rs removed hinv hd hr hacc
        (by rw [hrem]; exact hcov)
    · have hr : rewind s o c = ((rewind s o c).1, .err e) := by rw [← he]
      unfold eventPatchCore at hacc
      simp only at hacc
      rw [hr] at hacc
      simp at hacc

private def e1 : Bytes := [1]
private def eA : Bytes := [10]
private def eB : Bytes := [11]
private def base : Sys := Log.run Log.init [.apply 0 1 [e1]]
private def cpBase : CommitProof := (head [H.leaf e1]).get (by decide)

/-- Witness of the repaired defect (b-fix `event_patch` refuses a stale rewind): device B's
patch is accepted between device A's `diff` and A's `patch` request; A's request would rewind
to the ancestor it computed earlier and drop B's event — it is answered with a conflict and the
log keeps B's event.  Without the guard (`eventPatchCore`) the accepted event was lost. -/
theorem stale_rewind_is_refused :
    let s1 := (handle base 0 (.patch (some (H.leaf e1)) cpBase [encodeEvent 5 eB])).1   -- B accepted
    let r2 := handle s1 0 (.patch (some (H.leaf e1)) cpBase [encodeEvent 4 eA])         -- A, stale
    s1.rowsOf 0 = [encodeEvent 1 e1, encodeEvent 5 eB] ∧
    r2.1.rowsOf 0 = [encodeEvent 1 e1, encodeEvent 5 eB] ∧
    (match r2.2 with | .conflict _ none => true | _ => false) = true := by decide

theorem stale_rewind_dropped_accepted_event_before_the_repair :
    let s1 := (handle base 0 (.patch (some (H.leaf e1)) cpBase [encodeEvent 5 eB])).1
    (eventPatchCore s1 0 (some (H.leaf e1)) cpBase [encodeEvent 4 eA]).1.rowsOf 0
      = [encodeEvent 1 e1, encodeEvent 4 eA] := by decide

/-- Non-vacuity of C09/4: a rewind-and-patch whose patch carries the rewound record is accepted. -/
example : (match (eventPatch (handle base 0 (.patch (some (H.leaf e1)) cpBase [encodeEvent 5 eB])).1 0
    (some (H.leaf e1)) cpBase [encodeEvent 4 eA, encodeEvent 5 eB]).2 with
    | .patched _ => true | _ => false) = true := by decide

end Sos.Props.C09
