/-
  C19  Upgrading file-system accounts to the database loses nothing.
  The upgrade copies every event log record for record into the shared tables
  (`import_account`); on the Log model that is a sequence of `apply_records` calls, one per
  log, in whatever order the logs are visited.
-/
import SosModel.Lemmas.Log
import SosModel.Props.C02
namespace Sos.Props.C19
open Sos Sos.Merkle Sos.Log

/-- import a set of logs (owner ↦ its records, in order) into an empty database -/
def importAll (logs : List (Nat × List Rec)) : Sys :=
  logs.foldl (fun s p => applyRecords s p.1 p.2) Log.init

theorem foldl_rows (logs : List (Nat × List Rec)) (s : Sys) (o : Nat)
    (hno : ∀ p ∈ logs, p.1 ≠ o) :
    (logs.foldl (fun s p => applyRecords s p.1 p.2) s).rowsOf o = s.rowsOf o ∧
    (logs.foldl (fun s p => applyRecords s p.1 p.2) s).trees o = s.trees o := by
  induction logs generalizing s with
  | nil => exact ⟨rfl, rfl⟩
  | cons p rest ih =>
    simp only [List.foldl_cons]
    have hp : p.1 ≠ o := hno p (by simp)
    have := ih (applyRecords s p.1 p.2) (fun q hq => hno q (by simp [hq]))
    rw [this.1, this.2, rowsOf_applyRecords, trees_applyRecords]
    have : ¬ o = p.1 := fun e => hp e.symm
    simp [this]

/-- C19/1.  Whatever order the logs are imported in, every log of the upgraded account
holds exactly the records of the source log, in the same order, and its commit tree is the
list of their commits: same root, same length (so the upgraded device reports the same sync
status and keeps syncing without conflict). -/
theorem upgrade_preserves_every_log (logs : List (Nat × List Rec))
    (hnd : (logs.map (·.1)).Nodup) (o : Nat) (recs : List Rec) (hm : (o, recs) ∈ logs) :
    (importAll logs).rowsOf o = recs ∧ (importAll logs).trees o = recs.map (·.commit) := by
  unfold importAll
  obtain ⟨pre, post, hsplit⟩ := List.append_of_mem hm
  subst hsplit
  simp only [List.map_append, List.map_cons] at hnd
  have hpre : ∀ p ∈ pre, p.1 ≠ o := by
    intro p hp e
    have := (List.nodup_append.mp hnd).2.2 p.1 (List.mem_map_of_mem hp) o (by simp)
    exact this e
  have hpost : ∀ p ∈ post, p.1 ≠ o := by
    intro p hp e
    have h2 := (List.nodup_append.mp hnd).2.1
    have := (List.nodup_cons.mp h2).1
    apply this
    rw [← e]; exact List.mem_map_of_mem hp
  rw [List.foldl_append, List.foldl_cons]
  have h1 := foldl_rows pre Log.init o hpre
  have h3 := foldl_rows post (applyRecords (pre.foldl (fun s p => applyRecords s p.1 p.2) Log.init) o recs) o hpost
  rw [h3.1, h3.2, rowsOf_applyRecords, trees_applyRecords, h1.1, h1.2]
  simp [Log.init, Sys.rowsOf]

/-- C19/2.  Equal record sequences give equal commit roots and lengths (sync status). -/
theorem same_records_same_status (a b : List Rec) (h : a = b) :
    root (a.map (·.commit)) = root (b.map (·.commit)) ∧ a.length = b.length := by
  subst h; exact ⟨rfl, rfl⟩

/-- C19/3.  Equal event sequences replay to the same folder (decrypted contents, name,
flags, description), whichever backend stores them. -/
theorem same_events_same_folder (a b : List Folder.Ev) (h : a = b) : Folder.reduce a = Folder.reduce b := by
  subst h; rfl

private def r1 : Rec := encodeEvent 1 [1]
private def r2 : Rec := encodeEvent 2 [2]
example : (importAll [(0, [r1, r2]), (1, [r1])]).rowsOf 0 = [r1, r2] := by decide
example : (importAll [(0, [r1, r2]), (1, [r1])]).trees 1 = [H.leaf [1]] := by decide

end Sos.Props.C19
