/-
  C07  Patches apply only on the agreed base; a refused merge changes nothing.
-/
import SosModel.Lemmas.Log
import SosModel.Props.C08
namespace Sos.Props.C07
open Sos Sos.Merkle Sos.Log

/-- C07/1.  A checked patch is appended iff the log's current root equals the root
the sender computed the patch against. -/
theorem patch_checked_applies_iff_roots_equal (s : Sys) (o : Nat) (cp : CommitProof)
    (rs : List Rec) :
    (∃ hd, (patchChecked s o cp rs).2 = .patched hd) ↔ root (s.trees o) = some cp.root := by
  constructor
  · intro ⟨hd, h⟩
    rcases patchChecked_cases s o cp rs with ⟨_, hc⟩ | ⟨_, _, hn⟩
    · unfold Merkle.compare at hc
      split at hc
      · cases hc
      · rename_i r hr
        by_cases e : r = cp.root
        · rw [hr, e]
        · simp only [e, if_false] at hc
          split at hc
          · split at hc
            · split at hc <;> simp at hc
            · simp at hc
            · simp at hc
          · simp at hc
    · exact absurd h (hn hd)
  · intro h
    have hc : Merkle.compare (s.trees o) cp = some (some .equal) := by
      unfold Merkle.compare; simp [h]
    obtain ⟨hd, hp⟩ := patchChecked_equal s o cp rs hc
    exact ⟨hd, by rw [hp]⟩

/-- C07/2.  With a free hash, equal roots mean equal sequences: the patch is applied
iff the receiver holds exactly the sequence `base` the sender's checkpoint was the
head of. -/
theorem patch_checked_applies_iff_same_base (s : Sys) (o : Nat) (base : List H) (cp : CommitProof)
    (rs : List Rec) (hb : C08.Atoms base) (hl : C08.Atoms (s.trees o)) (hcp : head base = some cp) :
    (∃ hd, (patchChecked s o cp rs).2 = .patched hd) ↔ s.trees o = base := by
  rw [patch_checked_applies_iff_roots_equal]
  have hbn : base ≠ [] := by
    intro e; subst e; simp [head] at hcp
  obtain ⟨b, hroot, hh⟩ := C08.head_eq hbn
  rw [hh] at hcp; cases hcp
  simp only
  rw [← hroot]
  exact C08.root_eq_iff_same_sequence hl hb

/-- C07/3.  When the checked patch is not applied (conflict or error) the system is
left exactly as it was: same rows, same trees, for every log. -/
theorem patch_checked_refused_unchanged (s : Sys) (o : Nat) (cp : CommitProof) (rs : List Rec)
    (h : ∀ hd, (patchChecked s o cp rs).2 ≠ .patched hd) : (patchChecked s o cp rs).1 = s := by
  rcases patchChecked_cases s o cp rs with ⟨_, hc⟩ | ⟨h1, _⟩
  · obtain ⟨hd, hp⟩ := patchChecked_equal s o cp rs hc
    exact absurd (by rw [hp]) (h hd)
  · exact h1

/-- C07/4.  A rewind whose target is absent (or cannot be honoured) changes nothing. -/
theorem rewind_refused_unchanged (s : Sys) (o : Nat) (c : H) (e : Err)
    (h : (rewind s o c).2 = .err e) : (rewind s o c).1 = s :=
  rewind_err_unchanged (by rw [← h])

/-- C07/5.  The server's rewind-and-patch request: unless the patch is accepted, every
log (rows in order, and tree) is as before the request, for every rewind depth,
present or absent target, and every single-index checkpoint (matching, stale, from a
diverged log, forged). -/
theorem event_patch_refused_unchanged (s : Sys) (o : Nat) (c : Option H) (cp : CommitProof)
    (rs : List Rec) (hinv : Inv s) (i : Nat) (hi : cp.indices = [i])
    (h : ∀ hd, (eventPatch s o c cp rs).2 ≠ .patched hd) :
    Equiv (eventPatch s o c cp rs).1 s := by
  rcases eventPatch_cases s o c cp rs hinv i hi with ⟨hd, hp⟩ | he
  · exact absurd hp (h hd)
  · exact he

/-- C07/6.  Rolling back a rewind (re-applying the returned records) restores the log:
records come back in their original order. -/
theorem rewind_then_rollback_restores (s s1 : Sys) (o : Nat) (c : H) (removed : List Rec)
    (hinv : Inv s) (hr : rewind s o c = (s1, .records removed)) :
    Equiv (applyRecords s1 o removed) s := rewind_rollback hinv hr

/-- C07/7.  A replace-all request whose records do not hash to the checkpoint (or that
carries no records) is refused and changes nothing; an accepted one makes the log
exactly the supplied records. -/
theorem replace_all_refused_unchanged (s : Sys) (o : Nat) (rs : List Rec) (cp : CommitProof)
    (h : (replaceAll s o rs cp).2 ≠ .ok) : (replaceAll s o rs cp).1 = s := by
  rcases replaceAll_cases s o rs cp with ⟨_, h2, _⟩ | ⟨h1, _⟩
  · exact absurd h2 h
  · exact h1

theorem replace_all_accepted_iff (s : Sys) (o : Nat) (rs : List Rec) (cp : CommitProof) :
    (replaceAll s o rs cp).2 = .ok ↔ head (rs.map (·.commit)) = some cp := by
  constructor
  · intro h
    rcases replaceAll_cases s o rs cp with ⟨_, _, h3⟩ | ⟨_, e, he⟩
    · exact h3
    · rw [he] at h; cases h
  · intro h
    unfold replaceAll; simp [h]

theorem replace_all_accepted_rows (s : Sys) (o : Nat) (rs : List Rec) (cp : CommitProof)
    (h : (replaceAll s o rs cp).2 = .ok) : (replaceAll s o rs cp).1.rowsOf o = rs := by
  rcases replaceAll_cases s o rs cp with ⟨h1, _, _⟩ | ⟨_, e, he⟩
  · rw [h1, rowsOf_applyRecords, rowsOf_clear]; simp
  · rw [he] at h; cases h

/- Non-vacuity -/
private def e1 : Bytes := [1]
private def e2 : Bytes := [2]
private def e3 : Bytes := [3]
private def base : Sys := run init [.apply 0 10 [e1, e2]]
private def cpBase : CommitProof := (head [H.leaf e1, H.leaf e2]).get (by decide)
private def cpStale : CommitProof := (head [H.leaf e1]).get (by decide)
example : (patchChecked base 0 cpBase [encodeEvent 11 e3]).1.rowsOf 0
    = [encodeEvent 10 e1, encodeEvent 10 e2, encodeEvent 11 e3] := by decide
example : (patchChecked base 0 cpStale [encodeEvent 11 e3]).1.rowsOf 0
    = [encodeEvent 10 e1, encodeEvent 10 e2] := by decide
example : (eventPatch base 0 (some (H.leaf e1)) cpBase [encodeEvent 11 e3]).1.rowsOf 0
    = [encodeEvent 10 e1, encodeEvent 10 e2] := by decide

end Sos.Props.C07
