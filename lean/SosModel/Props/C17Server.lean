/-
  C17, the server's file store with contents, and a second device that merges file events.

  Server (crates/server/src/handlers/files.rs): upload (accepted iff the body hashes to the
  requested name), move (as repaired: only under the same name), delete.  Whatever requests
  arrive, every stored file is named by the digest of its bytes.

  Second device (crates/storage/client/src/sync.rs merge_files + the transfer queue): merging
  file events appends them to the log and queues a DOWNLOAD for every file the merged events
  leave in place; nothing else touches the blobs.
-/
import SosModel.Files
namespace Sos.Props.C17
open Sos Sos.Files

structure Stored where
  ref : FileRef
  bytes : Bytes
deriving DecidableEq, Repr

inductive SrvReq where
  | upload (req : FileRef) (body : Bytes)
  | move (src : FileRef) (destFolder destSecret : Nat) (destName : H)
  | delete (f : FileRef)
deriving Repr

def srvStep (s : List Stored) : SrvReq → List Stored × Bool
  | .upload req body =>
    if H.leaf body = req.name then ((s.filter (·.ref ≠ req)) ++ [{ ref := req, bytes := body }], true) else (s, false)
  | .move src df ds n =>
    if n ≠ src.name then (s, false) else
    match s.find? (·.ref = src) with
    | none => (s, false)
    | some f =>
      let dest : FileRef := { folder := df, secret := ds, name := n }
      if s.any (·.ref = dest) then (s, false)
      else ((s.filter (·.ref ≠ src)) ++ [{ ref := dest, bytes := f.bytes }], true)
  | .delete f => (s.filter (·.ref ≠ f), true)

def srvRun (s : List Stored) (reqs : List SrvReq) : List Stored := reqs.foldl (fun st r => (srvStep st r).1) s

/-- every stored file is named by the digest of its bytes -/
def Named (s : List Stored) : Prop := ∀ f ∈ s, f.ref.name = H.leaf f.bytes

theorem named_step (s : List Stored) (h : Named s) (r : SrvReq) : Named (srvStep s r).1 := by
  cases r with
  | upload req body =>
    simp only [srvStep]
    split
    · rename_i hb
      intro f hf
      rcases List.mem_append.mp hf with h1 | h1
      · exact h f (List.mem_filter.mp h1).1
      · simp at h1; subst h1; exact hb.symm
    · exact h
  | move src df ds n =>
    simp only [srvStep]
    split
    · exact h
    · rename_i hn
      have hn' : n = src.name := by simpa using hn
      split
      · exact h
      · rename_i f hfind
        split
        · exact h
        · intro g hg
          rcases List.mem_append.mp hg with h1 | h1
          · exact h g (List.mem_filter.mp h1).1
          · simp at h1; subst h1
            have hmem := List.mem_of_find?_eq_some hfind
            have hsrc : f.ref = src := by simpa using List.find?_some hfind
            simp only
            rw [hn', ← hsrc]; exact h f hmem
  | delete f =>
    simp only [srvStep]
    intro g hg; exact h g (List.mem_filter.mp hg).1

/-- C17/5.  Content addressing on the server: after ANY sequence of upload, move and delete
requests every file the server holds is named by the SHA-256 of its bytes. -/
theorem server_files_named_by_digest (reqs : List SrvReq) : Named (srvRun [] reqs) := by
  have gen : ∀ s, Named s → Named (srvRun s reqs) := by
    induction reqs with
    | nil => intro s h; exact h
    | cons r rs ih => intro s h; exact ih _ (named_step s h r)
  exact gen [] (by intro f hf; simp at hf)

/-- a move under another name is refused and changes nothing (the repaired handler) -/
theorem move_to_another_name_refused (s : List Stored) (src : FileRef) (df ds : Nat) (n : H) (h : n ≠ src.name) :
    srvStep s (.move src df ds n) = (s, false) := by
  simp [srvStep, h]

/-! ### a second device -/

/-- merging remote file events: the log grows; a download is queued for every file that the
merged events leave in place (`FileReducer::reduce(last_commit)`), and completes -/
def mergeRemote (c : Client) (evs : List FileEv) : Client :=
  { log := c.log ++ evs, blobs := (evs.foldl reduceEv []).foldl ins c.blobs }

private def f1 : FileRef := { folder := 1, secret := 2, name := H.leaf [7] }

/-- Witness (KNOWN FINDING C17/blobs-on-other-devices): the second device has downloaded the
blob of `f1`; the first device deletes the secret; after the merge the second device's file
log names no file, but the blob is still there. -/
theorem remote_delete_leaves_blob_on_other_device :
    let c := mergeRemote (mergeRemote { blobs := [], log := [] } [.create f1]) [.delete f1]
    reduce c.log = [] ∧ c.blobs = [f1] := by decide

/-- and a remote move leaves the old copy beside the new one -/
theorem remote_move_leaves_old_copy_on_other_device :
    let c := mergeRemote (mergeRemote { blobs := [], log := [] } [.create f1]) [.move f1.name 1 2 5 6]
    reduce c.log = [{ folder := 5, secret := 6, name := f1.name }] ∧
      c.blobs = [f1, { folder := 5, secret := 6, name := f1.name }] := by decide

example : Named (srvRun [] [.upload f1 [7], .move f1 5 6 f1.name, .move { folder := 5, secret := 6, name := f1.name } 1 2 (H.leaf [9])]) :=
  server_files_named_by_digest _

end Sos.Props.C17
