/-
  C10  Ciphertext is authenticated, key-bound and never reuses a nonce.
  Obligations counted here are about the SDK's use of the primitives and about the stored
  encoding; `decrypt (encrypt …) = some` and `decrypt other key = none` are definitional in
  the symbolic model and are listed as such (they are tied to the real ciphers by the
  differential tamper tests of the harness, which are tests).
-/
import SosModel.Crypto
import SosModel.Props.C14
namespace Sos.Props.C10
open Sos Sos.Crypto Sos.Codec

/-- (definitional) what was sealed is what opens, with the sealing key and cipher -/
theorem decrypt_encrypt (c : CipherId) (k : Key) (n : Nat) (pt : Bytes) :
    decrypt c k (encrypt c k n pt) = some pt := by simp [decrypt, encrypt]

/-- (definitional) any other key fails -/
theorem decrypt_other_key_fails (c : CipherId) (k k' : Key) (n : Nat) (pt : Bytes) (h : k' ≠ k) :
    decrypt c k' (encrypt c k n pt) = none := by
  simp [decrypt, encrypt, Ne.symm h]

/-- C10/1.  The nonce-length gate: a pack sealed by one cipher is never opened by the other. -/
theorem nonce_length_gate (c c' : CipherId) (k : Key) (n : Nat) (pt : Bytes) (h : c' ≠ c) :
    decrypt c' k (encrypt c k n pt) = none := by
  cases c <;> cases c' <;> simp_all [decrypt, encrypt, nonceLen]

/-- C10/2.  Same password, different salt: different key.  Same password and salt, different
seed: different key. -/
theorem different_salt_different_key (alg : Nat) (pw s1 s2 : Bytes) (seed : Option Bytes) (h : s1 ≠ s2) :
    derive alg pw s1 seed ≠ derive alg pw s2 seed := by
  simp [derive, h]

theorem different_seed_different_key (alg : Nat) (pw salt sd1 sd2 : Bytes) (h : sd1 ≠ sd2) :
    derive alg pw salt (some sd1) ≠ derive alg pw salt (some sd2) := by
  simp only [derive, Option.getD_some, ne_eq, Key.kdf.injEq, true_and, and_true]
  intro e
  exact h (List.append_cancel_left e)

/-- C10/3.  A folder unlocks only with its own password: a key derived from another
password (same salt, same seed) does not open what the folder key sealed. -/
theorem other_password_does_not_unlock (c : CipherId) (alg : Nat) (pw pw' salt : Bytes)
    (seed : Option Bytes) (n : Nat) (pt : Bytes) (h : pw' ++ seed.getD [] ≠ pw ++ seed.getD []) :
    decrypt c (derive alg pw' salt seed) (encrypt c (derive alg pw salt seed) n pt) = none := by
  apply decrypt_other_key_fails
  simp [derive, h]

/-- C10/3b.  The password check used as a permission gate (`Vault::verify`, behind
`AccessPoint::verify` and the account's `verify`) accepts the folder's own password and no
other. -/
theorem own_password_verifies (c : CipherId) (alg : Nat) (pw salt : Bytes) (seed : Option Bytes) (n : Nat) (pt : Bytes) :
    verify c alg salt seed (encrypt c (derive alg pw salt seed) n pt) pw = true := by
  unfold verify; rw [decrypt_encrypt]; rfl

theorem other_password_does_not_verify (c : CipherId) (alg : Nat) (pw pw' salt : Bytes)
    (seed : Option Bytes) (n : Nat) (pt : Bytes) (h : pw' ++ seed.getD [] ≠ pw ++ seed.getD []) :
    verify c alg salt seed (encrypt c (derive alg pw salt seed) n pt) pw' = false := by
  unfold verify; rw [other_password_does_not_unlock c alg pw pw' salt seed n pt h]; rfl

/-- C10/1c.  The age cipher: only a recipient opens the pack. -/
theorem age_other_identity_fails (n : Bytes) (rs : List Nat) (pt : Bytes) (i : Nat) (h : i ∉ rs) :
    decryptAge i (encryptAge n rs pt) = none := by
  unfold decryptAge encryptAge
  simp [h]

/-- Witness (KNOWN FINDING C10/age-nonce-field): for the age cipher the pack's nonce field is
not bound to the ciphertext — whatever it is replaced by, the pack opens to the same plaintext.
(C10 as stated demands that a modified nonce makes decryption fail; the plaintext returned is
still the authentic one.) -/
theorem age_pack_nonce_field_is_not_bound (n n' : Bytes) (rs : List Nat) (pt : Bytes) (i : Nat) :
    decryptAge i { encryptAge n rs pt with nonceField := n' } = decryptAge i (encryptAge n rs pt) := by
  rfl

/-- the access point of a folder sealed under `pw` -/
def folderAP (c : CipherId) (alg : Nat) (pw salt : Bytes) (seed : Option Bytes) (n : Nat) (pt : Bytes) : AccessPoint :=
  { cipher := c, alg := alg, salt := salt, seed := seed, sealedMeta := encrypt c (derive alg pw salt seed) n pt }

/-- C10/3c.  An unlock with another password is refused AND leaves the folder locked: nothing
can be written afterwards (a row written then would be sealed under a key that is not the
folder's).  With its own password the folder unlocks and holds exactly the folder key. -/
theorem refused_unlock_leaves_folder_locked (c : CipherId) (alg : Nat) (pw pw' salt : Bytes)
    (seed : Option Bytes) (n : Nat) (pt : Bytes) (h : pw' ++ seed.getD [] ≠ pw ++ seed.getD []) :
    ((folderAP c alg pw salt seed n pt).unlock pw').2 = false ∧
    ((folderAP c alg pw salt seed n pt).unlock pw').1.canWrite = false := by
  unfold AccessPoint.unlock folderAP
  simp only
  rw [other_password_does_not_unlock c alg pw pw' salt seed n pt h]
  exact ⟨rfl, rfl⟩

theorem own_password_unlocks_and_installs_the_folder_key (c : CipherId) (alg : Nat) (pw salt : Bytes)
    (seed : Option Bytes) (n : Nat) (pt : Bytes) :
    ((folderAP c alg pw salt seed n pt).unlock pw).2 = true ∧
    ((folderAP c alg pw salt seed n pt).unlock pw).1.installed = some (derive alg pw salt seed) := by
  unfold AccessPoint.unlock folderAP
  simp only
  rw [decrypt_encrypt]
  exact ⟨rfl, rfl⟩

/-- Witness of the repaired defect: before the repair a refused unlock left the foreign key
installed and the folder writable. -/
theorem refused_unlock_left_foreign_key_installed_before_the_repair (c : CipherId) (alg : Nat)
    (pw pw' salt : Bytes) (seed : Option Bytes) (n : Nat) (pt : Bytes)
    (h : pw' ++ seed.getD [] ≠ pw ++ seed.getD []) :
    ((folderAP c alg pw salt seed n pt).unlockOld pw').2 = false ∧
    ((folderAP c alg pw salt seed n pt).unlockOld pw').1.canWrite = true := by
  unfold AccessPoint.unlockOld folderAP
  simp only
  rw [other_password_does_not_unlock c alg pw pw' salt seed n pt h]
  exact ⟨rfl, rfl⟩

/-- C10/4.  Across everything a key ever encrypts no nonce is used twice: after any sequence
of encryptions all packs made carry pairwise different nonces. -/
def sealAll (c : CipherId) (k : Key) : KeyUse → List Bytes → KeyUse
  | u, [] => u
  | u, pt :: rest => sealAll c k (u.seal c k pt).1 rest

theorem nonces_never_reused (c : CipherId) (k : Key) (pts : List Bytes) :
    ((sealAll c k { next := 0, made := [] } pts).made.map (·.box.nonce)).Nodup := by
  have gen : ∀ (u : KeyUse), (u.made.map (·.box.nonce)).Nodup → (∀ p ∈ u.made, p.box.nonce < u.next) →
      ((sealAll c k u pts).made.map (·.box.nonce)).Nodup := by
    induction pts with
    | nil => intro u h _; exact h
    | cons pt rest ih =>
      intro u h1 h2
      apply ih
      · simp only [KeyUse.seal, encrypt, List.map_append, List.map_cons, List.map_nil]
        rw [List.nodup_append]
        refine ⟨h1, by simp, ?_⟩
        intro a ha b hb
        simp at hb; subst hb
        simp only [List.mem_map] at ha
        obtain ⟨p, hp, rfl⟩ := ha
        have := h2 p hp
        omega
      · intro p hp
        simp only [KeyUse.seal, encrypt, List.mem_append, List.mem_singleton] at hp
        rcases hp with hp | hp
        · have := h2 p hp; simp only [KeyUse.seal]; omega
        · subst hp; simp [KeyUse.seal]
  exact gen _ (by simp) (by simp)

/-- little-endian bytes are determined by their value -/
theorem leBytes_leVal (bs : Bytes) : leBytes bs.length (leVal bs) = bs := by
  induction bs with
  | nil => rfl
  | cons b rest ih =>
    simp only [List.length_cons, leBytes, leVal]
    have h1 : (b.toNat + 256 * leVal rest) % 256 = b.toNat := by
      have := b.toNat_lt; omega
    have h2 : (b.toNat + 256 * leVal rest) / 256 = leVal rest := by
      have := b.toNat_lt; omega
    rw [h1, h2, ih]
    simp

theorem readFixed_ok {k : Nat} {b v r : Bytes} (h : (readFixed k b).res = .ok v r) :
    b = v ++ r ∧ v.length = k := by
  unfold readFixed at h
  by_cases hl : b.length < k
  · simp [hl, fail] at h
  · simp only [hl, if_false, R.ok.injEq] at h
    obtain ⟨h1, h2⟩ := h
    subst h1 h2
    exact ⟨(List.take_append_drop k b).symm, by rw [List.length_take]; omega⟩

theorem readN_ok {n : Nat} {b v r : Bytes} (h : (readN n b).res = .ok v r) :
    b = v ++ r ∧ v.length = n := by
  unfold readN at h
  by_cases hc : n > cap
  · simp [hc, fail] at h
  · simp only [hc, if_false] at h
    by_cases hl : b.length < n
    · simp [hl] at h
    · simp only [hl, if_false, R.ok.injEq] at h
      obtain ⟨h1, h2⟩ := h
      subst h1 h2
      exact ⟨(List.take_append_drop n b).symm, by rw [List.length_take]; omega⟩

theorem readNat_ok {k : Nat} {b r : Bytes} {n : Nat} (h : (readNat k b).res = .ok n r) :
    ∃ v, b = v ++ r ∧ v.length = k ∧ n = leVal v := by
  unfold readNat at h
  cases hf : (readFixed k b).res with
  | error => simp [Out.bind, hf] at h
  | panic => simp [Out.bind, hf] at h
  | ok v r1 =>
    simp only [Out.bind, hf, ret, R.ok.injEq] at h
    obtain ⟨hn, hr⟩ := h
    subst hr
    obtain ⟨h1, h2⟩ := readFixed_ok hf
    exact ⟨v, h1, h2, hn.symm⟩

/-- C10/5.  The stored encoding of a pack is canonical: whatever bytes decode to a pack are
exactly the encoding of that pack (followed by the unread rest).  Hence any modification of
a stored pack's bytes — bit flip, truncation, extension, swapping parts with another pack —
decodes to an error or to a DIFFERENT (nonce, ciphertext), which the AEAD rejects. -/
theorem aead_pack_encoding_is_canonical (b : Bytes) (p : AeadPack) (rest : Bytes)
    (h : (readAead b).res = .ok p rest) : b = encAead p ++ rest := by
  unfold readAead readU8 at h
  cases h1 : (readNat 1 b).res with
  | error => simp [Out.bind, h1] at h
  | panic => simp [Out.bind, h1] at h
  | ok n r1 =>
    obtain ⟨nb, hb1, hl1, hn⟩ := readNat_ok h1
    simp only [Out.bind, h1] at h
    cases h2 : (readN n r1).res with
    | error => simp [h2] at h
    | panic => simp [h2] at h
    | ok nonce r2 =>
      obtain ⟨hb2, hl2⟩ := readN_ok h2
      simp only [h2] at h
      by_cases hnn : n = 12 ∨ n = 24
      · simp only [hnn, if_true] at h
        unfold readLenBytes readU32 at h
        cases h3 : (readNat 4 r2).res with
        | error => simp [Out.bind, h3] at h
        | panic => simp [Out.bind, h3] at h
        | ok len r3 =>
          obtain ⟨lb, hb3, hl3, hlen⟩ := readNat_ok h3
          simp only [Out.bind, h3] at h
          cases h4 : (readN len r3).res with
          | error => simp [h4] at h
          | panic => simp [h4] at h
          | ok ct r4 =>
            obtain ⟨hb4, hl4⟩ := readN_ok h4
            simp only [h4, ret, R.ok.injEq] at h
            obtain ⟨hp, hrest⟩ := h
            subst hp hrest
            unfold encAead encU8 encLenBytes encU32
            simp only
            have e1 : leBytes 1 nonce.length = nb := by
              rw [hl2, hn, ← hl1]; exact leBytes_leVal nb
            have e2 : leBytes 4 ct.length = lb := by
              rw [hl4, hlen, ← hl3]; exact leBytes_leVal lb
            rw [e1, e2, hb1, hb2, hb3, hb4]
            simp
      · simp [hnn, fail] at h

/-- C10/6.  Consequence: two different byte strings never decode (completely) to the same
pack. -/
theorem distinct_bytes_distinct_packs (b b' : Bytes) (p : AeadPack)
    (h : (readAead b).res = .ok p []) (h' : (readAead b').res = .ok p []) : b = b' := by
  rw [aead_pack_encoding_is_canonical b p [] h, aead_pack_encoding_is_canonical b' p [] h']

example : decrypt .aesgcm (derive 1 [1] [9] none) (encrypt .aesgcm (derive 1 [1] [9] none) 0 [42]) = some [42] := by
  decide

end Sos.Props.C10
