/-
  C02  A folder always equals the replay of its own event log.
-/
import SosModel.Lemmas.Folder
namespace Sos.Props.C02
open Sos Sos.Folder

/-- The folder is consistent: replaying its log gives exactly the served vault
(name, flags, description, ids in order and each id's content). -/
def Consistent (f : Folder) : Prop := reduce f.log = some f.vault

theorem reduce_snoc (log : List Ev) (e : Ev) (v : Vault) (h : reduce log = some v) :
    reduce (log ++ [e]) = some (reduceEv v e) := by
  cases log with
  | nil => simp [reduce] at h
  | cons a rest =>
    cases a with
    | createVault n f d =>
      simp only [reduce, Option.some.injEq] at h
      simp only [List.cons_append, reduce, List.foldl_append, List.foldl_cons, List.foldl_nil, h]
    | _ => simp [reduce] at h

theorem new_consistent (n f d : Nat) : Consistent (Folder.new n f d) := rfl

/-- C02/1.  Every local operation keeps the folder equal to the replay of its log. -/
theorem local_op_preserves (f : Folder) (op : Op) (h : Consistent f) : Consistent (f.step op) := by
  unfold Consistent at *
  unfold Folder.step
  cases op with
  | create id x =>
    simp only [applyOp]
    rw [reduce_snoc _ _ _ h]
    simp only [reduceEv]
    congr 2
    unfold Secrets.insertIfAbsent
    cases hg : f.vault.secrets.get? id with
    | some w => simp [hg, insert_get_self hg]
    | none =>
      have hk := get?_none_iff.mp hg
      simp [get?_append_absent hk, insert_absent hk]
  | update id x =>
    simp only [applyOp]
    split
    · rename_i v e heq
      split at heq
      · cases heq; rw [reduce_snoc _ _ _ h]; rfl
      · cases heq
    · rename_i v heq
      split at heq
      · cases heq
      · cases heq; exact h
  | delete id =>
    simp only [applyOp]
    split
    · rename_i v e heq
      split at heq
      · cases heq; rw [reduce_snoc _ _ _ h]; rfl
      · cases heq
    · rename_i v heq
      split at heq
      · cases heq
      · cases heq; exact h
  | rename n => simp only [applyOp]; rw [reduce_snoc _ _ _ h]; rfl
  | setFlags fl => simp only [applyOp]; rw [reduce_snoc _ _ _ h]; rfl
  | describe d => simp only [applyOp]; rw [reduce_snoc _ _ _ h]; rfl

/-- C02/2.  After any history of local operations on a new folder, the folder equals the
replay of its log. -/
theorem local_history_consistent (n fl d : Nat) (ops : List Op) :
    Consistent (ops.foldl Folder.step (Folder.new n fl d)) := by
  have : ∀ (f : Folder), Consistent f → Consistent (ops.foldl Folder.step f) := by
    induction ops with
    | nil => intro f h; exact h
    | cons o t ih => intro f h; exact ih _ (local_op_preserves f o h)
  exact this _ (new_consistent n fl d)

/-- An incoming event is *applicable* to a vault when replaying it through the access
point does what the reducer does: creations hit absent ids, updates hit present ids. -/
def Applicable (v : Vault) : Ev → Prop
  | .createSecret id _ => v.secrets.get? id = none
  | .updateSecret id _ => (v.secrets.get? id).isSome
  | _ => True

theorem replay_eq_reduce (v : Vault) (e : Ev) (h : Applicable v e) : replayEv v e = reduceEv v e := by
  cases e with
  | createSecret id x =>
    simp only [Applicable] at h
    have hk := get?_none_iff.mp h
    simp [replayEv, reduceEv, Secrets.insertIfAbsent, h, insert_absent hk]
  | updateSecret id x =>
    simp only [Applicable] at h
    simp [replayEv, reduceEv, h]
  | _ => rfl

/-- every event of the patch is applicable to the vault at the time it is replayed -/
def WFPatch : Vault → List Ev → Prop
  | _, [] => True
  | v, e :: rest => Applicable v e ∧ WFPatch (replayEv v e) rest

theorem replay_patch_eq_reduce (v : Vault) (patch : List Ev) (h : WFPatch v patch) :
    patch.foldl replayEv v = patch.foldl reduceEv v := by
  induction patch generalizing v with
  | nil => rfl
  | cons e rest ih =>
    simp only [List.foldl_cons]
    rw [ih _ h.2, replay_eq_reduce v e h.1]

theorem reduce_append (log patch : List Ev) (v : Vault) (h : reduce log = some v) :
    reduce (log ++ patch) = some (patch.foldl reduceEv v) := by
  induction patch generalizing log v with
  | nil => simpa using h
  | cons e rest ih =>
    have := ih (log ++ [e]) (reduceEv v e) (reduce_snoc log e v h)
    simpa using this

/-- C02/3 (partial).  A checked merge keeps the folder equal to the replay of its log when
every incoming event is applicable.  Without that hypothesis the statement is false of the
code: `merge_on_unrewound_vault_breaks`. -/
theorem merge_preserves_partial (f : Folder) (patch : List Ev) (h : Consistent f)
    (hwf : WFPatch f.vault patch) : Consistent (f.merge patch) := by
  unfold Consistent Folder.merge at *
  simp only
  rw [reduce_append _ _ _ h, replay_patch_eq_reduce _ _ hwf]

/-- C02/4.  A forced overwrite rebuilds the vault from the replaced log. -/
theorem force_merge_consistent (f : Folder) (newLog : List Ev) (h : Consistent f) :
    Consistent (f.forceMerge newLog) := by
  unfold Consistent Folder.forceMerge
  cases hr : reduce newLog with
  | none => exact h
  | some v => exact hr

/-- Witness (KNOWN FINDING C02/merge-on-unrewound-vault): the device deleted secret 1
offline, another device updated it later.  Auto-merge rewinds the log to the ancestor and
appends [delete 1, update 1] but replays them onto the vault that already lost the secret:
the served folder has no secret 1, the replay of the log has it. -/
theorem merge_on_unrewound_vault_breaks :
    let f0 := [Op.create 1 5, Op.delete 1].foldl Folder.step (Folder.new 0 0 0)
    let f1 := f0.rewindMerge 2 [.deleteSecret 1, .updateSecret 1 7]
    f1.vault.secrets = [] ∧ (reduce f1.log).map (·.secrets) = some [(1, 7)] := by decide

/-- C02/5.  Replaying the log up to any earlier point yields the folder as it was then:
the log after `ops1` is a prefix of the log after `ops1 ++ ops2`, and its replay is the
folder served after `ops1`. -/
theorem replay_of_prefix_is_earlier_folder (n fl d : Nat) (ops1 ops2 : List Op) :
    let f1 := ops1.foldl Folder.step (Folder.new n fl d)
    let f2 := (ops1 ++ ops2).foldl Folder.step (Folder.new n fl d)
    f1.log <+: f2.log ∧ reduce (f2.log.take f1.log.length) = some f1.vault := by
  intro f1 f2
  have hpre : ∀ (f : Folder) (ops : List Op), f.log <+: (ops.foldl Folder.step f).log := by
    intro f ops
    induction ops generalizing f with
    | nil => exact List.prefix_refl _
    | cons o t ih =>
      simp only [List.foldl_cons]
      refine List.IsPrefix.trans ?_ (ih (f.step o))
      unfold Folder.step
      split
      · exact List.prefix_append _ _
      · exact List.prefix_refl _
  have h12 : f1.log <+: f2.log := by
    show f1.log <+: ((ops1 ++ ops2).foldl Folder.step (Folder.new n fl d)).log
    rw [List.foldl_append]
    exact hpre f1 ops2
  refine ⟨h12, ?_⟩
  obtain ⟨t, ht⟩ := h12
  rw [← ht, List.take_left]
  exact local_history_consistent n fl d ops1

example : Consistent ([Op.create 1 5, Op.update 1 6, Op.create 2 9, Op.delete 1, Op.rename 4].foldl
    Folder.step (Folder.new 0 0 0)) := by unfold Consistent; decide

end Sos.Props.C02
