/-
  C16  Integrity reports flag every corruption and nothing else.
-/
import SosModel.Integrity
namespace Sos.Props.C16
open Sos Sos.Integrity

/-- a folder whose rows were all written by the SDK (checksum = digest of content) and
whose vault and log are present -/
def Intact (f : FolderStore) : Prop :=
  f.vaultPresent = true ∧ f.logPresent = true ∧ ∀ r ∈ f.vaultRows ++ f.eventRows, r = mkRow r.content

/-- C16/1.  An untampered folder reports no failure, whatever history produced its rows. -/
theorem intact_reports_nothing (f : FolderStore) (h : Intact f) : report f = [] := by
  obtain ⟨h1, h2, h3⟩ := h
  unfold report
  simp only [h1, h2, Bool.not_true, Bool.or_self, Bool.false_eq_true, if_false]
  rw [List.filterMap_eq_nil_iff]
  intro r hr
  have := h3 r hr
  have hok : rowOk r = true := by
    unfold rowOk; rw [this]; simp [mkRow]
  simp [hok]

/-- replace the content of the i-th row of a list -/
def tamperContent (rows : List Row) (i : Nat) (c : Bytes) : List Row :=
  rows.mapIdx fun j r => if j = i then { r with content := c } else r

def tamperChecksum (rows : List Row) (i : Nat) (h : H) : List Row :=
  rows.mapIdx fun j r => if j = i then { r with checksum := h } else r

theorem mem_report_of_bad_row (f : FolderStore) (r : Row) (hp : f.vaultPresent = true ∧ f.logPresent = true)
    (hr : r ∈ f.vaultRows ++ f.eventRows) (hbad : rowOk r = false) :
    Failure.corrupted r.checksum (H.leaf r.content) ∈ report f := by
  unfold report
  simp only [hp.1, hp.2, Bool.not_true, Bool.or_self, Bool.false_eq_true, if_false]
  rw [List.mem_filterMap]
  exact ⟨r, hr, by simp [hbad]⟩

/-- C16/2.  Changing the content of any one vault row of an intact folder (to any different
byte string: a single flipped bit included) is reported.  (Free hash: different content,
different digest.) -/
theorem tampered_vault_content_flagged (f : FolderStore) (h : Intact f) (i : Nat) (c : Bytes)
    (hi : i < f.vaultRows.length) (hc : c ≠ (f.vaultRows[i]).content) :
    report { f with vaultRows := tamperContent f.vaultRows i c } ≠ [] := by
  obtain ⟨h1, h2, h3⟩ := h
  have horig := h3 f.vaultRows[i] (List.mem_append_left _ (List.getElem_mem hi))
  let r' : Row := { f.vaultRows[i] with content := c }
  have hmem : r' ∈ tamperContent f.vaultRows i c := by
    unfold tamperContent
    rw [List.mem_iff_getElem]
    refine ⟨i, by simpa using hi, ?_⟩
    simp [r']
  have hbad : rowOk r' = false := by
    unfold rowOk
    simp only [r', decide_eq_false_iff_not]
    rw [horig]
    simp only [mkRow]
    intro e
    exact hc (H.leaf.inj e)
  intro hnil
  have := mem_report_of_bad_row { f with vaultRows := tamperContent f.vaultRows i c } r' ⟨h1, h2⟩
    (List.mem_append_left _ hmem) hbad
  rw [hnil] at this
  cases this

/-- C16/3.  Changing the stored checksum of any one event record of an intact folder is
reported. -/
theorem tampered_event_checksum_flagged (f : FolderStore) (h : Intact f) (i : Nat) (x : H)
    (hi : i < f.eventRows.length) (hx : x ≠ (f.eventRows[i]).checksum) :
    report { f with eventRows := tamperChecksum f.eventRows i x } ≠ [] := by
  obtain ⟨h1, h2, h3⟩ := h
  have horig := h3 f.eventRows[i] (List.mem_append_right _ (List.getElem_mem hi))
  let r' : Row := { f.eventRows[i] with checksum := x }
  have hmem : r' ∈ tamperChecksum f.eventRows i x := by
    unfold tamperChecksum
    rw [List.mem_iff_getElem]
    refine ⟨i, by simpa using hi, ?_⟩
    simp [r']
  have hbad : rowOk r' = false := by
    unfold rowOk
    simp only [r', decide_eq_false_iff_not]
    intro e
    apply hx
    rw [← e, horig]; rfl
  intro hnil
  have := mem_report_of_bad_row { f with eventRows := tamperChecksum f.eventRows i x } r' ⟨h1, h2⟩
    (List.mem_append_right _ hmem) hbad
  rw [hnil] at this
  cases this

/-- C16/4.  A removed vault or log is reported. -/
theorem removed_part_flagged (f : FolderStore) (h : f.vaultPresent = false ∨ f.logPresent = false) :
    report f = [.missingFolder] := by
  unfold report
  rcases h with h | h <;> simp [h]

example : report { vaultPresent := true, logPresent := true, vaultRows := [mkRow [1, 2]], eventRows := [mkRow [3]] } = [] := by
  decide
example : report { vaultPresent := true, logPresent := true, vaultRows := [{ content := [1, 3], checksum := H.leaf [1, 2] }], eventRows := [] } ≠ [] := by
  decide

end Sos.Props.C16
