/-
  C16  Integrity reports flag every corruption and nothing else.
-/
import SosModel.Integrity
namespace Sos.Props.C16
open Sos Sos.Integrity

/-- a folder whose rows were all written by the SDK (checksum = digest of content) and
whose vault and log are present -/
def Intact (f : FolderStore) : Prop :=
  f.vaultPresent = true ∧ f.logPresent = true ∧ ∀ r ∈ f.vaultRows ++ f.eventRows, r = mkRow r.content

/-- C16/1.  An untampered folder reports no failure, whatever history produced its rows. -/
theorem intact_reports_nothing (f : FolderStore) (h : Intact f) : report f = [] := by
  obtain ⟨h1, h2, h3⟩ := h
  unfold report
  simp only [h1, h2, Bool.not_true, Bool.or_self, Bool.false_eq_true, if_false]
  rw [List.filterMap_eq_nil_iff]
  intro r hr
  have := h3 r hr
  have hok : rowOk r = true := by
    unfold rowOk; rw [this]; simp [mkRow]
  simp [hok]

/-- replace the content of the i-th row of a list -/
def tamperContent (rows : List Row) (i : Nat) (c : Bytes) : List Row :=
  rows.mapIdx fun j r => if j = i then { r with content := c } else r

def tamperChecksum (rows : List Row) (i : Nat) (h : H) : List Row :=
  rows.mapIdx fun j r => if j = i then { r with checksum := h } else r

theorem mem_report_of_bad_row (f : FolderStore) (r : Row) (hp : f.vaultPresent = true ∧ f.logPresent = true)
    (hr : r ∈ f.vaultRows ++ f.eventRows) (hbad : rowOk r = false) :
    Failure.corrupted r.checksum (H.leaf r.content) ∈ report f := by
  unfold report
  simp only [hp.1, hp.2, Bool.not_true, Bool.or_self, Bool.false_eq_true, if_false]
  rw [List.mem_filterMap]
  exact ⟨r, hr, by simp [hbad]⟩

/-- C16/2.  Changing the content of any one vault row of an intact folder (to any different
byte string: a single flipped bit included) is reported.  (Free hash: different content,
different digest.) -/
theorem tampered_vault_content_flagged (f : FolderStore) (h : Intact f) (i : Nat) (c : Bytes)
    (hi : i < f.vaultRows.length) (hc : c ≠ (f.vaultRows[i]).content) :
    report { f with vaultRows := tamperContent f.vaultRows i c } ≠ [] := by
  obtain ⟨h1, h2, h3⟩ := h
  have horig := h3 f.vaultRows[i] (List.mem_append_left _ (List.getElem_mem hi))
  let r' : Row := { f.vaultRows[i] with content := c }
  have hmem : r' ∈ tamperContent f.vaultRows i c := by
    unfold tamperContent
    rw [List.mem_iff_getElem]
    refine ⟨i, by simpa using hi, ?_⟩
    simp [r']
  have hbad : rowOk r' = false := by
    unfold rowOk
    simp only [r', decide_eq_false_iff_not]
    rw [horig]
    simp only [mkRow]
    intro e
    exact hc (H.leaf.inj e)
  intro hnil
  have := mem_report_of_bad_row { f with vaultRows := tamperContent f.vaultRows i c } r' ⟨h1, h2⟩
    (List.mem_append_left _ hmem) hbad
  rw [hnil] at this
  cases this

/-- C16/3.  Changing the stored checksum of any one event record of an intact folder is
reported. -/
theorem tampered_event_checksum_flagged (f : FolderStore) (h : Intact f) (i : Nat) (x : H)
    (hi : i < f.eventRows.length) (hx : x ≠ (f.eventRows[i]).checksum) :
    report { f with eventRows := tamperChecksum f.eventRows i x } ≠ [] := by
  obtain ⟨h1, h2, h3⟩ := h
  have horig := h3 f.eventRows[i] (List.mem_append_right _ (List.getElem_mem hi))
  let r' : Row := { f.eventRows[i] with checksum := x }
  have hmem : r' ∈ tamperChecksum f.eventRows i x := by
    unfold tamperChecksum
    rw [List.mem_iff_getElem]
    refine ⟨i, by simpa using hi, ?_⟩
    simp [r']
  have hbad : rowOk r' = false := by
    unfold rowOk
    simp only [r', decide_eq_false_iff_not]
    intro e
    apply hx
    rw [← e, horig]; rfl
  intro hnil
  have := mem_report_of_bad_row { f with eventRows := tamperChecksum f.eventRows i x } r' ⟨h1, h2⟩
    (List.mem_append_right _ hmem) hbad
  rw [hnil] at this
  cases this

/-- C16/4.  A removed vault or log is reported. -/
theorem removed_part_flagged (f : FolderStore) (h : f.vaultPresent = false ∨ f.logPresent = false) :
    report f = [.missingFolder] := by
  unfold report
  rcases h with h | h <;> simp [h]

example : report { vaultPresent := true, logPresent := true, vaultRows := [mkRow [1, 2]], eventRows := [mkRow [3]] } = [] := by
  decide
example : report { vaultPresent := true, logPresent := true, vaultRows := [{ content := [1, 3], checksum := H.leaf [1, 2] }], eventRows := [] } ≠ [] := by
  decide


/-! ### external file blobs -/

/-- C16/5.  Blobs stored by the SDK (each under the digest of its bytes) report nothing. -/
theorem intact_files_report_nothing (blobs : List Bytes) : fileReport (blobs.map mkBlob) = [] := by
  unfold fileReport
  rw [List.filterMap_eq_nil_iff]
  intro f hf
  obtain ⟨b, _, rfl⟩ := List.mem_map.mp hf
  simp [checkFile, mkBlob]

/-- what is on disk for the i-th file is replaced -/
def tamperFile : List BlobFile → Nat → Option Bytes → List BlobFile
  | [], _, _ => []
  | f :: t, 0, d => { f with onDisk := d } :: t
  | f :: t, i + 1, d => f :: tamperFile t i d

/-- C16/6.  Replacing the bytes of any one stored blob by ANY different bytes (one flipped
bit, a truncation, an extension) or removing it is reported, naming that file, and no other
file is reported. -/
theorem tampered_blob_flagged_and_only_it (blobs : List Bytes) (i : Nat) (d : Option Bytes)
    (hi : i < blobs.length) (hd : d ≠ some blobs[i]) :
    ∃ fl, fileReport (tamperFile (blobs.map mkBlob) i d) = [fl] ∧
      (fl = .missingFile (H.leaf blobs[i]) ∨ ∃ a, fl = .corruptedFile (H.leaf blobs[i]) a) := by
  induction blobs generalizing i with
  | nil => simp at hi
  | cons b t ih =>
    cases i with
    | zero =>
      simp only [List.getElem_cons_zero] at hd
      have hrest : List.filterMap checkFile (t.map mkBlob) = [] := intact_files_report_nothing t
      simp only [fileReport, tamperFile, List.map_cons, List.filterMap_cons, hrest, List.getElem_cons_zero]
      cases d with
      | none => exact ⟨_, by simp [checkFile, mkBlob], Or.inl rfl⟩
      | some x =>
        have hx : x ≠ b := fun e => hd (by rw [e])
        have hne : H.leaf x ≠ H.leaf b := fun e => hx (H.leaf.inj e)
        refine ⟨.corruptedFile (H.leaf b) (H.leaf x), ?_, Or.inr ⟨_, rfl⟩⟩
        simp [checkFile, mkBlob, hne]
    | succ j =>
      have hj : j < t.length := by simpa using hi
      obtain ⟨fl, h1, h2⟩ := ih j hj (by simpa using hd)
      refine ⟨fl, ?_, by simpa using h2⟩
      simp only [fileReport, tamperFile, List.map_cons, List.filterMap_cons] at h1 ⊢
      have h0 : checkFile (mkBlob b) = none := by simp [checkFile, mkBlob]
      rw [h0]
      exact h1

example : fileReport (tamperFile ([[1], [2]].map mkBlob) 1 (some [2, 0])) =
    [.corruptedFile (H.leaf [2]) (H.leaf [2, 0])] := by decide

end Sos.Props.C16
