/-
  C11  The server acts only for requests signed by a trusted device.
-/
import SosModel.Auth
namespace Sos.Props.C11
open Sos Sos.Auth

/-- C11/1.  For an existing account the request is let through iff it names the account in
the header, carries a well-formed token, the account is not excluded by the access lists,
and some CURRENTLY trusted device key signed exactly the bytes the route authenticates. -/
theorem signedBy_iff (keys : List Nat) (s : Sig) (bytes : Nat) :
    signedBy keys s bytes = true ↔ (s.key ∈ keys ∧ s.msg = bytes) := by
  unfold signedBy
  simp only [List.any_eq_true, decide_eq_true_eq]
  constructor
  · intro ⟨k, hk, hk2, hm⟩; exact ⟨hk2 ▸ hk, hm⟩
  · intro ⟨hk, hm⟩; exact ⟨s.key, hk, rfl, hm⟩

theorem allow_iff (srv : Server) (r : Request) (acct : Nat) (keys : List Nat)
    (hex : srv.trusted acct = some keys) :
    authenticate srv r = .allow acct ↔
      (r.headerAccount = some acct ∧
       ∃ s, r.cred = .token s ∧ s.key ∈ keys ∧ s.msg = r.signedBytes ∧ blocked srv acct = false) := by
  unfold authenticate
  constructor
  · intro h
    cases hh : r.headerAccount with
    | none => simp [hh] at h
    | some a0 =>
      cases hc : r.cred with
      | none => simp [hh, hc] at h
      | malformed => simp [hh, hc] at h
      | token s =>
        simp only [hh, hc] at h
        by_cases hb : blocked srv a0 = true
        · simp [hb] at h
        · simp only [hb, Bool.false_eq_true, if_false] at h
          cases ht : srv.trusted a0 with
          | none =>
            simp only [ht] at h
            cases h
            rw [hex] at ht; cases ht
          | some ks =>
            simp only [ht] at h
            by_cases hs : signedBy ks s r.signedBytes = true
            · simp only [hs, if_true] at h
              cases h
              rw [hex] at ht; cases ht
              have := (signedBy_iff keys s r.signedBytes).mp hs
              exact ⟨rfl, s, rfl, this.1, this.2, by simpa using hb⟩
            · simp [hs] at h
  · intro ⟨hh, s, hc, hk, hm, hb⟩
    have hs := (signedBy_iff keys s r.signedBytes).mpr ⟨hk, hm⟩
    simp [hh, hc, hex, hb, hs]

/-- C11/2.  Unsigned and malformed credentials are refused on every authenticated route. -/
theorem unsigned_or_malformed_refused (srv : Server) (r : Request)
    (h : r.cred = .none ∨ r.cred = .malformed ∨ r.headerAccount = none) :
    authenticate srv r = .badRequest := by
  unfold authenticate
  rcases h with h | h | h
  · cases hh : r.headerAccount <;> simp [h]
  · cases hh : r.headerAccount <;> simp [h]
  · simp [h]

/-- C11/3.  A signature by an unknown key, by a revoked key, over other bytes, or by a
device of another account is refused for an existing account. -/
theorem wrong_signature_refused (srv : Server) (r : Request) (acct : Nat) (keys : List Nat) (s : Sig)
    (hex : srv.trusted acct = some keys) (hh : r.headerAccount = some acct) (hc : r.cred = .token s)
    (hbad : s.key ∉ keys ∨ s.msg ≠ r.signedBytes) :
    authenticate srv r = .forbidden := by
  unfold authenticate
  simp only [hh, hc, hex]
  by_cases hb : blocked srv acct = true
  · simp [hb]
  · have : signedBy keys s r.signedBytes = false := by
      rw [Bool.eq_false_iff]
      intro hs
      have := (signedBy_iff keys s r.signedBytes).mp hs
      rcases hbad with h | h
      · exact h this.1
      · exact h this.2
    simp [hb, this]

/-- C11/4.  Revocation: after `revoke k` the key is not in the trusted set, whatever came
before; so (C11/3) its signatures are refused from then on. -/
theorem revoked_key_not_trusted (log : List DevEv) (k : Nat) :
    k ∉ reduceDevices (log ++ [.revoke k]) := by
  unfold reduceDevices
  rw [List.foldl_append]
  simp [devStep]

/-- C11/4b.  The trusted set the server checks against (its cache) is the reduction of the
device log it persists, after account creation and any sequence of merged patches and forced
updates of the whole log. -/
theorem cache_is_reduction_of_log (log0 : List DevEv) (ops : List DevOp) :
    ((DevStore.create log0).run ops).cache = reduceDevices ((DevStore.create log0).run ops).log := by
  have h : ∀ (s : DevStore), s.cache = reduceDevices s.log →
      (s.run ops).cache = reduceDevices (s.run ops).log := by
    induction ops with
    | nil => intro s hs; simpa [DevStore.run] using hs
    | cons op ops ih =>
      intro s _
      simp only [DevStore.run, List.foldl_cons]
      apply ih
      cases op <;> rfl
  exact h _ rfl

/-- C11/4c.  A device revoked by whatever reaches the server last — a merged patch ending in
`revoke k` or a forced update whose log ends in `revoke k` — is refused on every endpoint. -/
theorem revoked_device_refused_after_history (access : Option Access) (log0 : List DevEv)
    (ops : List DevOp) (last : DevOp) (k : Nat) (r : Request) (acct : Nat) (msg : Nat)
    (hlast : (∃ evs, last = .patch (evs ++ [.revoke k])) ∨ (∃ l, last = .force (l ++ [.revoke k])))
    (hr : r.headerAccount = some acct) (hc : r.cred = .token { key := k, msg := msg }) :
    let st := ((DevStore.create log0).run (ops ++ [last]))
    ∀ srv : Server, srv.access = access → srv.trusted acct = some st.cache →
      authenticate srv r = .forbidden := by
  intro st srv _ htr
  have hk : k ∉ st.cache := by
    have : st = (((DevStore.create log0).run ops).apply last) := by
      simp [st, DevStore.run, List.foldl_append]
    rw [this]
    rcases hlast with ⟨evs, rfl⟩ | ⟨l, rfl⟩
    · simp only [DevStore.apply]
      rw [← List.append_assoc]
      exact revoked_key_not_trusted _ k
    · simp only [DevStore.apply]
      exact revoked_key_not_trusted _ k
  unfold authenticate
  rw [hr, hc]
  simp only
  split
  · rfl
  · rw [htr]
    have : signedBy st.cache { key := k, msg := msg } r.signedBytes = false := by
      unfold signedBy
      simp only [List.any_eq_false]
      intro x hx
      have : x ≠ k := fun h => hk (h ▸ hx)
      simp [this]
    simp [this]

/-- the premises are satisfiable: device 3 trusted at creation, revoked by a forced update -/
example : ((DevStore.create [.trust 1, .trust 2, .trust 3]).run [.patch [.revoke 2], .force [.trust 1, .trust 3, .revoke 3]]).cache = [1] := by decide

/-- C11/5.  Access lists: an account on the deny list (deny-only configuration), or absent
from a configured allow list (allow-only configuration), is refused on every authenticated
endpoint whatever it presents. -/
theorem deny_list_refused (srv : Server) (r : Request) (acct : Nat) (d : List Nat)
    (ha : srv.access = some { allow := none, deny := some d }) (hd : acct ∈ d)
    (hh : r.headerAccount = some acct) : ∀ a, authenticate srv r ≠ .allow a := by
  intro a
  unfold authenticate
  cases hc : r.cred with
  | none => simp [hh]
  | malformed => simp [hh]
  | token s =>
    have : d.contains acct = true := by simpa using hd
    simp [hh, blocked, ha, Access.allowed, hd]

/-- the same with an allow list beside the deny list: denied entries take precedence, so an
account on BOTH lists is refused (the unrepaired code let it in) -/
theorem deny_list_refused_whatever_is_allowed (srv : Server) (r : Request) (acct : Nat) (d : List Nat) (al : Option (List Nat))
    (ha : srv.access = some { allow := al, deny := some d }) (hd : acct ∈ d)
    (hh : r.headerAccount = some acct) : ∀ a, authenticate srv r ≠ .allow a := by
  intro a
  unfold authenticate
  cases hc : r.cred with
  | none => simp [hh]
  | malformed => simp [hh]
  | token s =>
    have : d.contains acct = true := by simpa using hd
    cases al with
    | none => simp [hh, blocked, ha, Access.allowed, hd]
    | some l => simp [hh, blocked, ha, Access.allowed, hd]

/-- absent from a configured allow list: refused, with or without a deny list -/
theorem not_on_allow_list_refused_whatever_is_denied (srv : Server) (r : Request) (acct : Nat) (al : List Nat) (d : Option (List Nat))
    (ha : srv.access = some { allow := some al, deny := d }) (hd : acct ∉ al)
    (hh : r.headerAccount = some acct) : ∀ a, authenticate srv r ≠ .allow a := by
  intro a
  unfold authenticate
  cases hc : r.cred with
  | none => simp [hh]
  | malformed => simp [hh]
  | token s =>
    have : al.contains acct = false := by simpa using hd
    cases d with
    | none => simp [hh, blocked, ha, Access.allowed, hd]
    | some l => by_cases hl : acct ∈ l <;> simp [hh, blocked, ha, Access.allowed, hd, hl]

theorem not_on_allow_list_refused (srv : Server) (r : Request) (acct : Nat) (al : List Nat)
    (ha : srv.access = some { allow := some al, deny := none }) (hd : acct ∉ al)
    (hh : r.headerAccount = some acct) : ∀ a, authenticate srv r ≠ .allow a := by
  intro a
  unfold authenticate
  cases hc : r.cred with
  | none => simp [hh]
  | malformed => simp [hh]
  | token s =>
    have : al.contains acct = false := by simpa using hd
    simp [hh, blocked, ha, Access.allowed, hd]

/-- C11/6.  Every route that reads or changes account data, events or files calls
`authenticate_endpoint` (route table regenerated from server.rs and the handlers on
every run). -/
def isDataRoute (segs : List String) : Bool :=
  segs.take 2 = ["sync", "account"] || segs.take 2 = ["sync", "file"] || segs.take 2 = ["sync", "files"] ||
  segs = ["sync", "changes"]

theorem all_data_routes_authenticated :
    ∀ p ∈ Generated.routes.zip Generated.routeSegments, isDataRoute p.2 = true → p.1.2.2.2.1 = true := by
  decide

theorem route_tables_aligned : Generated.routes.length = Generated.routeSegments.length := by decide

/-- routes whose request carries a body that the signature does not cover (the handler
authenticates the path only) -/
def bodyNotSigned : List String :=
  (Generated.routes.filter (fun r => r.2.2.2.1 && r.2.2.2.2.2 && r.2.2.2.2.1 != "body")).map (·.2.2.1)

/-- C11/7 (partial).  Every body-carrying authenticated route authenticates its body, except
the listed ones (KNOWN FINDING C11/body-not-signed: `compare_files`; `receive_file`'s body is
bound by its content hash in the signed path). -/
theorem body_routes_sign_body_partial : bodyNotSigned = ["compare_files", "receive_file"] := by decide

example : authenticate { access := none, trusted := fun a => if a = 1 then some [7] else none }
    { headerAccount := some 1, cred := .token { key := 7, msg := 3 }, signedBytes := 3 } = .allow 1 := by decide
example : authenticate { access := none, trusted := fun a => if a = 1 then some [7] else none }
    { headerAccount := some 1, cred := .token { key := 7, msg := 4 }, signedBytes := 3 } = .forbidden := by decide

end Sos.Props.C11
