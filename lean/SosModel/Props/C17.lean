/-
  C17  External file blobs are content-addressed and follow their secret.
-/
import SosModel.Files
namespace Sos.Props.C17
open Sos Sos.Files

theorem mem_ins (s : List FileRef) (f g : FileRef) : g ∈ ins s f ↔ g ∈ s ∨ g = f := by
  unfold ins
  by_cases h : f ∈ s
  · simp only [h, if_true]
    constructor
    · exact Or.inl
    · intro h2; rcases h2 with h2 | h2
      · exact h2
      · subst h2; exact h
  · simp [h]

theorem mem_del (s : List FileRef) (f g : FileRef) : g ∈ del s f ↔ g ∈ s ∧ g ≠ f := by
  simp [del]

/-- blobs on disk and the replay of the file event log name the same files -/
def Inv (c : Client) : Prop := ∀ g, g ∈ c.blobs ↔ g ∈ reduce c.log

theorem reduce_snoc (log : List FileEv) (e : FileEv) : reduce (log ++ [e]) = reduceEv (reduce log) e := by
  simp [reduce, List.foldl_append]

theorem inv_add (c : Client) (h : Inv c) (fo se : Nat) (b : Bytes) : Inv (addFile c fo se b) := by
  intro g
  simp only [addFile, reduce_snoc, reduceEv, mem_ins, h g]

theorem inv_remove (c : Client) (h : Inv c) (f : FileRef) : Inv (removeFile c f) := by
  intro g
  simp only [removeFile, reduce_snoc, reduceEv, mem_del, h g]

theorem inv_move (c : Client) (h : Inv c) (f : FileRef) (df ds : Nat) : Inv (moveFile c f df ds) := by
  intro g
  have hf : ({ folder := f.folder, secret := f.secret, name := f.name } : FileRef) = f := by cases f; rfl
  simp only [moveFile, reduce_snoc, reduceEv, mem_ins, mem_del, h g, hf]

theorem inv_removeAll (fs : List FileRef) : ∀ c, Inv c → Inv (removeAll c fs) := by
  induction fs with
  | nil => intro c h; exact h
  | cons f rest ih => intro c h; exact ih _ (inv_remove c h f)

/-- C17/1.  After any history of file-secret operations (create, replace = remove + add, move
between folders, delete secret, delete folder) the blobs on the editing device are exactly
the files named by replaying the file event log: none missing, none left behind. -/
theorem blobs_equal_replay_of_file_log (ops : List Op) :
    Inv (ops.foldl step { blobs := [], log := [] }) := by
  have : ∀ c, Inv c → Inv (ops.foldl step c) := by
    induction ops with
    | nil => intro c h; exact h
    | cons o t ih =>
      intro c h
      apply ih
      cases o with
      | add fo se b => exact inv_add c h fo se b
      | remove f => exact inv_remove c h f
      | move f df ds => exact inv_move c h f df ds
      | deleteSecret fo se => exact inv_removeAll _ c h
      | deleteFolder fo => exact inv_removeAll _ c h
  exact this _ (by intro g; simp [reduce])

theorem removeAll_blobs (fs : List FileRef) : ∀ (c : Client) (g : FileRef),
    g ∈ (removeAll c fs).blobs ↔ g ∈ c.blobs ∧ g ∉ fs := by
  induction fs with
  | nil => intro c g; simp [removeAll]
  | cons f rest ih =>
    intro c g
    simp only [removeAll, List.foldl_cons] at ih ⊢
    rw [ih (removeFile c f) g]
    simp only [removeFile, mem_del, List.mem_cons, not_or]
    constructor
    · intro ⟨⟨h1, h2⟩, h3⟩; exact ⟨h1, h2, h3⟩
    · intro ⟨h1, h2, h3⟩; exact ⟨⟨h1, h2⟩, h3⟩

/-- C17/2.  Deleting a folder leaves no blob of that folder behind; deleting a secret none of
that secret. -/
theorem delete_folder_leaves_nothing (c : Client) (fo : Nat) (g : FileRef) (hg : g.folder = fo) :
    g ∉ (step c (.deleteFolder fo)).blobs := by
  simp only [step]
  rw [removeAll_blobs]
  intro ⟨h1, h2⟩
  apply h2
  simp [h1, hg]

theorem delete_secret_leaves_nothing (c : Client) (fo se : Nat) (g : FileRef)
    (hg : g.folder = fo ∧ g.secret = se) : g ∉ (step c (.deleteSecret fo se)).blobs := by
  simp only [step]
  rw [removeAll_blobs]
  intro ⟨h1, h2⟩
  apply h2
  simp [h1, hg.1, hg.2]

/-- C17/3.  Every blob a client writes is named by the digest of its bytes. -/
theorem blob_name_is_digest (c : Client) (fo se : Nat) (b : Bytes) :
    ({ folder := fo, secret := se, name := H.leaf b } : FileRef) ∈ (addFile c fo se b).blobs := by
  simp [addFile, mem_ins]

/-- C17/4.  The server accepts an upload iff its bytes hash to the requested name; a refused
upload changes nothing (no partial file becomes visible). -/
theorem server_accepts_iff_hash (store : List FileRef) (req : FileRef) (body : Bytes) :
    (receive store req body).2 = true ↔ H.leaf body = req.name := by
  unfold receive; by_cases h : H.leaf body = req.name <;> simp [h]

theorem refused_upload_changes_nothing (store : List FileRef) (req : FileRef) (body : Bytes)
    (h : H.leaf body ≠ req.name) : (receive store req body).1 = store := by
  unfold receive; simp [h]

theorem altered_body_refused (store : List FileRef) (fo se : Nat) (body body' : Bytes) (h : body' ≠ body) :
    (receive store { folder := fo, secret := se, name := H.leaf body } body').2 = false := by
  unfold receive
  have : H.leaf body' ≠ H.leaf body := fun e => h (H.leaf.inj e)
  simp [this]

example : (([Op.add 1 2 [9], .add 1 3 [8], .deleteSecret 1 2].foldl step { blobs := [], log := [] }).blobs
    = [{ folder := 1, secret := 3, name := H.leaf [8] }]) := by decide

end Sos.Props.C17
