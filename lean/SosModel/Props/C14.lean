/-
  C14  Every stored and transmitted type survives encode/decode unchanged.
  One round-trip theorem per modelled type, for all values meeting the explicit
  size guards (`Valid…`), with arbitrary trailing bytes left untouched.
  Encoding is a function of the value (deterministic by construction).
-/
import SosModel.Lemmas.Codec
namespace Sos.Props.C14
open Sos Sos.Codec

/-! ### timestamps -/

def ValidTime (t : DateTime) : Prop := minSecs ≤ t.secs ∧ t.secs ≤ maxSecs ∧ t.nanos < nanosPerSec

theorem roundtrip_DateTime (t : DateTime) (rest : Bytes) (h : ValidTime t) :
    (readDateTime (encDateTime t ++ rest)).res = .ok t rest := by
  obtain ⟨h1, h2, h3⟩ := h
  unfold minSecs maxSecs nanosPerSec at *
  unfold readDateTime encDateTime encU32 readU32
  rw [List.append_assoc]
  rw [bind_res_ok (readI64_enc t.secs _ (by omega) (by omega))]
  have hn : t.nanos < 256 ^ 4 := by omega
  rw [bind_res_ok (readNat_enc 4 t.nanos rest hn)]
  unfold minSecs maxSecs nanosPerSec
  have c1 : ¬ (t.secs < -377705116800 ∨ t.secs > 253402300799) := by omega
  simp only [c1, if_false]
  have c2 : ¬ (t.secs * (1000000000 : Nat) + (t.nanos : Int) > 253402300799 * (1000000000 : Nat) + 999999999) := by omega
  simp only [c2, if_false, ret]
  have e1 : (t.secs * (1000000000 : Nat) + (t.nanos : Int)) / (1000000000 : Nat) = t.secs := by omega
  have e2 : ((t.secs * (1000000000 : Nat) + (t.nanos : Int)) % (1000000000 : Nat)).toNat = t.nanos := by omega
  rw [e1, e2]

/-! ### commit proofs and states -/

def ValidProof (p : Proof) : Prop :=
  p.root.length = 32 ∧ (∀ h ∈ p.hashes, h.length = 32) ∧ p.hashes.flatten.length ≤ cap ∧
  p.length < 256 ^ 8 ∧ p.indices.length < 256 ^ 4 ∧ ∀ i ∈ p.indices, i < 256 ^ 8

theorem chunks32_flatten (hs : List Bytes) (h : ∀ x ∈ hs, x.length = 32) (f : Nat)
    (hf : hs.flatten.length < f) : chunks32 f hs.flatten = some hs := by
  induction hs generalizing f with
  | nil => cases f <;> simp [chunks32]
  | cons x t ih =>
    have hx : x.length = 32 := h x (by simp)
    have hfl : (x :: t).flatten.length = x.length + t.flatten.length := by simp
    cases f with
    | zero => omega
    | succ f =>
      have hne : x ++ t.flatten ≠ [] := by
        intro e
        have h0 : (x ++ t.flatten).length = 0 := by rw [e]; rfl
        rw [List.length_append] at h0; omega
      simp only [List.flatten_cons]
      cases hxt : x ++ t.flatten with
      | nil => exact absurd hxt hne
      | cons a l =>
        rw [← hxt]
        unfold chunks32
        rw [hxt]
        simp only
        rw [← hxt]
        have hlen : ¬ (x ++ t.flatten).length < 32 := by simp; omega
        rw [if_neg hlen]
        have hd : (x ++ t.flatten).drop 32 = t.flatten := by rw [← hx]; simp
        have ht : (x ++ t.flatten).take 32 = x := by rw [← hx]; simp
        rw [hd, ht, ih (fun y hy => h y (by simp [hy])) f (by omega)]
        rfl

theorem readU64_enc (n : Nat) (rest : Bytes) (h : n < 256 ^ 8) :
    (readU64 (encU64 n ++ rest)).res = .ok n rest := readNat_enc 8 n rest h

theorem roundtrip_CommitProof (p : Proof) (rest : Bytes) (h : ValidProof p) :
    (readProof (encProof p ++ rest)).res = .ok p rest := by
  obtain ⟨h1, h2, h3, h4, h5, h6⟩ := h
  unfold readProof encProof
  simp only [List.append_assoc]
  rw [bind_res_ok (readN_append p.root _ 32 h1 (by decide))]
  rw [bind_res_ok (readLenBytes_enc p.hashes.flatten _ h3)]
  rw [chunks32_flatten p.hashes h2 _ (Nat.lt_succ_self _)]
  simp only
  rw [bind_res_ok (readU64_enc p.length _ h4)]
  rw [bind_res_ok (readVec_enc (enc := encU64) p.indices rest h5
    (fun x hx r => readU64_enc x r (h6 x hx)))]
  rfl

def ValidCommitState (s : CommitState) : Prop := s.commit.length = 32 ∧ ValidProof s.proof

theorem roundtrip_CommitState (s : CommitState) (rest : Bytes) (h : ValidCommitState s) :
    (readCommitState (encCommitState s ++ rest)).res = .ok s rest := by
  unfold readCommitState encCommitState
  rw [List.append_assoc]
  rw [bind_res_ok (readN_append s.commit _ 32 h.1 (by decide))]
  rw [bind_res_ok (roundtrip_CommitProof s.proof rest h.2)]
  rfl

def ValidCmp : Cmp → Prop
  | .contains ix => ix.length < 256 ^ 4 ∧ ∀ i ∈ ix, i < 256 ^ 8
  | _ => True

theorem readU8_enc (n : Nat) (rest : Bytes) (h : n < 256) :
    (readU8 (encU8 n ++ rest)).res = .ok n rest := readNat_enc 1 n rest (by simpa using h)

theorem roundtrip_Comparison (c : Cmp) (rest : Bytes) (h : ValidCmp c) :
    (readCmp (encCmp c ++ rest)).res = .ok c rest := by
  unfold readCmp
  cases c with
  | equal => simp only [encCmp]; rw [bind_res_ok (readU8_enc 1 rest (by decide))]; simp [ret]
  | unknown => simp only [encCmp]; rw [bind_res_ok (readU8_enc 3 rest (by decide))]; simp [ret]
  | contains ix =>
    simp only [encCmp, List.append_assoc]
    rw [bind_res_ok (readU8_enc 2 _ (by decide))]
    simp only [show ¬ (2 = 1) by decide, if_false, if_true]
    rw [bind_res_ok (readVec_enc (enc := encU64) ix rest h.1 (fun x hx r => readU64_enc x r (h.2 x hx)))]
    rfl

/-! ### crypto containers -/

def ValidAead (p : AeadPack) : Prop := (p.nonce.length = 12 ∨ p.nonce.length = 24) ∧ p.ct.length ≤ cap

theorem roundtrip_AeadPack (p : AeadPack) (rest : Bytes) (h : ValidAead p) :
    (readAead (encAead p ++ rest)).res = .ok p rest := by
  unfold readAead encAead
  simp only [List.append_assoc]
  have hn : p.nonce.length < 256 := by rcases h.1 with e | e <;> omega
  have hc : p.nonce.length ≤ cap := by
    have : (24 : Nat) ≤ cap := by decide
    rcases h.1 with e | e <;> omega
  rw [bind_res_ok (readU8_enc p.nonce.length _ hn)]
  rw [bind_res_ok (readN_append p.nonce _ p.nonce.length rfl hc)]
  simp only [h.1, if_true]
  rw [bind_res_ok (readLenBytes_enc p.ct rest h.2)]
  rfl

def ValidEntry (e : VaultEntry) : Prop := ValidAead e.metaP ∧ ValidAead e.secret

theorem roundtrip_VaultEntry (e : VaultEntry) (rest : Bytes) (h : ValidEntry e) :
    (readEntry (encEntry e ++ rest)).res = .ok e rest := by
  unfold readEntry encEntry
  rw [List.append_assoc]
  rw [bind_res_ok (roundtrip_AeadPack e.metaP _ h.1)]
  rw [bind_res_ok (roundtrip_AeadPack e.secret rest h.2)]
  rfl

def ValidVaultCommit (c : VaultCommit) : Prop :=
  c.commit.length = 32 ∧ ValidEntry c.entry ∧ (encEntry c.entry).length < 256 ^ 4

theorem roundtrip_VaultCommit (c : VaultCommit) (rest : Bytes) (h : ValidVaultCommit c) :
    (readVaultCommit (encVaultCommit c ++ rest)).res = .ok c rest := by
  unfold readVaultCommit encVaultCommit readU32 encU32
  simp only [List.append_assoc]
  rw [bind_res_ok (readN_append c.commit _ 32 h.1 (by decide))]
  rw [bind_res_ok (readNat_enc 4 _ _ h.2.2)]
  rw [bind_res_ok (roundtrip_VaultEntry c.entry rest h.2.1)]
  rfl

/-! ### event kinds: the two generated tables are mutually inverse -/

/-- Every `EventKind` variant is written as a u16 tag that reads back as the same
variant (tables regenerated from event_kind.rs on every run). -/
theorem event_kind_roundtrip :
    ∀ k ∈ Generated.kindVariants, tagOf k < 65536 ∧ kindOfTag (tagOf k) = some k := by decide

/-- No two variants share a tag. -/
theorem event_kind_tags_injective :
    ∀ a ∈ Generated.kindVariants, ∀ b ∈ Generated.kindVariants, tagOf a = tagOf b → a = b := by
  decide

theorem readKind_enc (k : String) (rest : Bytes) (hk : k ∈ Generated.kindVariants) :
    (readKind (encU16 (tagOf k) ++ rest)).res = .ok k rest := by
  obtain ⟨h1, h2⟩ := event_kind_roundtrip k hk
  unfold readKind readU16 encU16
  rw [bind_res_ok (readNat_enc 2 (tagOf k) rest (by simpa using h1))]
  simp [h2, ret]

/-! ### events -/

def ValidWrite : WriteEvent → Prop
  | .createVault v => v.length ≤ cap
  | .setVaultName s => s.length ≤ cap ∧ utf8Ok s = true
  | .setVaultFlags f => f < 256 ^ 8 ∧ flagsOk f = true
  | .setVaultMeta p => ValidAead p
  | .createSecret id c | .updateSecret id c => id.length = 16 ∧ ValidVaultCommit c
  | .deleteSecret id => id.length = 16

theorem roundtrip_WriteEvent (e : WriteEvent) (rest : Bytes) (h : ValidWrite e) :
    (readWriteEvent (encWriteEvent e ++ rest)).res = .ok e rest := by
  unfold readWriteEvent
  cases e with
  | createVault v =>
    simp only [encWriteEvent, List.append_assoc]
    rw [bind_res_ok (readKind_enc "CreateVault" _ (by decide))]
    simp only [if_true]
    rw [bind_res_ok (readLenBytes_enc v rest h)]; rfl
  | setVaultName s =>
    simp only [encWriteEvent, List.append_assoc]
    rw [bind_res_ok (readKind_enc "SetVaultName" _ (by decide))]
    simp only [show ¬ ("SetVaultName" = "CreateVault") by decide, if_false, if_true]
    rw [bind_res_ok (readString_enc s rest h.1 h.2)]; rfl
  | setVaultFlags f =>
    simp only [encWriteEvent, List.append_assoc]
    rw [bind_res_ok (readKind_enc "SetVaultFlags" _ (by decide))]
    simp only [show ¬ ("SetVaultFlags" = "CreateVault") by decide,
      show ¬ ("SetVaultFlags" = "SetVaultName") by decide, if_false, if_true]
    rw [bind_res_ok (readU64_enc f rest h.1)]
    simp [h.2, ret]
  | setVaultMeta p =>
    simp only [encWriteEvent, List.append_assoc]
    rw [bind_res_ok (readKind_enc "SetVaultMeta" _ (by decide))]
    simp only [show ¬ ("SetVaultMeta" = "CreateVault") by decide,
      show ¬ ("SetVaultMeta" = "SetVaultName") by decide,
      show ¬ ("SetVaultMeta" = "SetVaultFlags") by decide, if_false, if_true]
    rw [bind_res_ok (roundtrip_AeadPack p rest h)]; rfl
  | createSecret id c =>
    simp only [encWriteEvent, List.append_assoc]
    rw [bind_res_ok (readKind_enc "CreateSecret" _ (by decide))]
    simp only [show ¬ ("CreateSecret" = "CreateVault") by decide,
      show ¬ ("CreateSecret" = "SetVaultName") by decide,
      show ¬ ("CreateSecret" = "SetVaultFlags") by decide,
      show ¬ ("CreateSecret" = "SetVaultMeta") by decide, if_false, if_true]
    rw [bind_res_ok (readN_append id _ 16 h.1 (by decide))]
    rw [bind_res_ok (roundtrip_VaultCommit c rest h.2)]; rfl
  | updateSecret id c =>
    simp only [encWriteEvent, List.append_assoc]
    rw [bind_res_ok (readKind_enc "UpdateSecret" _ (by decide))]
    simp only [show ¬ ("UpdateSecret" = "CreateVault") by decide,
      show ¬ ("UpdateSecret" = "SetVaultName") by decide,
      show ¬ ("UpdateSecret" = "SetVaultFlags") by decide,
      show ¬ ("UpdateSecret" = "SetVaultMeta") by decide,
      show ¬ ("UpdateSecret" = "CreateSecret") by decide, if_false, if_true]
    rw [bind_res_ok (readN_append id _ 16 h.1 (by decide))]
    rw [bind_res_ok (roundtrip_VaultCommit c rest h.2)]; rfl
  | deleteSecret id =>
    simp only [encWriteEvent, List.append_assoc]
    rw [bind_res_ok (readKind_enc "DeleteSecret" _ (by decide))]
    simp only [show ¬ ("DeleteSecret" = "CreateVault") by decide,
      show ¬ ("DeleteSecret" = "SetVaultName") by decide,
      show ¬ ("DeleteSecret" = "SetVaultFlags") by decide,
      show ¬ ("DeleteSecret" = "SetVaultMeta") by decide,
      show ¬ ("DeleteSecret" = "CreateSecret") by decide,
      show ¬ ("DeleteSecret" = "UpdateSecret") by decide, if_false, if_true]
    rw [bind_res_ok (readN_append id rest 16 h (by decide))]; rfl


def ValidAccount : AccountEvent → Prop
  | .renameAccount s => s.length ≤ cap ∧ utf8Ok s = true
  | .updateIdentity v => v.length ≤ cap
  | .createFolder id v | .updateFolder id v | .compactFolder id v | .changeFolderPassword id v =>
    id.length = 16 ∧ v.length ≤ cap
  | .renameFolder id s => id.length = 16 ∧ s.length ≤ cap ∧ utf8Ok s = true
  | .deleteFolder id => id.length = 16

theorem readIdBuf_enc (mk : Bytes → Bytes → AccountEvent) (id v rest : Bytes)
    (h1 : id.length = 16) (h2 : v.length ≤ cap) :
    (readIdBuf mk (id ++ (encLenBytes v ++ rest))).res = .ok (mk id v) rest := by
  unfold readIdBuf
  rw [bind_res_ok (readN_append id _ 16 h1 (by decide))]
  rw [bind_res_ok (readLenBytes_enc v rest h2)]; rfl

theorem roundtrip_AccountEvent (e : AccountEvent) (rest : Bytes) (h : ValidAccount e) :
    (readAccountEvent (encAccountEvent e ++ rest)).res = .ok e rest := by
  unfold readAccountEvent
  cases e with
  | renameAccount s =>
    simp only [encAccountEvent, List.append_assoc]
    rw [bind_res_ok (readKind_enc "RenameAccount" _ (by decide))]
    simp (decide := true) only [if_true, if_false]
    rw [bind_res_ok (readString_enc s rest h.1 h.2)]; rfl
  | updateIdentity v =>
    simp only [encAccountEvent, List.append_assoc]
    rw [bind_res_ok (readKind_enc "UpdateIdentity" _ (by decide))]
    simp (decide := true) only [if_true, if_false]
    rw [bind_res_ok (readLenBytes_enc v rest h)]; rfl
  | createFolder id v =>
    simp only [encAccountEvent, List.append_assoc]
    rw [bind_res_ok (readKind_enc "CreateVault" _ (by decide))]
    simp (decide := true) only [if_true, if_false]
    exact readIdBuf_enc _ id v rest h.1 h.2
  | updateFolder id v =>
    simp only [encAccountEvent, List.append_assoc]
    rw [bind_res_ok (readKind_enc "UpdateVault" _ (by decide))]
    simp (decide := true) only [if_true, if_false]
    exact readIdBuf_enc _ id v rest h.1 h.2
  | compactFolder id v =>
    simp only [encAccountEvent, List.append_assoc]
    rw [bind_res_ok (readKind_enc "CompactVault" _ (by decide))]
    simp (decide := true) only [if_true, if_false]
    exact readIdBuf_enc _ id v rest h.1 h.2
  | changeFolderPassword id v =>
    simp only [encAccountEvent, List.append_assoc]
    rw [bind_res_ok (readKind_enc "ChangePassword" _ (by decide))]
    simp (decide := true) only [if_true, if_false]
    exact readIdBuf_enc _ id v rest h.1 h.2
  | renameFolder id s =>
    simp only [encAccountEvent, List.append_assoc]
    rw [bind_res_ok (readKind_enc "SetVaultName" _ (by decide))]
    simp (decide := true) only [if_true, if_false]
    rw [bind_res_ok (readN_append id _ 16 h.1 (by decide))]
    rw [bind_res_ok (readString_enc s rest h.2.1 h.2.2)]; rfl
  | deleteFolder id =>
    simp only [encAccountEvent, List.append_assoc]
    rw [bind_res_ok (readKind_enc "DeleteVault" _ (by decide))]
    simp (decide := true) only [if_true, if_false]
    rw [bind_res_ok (readN_append id rest 16 h (by decide))]; rfl

theorem roundtrip_DeviceEvent_revoke (key rest : Bytes) (h : key.length = 32) :
    (readDeviceEvent (encDeviceEvent (.revoke key) ++ rest)).res = .ok (.revoke key) rest := by
  unfold readDeviceEvent
  simp only [encDeviceEvent, List.append_assoc]
  rw [bind_res_ok (readKind_enc "RevokeDevice" _ (by decide))]
  simp (decide := true) only [if_true, if_false]
  rw [bind_res_ok (readN_append key rest 32 h (by decide))]; rfl

def ValidFile : FileEvent → Prop
  | .createFile f s n | .deleteFile f s n => f.length = 16 ∧ s.length = 16 ∧ n.length = 32
  | .moveFile n ff fs df ds =>
    n.length = 32 ∧ ff.length = 16 ∧ fs.length = 16 ∧ df.length = 16 ∧ ds.length = 16

theorem roundtrip_FileEvent (e : FileEvent) (rest : Bytes) (h : ValidFile e) :
    (readFileEvent (encFileEvent e ++ rest)).res = .ok e rest := by
  unfold readFileEvent
  cases e with
  | createFile f s n =>
    simp only [encFileEvent, List.append_assoc]
    rw [bind_res_ok (readKind_enc "CreateFile" _ (by decide))]
    simp (decide := true) only [if_true, if_false]
    rw [bind_res_ok (readN_append f _ 16 h.1 (by decide))]
    rw [bind_res_ok (readN_append s _ 16 h.2.1 (by decide))]
    rw [bind_res_ok (readN_append n rest 32 h.2.2 (by decide))]; rfl
  | deleteFile f s n =>
    simp only [encFileEvent, List.append_assoc]
    rw [bind_res_ok (readKind_enc "DeleteFile" _ (by decide))]
    simp (decide := true) only [if_true, if_false]
    rw [bind_res_ok (readN_append f _ 16 h.1 (by decide))]
    rw [bind_res_ok (readN_append s _ 16 h.2.1 (by decide))]
    rw [bind_res_ok (readN_append n rest 32 h.2.2 (by decide))]; rfl
  | moveFile n ff fs df ds =>
    simp only [encFileEvent, List.append_assoc]
    rw [bind_res_ok (readKind_enc "MoveFile" _ (by decide))]
    simp (decide := true) only [if_true, if_false]
    rw [bind_res_ok (readN_append n _ 32 h.1 (by decide))]
    rw [bind_res_ok (readN_append ff _ 16 h.2.1 (by decide))]
    rw [bind_res_ok (readN_append fs _ 16 h.2.2.1 (by decide))]
    rw [bind_res_ok (readN_append df _ 16 h.2.2.2.1 (by decide))]
    rw [bind_res_ok (readN_append ds rest 16 h.2.2.2.2 (by decide))]; rfl

/-! ### event record rows -/

def ValidRecord (r : EventRecord) : Prop :=
  ValidTime r.time ∧ r.last.length = 32 ∧ r.commit.length = 32 ∧ r.event.length ≤ cap

theorem roundtrip_EventRecord (r : EventRecord) (rest : Bytes) (h : ValidRecord r) :
    (readRecord (encRecord r ++ rest)).res = .ok r rest := by
  obtain ⟨h1, h2, h3, h4⟩ := h
  have hlen : (encRecordBody r).length < 256 ^ 4 := by
    unfold encRecordBody encDateTime encI64 encU32 encLenBytes encU32
    simp only [List.length_append, leBytes_length]
    have : cap = 16777216 := by decide
    omega
  unfold readRecord encRecord readU32 encU32
  simp only [List.append_assoc]
  rw [bind_res_ok (readNat_enc 4 _ _ hlen)]
  unfold encRecordBody
  simp only [List.append_assoc]
  rw [bind_res_ok (roundtrip_DateTime r.time _ h1)]
  rw [bind_res_ok (readN_append r.last _ 32 h2 (by decide))]
  rw [bind_res_ok (readN_append r.commit _ 32 h3 (by decide))]
  rw [bind_res_ok (readLenBytes_enc r.event _ h4)]
  rw [bind_res_ok (readNat_enc 4 _ rest (by
    have : cap = 16777216 := by decide
    simp only [List.length_append, encDateTime, encI64, encU32, encLenBytes, leBytes_length]
    omega))]
  rfl

/-- The decoder arms the model implements are the arms found in the source. -/
theorem write_event_arms_match_source : modelArmsWrite = Generated.decArmsWriteEvent := by decide
theorem account_event_arms_match_source : modelArmsAccount = Generated.decArmsAccountEvent := by decide
theorem device_event_arms_match_source : modelArmsDevice = Generated.decArmsDeviceEvent := by decide
theorem file_event_arms_match_source : modelArmsFile = Generated.decArmsFileEvent := by decide

/-- Every variant's kind (as written by `event_kind()`) has a decoder arm building the
same variant: no tag is written that the decoder cannot read back. -/
theorem every_written_kind_has_its_arm :
    (∀ p ∈ Generated.kindOfWriteEvent, p.1 = "Noop" ∨ (p.2, p.1) ∈ Generated.decArmsWriteEvent) ∧
    (∀ p ∈ Generated.kindOfAccountEvent, p.1 = "Noop" ∨ (p.2, p.1) ∈ Generated.decArmsAccountEvent) ∧
    (∀ p ∈ Generated.kindOfDeviceEvent, p.1 = "Noop" ∨ (p.2, p.1) ∈ Generated.decArmsDeviceEvent) ∧
    (∀ p ∈ Generated.kindOfFileEvent, p.1 = "Noop" ∨ (p.2, p.1) ∈ Generated.decArmsFileEvent) := by
  decide

/- Non-vacuity -/
example : ValidTime { secs := 1700000000, nanos := 999999999 } := ⟨by decide, by decide, by decide⟩
example : ValidWrite (.deleteSecret (List.replicate 16 7)) := by simp [ValidWrite]
example : ValidAead { nonce := List.replicate 12 1, ct := [1, 2, 3] } := ⟨Or.inl (by simp), by decide⟩


/-! ### vault header and contents -/

def ValidString (s : Bytes) : Prop := s.length ≤ cap ∧ utf8Ok s = true

theorem readBool_enc (x : Bool) (rest : Bytes) : (readBool (encBool x ++ rest)).res = .ok x rest := by
  unfold readBool encBool
  cases x with
  | true => simp only [if_true]; rw [bind_res_ok (readU8_enc 1 rest (by decide))]; simp [ret]
  | false => simp only [Bool.false_eq_true, if_false]; rw [bind_res_ok (readU8_enc 0 rest (by decide))]; simp [ret]

/-- an optional field: presence flag, then the value -/
theorem readOpt_enc {d : Dec α} {enc : α → Bytes} (o : Option α) (rest : Bytes)
    (hd : ∀ v, o = some v → (d (enc v ++ rest)).res = .ok v rest) {β : Type}
    (k : Option α → Bytes → Out β) :
    ((readBool (encOpt enc o ++ rest)).bind fun p r => (readOpt p d r).bind k).res = (k o rest).res := by
  cases o with
  | none =>
    simp only [encOpt]
    rw [bind_res_ok (readBool_enc false rest)]
    simp [readOpt, ret, Out.bind]
  | some v =>
    simp only [encOpt, List.append_assoc]
    rw [bind_res_ok (readBool_enc true _)]
    simp only [readOpt, if_true]
    rw [bind_res_ok (bind_res_ok (hd v rfl))]

def ValidVaultMeta (m : VaultMeta) : Prop := ValidTime m.created ∧ ValidString m.description

/-- the creation date and the description both survive (the decoder used to drop the date) -/
theorem roundtrip_VaultMeta (m : VaultMeta) (rest : Bytes) (h : ValidVaultMeta m) :
    (readVaultMeta (encVaultMeta m ++ rest)).res = .ok m rest := by
  unfold readVaultMeta encVaultMeta
  rw [List.append_assoc]
  rw [bind_res_ok (roundtrip_DateTime m.created _ h.1)]
  rw [bind_res_ok (readString_enc m.description rest h.2.1 h.2.2)]
  rfl

def ValidAuth (a : Auth) : Prop := (∀ s, a.salt = some s → ValidString s) ∧ (∀ s, a.seed = some s → s.length = 32)

theorem roundtrip_Auth (a : Auth) (rest : Bytes) (h : ValidAuth a) :
    (readAuth (encAuth a ++ rest)).res = .ok a rest := by
  unfold readAuth encAuth
  rw [List.append_assoc]
  rw [readOpt_enc (d := readString) (enc := encString) a.salt _
    (fun v hv => readString_enc v _ (h.1 v hv).1 (h.1 v hv).2)]
  rw [readOpt_enc (d := readN 32) (enc := id) a.seed rest
    (fun v hv => readN_append v rest 32 (h.2 v hv) (by decide))]
  rfl

theorem readId_enc (table : List (String × Nat)) (n : Nat) (rest : Bytes)
    (hn : n < 256) (hm : table.any (fun e => e.2 == n) = true) :
    (readId table (encU8 n ++ rest)).res = .ok n rest := by
  unfold readId
  rw [bind_res_ok (readU8_enc n rest hn)]
  simp [hm, ret]

def ValidSummary (s : Summary) : Prop :=
  s.version < 65536 ∧ s.cipher < 256 ∧ Generated.cipherIds.any (fun e => e.2 == s.cipher) = true ∧
  s.kdf < 256 ∧ Generated.kdfIds.any (fun e => e.2 == s.kdf) = true ∧
  s.id.length = 16 ∧ ValidString s.name ∧ s.flags < 256 ^ 8 ∧ flagsOk s.flags = true

theorem roundtrip_Summary (s : Summary) (rest : Bytes) (h : ValidSummary s) :
    (readSummary (encSummary s ++ rest)).res = .ok s rest := by
  obtain ⟨h1, h2, h3, h4, h5, h6, h7, h8, h9⟩ := h
  unfold readSummary encSummary readU16 encU16 readU64 encU64
  simp only [List.append_assoc]
  rw [bind_res_ok (readNat_enc 2 s.version _ (by simpa using h1))]
  rw [bind_res_ok (readId_enc _ s.cipher _ h2 h3)]
  rw [bind_res_ok (readId_enc _ s.kdf _ h4 h5)]
  rw [bind_res_ok (readN_append s.id _ 16 h6 (by decide))]
  rw [bind_res_ok (readString_enc s.name _ h7.1 h7.2)]
  rw [bind_res_ok (readNat_enc 8 s.flags rest h8)]
  simp [h9, ret]

def ValidShared : SharedAccess → Prop
  | .write rs => rs.length < 65536 ∧ ∀ r ∈ rs, ValidString r
  | .readOnly p => ValidAead p

theorem roundtrip_SharedAccess (a : SharedAccess) (rest : Bytes) (h : ValidShared a) :
    (readShared (encShared a ++ rest)).res = .ok a rest := by
  unfold readShared
  cases a with
  | write rs =>
    simp only [encShared, List.append_assoc, readU16, encU16]
    rw [bind_res_ok (readU8_enc 1 _ (by decide))]
    simp only [if_true]
    rw [bind_res_ok (readNat_enc 2 rs.length _ (by simpa using h.1))]
    rw [bind_res_ok (readMany_enc (enc := encString) rs rest
      (fun x hx r => readString_enc x r (h.2 x hx).1 (h.2 x hx).2))]
    rfl
  | readOnly p =>
    simp only [encShared, List.append_assoc]
    rw [bind_res_ok (readU8_enc 2 _ (by decide))]
    simp only [show ¬ (2 = 1) by decide, if_false, if_true]
    rw [bind_res_ok (roundtrip_AeadPack p rest h)]
    rfl

def ValidHeader (h : Header) : Prop :=
  ValidSummary h.summary ∧ (∀ p, h.metaP = some p → ValidAead p) ∧ ValidAuth h.auth ∧
  ValidShared h.shared ∧ (encHeaderBody h).length < 256 ^ 4

theorem roundtrip_Header (h : Header) (rest : Bytes) (hv : ValidHeader h) :
    (readHeader (encHeader h ++ rest)).res = .ok h rest := by
  obtain ⟨h1, h2, h3, h4, h5⟩ := hv
  unfold readHeader encHeader encHeaderBody readU32 encU32
  simp only [List.append_assoc]
  have hid : readFixed 4 (vaultIdentity ++ (leBytes 4 (encHeaderBody h).length ++
      (encSummary h.summary ++ (encOpt encAead h.metaP ++ (encAuth h.auth ++ (encShared h.shared ++ rest)))))) =
      ⟨.ok vaultIdentity _, 0⟩ := readFixed_append vaultIdentity _ 4 rfl
  unfold encHeaderBody at hid
  simp only [List.append_assoc] at hid
  rw [bind_res_ok (by rw [hid])]
  simp only [if_true]
  rw [bind_res_ok (readNat_enc 4 _ _ (by simpa [encHeaderBody, List.append_assoc] using h5))]
  rw [bind_res_ok (roundtrip_Summary h.summary _ h1)]
  rw [readOpt_enc (d := readAead) (enc := encAead) h.metaP _ (fun p hp => roundtrip_AeadPack p _ (h2 p hp))]
  rw [bind_res_ok (roundtrip_Auth h.auth _ h3)]
  rw [bind_res_ok (roundtrip_SharedAccess h.shared rest h4)]
  rfl

def ValidRow (r : Bytes × VaultCommit) : Prop :=
  r.1.length = 16 ∧ ValidVaultCommit r.2 ∧ (r.1 ++ encVaultCommit r.2).length < 256 ^ 4

theorem roundtrip_Row (r : Bytes × VaultCommit) (rest : Bytes) (h : ValidRow r) :
    (readRow (encRow r ++ rest)).res = .ok r rest := by
  unfold readRow encRow readU32 encU32
  simp only [List.append_assoc]
  rw [bind_res_ok (readNat_enc 4 _ _ h.2.2)]
  rw [bind_res_ok (readN_append r.1 _ 16 h.1 (by decide))]
  rw [bind_res_ok (roundtrip_VaultCommit r.2 _ h.2.1)]
  rw [bind_res_ok (readNat_enc 4 _ rest h.2.2)]
  rfl

theorem encRow_ne_nil (r : Bytes × VaultCommit) : encRow r ≠ [] := by
  unfold encRow encU32
  intro e
  have := congrArg List.length e
  simp at this

theorem encRow_length_pos (r : Bytes × VaultCommit) : 8 ≤ (encRow r).length := by
  unfold encRow encU32
  simp
  omega

theorem readRows_enc (rows : List (Bytes × VaultCommit)) (fuel : Nat)
    (hv : ∀ r ∈ rows, ValidRow r) (hf : rows.length ≤ fuel) :
    (readRows fuel (encContents rows)).res = .ok rows [] := by
  induction rows generalizing fuel with
  | nil => cases fuel <;> simp [readRows, encContents, ret]
  | cons r t ih =>
    obtain ⟨f, rfl⟩ : ∃ f, fuel = f + 1 := ⟨fuel - 1, by simp at hf; omega⟩
    have hne : encContents (r :: t) ≠ [] := by
      simp only [encContents, List.map_cons, List.flatten_cons]
      intro e
      exact encRow_ne_nil r (List.append_eq_nil_iff.mp e).1
    unfold readRows
    rw [if_neg hne]
    have : encContents (r :: t) = encRow r ++ encContents t := by simp [encContents]
    rw [this, bind_res_ok (roundtrip_Row r _ (hv r (by simp)))]
    rw [bind_res_ok (ih f (fun x hx => hv x (by simp [hx])) (by simp at hf; omega))]
    rfl

theorem insertRow_fresh (rows : List (Bytes × VaultCommit)) (r : Bytes × VaultCommit)
    (h : ∀ x ∈ rows, x.1 ≠ r.1) : insertRow rows r = rows ++ [r] := by
  unfold insertRow
  have : rows.any (fun x => x.1 == r.1) = false := by
    rw [List.any_eq_false]
    intro x hx
    simpa using h x hx
  simp [this]

theorem foldl_insertRow_distinct (rows acc : List (Bytes × VaultCommit))
    (hn : ((acc ++ rows).map (·.1)).Nodup) : rows.foldl insertRow acc = acc ++ rows := by
  induction rows generalizing acc with
  | nil => simp
  | cons r t ih =>
    simp only [List.foldl_cons]
    have hfresh : ∀ x ∈ acc, x.1 ≠ r.1 := by
      intro x hx e
      simp only [List.map_append, List.map_cons] at hn
      have := (List.nodup_append.mp hn).2.2 x.1 (List.mem_map_of_mem hx) r.1 (by simp)
      exact this e
    rw [insertRow_fresh acc r hfresh]
    rw [ih (acc ++ [r]) (by simpa [List.append_assoc] using hn)]
    simp

/-- the rows of a vault (distinct secret ids, as the in-memory map guarantees) survive -/
theorem roundtrip_Contents (rows : List (Bytes × VaultCommit))
    (hv : ∀ r ∈ rows, ValidRow r) (hn : (rows.map (·.1)).Nodup) :
    (readContents (encContents rows)).res = .ok rows [] := by
  unfold readContents
  have hlen : rows.length ≤ (encContents rows).length := by
    clear hv hn
    induction rows with
    | nil => simp
    | cons r t ih =>
      have : encContents (r :: t) = encRow r ++ encContents t := by simp [encContents]
      rw [this, List.length_append, List.length_cons]
      have := encRow_length_pos r
      omega
  rw [bind_res_ok (readRows_enc rows _ hv hlen)]
  simp only [ret]
  rw [foldl_insertRow_distinct rows [] (by simpa using hn)]
  simp

/-- C14 for the vault file: header and every row survive (a vault is decoded from a complete
buffer, so there are no trailing bytes). -/
theorem roundtrip_Vault (v : VaultFile) (hh : ValidHeader v.header)
    (hv : ∀ r ∈ v.rows, ValidRow r) (hn : (v.rows.map (·.1)).Nodup) :
    (readVault (encVault v)).res = .ok v [] := by
  unfold readVault encVault
  rw [bind_res_ok (roundtrip_Header v.header _ hh)]
  rw [bind_res_ok (roundtrip_Contents v.rows hv hn)]
  rfl

end Sos.Props.C14
