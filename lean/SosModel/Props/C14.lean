/-
  C14  Every stored and transmitted type survives encode/decode unchanged.
  One round-trip theorem per modelled type, for all values meeting the explicit
  size guards (`Valid…`), with arbitrary trailing bytes left untouched.
  Encoding is a function of the value (deterministic by construction).
-/
import SosModel.Lemmas.Codec
namespace Sos.Props.C14
open Sos Sos.Codec

/-! ### timestamps -/

def ValidTime (t : DateTime) : Prop := minSecs ≤ t.secs ∧ t.secs ≤ maxSecs ∧ t.nanos < nanosPerSec

theorem roundtrip_DateTime (t : DateTime) (rest : Bytes) (h : ValidTime t) :
    (readDateTime (encDateTime t ++ rest)).res = .ok t rest := by
  obtain ⟨h1, h2, h3⟩ := h
  unfold minSecs maxSecs nanosPerSec at *
  unfold readDateTime encDateTime encU32 readU32
  rw [List.append_assoc]
  rw [bind_res_ok (readI64_enc t.secs _ (by omega) (by omega))]
  have hn : t.nanos < 256 ^ 4 := by omega
  rw [bind_res_ok (readNat_enc 4 t.nanos rest hn)]
  unfold minSecs maxSecs nanosPerSec
  have c1 : ¬ (t.secs < -377705116800 ∨ t.secs > 253402300799) := by omega
  simp only [c1, if_false]
  have c2 : ¬ (t.secs * (1000000000 : Nat) + (t.nanos : Int) > 253402300799 * (1000000000 : Nat) + 999999999) := by omega
  simp only [c2, if_false, ret]
  have e1 : (t.secs * (1000000000 : Nat) + (t.nanos : Int)) / (1000000000 : Nat) = t.secs := by omega
  have e2 : ((t.secs * (1000000000 : Nat) + (t.nanos : Int)) % (1000000000 : Nat)).toNat = t.nanos := by omega
  rw [e1, e2]

/-! ### commit proofs and states -/

def ValidProof (p : Proof) : Prop :=
  p.root.length = 32 ∧ (∀ h ∈ p.hashes, h.length = 32) ∧ p.hashes.flatten.length ≤ cap ∧
  p.length < 256 ^ 8 ∧ p.indices.length < 256 ^ 4 ∧ ∀ i ∈ p.indices, i < 256 ^ 8

theorem chunks32_flatten (hs : List Bytes) (h : ∀ x ∈ hs, x.length = 32) (f : Nat)
    (hf : hs.flatten.length < f) : chunks32 f hs.flatten = some hs := by
  induction hs generalizing f with
  | nil => cases f <;> simp [chunks32]
  | cons x t ih =>
    have hx : x.length = 32 := h x (by simp)
    have hfl : (x :: t).flatten.length = x.length + t.flatten.length := by simp
    cases f with
    | zero => omega
    | succ f =>
      have hne : x ++ t.flatten ≠ [] := by
        intro e
        have h0 : (x ++ t.flatten).length = 0 := by rw [e]; rfl
        rw [List.length_append] at h0; omega
      simp only [List.flatten_cons]
      cases hxt : x ++ t.flatten with
      | nil => exact absurd hxt hne
      | cons a l =>
        rw [← hxt]
        unfold chunks32
        rw [hxt]
        simp only
        rw [← hxt]
        have hlen : ¬ (x ++ t.flatten).length < 32 := by simp; omega
        rw [if_neg hlen]
        have hd : (x ++ t.flatten).drop 32 = t.flatten := by rw [← hx]; simp
        have ht : (x ++ t.flatten).take 32 = x := by rw [← hx]; simp
        rw [hd, ht, ih (fun y hy => h y (by simp [hy])) f (by omega)]
        rfl

theorem readU64_enc (n : Nat) (rest : Bytes) (h : n < 256 ^ 8) :
    (readU64 (encU64 n ++ rest)).res = .ok n rest := readNat_enc 8 n rest h

theorem roundtrip_CommitProof (p : Proof) (rest : Bytes) (h : ValidProof p) :
    (readProof (encProof p ++ rest)).res = .ok p rest := by
  obtain ⟨h1, h2, h3, h4, h5, h6⟩ := h
  unfold readProof encProof
  simp only [List.append_assoc]
  rw [bind_res_ok (readN_append p.root _ 32 h1 (by decide))]
  rw [bind_res_ok (readLenBytes_enc p.hashes.flatten _ h3)]
  rw [chunks32_flatten p.hashes h2 _ (Nat.lt_succ_self _)]
  simp only
  rw [bind_res_ok (readU64_enc p.length _ h4)]
  rw [bind_res_ok (readVec_enc (enc := encU64) p.indices rest h5
    (fun x hx r => readU64_enc x r (h6 x hx)))]
  rfl

def ValidCommitState (s : CommitState) : Prop := s.commit.length = 32 ∧ ValidProof s.proof

theorem roundtrip_CommitState (s : CommitState) (rest : Bytes) (h : ValidCommitState s) :
    (readCommitState (encCommitState s ++ rest)).res = .ok s rest := by
  unfold readCommitState encCommitState
  rw [List.append_assoc]
  rw [bind_res_ok (readN_append s.commit _ 32 h.1 (by decide))]
  rw [bind_res_ok (roundtrip_CommitProof s.proof rest h.2)]
  rfl

def ValidCmp : Cmp → Prop
  | .contains ix => ix.length < 256 ^ 4 ∧ ∀ i ∈ ix, i < 256 ^ 8
  | _ => True

theorem readU8_enc (n : Nat) (rest : Bytes) (h : n < 256) :
    (readU8 (encU8 n ++ rest)).res = .ok n rest := readNat_enc 1 n rest (by simpa using h)

theorem roundtrip_Comparison (c : Cmp) (rest : Bytes) (h : ValidCmp c) :
    (readCmp (encCmp c ++ rest)).res = .ok c rest := by
  unfold readCmp
  cases c with
  | equal => simp only [encCmp]; rw [bind_res_ok (readU8_enc 1 rest (by decide))]; simp [ret]
  | unknown => simp only [encCmp]; rw [bind_res_ok (readU8_enc 3 rest (by decide))]; simp [ret]
  | contains ix =>
    simp only [encCmp, List.append_assoc]
    rw [bind_res_ok (readU8_enc 2 _ (by decide))]
    simp only [show ¬ (2 = 1) by decide, if_false, if_true]
    rw [bind_res_ok (readVec_enc (enc := encU64) ix rest h.1 (fun x hx r => readU64_enc x r (h.2 x hx)))]
    rfl

/-! ### crypto containers -/

def ValidAead (p : AeadPack) : Prop := (p.nonce.length = 12 ∨ p.nonce.length = 24) ∧ p.ct.length ≤ cap

theorem roundtrip_AeadPack (p : AeadPack) (rest : Bytes) (h : ValidAead p) :
    (readAead (encAead p ++ rest)).res = .ok p rest := by
  unfold readAead encAead
  simp only [List.append_assoc]
  have hn : p.nonce.length < 256 := by rcases h.1 with e | e <;> omega
  have hc : p.nonce.length ≤ cap := by
    have : (24 : Nat) ≤ cap := by decide
    rcases h.1 with e | e <;> omega
  rw [bind_res_ok (readU8_enc p.nonce.length _ hn)]
  rw [bind_res_ok (readN_append p.nonce _ p.nonce.length rfl hc)]
  simp only [h.1, if_true]
  rw [bind_res_ok (readLenBytes_enc p.ct rest h.2)]
  rfl

def ValidEntry (e : VaultEntry) : Prop := ValidAead e.metaP ∧ ValidAead e.secret

theorem roundtrip_VaultEntry (e : VaultEntry) (rest : Bytes) (h : ValidEntry e) :
    (readEntry (encEntry e ++ rest)).res = .ok e rest := by
  unfold readEntry encEntry
  rw [List.append_assoc]
  rw [bind_res_ok (roundtrip_AeadPack e.metaP _ h.1)]
  rw [bind_res_ok (roundtrip_AeadPack e.secret rest h.2)]
  rfl

def ValidVaultCommit (c : VaultCommit) : Prop :=
  c.commit.length = 32 ∧ ValidEntry c.entry ∧ (encEntry c.entry).length < 256 ^ 4

theorem roundtrip_VaultCommit (c : VaultCommit) (rest : Bytes) (h : ValidVaultCommit c) :
    (readVaultCommit (encVaultCommit c ++ rest)).res = .ok c rest := by
  unfold readVaultCommit encVaultCommit readU32 encU32
  simp only [List.append_assoc]
  rw [bind_res_ok (readN_append c.commit _ 32 h.1 (by decide))]
  rw [bind_res_ok (readNat_enc 4 _ _ h.2.2)]
  rw [bind_res_ok (roundtrip_VaultEntry c.entry rest h.2.1)]
  rfl

/-! ### event kinds: the two generated tables are mutually inverse -/

/-- Every `EventKind` variant is written as a u16 tag that reads back as the same
variant (tables regenerated from event_kind.rs on every run). -/
theorem event_kind_roundtrip :
    ∀ k ∈ Generated.kindVariants, tagOf k < 65536 ∧ kindOfTag (tagOf k) = some k := by decide

/-- No two variants share a tag. -/
theorem event_kind_tags_injective :
    ∀ a ∈ Generated.kindVariants, ∀ b ∈ Generated.kindVariants, tagOf a = tagOf b → a = b := by
  decide

theorem readKind_enc (k : String) (rest : Bytes) (hk : k ∈ Generated.kindVariants) :
    (readKind (encU16 (tagOf k) ++ rest)).res = .ok k rest := by
  obtain ⟨h1, h2⟩ := event_kind_roundtrip k hk
  unfold readKind readU16 encU16
  rw [bind_res_ok (readNat_enc 2 (tagOf k) rest (by simpa using h1))]
  simp [h2, ret]

/-! ### events -/

def ValidWrite : WriteEvent → Prop
  | .createVault v => v.length ≤ cap
  | .setVaultName s => s.length ≤ cap ∧ utf8Ok s = true
  | .setVaultFlags f => f < 256 ^ 8 ∧ flagsOk f = true
  | .setVaultMeta p => ValidAead p
  | .createSecret id c | .updateSecret id c => id.length = 16 ∧ ValidVaultCommit c
  | .deleteSecret id => id.length = 16

theorem roundtrip_WriteEvent (e : WriteEvent) (rest : Bytes) (h : ValidWrite e) :
    (readWriteEvent (encWriteEvent e ++ rest)).res = .ok e rest := by
  unfold readWriteEvent
  cases e with
  | createVault v =>
    simp only [encWriteEvent, List.append_assoc]
    rw [bind_res_ok (readKind_enc "CreateVault" _ (by decide))]
    simp only [if_true]
    rw [bind_res_ok (readLenBytes_enc v rest h)]; rfl
  | setVaultName s =>
    simp only [encWriteEvent, List.append_assoc]
    rw [bind_res_ok (readKind_enc "SetVaultName" _ (by decide))]
    simp only [show ¬ ("SetVaultName" = "CreateVault") by decide, if_false, if_true]
    rw [bind_res_ok (readString_enc s rest h.1 h.2)]; rfl
  | setVaultFlags f =>
    simp only [encWriteEvent, List.append_assoc]
    rw [bind_res_ok (readKind_enc "SetVaultFlags" _ (by decide))]
    simp only [show ¬ ("SetVaultFlags" = "CreateVault") by decide,
      show ¬ ("SetVaultFlags" = "SetVaultName") by decide, if_false, if_true]
    rw [bind_res_ok (readU64_enc f rest h.1)]
    simp [h.2, ret]
  | setVaultMeta p =>
    simp only [encWriteEvent, List.append_assoc]
    rw [bind_res_ok (readKind_enc "SetVaultMeta" _ (by decide))]
    simp only [show ¬ ("SetVaultMeta" = "CreateVault") by decide,
      show ¬ ("SetVaultMeta" = "SetVaultName") by decide,
      show ¬ ("SetVaultMeta" = "SetVaultFlags") by decide, if_false, if_true]
    rw [bind_res_ok (roundtrip_AeadPack p rest h)]; rfl
  | createSecret id c =>
    simp only [encWriteEvent, List.append_assoc]
    rw [bind_res_ok (readKind_enc "CreateSecret" _ (by decide))]
    simp only [show ¬ ("CreateSecret" = "CreateVault") by decide,
      show ¬ ("CreateSecret" = "SetVaultName") by decide,
      show ¬ ("CreateSecret" = "SetVaultFlags") by decide,
      show ¬ ("CreateSecret" = "SetVaultMeta") by decide, if_false, if_true]
    rw [bind_res_ok (readN_append id _ 16 h.1 (by decide))]
    rw [bind_res_ok (roundtrip_VaultCommit c rest h.2)]; rfl
  | updateSecret id c =>
    simp only [encWriteEvent, List.append_assoc]
    rw [bind_res_ok (readKind_enc "UpdateSecret" _ (by decide))]
    simp only [show ¬ ("UpdateSecret" = "CreateVault") by decide,
      show ¬ ("UpdateSecret" = "SetVaultName") by decide,
      show ¬ ("UpdateSecret" = "SetVaultFlags") by decide,
      show ¬ ("UpdateSecret" = "SetVaultMeta") by decide,
      show ¬ ("UpdateSecret" = "CreateSecret") by decide, if_false, if_true]
    rw [bind_res_ok (readN_append id _ 16 h.1 (by decide))]
    rw [bind_res_ok (roundtrip_VaultCommit c rest h.2)]; rfl
  | deleteSecret id =>
    simp only [encWriteEvent, List.append_assoc]
    rw [bind_res_ok (readKind_enc "DeleteSecret" _ (by decide))]
    simp only [show ¬ ("DeleteSecret" = "CreateVault") by decide,
      show ¬ ("DeleteSecret" = "SetVaultName") by decide,
      show ¬ ("DeleteSecret" = "SetVaultFlags") by decide,
      show ¬ ("DeleteSecret" = "SetVaultMeta") by decide,
      show ¬ ("DeleteSecret" = "CreateSecret") by decide,
      show ¬ ("DeleteSecret" = "UpdateSecret") by decide, if_false, if_true]
    rw [bind_res_ok (readN_append id rest 16 h (by decide))]; rfl


def ValidAccount : AccountEvent → Prop
  | .renameAccount s => s.length ≤ cap ∧ utf8Ok s = true
  | .updateIdentity v => v.length ≤ cap
  | .createFolder id v | .updateFolder id v | .compactFolder id v | .changeFolderPassword id v =>
    id.length = 16 ∧ v.length ≤ cap
  | .renameFolder id s => id.length = 16 ∧ s.length ≤ cap ∧ utf8Ok s = true
  | .deleteFolder id => id.length = 16

theorem readIdBuf_enc (mk : Bytes → Bytes → AccountEvent) (id v rest : Bytes)
    (h1 : id.length = 16) (h2 : v.length ≤ cap) :
    (readIdBuf mk (id ++ (encLenBytes v ++ rest))).res = .ok (mk id v) rest := by
  unfold readIdBuf
  rw [bind_res_ok (readN_append id _ 16 h1 (by decide))]
  rw [bind_res_ok (readLenBytes_enc v rest h2)]; rfl

theorem roundtrip_AccountEvent (e : AccountEvent) (rest : Bytes) (h : ValidAccount e) :
    (readAccountEvent (encAccountEvent e ++ rest)).res = .ok e rest := by
  unfold readAccountEvent
  cases e with
  | renameAccount s =>
    simp only [encAccountEvent, List.append_assoc]
    rw [bind_res_ok (readKind_enc "RenameAccount" _ (by decide))]
    simp (decide := true) only [if_true, if_false]
    rw [bind_res_ok (readString_enc s rest h.1 h.2)]; rfl
  | updateIdentity v =>
    simp only [encAccountEvent, List.append_assoc]
    rw [bind_res_ok (readKind_enc "UpdateIdentity" _ (by decide))]
    simp (decide := true) only [if_true, if_false]
    rw [bind_res_ok (readLenBytes_enc v rest h)]; rfl
  | createFolder id v =>
    simp only [encAccountEvent, List.append_assoc]
    rw [bind_res_ok (readKind_enc "CreateVault" _ (by decide))]
    simp (decide := true) only [if_true, if_false]
    exact readIdBuf_enc _ id v rest h.1 h.2
  | updateFolder id v =>
    simp only [encAccountEvent, List.append_assoc]
    rw [bind_res_ok (readKind_enc "UpdateVault" _ (by decide))]
    simp (decide := true) only [if_true, if_false]
    exact readIdBuf_enc _ id v rest h.1 h.2
  | compactFolder id v =>
    simp only [encAccountEvent, List.append_assoc]
    rw [bind_res_ok (readKind_enc "CompactVault" _ (by decide))]
    simp (decide := true) only [if_true, if_false]
    exact readIdBuf_enc _ id v rest h.1 h.2
  | changeFolderPassword id v =>
    simp only [encAccountEvent, List.append_assoc]
    rw [bind_res_ok (readKind_enc "ChangePassword" _ (by decide))]
    simp (decide := true) only [if_true, if_false]
    exact readIdBuf_enc _ id v rest h.1 h.2
  | renameFolder id s =>
    simp only [encAccountEvent, List.append_assoc]
    rw [bind_res_ok (readKind_enc "SetVaultName" _ (by decide))]
    simp (decide := true) only [if_true, if_false]
    rw [bind_res_ok (readN_append id _ 16 h.1 (by decide))]
    rw [bind_res_ok (readString_enc s rest h.2.1 h.2.2)]; rfl
  | deleteFolder id =>
    simp only [encAccountEvent, List.append_assoc]
    rw [bind_res_ok (readKind_enc "DeleteVault" _ (by decide))]
    simp (decide := true) only [if_true, if_false]
    rw [bind_res_ok (readN_append id rest 16 h (by decide))]; rfl

theorem roundtrip_DeviceEvent_revoke (key rest : Bytes) (h : key.length = 32) :
    (readDeviceEvent (encDeviceEvent (.revoke key) ++ rest)).res = .ok (.revoke key) rest := by
  unfold readDeviceEvent
  simp only [encDeviceEvent, List.append_assoc]
  rw [bind_res_ok (readKind_enc "RevokeDevice" _ (by decide))]
  simp (decide := true) only [if_true, if_false]
  rw [bind_res_ok (readN_append key rest 32 h (by decide))]; rfl

def ValidFile : FileEvent → Prop
  | .createFile f s n | .deleteFile f s n => f.length = 16 ∧ s.length = 16 ∧ n.length = 32
  | .moveFile n ff fs df ds =>
    n.length = 32 ∧ ff.length = 16 ∧ fs.length = 16 ∧ df.length = 16 ∧ ds.length = 16

theorem roundtrip_FileEvent (e : FileEvent) (rest : Bytes) (h : ValidFile e) :
    (readFileEvent (encFileEvent e ++ rest)).res = .ok e rest := by
  unfold readFileEvent
  cases e with
  | createFile f s n =>
    simp only [encFileEvent, List.append_assoc]
    rw [bind_res_ok (readKind_enc "CreateFile" _ (by decide))]
    simp (decide := true) only [if_true, if_false]
    rw [bind_res_ok (readN_append f _ 16 h.1 (by decide))]
    rw [bind_res_ok (readN_append s _ 16 h.2.1 (by decide))]
    rw [bind_res_ok (readN_append n rest 32 h.2.2 (by decide))]; rfl
  | deleteFile f s n =>
    simp only [encFileEvent, List.append_assoc]
    rw [bind_res_ok (readKind_enc "DeleteFile" _ (by decide))]
    simp (decide := true) only [if_true, if_false]
    rw [bind_res_ok (readN_append f _ 16 h.1 (by decide))]
    rw [bind_res_ok (readN_append s _ 16 h.2.1 (by decide))]
    rw [bind_res_ok (readN_append n rest 32 h.2.2 (by decide))]; rfl
  | moveFile n ff fs df ds =>
    simp only [encFileEvent, List.append_assoc]
    rw [bind_res_ok (readKind_enc "MoveFile" _ (by decide))]
    simp (decide := true) only [if_true, if_false]
    rw [bind_res_ok (readN_append n _ 32 h.1 (by decide))]
    rw [bind_res_ok (readN_append ff _ 16 h.2.1 (by decide))]
    rw [bind_res_ok (readN_append fs _ 16 h.2.2.1 (by decide))]
    rw [bind_res_ok (readN_append df _ 16 h.2.2.2.1 (by decide))]
    rw [bind_res_ok (readN_append ds rest 16 h.2.2.2.2 (by decide))]; rfl

/-! ### event record rows -/

def ValidRecord (r : EventRecord) : Prop :=
  ValidTime r.time ∧ r.last.length = 32 ∧ r.commit.length = 32 ∧ r.event.length ≤ cap

theorem roundtrip_EventRecord (r : EventRecord) (rest : Bytes) (h : ValidRecord r) :
    (readRecord (encRecord r ++ rest)).res = .ok r rest := by
  obtain ⟨h1, h2, h3, h4⟩ := h
  have hlen : (encRecordBody r).length < 256 ^ 4 := by
    unfold encRecordBody encDateTime encI64 encU32 encLenBytes encU32
    simp only [List.length_append, leBytes_length]
    have : cap = 16777216 := by decide
    omega
  unfold readRecord encRecord readU32 encU32
  simp only [List.append_assoc]
  rw [bind_res_ok (readNat_enc 4 _ _ hlen)]
  unfold encRecordBody
  simp only [List.append_assoc]
  rw [bind_res_ok (roundtrip_DateTime r.time _ h1)]
  rw [bind_res_ok (readN_append r.last _ 32 h2 (by decide))]
  rw [bind_res_ok (readN_append r.commit _ 32 h3 (by decide))]
  rw [bind_res_ok (readLenBytes_enc r.event _ h4)]
  rw [bind_res_ok (readNat_enc 4 _ rest (by
    have : cap = 16777216 := by decide
    simp only [List.length_append, encDateTime, encI64, encU32, encLenBytes, leBytes_length]
    omega))]
  rfl

/-- The decoder arms the model implements are the arms found in the source. -/
theorem write_event_arms_match_source : modelArmsWrite = Generated.decArmsWriteEvent := by decide
theorem account_event_arms_match_source : modelArmsAccount = Generated.decArmsAccountEvent := by decide
theorem device_event_arms_match_source : modelArmsDevice = Generated.decArmsDeviceEvent := by decide
theorem file_event_arms_match_source : modelArmsFile = Generated.decArmsFileEvent := by decide

/-- Every variant's kind (as written by `event_kind()`) has a decoder arm building the
same variant: no tag is written that the decoder cannot read back. -/
theorem every_written_kind_has_its_arm :
    (∀ p ∈ Generated.kindOfWriteEvent, p.1 = "Noop" ∨ (p.2, p.1) ∈ Generated.decArmsWriteEvent) ∧
    (∀ p ∈ Generated.kindOfAccountEvent, p.1 = "Noop" ∨ (p.2, p.1) ∈ Generated.decArmsAccountEvent) ∧
    (∀ p ∈ Generated.kindOfDeviceEvent, p.1 = "Noop" ∨ (p.2, p.1) ∈ Generated.decArmsDeviceEvent) ∧
    (∀ p ∈ Generated.kindOfFileEvent, p.1 = "Noop" ∨ (p.2, p.1) ∈ Generated.decArmsFileEvent) := by
  decide

/- Non-vacuity -/
example : ValidTime { secs := 1700000000, nanos := 999999999 } := ⟨by decide, by decide, by decide⟩
example : ValidWrite (.deleteSecret (List.replicate 16 7)) := by simp [ValidWrite]
example : ValidAead { nonce := List.replicate 12 1, ct := [1, 2, 3] } := ⟨Or.inl (by simp), by decide⟩

end Sos.Props.C14
