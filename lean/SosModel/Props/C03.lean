/-
  C03  Secret material never reaches storage or the network unencrypted.
-/
import SosModel.Secrecy
namespace Sos.Props.C03
open Sos Sos.Secrecy

/-- C03/1.  Every artefact the SDK writes or sends keeps secrets under encryption. -/
theorem secret_row_guarded (id c k m v : Nat) : Guarded (secretRow id c k m v) := by
  simp [secretRow, Guarded]
theorem vault_header_guarded (n f k d : Nat) : Guarded (vaultHeader n f k d) := by
  simp [vaultHeader, Guarded]
theorem identity_entry_guarded (id k m : Nat) : Guarded (identityEntry id k m) := by
  simp [identityEntry, Guarded]
theorem file_blob_guarded (h k c : Nat) : Guarded (fileBlob h k c) := by
  simp [fileBlob, Guarded]
theorem clear_event_guarded (kd a b : Nat) : Guarded (clearEvent kd a b) := by
  simp [clearEvent, Guarded]
theorem audit_row_guarded (t kd a i : Nat) : Guarded (auditRow t kd a i) := by
  simp [auditRow, Guarded]

theorem message_guarded (status : Nat) (records : List Term) (h : ∀ r ∈ records, Guarded r) :
    Guarded (message status records) := by
  induction records with
  | nil => simp [message, Guarded]
  | cons r rest ih =>
    simp only [message, List.foldr_cons, Guarded]
    exact ⟨h r (by simp), ih (fun x hx => h x (by simp [hx]))⟩

/-- C03/2.  Holding every byte ever written to the server or sent on the wire — any set of
guarded terms — is not enough to derive any secret (nor any key): everything derivable is
itself guarded. -/
theorem derivable_from_guarded_is_guarded (S : Term → Prop) (hS : ∀ t, S t → Guarded t)
    (t : Term) (h : Derivable S t) : Guarded t := by
  induction h with
  | obs hs => exact hS _ hs
  | fst _ ih => exact ih.1
  | snd _ ih => exact ih.2
  | dec _ hk _ ihk => exact absurd ihk (by simp [Guarded])

theorem server_cannot_recover_secret (S : Term → Prop) (hS : ∀ t, S t → Guarded t) (s : Nat) :
    ¬ Derivable S (.secret s) := by
  intro h
  have := derivable_from_guarded_is_guarded S hS _ h
  simp [Guarded] at this

theorem server_cannot_recover_key (S : Term → Prop) (hS : ∀ t, S t → Guarded t) (k : Nat) :
    ¬ Derivable S (.key k) := by
  intro h
  have := derivable_from_guarded_is_guarded S hS _ h
  simp [Guarded] at this

/-- C03/3.  Only folder names and account names are stored in the clear: over the event
definitions regenerated from the source, the only `String` payloads are those of the rename /
set-name variants; every other payload is an identifier, a flag set, a sealed pack, a sealed
row, or an encoded vault / device record. -/
def clearNameVariants : List (String × String) :=
  [("WriteEvent", "SetVaultName"), ("AccountEvent", "RenameAccount"), ("AccountEvent", "RenameFolder")]

def allowedPayloadTypes : List String :=
  ["String", "Vec<u8>", "VaultFlags", "AeadPack", "SecretId", "VaultCommit", "VaultId", "TrustedDevice",
   "DevicePublicKey", "SecretPath", "ExternalFileName"]

theorem string_payloads_are_names_only :
    ∀ e ∈ Generated.eventPayloads, "String" ∈ e.2.2 → (e.1, e.2.1) ∈ clearNameVariants := by decide

theorem payload_types_are_known :
    ∀ e ∈ Generated.eventPayloads, ∀ t ∈ e.2.2, t ∈ allowedPayloadTypes := by decide

/- non-vacuity: a server view holding rows, headers, blobs and messages -/
example : Guarded (message 0 [secretRow 1 2 3 4 5, vaultHeader 1 1 3 9, fileBlob 7 3 8]) := by
  simp [message, secretRow, vaultHeader, fileBlob, Guarded]

end Sos.Props.C03
