/-
  C15  Malformed bytes are rejected with an error, never a crash.
  For EVERY input byte string (no hypothesis), every modelled decoder
    * never panics,
    * never requests a single allocation above the configured 16 MiB cap,
    * leaves unread exactly a suffix of its input (cannot read past the end),
  and terminates (all model functions are total, structurally recursive).
-/
import SosModel.Lemmas.Codec
namespace Sos.Props.C15
open Sos Sos.Codec

theorem good_DateTime : Good readDateTime :=
  Good.bind (Good.bind (Good.readNat 8) (fun _ => Good.ret _)) (fun _ =>
    Good.bind (Good.readNat 4) (fun _ => Good.ite Good.fail (Good.ite Good.fail (Good.ret _))))

theorem good_CommitProof : Good readProof := by
  apply Good.bind (Good.readN 32); intro root
  apply Good.bind Good.readLenBytes; intro pb
  cases chunks32 (pb.length + 1) pb with
  | none => exact Good.fail
  | some hs =>
    exact Good.bind (Good.readNat 8) (fun _ =>
      Good.bind (Good.readVec (Good.readNat 8)) (fun _ => Good.ret _))

theorem good_CommitState : Good readCommitState :=
  Good.bind (Good.readN 32) (fun _ => Good.bind good_CommitProof (fun _ => Good.ret _))

/-- `Comparison::decode` reads its index list item by item; it does not reserve memory
for the declared (unchecked) count. -/
theorem good_Comparison : Good readCmp :=
  Good.bind (Good.readNat 1) (fun _ =>
    Good.ite (Good.ret _) (Good.ite
      (Good.bind (Good.readVec (Good.readNat 8)) (fun _ => Good.ret _))
      (Good.ite (Good.ret _) Good.fail)))

theorem good_AeadPack : Good readAead :=
  Good.bind (Good.readNat 1) (fun n => Good.bind (Good.readN n) (fun _ =>
    Good.ite (Good.bind Good.readLenBytes (fun _ => Good.ret _)) Good.fail))

theorem good_VaultEntry : Good readEntry :=
  Good.bind good_AeadPack (fun _ => Good.bind good_AeadPack (fun _ => Good.ret _))

theorem good_VaultCommit : Good readVaultCommit :=
  Good.bind (Good.readN 32) (fun _ => Good.bind (Good.readNat 4) (fun _ =>
    Good.bind good_VaultEntry (fun _ => Good.ret _)))

theorem good_Kind : Good readKind := by
  apply Good.bind (Good.readNat 2); intro t
  cases kindOfTag t with
  | none => exact Good.fail
  | some k => exact Good.ret _

theorem good_WriteEvent : Good readWriteEvent := by
  apply Good.bind good_Kind; intro k
  refine Good.ite (Good.bind Good.readLenBytes (fun _ => Good.ret _)) ?_
  refine Good.ite (Good.bind Good.readString (fun _ => Good.ret _)) ?_
  refine Good.ite (Good.bind (Good.readNat 8) (fun _ => Good.ite (Good.ret _) Good.fail)) ?_
  refine Good.ite (Good.bind good_AeadPack (fun _ => Good.ret _)) ?_
  refine Good.ite (Good.bind (Good.readN 16) (fun _ => Good.bind good_VaultCommit (fun _ => Good.ret _))) ?_
  refine Good.ite (Good.bind (Good.readN 16) (fun _ => Good.bind good_VaultCommit (fun _ => Good.ret _))) ?_
  exact Good.ite (Good.bind (Good.readN 16) (fun _ => Good.ret _)) Good.fail

theorem good_IdBuf (mk : Bytes → Bytes → AccountEvent) : Good (readIdBuf mk) :=
  Good.bind (Good.readN 16) (fun _ => Good.bind Good.readLenBytes (fun _ => Good.ret _))

theorem good_AccountEvent : Good readAccountEvent := by
  apply Good.bind good_Kind; intro k
  refine Good.ite (Good.bind Good.readString (fun _ => Good.ret _)) ?_
  refine Good.ite (Good.bind Good.readLenBytes (fun _ => Good.ret _)) ?_
  refine Good.ite (good_IdBuf _) ?_
  refine Good.ite (good_IdBuf _) ?_
  refine Good.ite (good_IdBuf _) ?_
  refine Good.ite (good_IdBuf _) ?_
  refine Good.ite (Good.bind (Good.readN 16) (fun _ => Good.bind Good.readString (fun _ => Good.ret _))) ?_
  exact Good.ite (Good.bind (Good.readN 16) (fun _ => Good.ret _)) Good.fail

theorem good_DeviceEvent : Good readDeviceEvent := by
  apply Good.bind good_Kind; intro k
  exact Good.ite (Good.bind (Good.readN 32) (fun _ => Good.ret _)) (Good.ite (Good.ret _) Good.fail)

theorem good_FileEvent : Good readFileEvent := by
  apply Good.bind good_Kind; intro k
  refine Good.ite (Good.bind (Good.readN 16) (fun _ => Good.bind (Good.readN 16) (fun _ =>
    Good.bind (Good.readN 32) (fun _ => Good.ret _)))) ?_
  refine Good.ite (Good.bind (Good.readN 16) (fun _ => Good.bind (Good.readN 16) (fun _ =>
    Good.bind (Good.readN 32) (fun _ => Good.ret _)))) ?_
  exact Good.ite (Good.bind (Good.readN 32) (fun _ => Good.bind (Good.readN 16) (fun _ =>
    Good.bind (Good.readN 16) (fun _ => Good.bind (Good.readN 16) (fun _ =>
      Good.bind (Good.readN 16) (fun _ => Good.ret _)))))) Good.fail

theorem good_EventRecord : Good readRecord :=
  Good.bind (Good.readNat 4) (fun _ => Good.bind good_DateTime (fun _ =>
    Good.bind (Good.readN 32) (fun _ => Good.bind (Good.readN 32) (fun _ =>
      Good.bind Good.readLenBytes (fun _ => Good.bind (Good.readNat 4) (fun _ => Good.ret _))))))

/-- The kind tag 0 (`Noop`) and every tag without a decoder arm is an error in all four
event decoders: the arms extracted from the source contain no `!panic`. -/
theorem no_panicking_decoder_arm :
    (∀ p ∈ Generated.decArmsWriteEvent, p.2 ≠ "!panic") ∧
    (∀ p ∈ Generated.decArmsAccountEvent, p.2 ≠ "!panic") ∧
    (∀ p ∈ Generated.decArmsDeviceEvent, p.2 ≠ "!panic") ∧
    (∀ p ∈ Generated.decArmsFileEvent, p.2 ≠ "!panic") := by decide

/-- A timestamp whose seconds are at the maximum and whose nanoseconds overflow the
representable range is an error, not a panic (witness of the repaired overflow). -/
example : (readDateTime (encI64 maxSecs ++ encU32 4000000000)).res = .error := by decide

/-- A `Comparison::Contains` announcing 2^32-1 indices with no data is an error after
zero allocation. -/
example : (readCmp (encU8 2 ++ encU32 4294967295)).alloc = 0 ∧
    (readCmp (encU8 2 ++ encU32 4294967295)).res = .error := by decide


/-! ### vault header and contents -/

theorem good_Bool : Good readBool := Good.bind (Good.readNat 1) (fun _ => Good.ret _)

theorem good_Opt {d : Dec α} (present : Bool) (hd : Good d) : Good (readOpt present d) := by
  unfold readOpt
  cases present with
  | true => simpa using Good.bind hd (fun _ => Good.ret _)
  | false => simpa using (Good.ret (none : Option α))

theorem good_VaultMeta : Good readVaultMeta :=
  Good.bind good_DateTime (fun _ => Good.bind Good.readString (fun _ => Good.ret _))

theorem good_Auth : Good readAuth :=
  Good.bind good_Bool (fun hs => Good.bind (good_Opt hs Good.readString) (fun _ =>
    Good.bind good_Bool (fun hd => Good.bind (good_Opt hd (Good.readN 32)) (fun _ => Good.ret _))))

theorem good_Id (table : List (String × Nat)) : Good (readId table) :=
  Good.bind (Good.readNat 1) (fun _ => Good.ite (Good.ret _) Good.fail)

theorem good_Summary : Good readSummary :=
  Good.bind (Good.readNat 2) (fun _ => Good.bind (good_Id _) (fun _ => Good.bind (good_Id _) (fun _ =>
    Good.bind (Good.readN 16) (fun _ => Good.bind Good.readString (fun _ => Good.bind (Good.readNat 8) (fun _ =>
      Good.ite (Good.ret _) Good.fail))))))

/-- the recipient list is read item by item (no reservation for the declared count) -/
theorem good_SharedAccess : Good readShared :=
  Good.bind (Good.readNat 1) (fun _ =>
    Good.ite (Good.bind (Good.readNat 2) (fun n => Good.bind (Good.readMany Good.readString n) (fun _ => Good.ret _)))
      (Good.ite (Good.bind good_AeadPack (fun _ => Good.ret _)) Good.fail))

theorem good_Header : Good readHeader :=
  Good.bind (Good.readFixed 4) (fun _ => Good.ite
    (Good.bind (Good.readNat 4) (fun _ => Good.bind good_Summary (fun _ => Good.bind good_Bool (fun hm =>
      Good.bind (good_Opt hm good_AeadPack) (fun _ => Good.bind good_Auth (fun _ =>
        Good.bind good_SharedAccess (fun _ => Good.ret _)))))))
    Good.fail)

theorem good_Row : Good readRow :=
  Good.bind (Good.readNat 4) (fun _ => Good.bind (Good.readN 16) (fun _ =>
    Good.bind good_VaultCommit (fun _ => Good.bind (Good.readNat 4) (fun _ => Good.ret _))))

theorem good_Rows : ∀ fuel, Good (readRows fuel)
  | 0 => by
    intro b
    unfold readRows
    by_cases h : b = []
    · simp only [h, if_true]; exact Good.ret _ []
    · simp only [h, if_false]; exact (Good.fail (α := List (Bytes × VaultCommit))) b
  | fuel + 1 => by
    intro b
    unfold readRows
    by_cases h : b = []
    · simp only [h, if_true]; exact Good.ret _ []
    · simp only [h, if_false]
      exact (Good.bind good_Row (fun _ => Good.bind (good_Rows fuel) (fun _ => Good.ret _))) b

/-- a vault file of ANY content: no panic, no oversized request, never reads past the end -/
theorem good_Contents : Good readContents := by
  intro b
  exact (Good.bind (good_Rows b.length) (fun _ => Good.ret _)) b

theorem good_Vault : Good readVault :=
  Good.bind good_Header (fun _ => Good.bind good_Contents (fun _ => Good.ret _))

end Sos.Props.C15
