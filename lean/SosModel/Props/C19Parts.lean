/-
  C19, the parts of an account beside its event logs: every external file blob, the
  preferences (per account and global) and the server list arrive in the database under the
  right owner — for any number of accounts in one data directory.
-/
import SosModel.Upgrade
import SosModel.Generated
namespace Sos.Props.C19
open Sos Sos.Upgrade

/-! ### blobs -/

theorem putBlob_fresh (st : List ((Nat × BlobKey) × Bytes)) (k : Nat × BlobKey) (b : Bytes)
    (h : ∀ e ∈ st, e.1 ≠ k) : putBlob st k b = st ++ [(k, b)] := by
  unfold putBlob
  have : st.any (fun e => e.1 == k) = false := by
    rw [List.any_eq_false]
    intro e he
    simpa using h e he
  simp [this]

/-- copying the files of one account into a store that holds nothing of that account yet -/
theorem copyBlobs_fresh (acct : Nat) (files : List (BlobKey × Bytes)) (st : List ((Nat × BlobKey) × Bytes))
    (hst : ∀ e ∈ st, e.1.1 ≠ acct) (hnd : (files.map (·.1)).Nodup) :
    copyBlobs acct files st = st ++ files.map (fun f => ((acct, f.1), f.2)) := by
  unfold copyBlobs
  have gen : ∀ (files : List (BlobKey × Bytes)) (done : List (BlobKey × Bytes)),
      ((done ++ files).map (·.1)).Nodup →
      files.foldl (fun s f => putBlob s (acct, f.1) f.2) (st ++ done.map (fun f => ((acct, f.1), f.2))) =
        st ++ (done ++ files).map (fun f => ((acct, f.1), f.2)) := by
    intro files
    induction files with
    | nil => intro done _; simp
    | cons f fs ih =>
      intro done hn
      simp only [List.foldl_cons]
      have hfresh : ∀ e ∈ st ++ done.map (fun f => ((acct, f.1), f.2)), e.1 ≠ (acct, f.1) := by
        intro e he heq
        rcases List.mem_append.mp he with h | h
        · exact hst e h (by rw [heq])
        · obtain ⟨g, hg, rfl⟩ := List.mem_map.mp h
          simp only [Prod.mk.injEq, true_and] at heq
          rw [List.map_append, List.map_cons] at hn
          have := (List.nodup_append.mp hn).2.2 g.1 (List.mem_map_of_mem hg) f.1 (by simp)
          exact this heq
      rw [putBlob_fresh _ _ _ hfresh]
      have := ih (done ++ [f]) (by simpa [List.append_assoc] using hn)
      simpa [List.append_assoc] using this
  have := gen files [] (by simpa using hnd)
  simpa using this

theorem blobsOf_import_self (remap : String → Option String) (db : Db) (a : FsAccount)
    (hdb : ∀ e ∈ db.blobs, e.1.1 ≠ a.id) (hnd : (a.files.map (·.1)).Nodup) :
    (importAccount remap db a).blobsOf a.id = a.files := by
  unfold importAccount Db.blobsOf
  simp only
  rw [copyBlobs_fresh a.id a.files db.blobs hdb hnd, List.filter_append, List.map_append]
  have h1 : db.blobs.filter (fun e => e.1.1 == a.id) = [] := by
    rw [List.filter_eq_nil_iff]; intro e he; simpa using hdb e he
  have h2 : (a.files.map (fun f => ((a.id, f.1), f.2))).filter (fun e => e.1.1 == a.id) =
      a.files.map (fun f => ((a.id, f.1), f.2)) := by
    rw [List.filter_eq_self]; intro e he
    obtain ⟨f, _, rfl⟩ := List.mem_map.mp he; simp
  rw [h1, h2]; simp [List.map_map, Function.comp_def]

theorem blobsOf_import_other (remap : String → Option String) (db : Db) (a : FsAccount) (j : Nat)
    (hdb : ∀ e ∈ db.blobs, e.1.1 ≠ a.id) (hnd : (a.files.map (·.1)).Nodup) (hj : j ≠ a.id) :
    (importAccount remap db a).blobsOf j = db.blobsOf j := by
  unfold importAccount Db.blobsOf
  simp only
  rw [copyBlobs_fresh a.id a.files db.blobs hdb hnd, List.filter_append, List.map_append]
  have h2 : (a.files.map (fun f => ((a.id, f.1), f.2))).filter (fun e => e.1.1 == j) = [] := by
    rw [List.filter_eq_nil_iff]; intro e he
    obtain ⟨f, _, rfl⟩ := List.mem_map.mp he
    simpa using fun h => hj h.symm
  rw [h2]; simp

theorem blob_owners_import (remap : String → Option String) (db : Db) (a : FsAccount)
    (hdb : ∀ e ∈ db.blobs, e.1.1 ≠ a.id) (hnd : (a.files.map (·.1)).Nodup) :
    ∀ e ∈ (importAccount remap db a).blobs, e ∈ db.blobs ∨ e.1.1 = a.id := by
  intro e he
  unfold importAccount at he
  simp only at he
  rw [copyBlobs_fresh a.id a.files db.blobs hdb hnd] at he
  rcases List.mem_append.mp he with h | h
  · exact Or.inl h
  · obtain ⟨f, _, rfl⟩ := List.mem_map.mp h; exact Or.inr rfl

/-- the accounts of one data directory: distinct ids, no two files of an account under the
same (vault, secret, name) -/
def WellFormed (d : FsData) : Prop :=
  (d.accounts.map (·.id)).Nodup ∧ ∀ a ∈ d.accounts, (a.files.map (·.1)).Nodup

theorem fold_blobs (remap : String → Option String) (accs : List FsAccount) (db : Db)
    (hids : (accs.map (·.id)).Nodup) (hfiles : ∀ a ∈ accs, (a.files.map (·.1)).Nodup)
    (hdb : ∀ e ∈ db.blobs, ∀ a ∈ accs, e.1.1 ≠ a.id) :
    (∀ a ∈ accs, (accs.foldl (importAccount remap) db).blobsOf a.id = a.files) ∧
    (∀ j, (∀ a ∈ accs, j ≠ a.id) → (accs.foldl (importAccount remap) db).blobsOf j = db.blobsOf j) := by
  induction accs generalizing db with
  | nil => exact ⟨fun a ha => by simp at ha, fun j _ => rfl⟩
  | cons a rest ih =>
    simp only [List.map_cons, List.nodup_cons] at hids
    have hdba : ∀ e ∈ db.blobs, e.1.1 ≠ a.id := fun e he => hdb e he a (by simp)
    have hfa := hfiles a (by simp)
    have hnext : ∀ e ∈ (importAccount remap db a).blobs, ∀ b ∈ rest, e.1.1 ≠ b.id := by
      intro e he b hb
      rcases blob_owners_import remap db a hdba hfa e he with h | h
      · exact hdb e h b (by simp [hb])
      · rw [h]; intro e2; exact hids.1 (by rw [e2]; exact List.mem_map_of_mem hb)
    obtain ⟨ih1, ih2⟩ := ih (importAccount remap db a) hids.2 (fun b hb => hfiles b (by simp [hb])) hnext
    simp only [List.foldl_cons]
    constructor
    · intro b hb
      rcases List.mem_cons.mp hb with rfl | hb'
      · rw [ih2 b.id (fun c hc e => hids.1 (by rw [e]; exact List.mem_map_of_mem hc))]
        exact blobsOf_import_self remap db b hdba hfa
      · exact ih1 b hb'
    · intro j hj
      rw [ih2 j (fun c hc => hj c (by simp [hc]))]
      exact blobsOf_import_other remap db a j hdba hfa (hj a (by simp))

/-- C19/4.  Every external file blob of every account is in the upgraded account's blob
directory under the same folder, secret and name with the same bytes — however many files a
secret has and however many accounts the data directory holds — and nothing else is there. -/
theorem upgrade_keeps_every_blob (remap : String → Option String) (d : FsData) (h : WellFormed d)
    (a : FsAccount) (ha : a ∈ d.accounts) : (upgrade remap d).blobsOf a.id = a.files := by
  unfold upgrade
  exact (fold_blobs remap d.accounts (importGlobals d) h.1 h.2 (by intro e he; simp [importGlobals, Db.empty] at he)).1 a ha

/-! ### preferences and servers -/

theorem fold_prefs (remap : String → Option String) (accs : List FsAccount) (db : Db) (o : Option Nat) :
    (accs.foldl (importAccount remap) db).prefsOf o =
      db.prefsOf o ++ (accs.filter (fun a => some a.id == o)).flatMap (fun a => a.prefs.getD []) := by
  induction accs generalizing db with
  | nil => simp
  | cons a rest ih =>
    simp only [List.foldl_cons]
    rw [ih]
    have : (importAccount remap db a).prefsOf o = db.prefsOf o ++ (if some a.id == o then a.prefs.getD [] else []) := by
      unfold importAccount Db.prefsOf
      simp only [List.filter_append, List.map_append]
      congr 1
      by_cases e : (some a.id == o) = true
      · simp only [e, if_true]
        rw [List.filter_eq_self.mpr (by intro r hr; obtain ⟨kv, _, rfl⟩ := List.mem_map.mp hr; simpa using e)]
        simp [List.map_map, Function.comp_def]
      · simp only [e, if_false]
        rw [List.filter_eq_nil_iff.mpr (by intro r hr; obtain ⟨kv, _, rfl⟩ := List.mem_map.mp hr; simpa using e)]
        rfl
    rw [this, List.append_assoc]
    congr 1
    by_cases e : (some a.id == o) = true
    · simp [List.filter_cons, e]
    · simp [List.filter_cons, e]

/-- C19/5.  Preferences: after the upgrade an account's preferences are exactly the ones of
its preferences file, and the global preferences exactly the global file's — no row changes
owner. -/
theorem upgrade_keeps_account_preferences (remap : String → Option String) (d : FsData)
    (hids : (d.accounts.map (·.id)).Nodup) (a : FsAccount) (ha : a ∈ d.accounts) :
    (upgrade remap d).prefsOf (some a.id) = a.prefs.getD [] := by
  unfold upgrade
  rw [fold_prefs]
  have h0 : (importGlobals d).prefsOf (some a.id) = [] := by
    unfold importGlobals Db.prefsOf Db.empty
    simp only
    rw [List.filter_eq_nil_iff.mpr (by intro r hr; obtain ⟨kv, _, rfl⟩ := List.mem_map.mp hr; simp)]
    rfl
  rw [h0, List.nil_append]
  -- exactly one account has this id
  have gen : ∀ (l : List FsAccount), (l.map (·.id)).Nodup → a ∈ l → l.filter (fun b => b.id == a.id) = [a] := by
    intro l
    induction l with
    | nil => intro _ h; simp at h
    | cons b bs ih =>
      intro hn hm
      simp only [List.map_cons, List.nodup_cons] at hn
      rcases List.mem_cons.mp hm with rfl | hm'
      · have : bs.filter (fun c => c.id == a.id) = [] := by
          rw [List.filter_eq_nil_iff]; intro c hc
          simp only [beq_iff_eq]
          intro e; exact hn.1 (by rw [← e]; exact List.mem_map_of_mem hc)
        rw [List.filter_cons]; simp [this]
      · have hb : (b.id == a.id) = false := by
          simp only [beq_eq_false_iff_ne]
          exact fun e => hn.1 (by rw [e]; exact List.mem_map_of_mem hm')
        rw [List.filter_cons]; simp only [hb]; exact ih hn.2 hm'
  have hone : d.accounts.filter (fun b => some b.id == some a.id) = [a] := by
    have : (fun b : FsAccount => some b.id == some a.id) = (fun b => b.id == a.id) := by
      funext b; simp
    rw [this]; exact gen d.accounts hids ha
  rw [hone]; simp

theorem upgrade_keeps_global_preferences (remap : String → Option String) (d : FsData) :
    (upgrade remap d).prefsOf none = d.globalPrefs.getD [] := by
  unfold upgrade
  rw [fold_prefs]
  have h0 : (importGlobals d).prefsOf none = d.globalPrefs.getD [] := by
    unfold importGlobals Db.prefsOf Db.empty
    simp only
    rw [List.filter_eq_self.mpr (by intro r hr; obtain ⟨kv, _, rfl⟩ := List.mem_map.mp hr; simp)]
    simp [List.map_map, Function.comp_def]
  have h1 : d.accounts.filter (fun a => some a.id == (none : Option Nat)) = [] := by
    rw [List.filter_eq_nil_iff]; intro a _; simp
  rw [h0, h1]; simp

/-! ### the model's calls are the source's calls (regenerated on every run) -/

/-- who owns the rows each import function inserts: global preferences have no owner, every
per-account table gets the account being imported -/
theorem upgrade_insert_owners_match_source :
    Generated.upgradeInsertOwners =
      [("import_globals", "preferences", "None"), ("import_account", "preferences", "Some(account_id)"),
       ("import_account", "servers", "account_id"), ("import_account", "file_events", "account_id"),
       ("import_account", "device_events", "account_id"), ("import_account", "account_events", "account_id")] := by
  decide

/-- the blob copy loop creates a missing destination directory and copies every listed file
(no early `continue`) -/
theorem upgrade_blob_copy_matches_source :
    Generated.upgradeBlobDirGuard = "create-dir-if-missing" ∧ Generated.upgradeCopiesEveryFile = true := by
  decide

/-! the premises are satisfiable: two accounts, the first with two files under one secret -/
private def k1 : BlobKey := ⟨1, 7, [1]⟩
private def k2 : BlobKey := ⟨1, 7, [2]⟩
private def acc1 : FsAccount := { id := 10, files := [(k1, [0xaa]), (k2, [0xbb])], prefs := some [("theme", "dark")], servers := none }
private def acc2 : FsAccount := { id := 11, files := [(k1, [0xcc])], prefs := some [("theme", "light")], servers := some [("s", "https://x")] }
private def data : FsData := { globalPrefs := some [("lang", "en")], accounts := [acc1, acc2] }
example : (upgrade (fun _ => none) data).blobsOf 10 = [(k1, [0xaa]), (k2, [0xbb])] := by decide
example : (upgrade (fun _ => none) data).prefsOf (some 11) = [("theme", "light")] := by decide
example : (upgrade (fun _ => none) data).prefsOf none = [("lang", "en")] := by decide

end Sos.Props.C19
