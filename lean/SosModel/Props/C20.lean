/-
  C20  The search index always matches what the folders contain.
-/
import SosModel.Search
namespace Sos.Props.C20
open Sos Sos.Search

def ikeys (ix : Index) : List (Nat × Nat) := ix.docs.map (·.1)
def countF (ix : Index) (f : Nat) : Nat := (ix.docs.filter (·.1.1 = f)).length
def countFav (ix : Index) : Nat := (ix.docs.filter (·.2.fav)).length
/-- documents of kind `k` outside the archive folder -/
def kindPred (a : Option Nat) (k : Nat) (x : (Nat × Nat) × Doc) : Bool := decide (x.2.kind = k ∧ a ≠ some x.1.1)
def countKind (ix : Index) (k : Nat) : Nat := (ix.docs.filter (kindPred ix.archive k)).length

theorem filter_singleton_length {α : Type} (p : α → Bool) (x : α) : (List.filter p [x]).length = if p x then 1 else 0 := by
  by_cases h : p x = true <;> simp [List.filter, h]
/-- documents that carry tag `t` -/
def countTag (ix : Index) (t : Nat) : Nat := (ix.docs.filter (fun x => decide (t ∈ x.2.tags))).length

/-- index-internal consistency: one document per key, counters equal a recount -/
def IxInv (ix : Index) : Prop :=
  (ikeys ix).Nodup ∧ (∀ f, ix.vaults f = countF ix f) ∧ ix.favorites = countFav ix ∧
  (∀ k, ix.kinds k = countKind ix k) ∧ (∀ t, ix.tags t = countTag ix t)

theorem findIn_none_iff (docs : List ((Nat × Nat) × Doc)) (k : Nat × Nat) :
    findIn docs k = none ↔ k ∉ docs.map (·.1) := by
  induction docs with
  | nil => simp [findIn]
  | cons p rest ih =>
    obtain ⟨pk, pd⟩ := p
    by_cases h : pk = k
    · subst h; simp [findIn]
    · have : ¬ k = pk := fun e => h e.symm
      simp only [findIn, h, if_false, List.map_cons, List.mem_cons, this, false_or]
      exact ih

theorem find_none_iff {ix : Index} {f s : Nat} : ix.find f s = none ↔ (f, s) ∉ ikeys ix :=
  findIn_none_iff ix.docs (f, s)

theorem findIn_some_mem (docs : List ((Nat × Nat) × Doc)) (k : Nat × Nat) (d : Doc)
    (h : findIn docs k = some d) : (k, d) ∈ docs := by
  induction docs with
  | nil => simp [findIn] at h
  | cons p rest ih =>
    obtain ⟨pk, pd⟩ := p
    by_cases hp : pk = k
    · subst hp
      simp [findIn] at h
      subst h; simp
    · simp only [findIn, hp, if_false] at h
      exact List.mem_cons_of_mem _ (ih h)

theorem find_some_mem {ix : Index} {f s : Nat} {d : Doc} (h : ix.find f s = some d) :
    ((f, s), d) ∈ ix.docs := findIn_some_mem ix.docs (f, s) d h

theorem empty_inv : IxInv Index.empty := by
  simp [IxInv, Index.empty, ikeys, countF, countFav, countKind, countTag]

/-- the same for an index that knows its archive folder -/
theorem empty_inv_archive (a : Option Nat) : IxInv { Index.empty with archive := a } := by
  simp [IxInv, Index.empty, ikeys, countF, countFav, countKind, countTag]

/-- removing the unique entry with a given key shortens a filtered count by one exactly
when that entry satisfies the filter -/
theorem filter_remove_key (docs : List ((Nat × Nat) × Doc)) (k : Nat × Nat) (d : Doc)
    (p : ((Nat × Nat) × Doc) → Bool) (hn : (docs.map (·.1)).Nodup) (hm : (k, d) ∈ docs) :
    ((docs.filter (fun x => decide (x.1 ≠ k))).filter p).length + (if p (k, d) then 1 else 0)
      = (docs.filter p).length := by
  induction docs with
  | nil => simp at hm
  | cons x rest ih =>
    simp only [List.map_cons, List.nodup_cons] at hn
    rcases List.mem_cons.mp hm with e | e
    · subst e
      have hrest : rest.filter (fun x => decide (x.1 ≠ k)) = rest := by
        apply List.filter_eq_self.mpr
        intro y hy
        have : y.1 ≠ k := by
          intro e2; apply hn.1
          have := List.mem_map_of_mem (f := fun z : (Nat × Nat) × Doc => z.1) hy
          simpa [e2] using this
        simpa using this
      have hk : decide ((k, d).1 ≠ k) = false := by simp
      rw [List.filter_cons, hk]
      simp only [Bool.false_eq_true, if_false, hrest]
      rw [List.filter_cons]
      by_cases hp : p (k, d) = true
      · simp [hp]
      · simp [hp]
    · have hx : x.1 ≠ k := by
        intro e2; apply hn.1; rw [e2]
        exact List.mem_map_of_mem (f := fun z : (Nat × Nat) × Doc => z.1) e
      have hxd : decide (x.1 ≠ k) = true := by simpa using hx
      have := ih hn.2 e
      rw [List.filter_cons, hxd]
      simp only [if_true]
      rw [List.filter_cons, List.filter_cons]
      by_cases hp : p x = true
      · simp only [hp, if_true, List.length_cons]; omega
      · simp only [hp, Bool.false_eq_true, if_false]; exact this

theorem add_inv (ix : Index) (f s : Nat) (d : Doc) (h : IxInv ix) : IxInv (ix.add f s d) := by
  unfold Index.add
  cases hf : ix.find f s with
  | some _ => simpa using h
  | none =>
    simp only [Option.isSome_none, Bool.false_eq_true, if_false]
    obtain ⟨h1, h2, h3, h4, h5⟩ := h
    have hk := find_none_iff.mp hf
    refine ⟨?_, ?_, ?_, ?_, ?_⟩
    · simp only [ikeys, List.map_append, List.map_cons, List.map_nil]
      rw [List.nodup_append]
      refine ⟨h1, by simp, ?_⟩
      intro a ha b hb
      simp at hb; subst hb
      intro e; subst e; exact hk ha
    · intro g
      simp only [countF, List.filter_append, List.length_append]
      by_cases hg : g = f
      · subst hg; simp [h2 g, countF]
      · have : ¬ f = g := fun e => hg e.symm
        simp [hg, this, h2 g, countF]
    · simp only [countFav, List.filter_append, List.length_append]
      by_cases hv : d.fav = true <;> simp [hv, h3, countFav]
    · intro k
      have hk4 := h4 k
      show (if k = d.kind ∧ ix.archive ≠ some f then ix.kinds k + 1 else ix.kinds k) =
        ((ix.docs ++ [((f, s), d)]).filter (kindPred ix.archive k)).length
      rw [List.filter_append, List.length_append, filter_singleton_length, hk4]
      simp only [countKind]
      by_cases c : k = d.kind ∧ ix.archive ≠ some f
      · have hp : kindPred ix.archive k ((f, s), d) = true := by simp [kindPred, c.1.symm, c.2]
        rw [if_pos c]; simp only [hp, if_true]
      · have hp : kindPred ix.archive k ((f, s), d) = false := by
          simp only [kindPred, decide_eq_false_iff_not]
          exact fun h => c ⟨h.1.symm, h.2⟩
        rw [if_neg c]; simp only [hp, Bool.false_eq_true, if_false, Nat.add_zero]
    · intro t
      simp only [countTag, List.filter_append, List.length_append]
      have ht := h5 t
      simp only [countTag] at ht
      by_cases c : t ∈ d.tags <;> simp [c, ← ht]

theorem remove_inv (ix : Index) (f s : Nat) (h : IxInv ix) : IxInv (ix.remove f s) := by
  unfold Index.remove
  cases hf : ix.find f s with
  | none => simpa using h
  | some d =>
    simp only
    obtain ⟨h1, h2, h3, h4, h5⟩ := h
    have hm := find_some_mem hf
    refine ⟨?_, ?_, ?_, ?_, ?_⟩
    · simp only [ikeys]
      exact (List.filter_sublist.map _).nodup h1
    · intro g
      have key := filter_remove_key ix.docs (f, s) d (fun x => decide (x.1.1 = g)) h1 hm
      simp only [countF] at *
      by_cases hg : g = f
      · subst hg
        simp only [if_true]
        rw [h2 g]
        simp only [decide_true, if_true] at key
        omega
      · have : ¬ f = g := fun e => hg e.symm
        simp only [hg, if_false]
        rw [h2 g]
        simp only [this, decide_false, Bool.false_eq_true, if_false, Nat.add_zero] at key
        omega
    · have key := filter_remove_key ix.docs (f, s) d (fun x => x.2.fav) h1 hm
      simp only [countFav] at *
      by_cases hv : d.fav = true
      · simp only [hv, if_true] at key ⊢
        omega
      · simp only [hv, Bool.false_eq_true, if_false, Nat.add_zero] at key ⊢
        omega
    · intro k
      have key := filter_remove_key ix.docs (f, s) d (kindPred ix.archive k) h1 hm
      have hk4 := h4 k
      show (if k = d.kind ∧ ix.archive ≠ some f then ix.kinds k - 1 else ix.kinds k) =
        ((ix.docs.filter (fun x => decide (x.1 ≠ (f, s)))).filter (kindPred ix.archive k)).length
      simp only [countKind] at hk4
      by_cases c : k = d.kind ∧ ix.archive ≠ some f
      · have hp : kindPred ix.archive k ((f, s), d) = true := by simp [kindPred, c.1.symm, c.2]
        rw [if_pos c]; simp only [hp, if_true] at key; omega
      · have hp : kindPred ix.archive k ((f, s), d) = false := by
          simp only [kindPred, decide_eq_false_iff_not]
          exact fun h => c ⟨h.1.symm, h.2⟩
        rw [if_neg c]; simp only [hp, Bool.false_eq_true, if_false, Nat.add_zero] at key; omega
    · intro t
      have key := filter_remove_key ix.docs (f, s) d (fun x => decide (t ∈ x.2.tags)) h1 hm
      have ht := h5 t
      simp only [countTag] at *
      by_cases c : t ∈ d.tags
      · simp only [c, decide_true, if_true] at key ⊢
        omega
      · simp only [c, decide_false, Bool.false_eq_true, if_false, Nat.add_zero] at key ⊢
        omega

/-- C20/1.  After ANY sequence of index calls (add / remove / update, in any order, for
present or absent documents, in and out of the archive folder) there is exactly one document
per key and the per-folder, favourites, per-kind (outside the archive) and per-tag counters
equal a recount. -/
inductive IxOp where
  | add (f s : Nat) (d : Doc)
  | remove (f s : Nat)
  | update (f s : Nat) (d : Doc)

def IxOp.run (ix : Index) : IxOp → Index
  | .add f s d => ix.add f s d
  | .remove f s => ix.remove f s
  | .update f s d => ix.update f s d

theorem counters_equal_recount_archive (a : Option Nat) (ops : List IxOp) :
    IxInv (ops.foldl IxOp.run { Index.empty with archive := a }) := by
  have : ∀ ix, IxInv ix → IxInv (ops.foldl IxOp.run ix) := by
    induction ops with
    | nil => intro ix h; exact h
    | cons o t ih =>
      intro ix h
      apply ih
      cases o with
      | add f s d => exact add_inv ix f s d h
      | remove f s => exact remove_inv ix f s h
      | update f s d => exact add_inv _ f s d (remove_inv ix f s h)
  exact this _ (empty_inv_archive a)

theorem counters_equal_recount (ops : List IxOp) : IxInv (ops.foldl IxOp.run Index.empty) := by
  have : ∀ ix, IxInv ix → IxInv (ops.foldl IxOp.run ix) := by
    induction ops with
    | nil => intro ix h; exact h
    | cons o t ih =>
      intro ix h
      apply ih
      cases o with
      | add f s d => exact add_inv ix f s d h
      | remove f s => exact remove_inv ix f s h
      | update f s d => exact add_inv _ f s d (remove_inv ix f s h)
  exact this _ empty_inv

private def d1 : Doc := { content := 1, fav := true }
private def d2 : Doc := { content := 2, fav := false }

/-- Witness (KNOWN FINDING C20/merge-update-of-absent-secret): an incoming UpdateSecret for
an id the folder does not hold (it was deleted locally) leaves the folder unchanged but
commits a document: the index now lists a secret that does not exist. -/
theorem merge_update_absent_commits_doc :
    let st := mergeStep 0 { live := [], ix := Index.empty } (.update 7 d2)
    st.live = [] ∧ st.ix.find 0 7 = some d2 := by decide

example : ((([IxOp.add 0 1 d1, .add 0 2 d2, .remove 0 9, .update 0 1 d2].foldl IxOp.run Index.empty).vaults 0) = 2) := by
  decide

private def k1 : Doc := { content := 3, fav := false, kind := 4, tags := [1, 2] }
/-- archive and unarchive (folder 9 is the archive): the kind counter goes down and up again, the tag counters stay -/
example : let ix := [IxOp.add 0 1 k1, .remove 0 1, .add 9 1 k1, .remove 9 1, .add 0 5 k1].foldl IxOp.run { Index.empty with archive := some 9 }
    (ix.kinds 4, ix.tags 1, ix.tags 2, ix.vaults 9) = (1, 1, 1, 0) := by decide

end Sos.Props.C20
