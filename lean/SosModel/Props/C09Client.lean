/-
  C09 / C04, the device's side of a sync whose reply reports a conflict
  (crates/remote_sync/src/remote.rs, `sync_account`, branch `has_conflicts`):
  the folders that are not in conflict are merged first, then the soft conflict is returned
  and the automatic merge runs.  A folder the server sent that does not exist on the device
  (deleted here, or created elsewhere, by account events that are themselves in conflict) must
  not end the call with an error: the conflict would never be handled and every later sync
  would fail the same way (the history `folder-deleted-vs-edited` of the sched harness).
-/
import SosModel.Generated
namespace Sos.Props.C09Client
open Sos

inductive Out where
  | softConflict            -- the caller goes on to `auto_merge`
  | error (folder : Nat)    -- `FolderNotFound`: the caller gives up
deriving DecidableEq, Repr

/-- The folder loop of the conflict branch.  `known f`: the folder exists on this device;
`guard`: the loop skips folders unknown here (as regenerated from the source). -/
def conflictBranch (guard endsSoft : Bool) (known : Nat → Bool) : List Nat → Option Out
  | [] => if endsSoft then some .softConflict else none
  | f :: fs =>
    if known f then conflictBranch guard endsSoft known fs
    else if guard then conflictBranch guard endsSoft known fs
    else some (.error f)

/-- what the current source does -/
def sourceGuard : Bool := Generated.conflictBranchFolderGuard == "skip-unknown-folder"

theorem conflict_branch_matches_source :
    Generated.conflictBranchFolderGuard = "skip-unknown-folder"
    ∧ Generated.conflictBranchEndsWithSoftConflict = true := by decide

/-- C09/C04.  Whatever folders the server's reply carries and whichever of them exist on the
device, a reply that reports a conflict ends in the soft conflict that starts the automatic
merge — never in an error. -/
theorem conflict_reply_always_reaches_auto_merge (known : Nat → Bool) (fs : List Nat) :
    conflictBranch sourceGuard Generated.conflictBranchEndsWithSoftConflict known fs
      = some .softConflict := by
  have hg : sourceGuard = true := by decide
  have he : Generated.conflictBranchEndsWithSoftConflict = true := by decide
  rw [hg, he]
  induction fs with
  | nil => rfl
  | cons f fs ih => unfold conflictBranch; split <;> simp [ih]

/-- Witness (the defect repaired by 48f1b15): without the guard one folder unknown on the
device ends the call with an error. -/
theorem unknown_folder_ended_the_sync_before_the_repair :
    conflictBranch false true (fun _ => false) [7] = some (.error 7) := by decide

example : conflictBranch true true (fun f => f == 1) [1, 7, 2] = some .softConflict := by decide

end Sos.Props.C09Client
