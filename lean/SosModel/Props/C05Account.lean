/-
  C05 across the account log: what `merge_account` does to the FOLDERS when the account log
  is replayed (crates/storage/client/src/sync.rs).  After a soft conflict the device's
  account log is rewound to the common ancestor and the merged patch — the other device's
  events AND the device's own, in time order — is applied again; every event that carries a
  vault buffer (`CreateFolder`, `UpdateFolder`, `CompactFolder`, `ChangeFolderPassword`)
  imports the folder from that buffer, which starts the folder's event log afresh.
-/
import SosModel.Base
namespace Sos.Props.C05
open Sos

/-- account-level events that matter here; a vault buffer is the list of folder events it holds -/
inductive AEv where
  | createFolder (id : Nat) (vault : List Nat)
  | compactFolder (id : Nat) (vault : List Nat)      -- also ChangeFolderPassword / UpdateFolder
  | renameFolder (id : Nat)
  | deleteFolder (id : Nat)
deriving DecidableEq, Repr

/-- the folders of a device: id ↦ the folder's event log -/
abbrev Folders := List (Nat × List Nat)

def Folders.get (fs : Folders) (id : Nat) : Option (List Nat) := fs.lookup id
def Folders.put (fs : Folders) (id : Nat) (log : List Nat) : Folders := (id, log) :: fs.filter (·.1 != id)

/-- `import_folder`: the folder's log now is what the buffer holds -/
def importFolder (fs : Folders) (id : Nat) (vault : List Nat) : Folders := fs.put id vault

/-- one event of the merged patch, as `merge_account` applies it (as repaired: a folder that
exists is not created again) -/
def applyEv (fs : Folders) : AEv → Folders
  | .createFolder id v => if (fs.get id).isSome then fs else importFolder fs id v
  | .compactFolder id v => importFolder fs id v
  | .renameFolder _ => fs
  | .deleteFolder id => fs.filter (·.1 != id)

def replay (fs : Folders) (patch : List AEv) : Folders := patch.foldl applyEv fs

theorem get_put_self (fs : Folders) (id : Nat) (log : List Nat) : (fs.put id log).get id = some log := by
  simp [Folders.get, Folders.put, List.lookup]

theorem get_put_other (fs : Folders) (id j : Nat) (log : List Nat) (h : j ≠ id) :
    (fs.put id log).get j = fs.get j := by
  unfold Folders.get Folders.put
  have hb : (j == id) = false := by simp [h]
  simp only [List.lookup, hb]
  induction fs with
  | nil => rfl
  | cons p ps ih =>
    by_cases e : p.1 = id
    · have : (p.1 != id) = false := by simp [e]
      have hj : (j == p.1) = false := by simp [e, h]
      simp [List.filter, this, List.lookup, hj, ih]
    · have : (p.1 != id) = true := by simp [e]
      simp only [List.filter, this, List.lookup]
      cases hjp : (j == p.1) with
      | true => rfl
      | false => exact ih

/-- C05/account.  Replaying creation events — the device's own or anybody's — never
touches a folder that exists: whatever was added to it since its creation is kept. -/
theorem create_replay_keeps_existing_folder (fs : Folders) (id : Nat) (log : List Nat)
    (h : fs.get id = some log) (patch : List AEv)
    (hp : ∀ e ∈ patch, ∃ j v, e = .createFolder j v ∨ e = .renameFolder j) :
    (replay fs patch).get id = some log := by
  unfold replay
  induction patch generalizing fs with
  | nil => exact h
  | cons e rest ih =>
    simp only [List.foldl_cons]
    apply ih
    · obtain ⟨j, v, he | he⟩ := hp e (by simp)
      · subst he
        simp only [applyEv]
        split
        · exact h
        · rename_i hn
          have hj : id ≠ j := by
            intro e2; subst e2; simp [h] at hn
          unfold importFolder
          rw [get_put_other _ _ _ _ hj]; exact h
      · subst he; simpa [applyEv] using h
    · intro e' he'; exact hp e' (by simp [he'])

/-- Witness (KNOWN FINDING C05/own-account-events-replayed): the device compacted folder 7
(the buffer holds event 1), then added event 2; another device created folder 8.  The
replayed patch resets folder 7 to the buffer: event 2 is gone. -/
theorem own_compact_replay_loses_later_events :
    (replay [(7, [1, 2])] [.compactFolder 7 [1], .createFolder 8 [5]]).get 7 = some [1] := by decide

/-- before the repair the same happened to a folder the device had created itself -/
example : (importFolder [(7, [1, 2])] 7 [1]).get 7 = some [1] := by decide

end Sos.Props.C05
