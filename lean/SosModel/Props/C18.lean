/-
  C18  Backup archives restore the same account and cannot escape their target.
-/
import SosModel.Archive
namespace Sos.Props.C18
open Sos Sos.Archive

theorem lookup_self (pre post : List Entry) (e : Entry) (h : ∀ x ∈ pre, x.name ≠ e.name) :
    lookup (pre ++ e :: post) e.name = some e.bytes := by
  unfold lookup
  induction pre with
  | nil => simp
  | cons p rest ih =>
    have hp : ¬ p.name = e.name := h p (by simp)
    simp only [List.cons_append, List.find?_cons, hp, decide_false]
    exact ih (fun x hx => h x (by simp [hx]))

theorem verify_exported (all : List Entry) (hn : (all.map (·.name)).Nodup) :
    ∀ (done todo : List Entry), all = done ++ todo →
      verifyAll (exportArchive all) (todo.map fun e => (e.name, H.leaf e.bytes)) = .ok todo := by
  intro done todo
  induction todo generalizing done with
  | nil => intro _; rfl
  | cons e rest ih =>
    intro hsplit
    simp only [List.map_cons, verifyAll]
    have hpre : ∀ x ∈ done, x.name ≠ e.name := by
      intro x hx heq
      rw [hsplit] at hn
      simp only [List.map_append, List.map_cons] at hn
      have := (List.nodup_append.mp hn).2.2 x.name (List.mem_map_of_mem hx) e.name (by simp)
      exact this heq
    have hl : lookup (exportArchive all).entries e.name = some e.bytes := by
      simp only [exportArchive]; rw [hsplit]; exact lookup_self done rest e hpre
    rw [hl]
    simp only [if_true]
    rw [ih (done ++ [e]) (by rw [hsplit]; simp)]

/-- C18/1.  Importing what was exported restores exactly the exported parts (vaults, event
logs, attachments), for any account with distinct entry names. -/
theorem import_of_export_restores (parts : List Entry) (hn : (parts.map (·.name)).Nodup) :
    importArchive (exportArchive parts) = .ok parts := by
  unfold importArchive
  exact verify_exported parts hn [] parts rfl

/-- C18/2.  An archive in which a manifest-listed entry does not hash to its checksum (a
changed content byte, a changed checksum digit, a swapped entry) is rejected. -/
theorem checksum_mismatch_rejected (a : Archive) (n : Nat) (h : H) (b : Bytes) (rest : List (Nat × H))
    (hl : lookup a.entries n = some b) (hne : H.leaf b ≠ h) :
    verifyAll a ((n, h) :: rest) = .error (.checksumMismatch n) := by
  simp [verifyAll, hl, hne]

theorem missing_entry_rejected (a : Archive) (n : Nat) (h : H) (rest : List (Nat × H))
    (hl : lookup a.entries n = none) :
    verifyAll a ((n, h) :: rest) = .error (.missingEntry n) := by
  simp [verifyAll, hl]

/-- a rejected import restores nothing -/
theorem rejected_restores_nothing (a : Archive) (e : ImportError) (h : importArchive a = .error e) :
    ∀ es, importArchive a ≠ .ok es := by
  intro es he; rw [h] at he; cases he

/-- C18/3.  No entry name can cause a write outside the import target: after sanitising, the
walk from any depth never goes above it, whatever the name contains (`..`, absolute or
drive-prefixed paths, nested `x/../../y`). -/
theorem sanitized_never_escapes (p : List Comp) (d : Nat) :
    ∃ d', walk d (sanitizePath p) = some d' ∧ d ≤ d' := by
  induction p generalizing d with
  | nil => exact ⟨d, rfl, Nat.le_refl _⟩
  | cons c rest ih =>
    cases c with
    | normal s =>
      obtain ⟨d', h1, h2⟩ := ih (d + 1)
      exact ⟨d', by simpa [sanitizePath, sanitizeComp, walk] using h1, by omega⟩
    | dotdot =>
      obtain ⟨d', h1, h2⟩ := ih d
      exact ⟨d', by simpa [sanitizePath, sanitizeComp, walk] using h1, h2⟩
    | dot =>
      obtain ⟨d', h1, h2⟩ := ih d
      exact ⟨d', by simpa [sanitizePath, sanitizeComp, walk] using h1, h2⟩
    | empty =>
      obtain ⟨d', h1, h2⟩ := ih d
      exact ⟨d', by simpa [sanitizePath, sanitizeComp, walk] using h1, h2⟩

/-- without sanitising the same names do escape (the check is not vacuous) -/
example : walk 0 [.dotdot, .normal 1] = none := by decide
example : importArchive (exportArchive [{ name := 1, bytes := [1] }, { name := 2, bytes := [2, 3] }]) =
    .ok [{ name := 1, bytes := [1] }, { name := 2, bytes := [2, 3] }] :=
  import_of_export_restores _ (by decide)

end Sos.Props.C18
