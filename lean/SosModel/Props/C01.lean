/-
  C01  Folder contents obey read-your-writes and survive reload.
  The served folder is the `Vault` of the Folder model; persisted state is the event log
  (and the vault mirror, which the access point writes before memory on every mutation).
  Reload = rebuild from the log / mirror; `C02.local_history_consistent` gives
  `reduce log = vault`, so the answers after sign-out/sign-in are the answers before.
-/
import SosModel.Props.C02
namespace Sos.Props.C01
open Sos Sos.Folder

theorem get?_insert_self (s : Secrets) (id v : Nat) : (Secrets.insert s id v).get? id = some v := by
  induction s with
  | nil => simp [Secrets.insert, Secrets.get?]
  | cons p rest ih =>
    obtain ⟨k, w⟩ := p
    by_cases h : k = id
    · subst h; simp [Secrets.insert, Secrets.get?]
    · simp [Secrets.insert, Secrets.get?, h, ih]

theorem get?_insert_other (s : Secrets) (id id' v : Nat) (hne : id' ≠ id) :
    (Secrets.insert s id v).get? id' = s.get? id' := by
  induction s with
  | nil =>
    have : ¬ id = id' := fun e => hne e.symm
    simp [Secrets.insert, Secrets.get?, this]
  | cons p rest ih =>
    obtain ⟨k, w⟩ := p
    by_cases h : k = id
    · have h' : ¬ k = id' := fun e => hne (e ▸ h)
      have h'' : ¬ id = id' := fun e => hne e.symm
      simp only [Secrets.insert, h, if_true, Secrets.get?, h', h'', if_false]
    · simp only [Secrets.insert, h, if_false, Secrets.get?]
      by_cases h2 : k = id'
      · simp [h2]
      · simp [h2, ih]

theorem get?_remove_self (s : Secrets) (id : Nat) : (Secrets.remove s id).get? id = none := by
  rw [get?_none_iff]
  simp [Secrets.remove, keys]

theorem get?_remove_other (s : Secrets) (id id' : Nat) (hne : id' ≠ id) :
    (Secrets.remove s id).get? id' = s.get? id' := by
  induction s with
  | nil => rfl
  | cons p rest ih =>
    obtain ⟨k, w⟩ := p
    have ih' : Secrets.get? (List.filter (fun x => decide (x.1 ≠ id)) rest) id' = Secrets.get? rest id' := ih
    show Secrets.get? (List.filter (fun x => decide (x.1 ≠ id)) ((k, w) :: rest)) id' = _
    rw [List.filter_cons]
    by_cases h : k = id
    · have h' : ¬ k = id' := fun e => hne (e ▸ h)
      have hd : decide ((k, w).1 ≠ id) = false := by simp [h]
      rw [hd]
      simp only [Bool.false_eq_true, if_false, Secrets.get?, h']
      exact ih'
    · have hd : decide ((k, w).1 ≠ id) = true := by simp [h]
      rw [hd]
      simp only [if_true, Secrets.get?]
      by_cases h2 : k = id'
      · simp [h2]
      · simp only [h2, if_false]; exact ih'

/-- C01/1.  Read-your-writes: after creating (with a fresh id) or updating a secret,
reading it returns exactly what was written; every other secret reads as before. -/
theorem read_after_create (f : Folder) (id v : Nat) (hfresh : f.vault.secrets.get? id = none) :
    (f.step (.create id v)).vault.secrets.get? id = some v := by
  have hk := get?_none_iff.mp hfresh
  simp [Folder.step, applyOp, Secrets.insertIfAbsent, hfresh, get?_append_absent hk]

theorem read_after_update (f : Folder) (id v : Nat) (hp : (f.vault.secrets.get? id).isSome) :
    (f.step (.update id v)).vault.secrets.get? id = some v := by
  simp [Folder.step, applyOp, hp, get?_insert_self]

theorem others_unchanged_by_update (f : Folder) (id id' v : Nat) (hne : id' ≠ id) :
    (f.step (.update id v)).vault.secrets.get? id' = f.vault.secrets.get? id' := by
  unfold Folder.step applyOp
  by_cases hp : (f.vault.secrets.get? id).isSome
  · simp [hp, get?_insert_other _ _ _ _ hne]
  · simp [hp]

/-- C01/2.  A deleted secret is absent; the others are untouched. -/
theorem deleted_is_absent (f : Folder) (id : Nat) :
    (f.step (.delete id)).vault.secrets.get? id = none := by
  unfold Folder.step applyOp
  by_cases hp : (f.vault.secrets.get? id).isSome
  · simp [hp, get?_remove_self]
  · simp only [hp]
    cases h : f.vault.secrets.get? id with
    | none => simp [h]
    | some _ => simp [h] at hp

theorem others_unchanged_by_delete (f : Folder) (id id' : Nat) (hne : id' ≠ id) :
    (f.step (.delete id)).vault.secrets.get? id' = f.vault.secrets.get? id' := by
  unfold Folder.step applyOp
  by_cases hp : (f.vault.secrets.get? id).isSome
  · simp [hp, get?_remove_other _ _ _ hne]
  · simp [hp]

/-- C01/3.  Listing a folder yields exactly the live ids: an id is listed iff reading it
succeeds. -/
theorem listed_iff_readable (f : Folder) (id : Nat) :
    id ∈ keys f.vault.secrets ↔ (f.vault.secrets.get? id).isSome := by
  constructor
  · intro h
    cases hg : f.vault.secrets.get? id with
    | none => exact absurd h (get?_none_iff.mp hg)
    | some _ => rfl
  · intro h
    cases Classical.em (id ∈ keys f.vault.secrets) with
    | inl hm => exact hm
    | inr hn =>
      rw [get?_none_iff.mpr hn] at h
      cases h

/-- C01/4.  Moving a secret (delete in the source folder, create in the destination) leaves
it in exactly one folder. -/
theorem moved_secret_in_exactly_one_folder (src dst : Folder) (id v : Nat)
    (hfresh : dst.vault.secrets.get? id = none) :
    (src.step (.delete id)).vault.secrets.get? id = none ∧
    (dst.step (.create id v)).vault.secrets.get? id = some v :=
  ⟨deleted_is_absent src id, read_after_create dst id v hfresh⟩

/-- C01/5.  The same answers after reload: rebuilding the folder from its persisted event
log gives exactly the served vault, after any history of operations. -/
theorem reload_gives_same_answers (n fl d : Nat) (ops : List Op) (id : Nat) :
    let f := ops.foldl Folder.step (Folder.new n fl d)
    (reduce f.log).map (fun v => v.secrets.get? id) = some (f.vault.secrets.get? id) := by
  intro f
  have := C02.local_history_consistent n fl d ops
  unfold C02.Consistent at this
  rw [this]; rfl

/-- Witness: at the folder-level API a caller may re-use an id; `create` then keeps the OLD
value (`or_insert`) and the returned event carries the old value, so the log and the vault
still agree but the write is not read back.  (Account-level ids are always fresh.) -/
theorem reused_id_create_keeps_old_value :
    let f := [Op.create 1 5, Op.create 1 9].foldl Folder.step (Folder.new 0 0 0)
    f.vault.secrets.get? 1 = some 5 ∧ C02.Consistent f := by
  refine ⟨by decide, ?_⟩
  exact C02.local_history_consistent 0 0 0 _

end Sos.Props.C01
