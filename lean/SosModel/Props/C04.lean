/-
  C04  Devices and server converge once edits stop and everyone syncs.
  `syncLog` is one sequential `sync` call of a device for one event log (all log types
  run the same algorithm); the correspondence run replays every real sync call's per-log
  transition on it.
-/
import SosModel.Lemmas.Sync
import SosModel.Props.C05
namespace Sos.Props.C04
open Sos Sos.Merkle Sos.Log Sos.Sync

/-- C04/1.  Logs that already agree are left alone. -/
theorem in_sync_unchanged (l r : LogSeq) (h : commits l = commits r) :
    syncLog l r = (l, r, .inSync) := by
  unfold syncLog; simp [h]

/-- C04/2.  Fast-forward push: the server holds a proper prefix of the device's log (whose
last commit does not recur later): one sync call makes the server equal to the device. -/
theorem fast_forward_push_converges (pre a : LogSeq) (x : Rec) (ha : a ≠ [])
    (hat : C08.Atoms (commits (pre ++ x :: a))) (hx : ∀ y ∈ a, y.commit ≠ x.commit) :
    syncLog (pre ++ x :: a) (pre ++ [x]) = (pre ++ x :: a, pre ++ x :: a, .pushed) := by
  unfold syncLog
  have hne : commits (pre ++ x :: a) ≠ commits (pre ++ [x]) := by
    intro e
    have := congrArg List.length e
    simp [commits] at this
    cases a with
    | nil => exact ha rfl
    | cons _ _ => simp at this
  rw [if_neg hne, offer_prefix pre a x ha hat hx]
  simp

/-- C04/3.  Fast-forward pull: the device holds a proper prefix of the server's log: one
sync call makes the device equal to the server. -/
theorem fast_forward_pull_converges (pre b : LogSeq) (x : Rec) (hb : b ≠ [])
    (hat : C08.Atoms (commits (pre ++ x :: b))) (hx : ∀ y ∈ b, y.commit ≠ x.commit) :
    syncLog (pre ++ [x]) (pre ++ x :: b) = (pre ++ x :: b, pre ++ x :: b, .pulled) := by
  unfold syncLog
  have hlen : (commits (pre ++ [x])).length < (commits (pre ++ x :: b)).length := by
    simp [commits]
    cases b with
    | nil => exact absurd rfl hb
    | cons _ _ => simp
  have hne : commits (pre ++ [x]) ≠ commits (pre ++ x :: b) := by
    intro e; rw [e] at hlen; omega
  have hoat : C08.Atoms (commits (pre ++ [x])) := by
    intro y hy; apply hat
    simp only [commits, List.map_append, List.map_cons, List.mem_append, List.mem_map,
      List.mem_cons] at hy ⊢
    rcases hy with h | h
    · exact Or.inl h
    · rcases h with h | h
      · exact Or.inr (Or.inl h)
      · simp at h
  have hnp : ¬ commits (pre ++ x :: b) <+: commits (pre ++ [x]) := by
    intro h; have := h.length_le; omega
  rw [if_neg hne]
  rw [offer_compare_of_not_prefix _ _ hoat hat (by simp) (by simp) hne hnp]
  simp only
  rw [offer_prefix pre b x hb hat hx]
  simp

/-- The ancestor search finds the end of the common prefix when nothing after it agrees. -/
theorem scan_finds_ancestor (pre a b : LogSeq) (x : Rec)
    (hl : C08.Atoms (commits (pre ++ x :: a))) (hr : C08.Atoms (commits (pre ++ x :: b)))
    (hdis : ∀ (j : Nat) (c : H), (commits a)[j]? = some c → (commits b)[j]? ≠ some c) :
    ∃ cp, head (commits (pre ++ [x])) = some cp ∧
      ancestor (pre ++ x :: a) (pre ++ x :: b) = .found pre.length x.commit cp := by
  have hsplit : ∀ t : LogSeq, commits (pre ++ x :: t) = commits (pre ++ [x]) ++ commits t := by
    intro t; simp [commits]
  have hbn : commits (pre ++ [x]) ≠ [] := commits_ne_nil (by simp)
  obtain ⟨cp, hcp⟩ := head_some hbn
  refine ⟨cp, hcp, ?_⟩
  unfold ancestor scan
  have hre : (commits (pre ++ x :: b)).isEmpty = false := by simp [commits]
  rw [hre]
  simp only [Bool.false_eq_true, if_false]
  have hlen : (commits (pre ++ [x])).length = pre.length + 1 := by simp [commits]
  have hsd := C08.scan_finds_lcp_partial (commits (pre ++ [x])) (commits a) (commits b) hbn
    (by rw [← hsplit]; exact hl) (by rw [← hsplit]; exact hr) hdis
  rw [← hsplit, ← hsplit, hlen] at hsd
  simp only [Nat.add_sub_cancel] at hsd
  -- the first commits agree
  have hm0 : matchAt (commits (pre ++ x :: a)) (commits (pre ++ x :: b)) 0 = true := by
    rw [C08.matchAt_iff _ _ hl hr 0 (by simp [commits]; omega)]
    cases pre with
    | nil => simp [commits]
    | cons p ps => simp [commits]
  rw [hm0]
  simp only [Bool.not_true, Bool.false_eq_true, if_false]
  rw [hsd]
  simp only
  have hget : (commits (pre ++ x :: a))[pre.length]? = some x.commit := by simp [commits]
  rw [hget]
  have htake : (commits (pre ++ x :: a)).take (pre.length + 1) = commits (pre ++ [x]) := by
    rw [hsplit, List.take_append, hlen]
    simp [List.take_of_length_le, hlen]
  rw [htake, hcp]

/-- the merged suffix of two divergent suffixes -/
def mergedSuffix (a b : LogSeq) : LogSeq := sortByTime (a.filter (notIn b) ++ b)

/-- C04/4 (partial).  Soft conflict: both sides appended events to a shared prefix; the two
suffixes may SHARE events (an event both hold, or the same event made on both) as long as
no commit is repeated within one replica's log, the suffixes differ at every equal position
and the device has at least one event the server lacks.  One sync call leaves device and
server with the same log: the shared prefix followed by the merged suffix (the device's
events the server lacks and the server's events, in stable timestamp order).  Without the
positional hypothesis the statement is false of the code: `identical_tail_no_convergence`. -/
theorem auto_merge_converges_partial (pre a b : LogSeq) (x : Rec) (ha : a ≠ []) (hb : b ≠ [])
    (hl : C08.Atoms (commits (pre ++ x :: a))) (hr : C08.Atoms (commits (pre ++ x :: b)))
    (hndl : (commits (pre ++ x :: a)).Nodup) (hndr : (commits (pre ++ x :: b)).Nodup)
    (hdis : ∀ (j : Nat) (c : H), (commits a)[j]? = some c → (commits b)[j]? ≠ some c)
    (hnew : ∃ y ∈ a, y.commit ∉ commits b) :
    syncLog (pre ++ x :: a) (pre ++ x :: b) =
      (pre ++ x :: mergedSuffix a b, pre ++ x :: mergedSuffix a b, .merged) := by
  have hxs : ∀ (s : LogSeq), (commits (pre ++ x :: s)).Nodup → ∀ y ∈ s, y.commit ≠ x.commit := by
    intro s hs y hy e
    have h1 : (commits pre ++ x.commit :: commits s).Nodup := by simpa [commits] using hs
    have h2 := (List.nodup_cons.mp (List.nodup_append.mp h1).2.1).1
    apply h2; rw [← e]; exact List.mem_map_of_mem hy
  have hxa := hxs a hndl
  have hxb := hxs b hndr
  obtain ⟨a0, at_, rfl⟩ : ∃ a0 at_, a = a0 :: at_ := by
    cases a with
    | nil => exact absurd rfl ha
    | cons a0 at_ => exact ⟨a0, at_, rfl⟩
  obtain ⟨b0, bt, rfl⟩ : ∃ b0 bt, b = b0 :: bt := by
    cases b with
    | nil => exact absurd rfl hb
    | cons b0 bt => exact ⟨b0, bt, rfl⟩
  have h00 : a0.commit ≠ b0.commit := by
    intro e
    exact hdis 0 a0.commit (by simp [commits]) (by simp [commits, e])
  -- the two logs differ and neither is a prefix of the other
  have hsplit : ∀ t : LogSeq, commits (pre ++ x :: t) = commits (pre ++ [x]) ++ commits t := by
    intro t; simp [commits]
  have hnpre : ∀ (s0 t0 : Rec) (s t : LogSeq), s0.commit ≠ t0.commit →
      ¬ commits (pre ++ x :: s0 :: s) <+: commits (pre ++ x :: t0 :: t) := by
    intro s0 t0 s t hst ⟨w, hw⟩
    rw [hsplit (s0 :: s), hsplit (t0 :: t), List.append_assoc] at hw
    have hw2 := List.append_cancel_left hw
    simp only [commits, List.map_cons, List.cons_append, List.cons.injEq] at hw2
    exact hst hw2.1
  have hne : commits (pre ++ x :: a0 :: at_) ≠ commits (pre ++ x :: b0 :: bt) := by
    intro e
    exact hnpre a0 b0 at_ bt h00 ⟨[], by rw [e]; simp⟩
  have hnp1 := hnpre b0 a0 bt at_ (Ne.symm h00)
  have hnp2 := hnpre a0 b0 at_ bt h00
  unfold syncLog
  rw [if_neg hne]
  rw [offer_compare_of_not_prefix _ _ hl hr (by simp) (by simp) hne hnp1]
  simp only
  rw [offer_compare_of_not_prefix _ _ hr hl (by simp) (by simp) (Ne.symm hne) hnp2]
  simp only
  obtain ⟨cp, _, hanc⟩ := scan_finds_ancestor pre (a0 :: at_) (b0 :: bt) x hl hr hdis
  rw [hanc]
  simp only
  rw [after_unique pre (a0 :: at_) x hxa, after_unique pre (b0 :: bt) x hxb,
    upTo_unique pre (a0 :: at_) x hxa, upTo_unique pre (b0 :: bt) x hxb]
  simp only
  have hmp : mergePatches (a0 :: at_) (b0 :: bt) = .pushRemote (mergedSuffix (a0 :: at_) (b0 :: bt)) := by
    unfold mergePatches mergedSuffix
    have : ((commits (a0 :: at_)).all fun c => (commits (b0 :: bt)).contains c) = false := by
      rw [Bool.eq_false_iff]
      intro hall
      simp only [List.all_eq_true, List.contains_iff_mem] at hall
      obtain ⟨y, hy, hyn⟩ := hnew
      have := hall y.commit (List.mem_map_of_mem hy)
      exact hyn (by simpa using this)
    rw [this]; simp
  rw [hmp]
  simp only
  have htake : (pre ++ x :: a0 :: at_).take (pre.length + 1) = pre ++ [x] := by
    rw [List.take_append]; simp [List.take_of_length_le]
  rw [htake]
  simp

/-- C04/5.  The device's events since the ancestor are all on the server already (an earlier
merge of this device's events was pushed by ANOTHER device's sync, interleaved with others):
one sync call rewinds the device to the ancestor and applies the server's suffix — the device
becomes equal to the server, the server is untouched. -/
theorem auto_merge_subset_rewinds (pre a b : LogSeq) (x : Rec) (ha : a ≠ []) (hb : b ≠ [])
    (hl : C08.Atoms (commits (pre ++ x :: a))) (hr : C08.Atoms (commits (pre ++ x :: b)))
    (hndl : (commits (pre ++ x :: a)).Nodup) (hndr : (commits (pre ++ x :: b)).Nodup)
    (hdis : ∀ (j : Nat) (c : H), (commits a)[j]? = some c → (commits b)[j]? ≠ some c)
    (hsub : ∀ y ∈ a, y.commit ∈ commits b) :
    syncLog (pre ++ x :: a) (pre ++ x :: b) = (pre ++ x :: b, pre ++ x :: b, .rewound) := by
  have hxs : ∀ (s : LogSeq), (commits (pre ++ x :: s)).Nodup → ∀ y ∈ s, y.commit ≠ x.commit := by
    intro s hs y hy e
    have h1 : (commits pre ++ x.commit :: commits s).Nodup := by simpa [commits] using hs
    have h2 := (List.nodup_cons.mp (List.nodup_append.mp h1).2.1).1
    apply h2; rw [← e]; exact List.mem_map_of_mem hy
  have hxa := hxs a hndl
  have hxb := hxs b hndr
  obtain ⟨a0, at_, rfl⟩ : ∃ a0 at_, a = a0 :: at_ := by
    cases a with
    | nil => exact absurd rfl ha
    | cons a0 at_ => exact ⟨a0, at_, rfl⟩
  obtain ⟨b0, bt, rfl⟩ : ∃ b0 bt, b = b0 :: bt := by
    cases b with
    | nil => exact absurd rfl hb
    | cons b0 bt => exact ⟨b0, bt, rfl⟩
  have h00 : a0.commit ≠ b0.commit := by
    intro e
    exact hdis 0 a0.commit (by simp [commits]) (by simp [commits, e])
  have hsplit : ∀ t : LogSeq, commits (pre ++ x :: t) = commits (pre ++ [x]) ++ commits t := by
    intro t; simp [commits]
  have hnpre : ∀ (s0 t0 : Rec) (s t : LogSeq), s0.commit ≠ t0.commit →
      ¬ commits (pre ++ x :: s0 :: s) <+: commits (pre ++ x :: t0 :: t) := by
    intro s0 t0 s t hst ⟨w, hw⟩
    rw [hsplit (s0 :: s), hsplit (t0 :: t), List.append_assoc] at hw
    have hw2 := List.append_cancel_left hw
    simp only [commits, List.map_cons, List.cons_append, List.cons.injEq] at hw2
    exact hst hw2.1
  have hne : commits (pre ++ x :: a0 :: at_) ≠ commits (pre ++ x :: b0 :: bt) := by
    intro e
    exact hnpre a0 b0 at_ bt h00 ⟨[], by rw [e]; simp⟩
  have hnp1 := hnpre b0 a0 bt at_ (Ne.symm h00)
  have hnp2 := hnpre a0 b0 at_ bt h00
  unfold syncLog
  rw [if_neg hne]
  rw [offer_compare_of_not_prefix _ _ hl hr (by simp) (by simp) hne hnp1]
  simp only
  rw [offer_compare_of_not_prefix _ _ hr hl (by simp) (by simp) (Ne.symm hne) hnp2]
  simp only
  obtain ⟨cp, _, hanc⟩ := scan_finds_ancestor pre (a0 :: at_) (b0 :: bt) x hl hr hdis
  rw [hanc]
  simp only
  rw [after_unique pre (a0 :: at_) x hxa, after_unique pre (b0 :: bt) x hxb,
    upTo_unique pre (a0 :: at_) x hxa, upTo_unique pre (b0 :: bt) x hxb]
  simp only
  have hmp : mergePatches (a0 :: at_) (b0 :: bt) = .rewindLocal (b0 :: bt) :=
    C05.subset_takes_remote _ _ (by
      intro c hc
      obtain ⟨y, hy, rfl⟩ := List.mem_map.mp hc
      exact hsub y hy)
  rw [hmp]
  simp only
  have htake : (pre ++ x :: a0 :: at_).take (pre.length + 1) = pre ++ [x] := by
    rw [List.take_append]; simp [List.take_of_length_le]
  rw [htake]
  simp

/-- Corollary: with pairwise distinct events everywhere the merged suffix is the stable
timestamp-ordered union of both suffixes. -/
theorem auto_merge_converges_distinct (pre a b : LogSeq) (x : Rec) (ha : a ≠ []) (hb : b ≠ [])
    (hl : C08.Atoms (commits (pre ++ x :: a))) (hr : C08.Atoms (commits (pre ++ x :: b)))
    (hnd : (commits (pre ++ x :: (a ++ b))).Nodup) :
    syncLog (pre ++ x :: a) (pre ++ x :: b) =
      (pre ++ x :: sortByTime (a ++ b), pre ++ x :: sortByTime (a ++ b), .merged) := by
  have hnd' : (commits pre ++ x.commit :: (commits a ++ commits b)).Nodup := by
    simpa [commits] using hnd
  have hp := List.nodup_append.mp hnd'
  have hnd2 := hp.2.1
  have hab : (commits a ++ commits b).Nodup := (List.nodup_cons.mp hnd2).2
  have hx_ab : x.commit ∉ commits a ++ commits b := (List.nodup_cons.mp hnd2).1
  have hdisj : ∀ c, c ∈ commits a → c ∉ commits b := by
    intro c h1 h2
    exact (List.nodup_append.mp hab).2.2 c h1 c h2 rfl
  have hndl : (commits (pre ++ x :: a)).Nodup := by
    have : commits (pre ++ x :: a) = commits pre ++ x.commit :: commits a := by simp [commits]
    rw [this, List.nodup_append]
    refine ⟨hp.1, ?_, ?_⟩
    · rw [List.nodup_cons]
      exact ⟨fun h => hx_ab (List.mem_append_left _ h), (List.nodup_append.mp hab).1⟩
    · intro u hu v hv
      apply hp.2.2 u hu v
      rcases List.mem_cons.mp hv with h | h
      · exact List.mem_cons.mpr (Or.inl h)
      · exact List.mem_cons.mpr (Or.inr (List.mem_append_left _ h))
  have hndr : (commits (pre ++ x :: b)).Nodup := by
    have : commits (pre ++ x :: b) = commits pre ++ x.commit :: commits b := by simp [commits]
    rw [this, List.nodup_append]
    refine ⟨hp.1, ?_, ?_⟩
    · rw [List.nodup_cons]
      exact ⟨fun h => hx_ab (List.mem_append_right _ h), (List.nodup_append.mp hab).2.1⟩
    · intro u hu v hv
      apply hp.2.2 u hu v
      rcases List.mem_cons.mp hv with h | h
      · exact List.mem_cons.mpr (Or.inl h)
      · exact List.mem_cons.mpr (Or.inr (List.mem_append_right _ h))
  have hdis : ∀ (j : Nat) (c : H), (commits a)[j]? = some c → (commits b)[j]? ≠ some c := by
    intro j c h1 h2
    exact hdisj c (List.mem_of_getElem? h1) (List.mem_of_getElem? h2)
  have hnew : ∃ y ∈ a, y.commit ∉ commits b := by
    cases a with
    | nil => exact absurd rfl ha
    | cons a0 at_ => exact ⟨a0, by simp, hdisj a0.commit (by simp [commits])⟩
  have hfil : a.filter (notIn b) = a := by
    rw [List.filter_eq_self]
    intro y hy
    have := hdisj y.commit (List.mem_map_of_mem hy)
    simp [notIn, this]
  have := auto_merge_converges_partial pre a b x ha hb hl hr hndl hndr hdis hnew
  rw [this, mergedSuffix, hfil]

/-! ### composition over three replicas -/

/-- an element's index in a sublist is at most its index in the (duplicate-free) list -/
theorem sublist_index_le {α : Type} [DecidableEq α] {a l : List α} (h : a.Sublist l) (hn : l.Nodup)
    (j i : Nat) (c : α) (hj : a[j]? = some c) (hi : l[i]? = some c) : j ≤ i := by
  induction h generalizing j i with
  | slnil => simp at hj
  | @cons a' l' y hs ih =>
    have hn' := (List.nodup_cons.mp hn).2
    cases i with
    | zero =>
      simp at hi
      subst hi
      have : y ∈ l' := hs.subset (List.mem_of_getElem? hj)
      exact absurd this (List.nodup_cons.mp hn).1
    | succ i' =>
      simp at hi
      have := ih hn' j i' hj hi
      omega
  | @cons_cons a'' l'' y hs ih =>
    have hn' := (List.nodup_cons.mp hn).2
    cases j with
    | zero => omega
    | succ j' =>
      simp at hj
      cases i with
      | zero =>
        simp at hi
        subst hi
        have : y ∈ l'' := hs.subset (List.mem_of_getElem? hj)
        exact absurd this (List.nodup_cons.mp hn).1
      | succ i' =>
        simp at hi
        have := ih hn' j' i' hj hi
        omega

/-- if a sublist and the list hold the same element at the same index, they agree up to it -/
theorem sublist_same_index_take {α : Type} [DecidableEq α] {a l : List α} (h : a.Sublist l) (hn : l.Nodup)
    (j : Nat) (c : α) (hj : a[j]? = some c) (hi : l[j]? = some c) : a.take (j + 1) = l.take (j + 1) := by
  induction h generalizing j with
  | slnil => simp at hj
  | @cons a' l' y hs ih =>
    have hn' := (List.nodup_cons.mp hn).2
    cases j with
    | zero =>
      simp at hi
      subst hi
      have : y ∈ l' := hs.subset (List.mem_of_getElem? hj)
      exact absurd this (List.nodup_cons.mp hn).1
    | succ j' =>
      simp at hi
      have := sublist_index_le hs hn' (j' + 1) j' c hj hi
      omega
  | @cons_cons a'' l'' y hs ih =>
    have hn' := (List.nodup_cons.mp hn).2
    cases j with
    | zero => simp
    | succ j' =>
      simp at hj hi
      simp [ih hn' j' hj hi]

/-- after the first position where a sublist and the list differ, they differ at every position -/
theorem sublist_positions_differ {α : Type} [DecidableEq α] {a l : List α} (h : a.Sublist l) (hn : l.Nodup)
    (h0 : a.head? ≠ l.head? ∨ a = []) :
    ∀ (j : Nat) (c : α), a[j]? = some c → l[j]? ≠ some c := by
  intro j c hj hi
  rcases h0 with h0 | h0
  · have ht := sublist_same_index_take h hn j c hj hi
    apply h0
    cases a with
    | nil => simp at hj
    | cons x xs =>
      cases l with
      | nil => simp at hi
      | cons y ys =>
        simp only [List.take_succ_cons, List.cons.injEq] at ht
        simp [ht.1]
  · subst h0; simp at hj


open C05 in
theorem insert_sublist (r : Rec) (l : LogSeq) : l.Sublist (sortByTime.insertByTime' r l) := by
  induction l with
  | nil => simp [sortByTime.insertByTime']
  | cons y ys ih =>
    unfold sortByTime.insertByTime'
    split
    · exact List.Sublist.cons_cons y ih
    · exact List.Sublist.cons r (List.Sublist.refl _)

theorem sort_of_sorted (l : LogSeq) (h : C05.SortedT l) : sortByTime l = l := by
  induction l with
  | nil => rfl
  | cons x xs ih =>
    have hx := List.pairwise_cons.mp h
    unfold sortByTime
    rw [ih hx.2]
    cases xs with
    | nil => rfl
    | cons y ys =>
      unfold sortByTime.insertByTime'
      have : ¬ y.time < x.time := by have := hx.1 y (by simp); omega
      simp [this]

/-- a device's own (time-ordered) events keep their order inside the merged suffix -/
theorem sorted_sublist_of_merge (a b : LogSeq) (h : C05.SortedT a) : a.Sublist (sortByTime (b ++ a)) := by
  induction b with
  | nil => simp [sort_of_sorted a h]
  | cons y ys ih =>
    simp only [List.cons_append]
    unfold sortByTime
    exact ih.trans (insert_sublist y _)

/-- two lists split at their first difference -/
theorem split_first_difference {α : Type} [DecidableEq α] (a m : List α) :
    ∃ p a' m', a = p ++ a' ∧ m = p ++ m' ∧ (a' = [] ∨ m' = [] ∨ a'.head? ≠ m'.head?) := by
  induction a generalizing m with
  | nil => exact ⟨[], [], m, rfl, rfl, Or.inl rfl⟩
  | cons x xs ih =>
    cases m with
    | nil => exact ⟨[], x :: xs, [], rfl, rfl, Or.inr (Or.inl rfl)⟩
    | cons y ys =>
      by_cases e : x = y
      · subst e
        obtain ⟨p, a', m', h1, h2, h3⟩ := ih ys
        exact ⟨x :: p, a', m', by simp [h1], by simp [h2], h3⟩
      · exact ⟨[], x :: xs, y :: ys, rfl, rfl, Or.inr (Or.inr (by simp [e]))⟩


theorem commits_sublist {a m : LogSeq} (h : a.Sublist m) : (commits a).Sublist (commits m) :=
  List.Sublist.map _ h

theorem atoms_of_subset {l l' : List H} (h : C08.Atoms l) (hs : ∀ x ∈ l', x ∈ l) : C08.Atoms l' :=
  fun x hx => h x (hs x hx)

theorem exists_snoc (l : LogSeq) (h : l ≠ []) : ∃ q y, l = q ++ [y] := by
  induction l with
  | nil => exact absurd rfl h
  | cons z zs ih =>
    cases zs with
    | nil => exact ⟨[], z, rfl⟩
    | cons w ws =>
      obtain ⟨q, y, e⟩ := ih (by simp)
      exact ⟨z :: q, y, by rw [e]; simp⟩

/-- records of a log whose commits are pairwise distinct are determined by their commits -/
theorem rec_eq_of_commit_eq {l : LogSeq} (hn : (commits l).Nodup) {r1 r2 : Rec} (h1 : r1 ∈ l) (h2 : r2 ∈ l)
    (e : r1.commit = r2.commit) : r1 = r2 := by
  induction l with
  | nil => simp at h1
  | cons z zs ih =>
    have hz : (z.commit :: commits zs).Nodup := by simpa [commits] using hn
    have hnz := (List.nodup_cons.mp hz).1
    have hnt := (List.nodup_cons.mp hz).2
    rcases List.mem_cons.mp h1 with e1 | e1 <;> rcases List.mem_cons.mp h2 with e2 | e2
    · rw [e1, e2]
    · subst e1; exact absurd (e ▸ List.mem_map_of_mem e2 : r1.commit ∈ commits zs) hnz
    · subst e2; exact absurd (e ▸ List.mem_map_of_mem e1 : r2.commit ∈ commits zs) hnz
    · exact ih hnt e1 e2

/-- The device holds the ancestor prefix plus its own events `a`; the server holds the same
prefix plus a longer suffix `M` that contains `a` in order (another device's sync merged
them in).  One sync call makes the device equal to the server and leaves the server alone. -/
theorem resync_after_foreign_merge (pre a M : LogSeq) (x : Rec) (ha : a ≠ []) (hlen : a.length < M.length)
    (hsub : a.Sublist M)
    (hatM : C08.Atoms (commits (pre ++ x :: M))) (hndM : (commits (pre ++ x :: M)).Nodup) :
    ∃ o, syncLog (pre ++ x :: a) (pre ++ x :: M) = (pre ++ x :: M, pre ++ x :: M, o) := by
  -- the device's log is a sublist of the server's
  have hsubL : (pre ++ x :: a).Sublist (pre ++ x :: M) :=
    List.Sublist.append (List.Sublist.refl _) (List.Sublist.cons_cons x hsub)
  have hata : C08.Atoms (commits (pre ++ x :: a)) :=
    atoms_of_subset hatM (fun y hy => (commits_sublist hsubL).subset hy)
  have hnda : (commits (pre ++ x :: a)).Nodup := (commits_sublist hsubL).nodup hndM
  obtain ⟨p, a', M', hae, hMe, hcase⟩ := split_first_difference a M
  cases a' with
  | nil =>
    -- the device's log is a proper prefix of the server's: fast-forward pull
    simp only [List.append_nil] at hae
    subst hae
    have hM' : M' ≠ [] := by
      intro e; subst e; simp at hMe; subst hMe; omega
    obtain ⟨q, y, hq⟩ := exists_snoc (pre ++ x :: a) (by simp)
    have e1 : pre ++ x :: M = q ++ y :: M' := by
      rw [hMe]
      have : pre ++ x :: (a ++ M') = (pre ++ x :: a) ++ M' := by simp
      rw [this, hq]; simp
    refine ⟨.pulled, ?_⟩
    rw [hq, e1]
    apply fast_forward_pull_converges q M' y hM'
    · rw [← e1]; exact hatM
    · intro z hz e
      rw [e1] at hndM
      have h1 : (commits q ++ y.commit :: commits M').Nodup := by simpa [commits] using hndM
      have h2 := (List.nodup_cons.mp (List.nodup_append.mp h1).2.1).1
      apply h2; rw [← e]; exact List.mem_map_of_mem hz
  | cons a0 at_ =>
    cases M' with
    | nil =>
      -- the server cannot hold less than the device
      exfalso
      simp only [List.append_nil] at hMe
      subst hMe
      have := congrArg List.length hae
      simp at this
      omega
    | cons m0 mt =>
      -- they differ after a common part `p`: rewind and take the server's suffix
      have h0 : a0 ≠ m0 := by
        rcases hcase with h | h | h
        · simp at h
        · simp at h
        · simpa using h
      obtain ⟨q, y, hq⟩ := exists_snoc (pre ++ x :: p) (by simp)
      have e1 : pre ++ x :: a = q ++ y :: (a0 :: at_) := by
        rw [hae]
        have : pre ++ x :: (p ++ a0 :: at_) = (pre ++ x :: p) ++ a0 :: at_ := by simp
        rw [this, hq]; simp
      have e2 : pre ++ x :: M = q ++ y :: (m0 :: mt) := by
        rw [hMe]
        have : pre ++ x :: (p ++ m0 :: mt) = (pre ++ x :: p) ++ m0 :: mt := by simp
        rw [this, hq]; simp
      have hsub' : (a0 :: at_).Sublist (m0 :: mt) := by
        rw [hae, hMe] at hsub
        exact (List.append_sublist_append_left p).mp hsub
      have hndM' : (commits (m0 :: mt)).Nodup := by
        rw [e2] at hndM
        have h1 : (commits q ++ y.commit :: commits (m0 :: mt)).Nodup := by simpa [commits] using hndM
        exact (List.nodup_cons.mp (List.nodup_append.mp h1).2.1).2
      have hc0 : a0.commit ≠ m0.commit := by
        intro e
        have hin1 : a0 ∈ (m0 :: mt) := hsub'.subset (by simp)
        exact h0 (rec_eq_of_commit_eq hndM' hin1 (by simp) e)
      refine ⟨.rewound, ?_⟩
      rw [e1, e2]
      apply auto_merge_subset_rewinds q (a0 :: at_) (m0 :: mt) y (by simp) (by simp)
      · rw [← e1]; exact hata
      · rw [← e2]; exact hatM
      · rw [← e1]; exact hnda
      · rw [← e2]; exact hndM
      · apply sublist_positions_differ (commits_sublist hsub') hndM'
        left
        simp [commits, hc0]
      · intro z hz
        exact List.mem_map_of_mem (hsub'.subset hz)


/-- C04/6.  Three replicas, any timestamps: the server holds a prefix, device 1 has appended
`a` (in time order, as a device's clock produces them), device 2 has appended `b`, all events
distinct.  Device 1 syncs, device 2 syncs, device 1 syncs again: every call succeeds and all
three replicas hold the shared prefix followed by the stable timestamp-ordered union of both
suffixes.  (Composition of fast-forward, auto-merge and rewind-local; the third call is a
fast-forward when all of `a` is older than `b`, a rewind otherwise.) -/
theorem two_devices_three_syncs_converge (pre a b : LogSeq) (x : Rec) (ha : a ≠ []) (hb : b ≠ [])
    (hat : C08.Atoms (commits (pre ++ x :: (a ++ b))))
    (hnd : (commits (pre ++ x :: (a ++ b))).Nodup)
    (hsa : C05.SortedT a) :
    syncLog (pre ++ x :: a) (pre ++ [x]) = (pre ++ x :: a, pre ++ x :: a, .pushed) ∧
    syncLog (pre ++ x :: b) (pre ++ x :: a) =
      (pre ++ x :: sortByTime (b ++ a), pre ++ x :: sortByTime (b ++ a), .merged) ∧
    ∃ o, syncLog (pre ++ x :: a) (pre ++ x :: sortByTime (b ++ a)) =
      (pre ++ x :: sortByTime (b ++ a), pre ++ x :: sortByTime (b ++ a), o) := by
  have hperm : (pre ++ x :: (b ++ a)).Perm (pre ++ x :: (a ++ b)) :=
    List.Perm.append_left _ (List.Perm.cons _ List.perm_append_comm)
  have hpermM : (pre ++ x :: sortByTime (b ++ a)).Perm (pre ++ x :: (a ++ b)) :=
    (List.Perm.append_left _ (List.Perm.cons _ (C05.sort_perm (b ++ a)))).trans hperm
  have cperm : ∀ {l l' : LogSeq}, l.Perm l' → (commits l).Perm (commits l') :=
    fun h => List.Perm.map _ h
  have hata : C08.Atoms (commits (pre ++ x :: a)) :=
    atoms_of_subset hat (by
      intro y hy
      simp only [commits, List.map_append, List.map_cons, List.mem_append, List.mem_cons, List.mem_map] at hy ⊢
      rcases hy with h | h | h
      · exact Or.inl h
      · exact Or.inr (Or.inl h)
      · exact Or.inr (Or.inr (Or.inl h)))
  have hatb : C08.Atoms (commits (pre ++ x :: b)) :=
    atoms_of_subset hat (by
      intro y hy
      simp only [commits, List.map_append, List.map_cons, List.mem_append, List.mem_cons, List.mem_map] at hy ⊢
      rcases hy with h | h | h
      · exact Or.inl h
      · exact Or.inr (Or.inl h)
      · exact Or.inr (Or.inr (Or.inr h)))
  have hxa : ∀ y ∈ a, y.commit ≠ x.commit := by
    intro y hy e
    have h1 : (commits pre ++ x.commit :: (commits a ++ commits b)).Nodup := by simpa [commits] using hnd
    have h2 := (List.nodup_cons.mp (List.nodup_append.mp h1).2.1).1
    apply h2; rw [← e]; exact List.mem_append_left _ (List.mem_map_of_mem hy)
  refine ⟨fast_forward_push_converges pre a x ha hata hxa, ?_, ?_⟩
  · exact auto_merge_converges_distinct pre b a x hb ha hatb hata ((cperm hperm).nodup_iff.mpr hnd)
  · apply resync_after_foreign_merge pre a (sortByTime (b ++ a)) x ha
    · have := (C05.sort_perm (b ++ a)).length_eq
      rw [this, List.length_append]
      cases b with
      | nil => exact absurd rfl hb
      | cons _ _ => simp
    · exact sorted_sublist_of_merge a b hsa
    · exact atoms_of_subset hat (fun y hy => (cperm hpermM).mem_iff.mp hy)
    · exact (cperm hpermM).nodup_iff.mpr hnd

/-- the server and two devices, one log -/
structure World2 where
  s : LogSeq
  d1 : LogSeq
  d2 : LogSeq
deriving DecidableEq, Repr

/-- one sync call of device 1 (`false`) or device 2 (`true`) -/
def World2.sync (w : World2) (k : Bool) : World2 :=
  match k with
  | false => let r := syncLog w.d1 w.s; { w with d1 := r.1, s := r.2.1 }
  | true => let r := syncLog w.d2 w.s; { w with d2 := r.1, s := r.2.1 }

def World2.run (w : World2) (σ : List Bool) : World2 := σ.foldl World2.sync w

theorem sync_noop_d1 (w : World2) (h : w.d1 = w.s) : w.sync false = w := by
  cases w with
  | mk s d1 d2 => simp only at h; subst h; simp [World2.sync, in_sync_unchanged d1 d1 rfl]

theorem sync_noop_d2 (w : World2) (h : w.d2 = w.s) : w.sync true = w := by
  cases w with
  | mk s d1 d2 => simp only at h; subst h; simp [World2.sync, in_sync_unchanged d2 d2 rfl]

theorem run_replicate_d1 (w : World2) (h : w.d1 = w.s) (n : Nat) : w.run (List.replicate n false) = w := by
  induction n with
  | zero => rfl
  | succ n ih => simp only [World2.run, List.replicate_succ, List.foldl_cons] at ih ⊢; rw [sync_noop_d1 w h]; exact ih

theorem run_replicate_d2 (w : World2) (h : w.d2 = w.s) (n : Nat) : w.run (List.replicate n true) = w := by
  induction n with
  | zero => rfl
  | succ n ih => simp only [World2.run, List.replicate_succ, List.foldl_cons] at ih ⊢; rw [sync_noop_d2 w h]; exact ih

/-- once all three replicas agree every further sync is a no-op -/
theorem converged_stays (w : World2) (h1 : w.d1 = w.s) (h2 : w.d2 = w.s) (τ : List Bool) : w.run τ = w := by
  induction τ with
  | nil => rfl
  | cons k τ ih =>
    simp only [World2.run, List.foldl_cons] at ih ⊢
    cases k with
    | false => rw [sync_noop_d1 w h1]; exact ih
    | true => rw [sync_noop_d2 w h2]; exact ih

/-- C04/7.  Server + two devices, distinct events, device 1's events in time order.  Device 1
syncs any number of times (at least once), then device 2 any number of times (at least once),
then device 1 once more, then ANY further sequence of syncs: all three replicas hold the
shared prefix followed by the stable timestamp-ordered union of both suffixes, and stay there. -/
theorem two_devices_converge_any_continuation (pre a b : LogSeq) (x : Rec) (ha : a ≠ []) (hb : b ≠ [])
    (hat : C08.Atoms (commits (pre ++ x :: (a ++ b))))
    (hnd : (commits (pre ++ x :: (a ++ b))).Nodup)
    (hsa : C05.SortedT a) (n1 n2 : Nat) (τ : List Bool) :
    let w0 : World2 := { s := pre ++ [x], d1 := pre ++ x :: a, d2 := pre ++ x :: b }
    let fin := pre ++ x :: sortByTime (b ++ a)
    w0.run (false :: List.replicate n1 false ++ true :: List.replicate n2 true ++ false :: τ) =
      { s := fin, d1 := fin, d2 := fin } := by
  intro w0 fin
  obtain ⟨h1, h2, o, h3⟩ := two_devices_three_syncs_converge pre a b x ha hb hat hnd hsa
  -- after device 1's first sync
  have hA1 : w0.sync false = { s := pre ++ x :: a, d1 := pre ++ x :: a, d2 := pre ++ x :: b } := by
    simp [World2.sync, w0, h1]
  -- after device 2's first sync
  have hA2 : ({ s := pre ++ x :: a, d1 := pre ++ x :: a, d2 := pre ++ x :: b } : World2).sync true =
      { s := fin, d1 := pre ++ x :: a, d2 := fin } := by
    simp [World2.sync, h2, fin]
  -- after device 1's next sync
  have hC : ({ s := fin, d1 := pre ++ x :: a, d2 := fin } : World2).sync false = { s := fin, d1 := fin, d2 := fin } := by
    simp [World2.sync, fin, h3]
  have e : ∀ (w : World2) (σ ρ : List Bool), w.run (σ ++ ρ) = (w.run σ).run ρ := by
    intro w σ ρ; simp [World2.run, List.foldl_append]
  have step : ∀ (w : World2) (k : Bool) (ρ : List Bool), w.run (k :: ρ) = (w.sync k).run ρ := by
    intro w k ρ; rfl
  have hlist : false :: List.replicate n1 false ++ true :: List.replicate n2 true ++ false :: τ =
      false :: (List.replicate n1 false ++ (true :: (List.replicate n2 true ++ false :: τ))) := by simp
  rw [hlist, step w0 false, hA1, e, run_replicate_d1 _ rfl, step _ true, hA2, e, run_replicate_d2 _ rfl, step _ false, hC]
  exact converged_stays _ rfl rfl τ


private def p0 : Rec := { time := 1, commit := H.leaf [0], bytes := [0] }
private def q1 : Rec := { time := 2, commit := H.leaf [1], bytes := [1] }
private def q2 : Rec := { time := 5, commit := H.leaf [2], bytes := [2] }
private def r1 : Rec := { time := 3, commit := H.leaf [3], bytes := [3] }

/-- the interleaved case (device 1's events at times 2 and 5, device 2's at 3): the third call rewinds -/
example : syncLog [p0, q1, q2] [p0, q1, r1, q2] = ([p0, q1, r1, q2], [p0, q1, r1, q2], .rewound) := by decide


private def x0 : Rec := { time := 1, commit := H.leaf [0], bytes := [0] }
private def u : Rec := { time := 2, commit := H.leaf [1], bytes := [1] }
private def v : Rec := { time := 3, commit := H.leaf [2], bytes := [2] }
private def d1 : Rec := { time := 4, commit := H.leaf [9], bytes := [9] }
private def d2 : Rec := { time := 5, commit := H.leaf [9], bytes := [9] }

/-- Witness (KNOWN FINDING C04/identical-events): both devices make different edits and
then the same byte-identical event (e.g. delete the same secret).  The ancestor search
stops at the identical event, both "patches since the ancestor" are empty, the call
reports success and the replicas still differ. -/
theorem identical_tail_no_convergence :
    syncLog [x0, u, d1] [x0, v, d2] = ([x0, u, d1], [x0, v, d2], .rewound) := by decide

/-- The three-device history found by the C09 schedules (an older event `u` of a third device
was merged on the server in front of the shared event `v`): one call converges, `v` once. -/
theorem shared_event_after_ancestor_converges :
    syncLog [x0, v, d1] [x0, u, v] = ([x0, u, v, d1], [x0, u, v, d1], .merged) := by decide

/-- With distinct events the same history converges in one call. -/
example : syncLog [x0, u] [x0, v] = ([x0, u, v], [x0, u, v], .merged) := by decide

end Sos.Props.C04
