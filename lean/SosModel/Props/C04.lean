/-
  C04  Devices and server converge once edits stop and everyone syncs.
  `syncLog` is one sequential `sync` call of a device for one event log (all log types
  run the same algorithm); the correspondence run replays every real sync call's per-log
  transition on it.
-/
import SosModel.Lemmas.Sync
import SosModel.Props.C05
namespace Sos.Props.C04
open Sos Sos.Merkle Sos.Log Sos.Sync

/-- C04/1.  Logs that already agree are left alone. -/
theorem in_sync_unchanged (l r : LogSeq) (h : commits l = commits r) :
    syncLog l r = (l, r, .inSync) := by
  unfold syncLog; simp [h]

/-- C04/2.  Fast-forward push: the server holds a proper prefix of the device's log (whose
last commit does not recur later): one sync call makes the server equal to the device. -/
theorem fast_forward_push_converges (pre a : LogSeq) (x : Rec) (ha : a ≠ [])
    (hat : C08.Atoms (commits (pre ++ x :: a))) (hx : ∀ y ∈ a, y.commit ≠ x.commit) :
    syncLog (pre ++ x :: a) (pre ++ [x]) = (pre ++ x :: a, pre ++ x :: a, .pushed) := by
  unfold syncLog
  have hne : commits (pre ++ x :: a) ≠ commits (pre ++ [x]) := by
    intro e
    have := congrArg List.length e
    simp [commits] at this
    cases a with
    | nil => exact ha rfl
    | cons _ _ => simp at this
  rw [if_neg hne, offer_prefix pre a x ha hat hx]
  simp

/-- C04/3.  Fast-forward pull: the device holds a proper prefix of the server's log: one
sync call makes the device equal to the server. -/
theorem fast_forward_pull_converges (pre b : LogSeq) (x : Rec) (hb : b ≠ [])
    (hat : C08.Atoms (commits (pre ++ x :: b))) (hx : ∀ y ∈ b, y.commit ≠ x.commit) :
    syncLog (pre ++ [x]) (pre ++ x :: b) = (pre ++ x :: b, pre ++ x :: b, .pulled) := by
  unfold syncLog
  have hlen : (commits (pre ++ [x])).length < (commits (pre ++ x :: b)).length := by
    simp [commits]
    cases b with
    | nil => exact absurd rfl hb
    | cons _ _ => simp
  have hne : commits (pre ++ [x]) ≠ commits (pre ++ x :: b) := by
    intro e; rw [e] at hlen; omega
  have hoat : C08.Atoms (commits (pre ++ [x])) := by
    intro y hy; apply hat
    simp only [commits, List.map_append, List.map_cons, List.mem_append, List.mem_map,
      List.mem_cons] at hy ⊢
    rcases hy with h | h
    · exact Or.inl h
    · rcases h with h | h
      · exact Or.inr (Or.inl h)
      · simp at h
  have hnp : ¬ commits (pre ++ x :: b) <+: commits (pre ++ [x]) := by
    intro h; have := h.length_le; omega
  rw [if_neg hne]
  rw [offer_compare_of_not_prefix _ _ hoat hat (by simp) (by simp) hne hnp]
  simp only
  rw [offer_prefix pre b x hb hat hx]
  simp

/-- The ancestor search finds the end of the common prefix when nothing after it agrees. -/
theorem scan_finds_ancestor (pre a b : LogSeq) (x : Rec)
    (hl : C08.Atoms (commits (pre ++ x :: a))) (hr : C08.Atoms (commits (pre ++ x :: b)))
    (hdis : ∀ (j : Nat) (c : H), (commits a)[j]? = some c → (commits b)[j]? ≠ some c) :
    ∃ cp, head (commits (pre ++ [x])) = some cp ∧
      ancestor (pre ++ x :: a) (pre ++ x :: b) = .found pre.length x.commit cp := by
  have hsplit : ∀ t : LogSeq, commits (pre ++ x :: t) = commits (pre ++ [x]) ++ commits t := by
    intro t; simp [commits]
  have hbn : commits (pre ++ [x]) ≠ [] := commits_ne_nil (by simp)
  obtain ⟨cp, hcp⟩ := head_some hbn
  refine ⟨cp, hcp, ?_⟩
  unfold ancestor scan
  have hre : (commits (pre ++ x :: b)).isEmpty = false := by simp [commits]
  rw [hre]
  simp only [Bool.false_eq_true, if_false]
  have hlen : (commits (pre ++ [x])).length = pre.length + 1 := by simp [commits]
  have hsd := C08.scan_finds_lcp_partial (commits (pre ++ [x])) (commits a) (commits b) hbn
    (by rw [← hsplit]; exact hl) (by rw [← hsplit]; exact hr) hdis
  rw [← hsplit, ← hsplit, hlen] at hsd
  simp only [Nat.add_sub_cancel] at hsd
  -- the first commits agree
  have hm0 : matchAt (commits (pre ++ x :: a)) (commits (pre ++ x :: b)) 0 = true := by
    rw [C08.matchAt_iff _ _ hl hr 0 (by simp [commits]; omega)]
    cases pre with
    | nil => simp [commits]
    | cons p ps => simp [commits]
  rw [hm0]
  simp only [Bool.not_true, Bool.false_eq_true, if_false]
  rw [hsd]
  simp only
  have hget : (commits (pre ++ x :: a))[pre.length]? = some x.commit := by simp [commits]
  rw [hget]
  have htake : (commits (pre ++ x :: a)).take (pre.length + 1) = commits (pre ++ [x]) := by
    rw [hsplit, List.take_append, hlen]
    simp [List.take_of_length_le, hlen]
  rw [htake, hcp]

/-- the merged suffix of two divergent suffixes -/
def mergedSuffix (a b : LogSeq) : LogSeq := sortByTime (a.filter (notIn b) ++ b)

/-- C04/4 (partial).  Soft conflict: both sides appended events to a shared prefix; the two
suffixes may SHARE events (an event both hold, or the same event made on both) as long as
no commit is repeated within one replica's log, the suffixes differ at every equal position
and the device has at least one event the server lacks.  One sync call leaves device and
server with the same log: the shared prefix followed by the merged suffix (the device's
events the server lacks and the server's events, in stable timestamp order).  Without the
positional hypothesis the statement is false of the code: `identical_tail_no_convergence`. -/
theorem auto_merge_converges_partial (pre a b : LogSeq) (x : Rec) (ha : a ≠ []) (hb : b ≠ [])
    (hl : C08.Atoms (commits (pre ++ x :: a))) (hr : C08.Atoms (commits (pre ++ x :: b)))
    (hndl : (commits (pre ++ x :: a)).Nodup) (hndr : (commits (pre ++ x :: b)).Nodup)
    (hdis : ∀ (j : Nat) (c : H), (commits a)[j]? = some c → (commits b)[j]? ≠ some c)
    (hnew : ∃ y ∈ a, y.commit ∉ commits b) :
    syncLog (pre ++ x :: a) (pre ++ x :: b) =
      (pre ++ x :: mergedSuffix a b, pre ++ x :: mergedSuffix a b, .merged) := by
  have hxs : ∀ (s : LogSeq), (commits (pre ++ x :: s)).Nodup → ∀ y ∈ s, y.commit ≠ x.commit := by
    intro s hs y hy e
    have h1 : (commits pre ++ x.commit :: commits s).Nodup := by simpa [commits] using hs
    have h2 := (List.nodup_cons.mp (List.nodup_append.mp h1).2.1).1
    apply h2; rw [← e]; exact List.mem_map_of_mem hy
  have hxa := hxs a hndl
  have hxb := hxs b hndr
  obtain ⟨a0, at_, rfl⟩ : ∃ a0 at_, a = a0 :: at_ := by
    cases a with
    | nil => exact absurd rfl ha
    | cons a0 at_ => exact ⟨a0, at_, rfl⟩
  obtain ⟨b0, bt, rfl⟩ : ∃ b0 bt, b = b0 :: bt := by
    cases b with
    | nil => exact absurd rfl hb
    | cons b0 bt => exact ⟨b0, bt, rfl⟩
  have h00 : a0.commit ≠ b0.commit := by
    intro e
    exact hdis 0 a0.commit (by simp [commits]) (by simp [commits, e])
  -- the two logs differ and neither is a prefix of the other
  have hsplit : ∀ t : LogSeq, commits (pre ++ x :: t) = commits (pre ++ [x]) ++ commits t := by
    intro t; simp [commits]
  have hnpre : ∀ (s0 t0 : Rec) (s t : LogSeq), s0.commit ≠ t0.commit →
      ¬ commits (pre ++ x :: s0 :: s) <+: commits (pre ++ x :: t0 :: t) := by
    intro s0 t0 s t hst ⟨w, hw⟩
    rw [hsplit (s0 :: s), hsplit (t0 :: t), List.append_assoc] at hw
    have hw2 := List.append_cancel_left hw
    simp only [commits, List.map_cons, List.cons_append, List.cons.injEq] at hw2
    exact hst hw2.1
  have hne : commits (pre ++ x :: a0 :: at_) ≠ commits (pre ++ x :: b0 :: bt) := by
    intro e
    exact hnpre a0 b0 at_ bt h00 ⟨[], by rw [e]; simp⟩
  have hnp1 := hnpre b0 a0 bt at_ (Ne.symm h00)
  have hnp2 := hnpre a0 b0 at_ bt h00
  unfold syncLog
  rw [if_neg hne]
  rw [offer_compare_of_not_prefix _ _ hl hr (by simp) (by simp) hne hnp1]
  simp only
  rw [offer_compare_of_not_prefix _ _ hr hl (by simp) (by simp) (Ne.symm hne) hnp2]
  simp only
  obtain ⟨cp, _, hanc⟩ := scan_finds_ancestor pre (a0 :: at_) (b0 :: bt) x hl hr hdis
  rw [hanc]
  simp only
  rw [after_unique pre (a0 :: at_) x hxa, after_unique pre (b0 :: bt) x hxb,
    upTo_unique pre (a0 :: at_) x hxa, upTo_unique pre (b0 :: bt) x hxb]
  simp only
  have hmp : mergePatches (a0 :: at_) (b0 :: bt) = .pushRemote (mergedSuffix (a0 :: at_) (b0 :: bt)) := by
    unfold mergePatches mergedSuffix
    have : ((commits (a0 :: at_)).all fun c => (commits (b0 :: bt)).contains c) = false := by
      rw [Bool.eq_false_iff]
      intro hall
      simp only [List.all_eq_true, List.contains_iff_mem] at hall
      obtain ⟨y, hy, hyn⟩ := hnew
      have := hall y.commit (List.mem_map_of_mem hy)
      exact hyn (by simpa using this)
    rw [this]; simp
  rw [hmp]
  simp only
  have htake : (pre ++ x :: a0 :: at_).take (pre.length + 1) = pre ++ [x] := by
    rw [List.take_append]; simp [List.take_of_length_le]
  rw [htake]
  simp

/-- Corollary: with pairwise distinct events everywhere the merged suffix is the stable
timestamp-ordered union of both suffixes. -/
theorem auto_merge_converges_distinct (pre a b : LogSeq) (x : Rec) (ha : a ≠ []) (hb : b ≠ [])
    (hl : C08.Atoms (commits (pre ++ x :: a))) (hr : C08.Atoms (commits (pre ++ x :: b)))
    (hnd : (commits (pre ++ x :: (a ++ b))).Nodup) :
    syncLog (pre ++ x :: a) (pre ++ x :: b) =
      (pre ++ x :: sortByTime (a ++ b), pre ++ x :: sortByTime (a ++ b), .merged) := by
  have hnd' : (commits pre ++ x.commit :: (commits a ++ commits b)).Nodup := by
    simpa [commits] using hnd
  have hp := List.nodup_append.mp hnd'
  have hnd2 := hp.2.1
  have hab : (commits a ++ commits b).Nodup := (List.nodup_cons.mp hnd2).2
  have hx_ab : x.commit ∉ commits a ++ commits b := (List.nodup_cons.mp hnd2).1
  have hdisj : ∀ c, c ∈ commits a → c ∉ commits b := by
    intro c h1 h2
    exact (List.nodup_append.mp hab).2.2 c h1 c h2 rfl
  have hndl : (commits (pre ++ x :: a)).Nodup := by
    have : commits (pre ++ x :: a) = commits pre ++ x.commit :: commits a := by simp [commits]
    rw [this, List.nodup_append]
    refine ⟨hp.1, ?_, ?_⟩
    · rw [List.nodup_cons]
      exact ⟨fun h => hx_ab (List.mem_append_left _ h), (List.nodup_append.mp hab).1⟩
    · intro u hu v hv
      apply hp.2.2 u hu v
      rcases List.mem_cons.mp hv with h | h
      · exact List.mem_cons.mpr (Or.inl h)
      · exact List.mem_cons.mpr (Or.inr (List.mem_append_left _ h))
  have hndr : (commits (pre ++ x :: b)).Nodup := by
    have : commits (pre ++ x :: b) = commits pre ++ x.commit :: commits b := by simp [commits]
    rw [this, List.nodup_append]
    refine ⟨hp.1, ?_, ?_⟩
    · rw [List.nodup_cons]
      exact ⟨fun h => hx_ab (List.mem_append_right _ h), (List.nodup_append.mp hab).2.1⟩
    · intro u hu v hv
      apply hp.2.2 u hu v
      rcases List.mem_cons.mp hv with h | h
      · exact List.mem_cons.mpr (Or.inl h)
      · exact List.mem_cons.mpr (Or.inr (List.mem_append_right _ h))
  have hdis : ∀ (j : Nat) (c : H), (commits a)[j]? = some c → (commits b)[j]? ≠ some c := by
    intro j c h1 h2
    exact hdisj c (List.mem_of_getElem? h1) (List.mem_of_getElem? h2)
  have hnew : ∃ y ∈ a, y.commit ∉ commits b := by
    cases a with
    | nil => exact absurd rfl ha
    | cons a0 at_ => exact ⟨a0, by simp, hdisj a0.commit (by simp [commits])⟩
  have hfil : a.filter (notIn b) = a := by
    rw [List.filter_eq_self]
    intro y hy
    have := hdisj y.commit (List.mem_map_of_mem hy)
    simp [notIn, this]
  have := auto_merge_converges_partial pre a b x ha hb hl hr hndl hndr hdis hnew
  rw [this, mergedSuffix, hfil]

private def x0 : Rec := { time := 1, commit := H.leaf [0], bytes := [0] }
private def u : Rec := { time := 2, commit := H.leaf [1], bytes := [1] }
private def v : Rec := { time := 3, commit := H.leaf [2], bytes := [2] }
private def d1 : Rec := { time := 4, commit := H.leaf [9], bytes := [9] }
private def d2 : Rec := { time := 5, commit := H.leaf [9], bytes := [9] }

/-- Witness (KNOWN FINDING C04/identical-events): both devices make different edits and
then the same byte-identical event (e.g. delete the same secret).  The ancestor search
stops at the identical event, both "patches since the ancestor" are empty, the call
reports success and the replicas still differ. -/
theorem identical_tail_no_convergence :
    syncLog [x0, u, d1] [x0, v, d2] = ([x0, u, d1], [x0, v, d2], .rewound) := by decide

/-- The three-device history found by the C09 schedules (an older event `u` of a third device
was merged on the server in front of the shared event `v`): one call converges, `v` once. -/
theorem shared_event_after_ancestor_converges :
    syncLog [x0, v, d1] [x0, u, v] = ([x0, u, v, d1], [x0, u, v, d1], .merged) := by decide

/-- With distinct events the same history converges in one call. -/
example : syncLog [x0, u] [x0, v] = ([x0, u, v], [x0, u, v], .merged) := by decide

end Sos.Props.C04
