/-
  C14 for the secret codec: `decode (encode v ++ rest) = (v, rest)` for every secret of
  every kind, its meta data and rows, with custom fields nested to any depth, under explicit
  well-formedness (sizes within the format's limits, valid UTF-8, payloads the external
  parsers accept, distinct tags and distinct list keys — they live in a set / a map).
  The arms of the model are tied to the source by `secret_arms_match_source`.
-/
import SosModel.Props.C14
import SosModel.SecretCodec
namespace Sos.Props.C14
open Sos Sos.Codec

/-! ### one field -/

def SValOk (ext : Ext) : SFld → SVal → Prop
  | .str, .str s => ValidString s
  | .extStr p, .str s => ValidString s ∧ ext.accepts p s = true
  | .optStr, .optStr o => ∀ s, o = some s → ValidString s
  | .optExtStr p, .optStr o => ∀ s, o = some s → ValidString s ∧ ext.accepts p s = true
  | .date, .date d => ValidTime d
  | .optDate, .optDate o => ∀ d, o = some d → ValidTime d
  | .bool, .bool _ => True
  | .u8In allowed, .u8 n => n < 256 ∧ allowed.contains n = true
  | .u32Mask mask, .u32 n => n < 256 ^ 4 ∧ n &&& mask = n
  | .u64, .u64 n => n < 256 ^ 8
  | .lenBytes, .bytes b => b.length ≤ cap
  | .extLenBytes p, .bytes b => b.length ≤ cap ∧ ext.accepts p b = true
  | .fixed k, .raw b => b.length = k ∧ k ≤ cap
  | .strs, .strs l => l.length < 256 ^ 4 ∧ l.Nodup ∧ ∀ s ∈ l, ValidString s
  | .pairs, .pairs l => l.length < 256 ^ 4 ∧ (l.map (·.1)).Nodup ∧ ∀ kv ∈ l, ValidString kv.1 ∧ ValidString kv.2
  | _, _ => False

theorem readExtStr_enc (ext : Ext) (p : ExtP) (s rest : Bytes) (h : ValidString s) (he : ext.accepts p s = true) :
    (readExtStr ext p (encString s ++ rest)).res = .ok s rest := by
  unfold readExtStr
  rw [bind_res_ok (readString_enc s rest h.1 h.2)]
  simp [he, ret]

theorem insertStr_fresh (acc : List Bytes) (s : Bytes) (h : s ∉ acc) : insertStr acc s = acc ++ [s] := by
  unfold insertStr
  simp [h]

theorem readStrs_enc (l acc : List Bytes) (rest : Bytes) (hnd : (acc ++ l).Nodup)
    (hv : ∀ s ∈ l, ValidString s) :
    (readStrs l.length acc ((l.map encString).flatten ++ rest)).res = .ok (acc ++ l) rest := by
  induction l generalizing acc with
  | nil => simp [readStrs, ret]
  | cons s t ih =>
    simp only [List.length_cons, readStrs, List.map_cons, List.flatten_cons, List.append_assoc]
    rw [bind_res_ok (readString_enc s _ (hv s (by simp)).1 (hv s (by simp)).2)]
    have hs : s ∉ acc := by
      intro hm
      have := List.nodup_append.mp hnd
      exact this.2.2 s hm s (by simp) rfl
    rw [insertStr_fresh acc s hs]
    have := ih (acc ++ [s]) (by simpa [List.append_assoc] using hnd) (fun x hx => hv x (by simp [hx]))
    simpa [List.append_assoc] using this

theorem insertPair_fresh (acc : List (Bytes × Bytes)) (kv : Bytes × Bytes) (h : kv.1 ∉ acc.map (·.1)) :
    insertPair acc kv = acc ++ [kv] := by
  unfold insertPair
  have : acc.any (fun e => e.1 == kv.1) = false := by
    cases hc : acc.any (fun e => e.1 == kv.1) with
    | false => rfl
    | true =>
      obtain ⟨e, he, heq⟩ := List.any_eq_true.mp hc
      have : e.1 = kv.1 := by simpa using heq
      exact absurd (by rw [← this]; exact List.mem_map.mpr ⟨e, he, rfl⟩) h
  simp [this]

theorem readPairs_enc (l acc : List (Bytes × Bytes)) (rest : Bytes) (hnd : ((acc ++ l).map (·.1)).Nodup)
    (hv : ∀ kv ∈ l, ValidString kv.1 ∧ ValidString kv.2) :
    (readPairs l.length acc ((l.map encPair).flatten ++ rest)).res = .ok (acc ++ l) rest := by
  induction l generalizing acc with
  | nil => simp [readPairs, ret]
  | cons kv t ih =>
    simp only [List.length_cons, readPairs, List.map_cons, List.flatten_cons, List.append_assoc, encPair]
    have h1 := (hv kv (by simp)).1
    have h2 := (hv kv (by simp)).2
    rw [bind_res_ok (readString_enc kv.1 _ h1.1 h1.2)]
    rw [bind_res_ok (readString_enc kv.2 _ h2.1 h2.2)]
    have hk : kv.1 ∉ acc.map (·.1) := by
      intro hm
      rw [List.map_append] at hnd
      have := List.nodup_append.mp hnd
      exact this.2.2 kv.1 hm kv.1 (by simp) rfl
    rw [insertPair_fresh acc (kv.1, kv.2) hk]
    have := ih (acc ++ [kv]) (by simpa [List.append_assoc] using hnd) (fun x hx => hv x (by simp [hx]))
    simpa [List.append_assoc] using this

theorem readSFld_enc (ext : Ext) (f : SFld) (v : SVal) (rest : Bytes) (h : SValOk ext f v) :
    (readSFld ext f (encSVal v ++ rest)).res = .ok v rest := by
  cases f <;> cases v <;> simp only [SValOk] at h <;> simp only [readSFld, encSVal]
  case str.str s =>
    rw [bind_res_ok (readString_enc s rest h.1 h.2)]; rfl
  case extStr.str p s =>
    rw [bind_res_ok (readExtStr_enc ext p s rest h.1 h.2)]; rfl
  case optStr.optStr o =>
    rw [readOpt_enc (d := readString) (enc := encString) o rest
      (fun s hs => readString_enc s rest (h s hs).1 (h s hs).2)]; rfl
  case optExtStr.optStr p o =>
    rw [readOpt_enc (d := readExtStr ext p) (enc := encString) o rest
      (fun s hs => readExtStr_enc ext p s rest (h s hs).1 (h s hs).2)]; rfl
  case date.date d =>
    rw [bind_res_ok (roundtrip_DateTime d rest h)]; rfl
  case optDate.optDate o =>
    rw [readOpt_enc (d := readDateTime) (enc := encDateTime) o rest
      (fun d hd => roundtrip_DateTime d rest (h d hd))]; rfl
  case bool.bool x =>
    rw [bind_res_ok (readBool_enc x rest)]; rfl
  case u8In.u8 allowed n =>
    rw [bind_res_ok (readU8_enc n rest h.1)]
    have hm : n ∈ allowed := by simpa using h.2
    simp [hm, ret]
  case u32Mask.u32 mask n =>
    unfold readU32 encU32
    rw [bind_res_ok (readNat_enc 4 n rest h.1)]; simp [h.2, ret]
  case u64.u64 n =>
    rw [bind_res_ok (readU64_enc n rest h)]; rfl
  case lenBytes.bytes b =>
    rw [bind_res_ok (readLenBytes_enc b rest h)]; rfl
  case extLenBytes.bytes p b =>
    rw [bind_res_ok (readLenBytes_enc b rest h.1)]; simp [h.2, ret]
  case fixed.raw k b =>
    rw [bind_res_ok (readN_append b rest k h.1 h.2)]; rfl
  case strs.strs l =>
    unfold encVec readU32 encU32
    rw [List.append_assoc, bind_res_ok (readNat_enc 4 l.length _ h.1)]
    rw [bind_res_ok (by simpa using readStrs_enc l [] rest (by simpa using h.2.1) h.2.2)]; rfl
  case pairs.pairs l =>
    unfold encVec readU32 encU32
    rw [List.append_assoc, bind_res_ok (readNat_enc 4 l.length _ h.1)]
    rw [bind_res_ok (by simpa using readPairs_enc l [] rest (by simpa using h.2.1) h.2.2)]; rfl

/-! ### lines of fields -/

def SValsOk (ext : Ext) : List SFld → List SVal → Prop
  | [], [] => True
  | f :: fs, v :: vs => SValOk ext f v ∧ SValsOk ext fs vs
  | _, _ => False

theorem readSFlds_enc (ext : Ext) (fs : List SFld) (vs : List SVal) (rest : Bytes) (h : SValsOk ext fs vs) :
    (readSFlds ext fs (encSVals vs ++ rest)).res = .ok vs rest := by
  induction fs generalizing vs with
  | nil => cases vs with
    | nil => simp [readSFlds, encSVals, ret]
    | cons _ _ => simp [SValsOk] at h
  | cons f fs ih => cases vs with
    | nil => simp [SValsOk] at h
    | cons v vs =>
      simp only [SValsOk] at h
      simp only [readSFlds, encSVals, List.map_cons, List.flatten_cons, List.append_assoc]
      rw [bind_res_ok (readSFld_enc ext f v _ h.1)]
      have h2 := ih vs h.2
      simp only [encSVals] at h2
      rw [bind_res_ok h2]
      rfl

def ValOk (ext : Ext) : Fld → Val → Prop
  | .s f, .s v => SValOk ext f v
  | .choice alts, .choice t vs => t < 256 ∧ ∃ fs, alts.lookup t = some fs ∧ SValsOk ext fs vs
  | _, _ => False

theorem readFld_enc (ext : Ext) (f : Fld) (v : Val) (rest : Bytes) (h : ValOk ext f v) :
    (readFld ext f (encVal v ++ rest)).res = .ok v rest := by
  cases f <;> cases v <;> simp only [ValOk] at h <;> simp only [readFld, encVal]
  case s.s f v =>
    rw [bind_res_ok (readSFld_enc ext f v rest h)]; rfl
  case choice.choice alts t vs =>
    obtain ⟨ht, fs, hl, hvs⟩ := h
    rw [List.append_assoc, bind_res_ok (readU8_enc t _ ht)]
    simp only [hl]
    rw [bind_res_ok (readSFlds_enc ext fs vs rest hvs)]; rfl

def ValsOk (ext : Ext) : List Fld → List Val → Prop
  | [], [] => True
  | f :: fs, v :: vs => ValOk ext f v ∧ ValsOk ext fs vs
  | _, _ => False

theorem readFlds_enc (ext : Ext) (fs : List Fld) (vs : List Val) (rest : Bytes) (h : ValsOk ext fs vs) :
    (readFlds ext fs (encVals vs ++ rest)).res = .ok vs rest := by
  induction fs generalizing vs with
  | nil => cases vs with
    | nil => simp [readFlds, encVals, ret]
    | cons _ _ => simp [ValsOk] at h
  | cons f fs ih => cases vs with
    | nil => simp [ValsOk] at h
    | cons v vs =>
      simp only [ValsOk] at h
      simp only [readFlds, encVals, List.map_cons, List.flatten_cons, List.append_assoc]
      rw [bind_res_ok (readFld_enc ext f v _ h.1)]
      have h2 := ih vs h.2
      simp only [encVals] at h2
      rw [bind_res_ok h2]
      rfl

/-- C14 for `SecretMeta`: kind, flags, dates, label, tags, urn, owner, favourite. -/
theorem roundtrip_SecretMeta (ext : Ext) (m : List Val) (rest : Bytes) (h : ValsOk ext metaSchema m) :
    (decodeMeta ext (encVals m ++ rest)).res = .ok m rest := readFlds_enc ext metaSchema m rest h

/-! ### secrets, user data, rows (nested to any depth) -/

mutual
def ValidSecret (ext : Ext) : Secret → Prop
  | .mk k vs ud => k < 256 ∧ (∃ flds, schema k = some flds ∧ ValsOk ext flds vs) ∧ ValidUD ext ud
def ValidUD (ext : Ext) : UserData → Prop
  | .mk rs c n => rs.length < 256 ^ 4 ∧ ValidSRows ext rs ∧
      (∀ s, c = some s → ValidString s) ∧ (∀ s, n = some s → ValidString s)
def ValidSRows (ext : Ext) : SRows → Prop
  | .nil => True
  | .cons r rs => ValidSRow ext r ∧ ValidSRows ext rs
def ValidSRow (ext : Ext) : SRow → Prop
  | .mk id m s => id.length = 16 ∧ ValsOk ext metaSchema m ∧ ValidSecret ext s
end

/- fuel a value needs: its nesting depth, counting rows of one level one by one -/
mutual
def fuelS : Secret → Nat
  | .mk _ _ ud => fuelU ud + 1
def fuelU : UserData → Nat
  | .mk rs _ _ => fuelR rs + 1
def fuelR : SRows → Nat
  | .nil => 1
  | .cons r rs => max (fuelW r) (fuelR rs) + 1
def fuelW : SRow → Nat
  | .mk _ _ s => fuelS s + 1
end

mutual
theorem rtS (ext : Ext) : ∀ (v : Secret) (f : Nat) (rest : Bytes), ValidSecret ext v → fuelS v ≤ f →
    (readSecret ext f (encSecret v ++ rest)).res = .ok v rest
  | .mk k vs ud, f, rest, hv, hf => by
    cases f with
    | zero => simp [fuelS] at hf
    | succ f =>
      simp only [ValidSecret] at hv
      obtain ⟨hk, ⟨flds, hs, hvs⟩, hud⟩ := hv
      simp only [fuelS] at hf
      rw [readSecret_succ]
      simp only [encSecret, List.append_assoc]
      rw [bind_res_ok (readU8_enc k _ hk)]
      simp only [hs]
      rw [bind_res_ok (readFlds_enc ext flds vs _ hvs)]
      rw [bind_res_ok (rtU ext ud f rest hud (by omega))]
      rfl
theorem rtU (ext : Ext) : ∀ (v : UserData) (f : Nat) (rest : Bytes), ValidUD ext v → fuelU v ≤ f →
    (readUD ext f (encUD v ++ rest)).res = .ok v rest
  | .mk rs c n, f, rest, hv, hf => by
    cases f with
    | zero => simp [fuelU] at hf
    | succ f =>
      simp only [ValidUD] at hv
      obtain ⟨hl, hrs, hc, hn⟩ := hv
      simp only [fuelU] at hf
      rw [readUD_succ]
      simp only [encUD, List.append_assoc]
      unfold readU32 encU32
      rw [bind_res_ok (readNat_enc 4 rs.length _ hl)]
      rw [bind_res_ok (rtR ext rs f _ hrs (by omega))]
      rw [readOpt_enc (d := readString) (enc := encString) c _
        (fun s hs => readString_enc s _ (hc s hs).1 (hc s hs).2)]
      rw [readOpt_enc (d := readString) (enc := encString) n rest
        (fun s hs => readString_enc s rest (hn s hs).1 (hn s hs).2)]
      rfl
theorem rtR (ext : Ext) : ∀ (v : SRows) (f : Nat) (rest : Bytes), ValidSRows ext v → fuelR v ≤ f →
    (readSRows ext f v.length (encSRows v ++ rest)).res = .ok v rest
  | .nil, f, rest, _, hf => by
    cases f with
    | zero => simp [fuelR] at hf
    | succ f => simp [SRows.length, readSRows_zero, encSRows, ret]
  | .cons r rs, f, rest, hv, hf => by
    cases f with
    | zero => simp [fuelR] at hf
    | succ f =>
      simp only [ValidSRows] at hv
      simp only [fuelR] at hf
      simp only [SRows.length]
      rw [readSRows_succ]
      simp only [encSRows, List.append_assoc]
      rw [bind_res_ok (rtW ext r f _ hv.1 (by omega))]
      rw [bind_res_ok (rtR ext rs f rest hv.2 (by omega))]
      rfl
theorem rtW (ext : Ext) : ∀ (v : SRow) (f : Nat) (rest : Bytes), ValidSRow ext v → fuelW v ≤ f →
    (readSRow ext f (encSRow v ++ rest)).res = .ok v rest
  | .mk id m s, f, rest, hv, hf => by
    cases f with
    | zero => simp [fuelW] at hf
    | succ f =>
      simp only [ValidSRow] at hv
      obtain ⟨hid, hm, hs⟩ := hv
      simp only [fuelW] at hf
      rw [readSRow_succ]
      simp only [encSRow, List.append_assoc]
      rw [bind_res_ok (by rw [readFixed_append id _ 16 hid])]
      rw [bind_res_ok (readFlds_enc ext metaSchema m _ hm)]
      rw [bind_res_ok (rtS ext s f rest hs (by omega))]
      rfl
end

/- the fuel a valid value needs is within what its encoding's length buys -/
mutual
theorem fuelS_le (ext : Ext) : ∀ v : Secret, ValidSecret ext v → fuelS v ≤ 2 * (encSecret v).length + 2
  | .mk k vs ud, hv => by
    simp only [ValidSecret] at hv
    have := fuelU_le ext ud hv.2.2
    simp only [fuelS, encSecret, List.length_append, encU8, leBytes_length]
    omega
theorem fuelU_le (ext : Ext) : ∀ v : UserData, ValidUD ext v → fuelU v ≤ 2 * (encUD v).length + 2
  | .mk rs c n, hv => by
    simp only [ValidUD] at hv
    have := fuelR_le ext rs hv.2.1
    simp only [fuelU, encUD, List.length_append, encU32, leBytes_length]
    omega
theorem fuelR_le (ext : Ext) : ∀ v : SRows, ValidSRows ext v → fuelR v ≤ 2 * (encSRows v).length + 2
  | .nil, _ => by simp [fuelR]
  | .cons r rs, hv => by
    simp only [ValidSRows] at hv
    have h1 := fuelW_le ext r hv.1
    have h2 := fuelR_le ext rs hv.2
    simp only [fuelR, encSRows, List.length_append]
    omega
theorem fuelW_le (ext : Ext) : ∀ v : SRow, ValidSRow ext v → fuelW v + 29 ≤ 2 * (encSRow v).length
  | .mk id m s, hv => by
    simp only [ValidSRow] at hv
    have := fuelS_le ext s hv.2.2
    simp only [fuelW, encSRow, List.length_append, hv.1]
    omega
end

/-- C14 for `Secret` (all 15 kinds; custom fields nested to any depth). -/
theorem roundtrip_Secret (ext : Ext) (v : Secret) (rest : Bytes) (h : ValidSecret ext v) :
    (decodeSecret ext (encSecret v ++ rest)).res = .ok v rest := by
  unfold decodeSecret
  apply rtS ext v _ rest h
  have := fuelS_le ext v h
  unfold fuelFor
  simp only [List.length_append]
  omega

/-- C14 for `SecretRow` (a custom field, or a row of a folder listing). -/
theorem roundtrip_SecretRow (ext : Ext) (r : SRow) (rest : Bytes) (h : ValidSRow ext r) :
    (decodeSRow ext (encSRow r ++ rest)).res = .ok r rest := by
  unfold decodeSRow
  apply rtW ext r _ rest h
  have := fuelW_le ext r h
  unfold fuelFor
  simp only [List.length_append]
  omega

/-! ### the model's arms are the source's arms (regenerated tables) -/

/-- every arm of `impl Decodable for Secret`: the same primitive reads in the same order and
the same number of externally parsed payloads as the schema of its kind tag -/
theorem secret_arms_match_source : modelSecretArms = Generated.secretDecArms := by decide

/-- the encoder side: every arm of `impl Encodable for Secret` writes what the schema of its
kind says, in that order (so encoder and decoder walk the same line) -/
theorem secret_enc_arms_match_source : modelSecretEncArms = Generated.secretEncArms := by decide

theorem secret_meta_writes_match_source : fldsWrites metaSchema = Generated.secretMetaWrites := by decide

theorem secret_meta_reads_match_source :
    fingerprint (fldsReads metaSchema) = Generated.secretMetaReads := by decide

/-- the nested decoders selected by a tag byte (file content, signer, age version) -/
theorem secret_choice_arms_match_source : modelChoiceArms = Generated.secretChoiceArms := by decide

theorem identity_kinds_match_source : identityKinds = Generated.identityKindTags := by decide
theorem secret_kinds_match_source :
    (secretKinds.all fun t => (Generated.secretKindTags.map (·.2)).contains t) = true ∧
    ((Generated.secretKindTags.map (·.2)).all fun t => secretKinds.contains t) = true := by decide
theorem secret_flags_mask_matches_source : Generated.secretFlagsMask = 1 := by decide

/-- every kind tag 1..15 has an arm, no other tag has one -/
theorem secret_kinds_have_arms : ∀ k, k < 256 → ((schema k).isSome = secretKinds.contains k) := by
  decide +kernel

/-- the premises are satisfiable: a note "a" with one custom field (a note "") and a comment -/
def exampleExt : Ext := ⟨fun _ _ => true⟩
def exampleMeta : List Val :=
  [.s (.u8 2), .s (.u32 0), .s (.date ⟨0, 0⟩), .s (.date ⟨0, 0⟩), .s (.str []), .s (.strs []),
   .s (.optStr none), .s (.optStr (some [0x6f])), .s (.bool false)]
def exampleSecret : Secret :=
  .mk 2 [.s (.str [0x61])]
    (.mk (.cons (.mk (List.replicate 16 7) exampleMeta (.mk 2 [.s (.str [])] (.mk .nil none none))) .nil) (some [0x62]) none)

example : (match (decodeSecret exampleExt (encSecret exampleSecret ++ [9])).res with
    | .ok (.mk k _ (.mk rs c _)) rest => (k, rs.length, c, rest) | _ => (0, 0, none, [])) = (2, 1, some [0x62], [9]) := by decide

end Sos.Props.C14
