/-
  C05  Merging never loses, duplicates or resurrects committed edits.
  Theorems about `merge_patches` (the only place where divergent suffixes are
  combined) for all pairs of suffixes of any length, any timestamps (ties, skew).
-/
import SosModel.Sync
namespace Sos.Props.C05
open Sos Sos.Merkle Sos.Log Sos.Sync

def SortedT (l : LogSeq) : Prop := l.Pairwise (fun a b => a.time ≤ b.time)

theorem insert_perm (r : Rec) (l : LogSeq) : (sortByTime.insertByTime' r l).Perm (r :: l) := by
  induction l with
  | nil => exact List.Perm.refl _
  | cons y ys ih =>
    unfold sortByTime.insertByTime'
    split
    · exact (List.Perm.cons y ih).trans (List.Perm.swap r y ys)
    · exact List.Perm.refl _

theorem sort_perm (l : LogSeq) : (sortByTime l).Perm l := by
  induction l with
  | nil => exact List.Perm.refl _
  | cons x xs ih =>
    unfold sortByTime
    exact (insert_perm x (sortByTime xs)).trans (List.Perm.cons x ih)

theorem insert_sorted (r : Rec) (l : LogSeq) (h : SortedT l) :
    SortedT (sortByTime.insertByTime' r l) := by
  induction l with
  | nil => simp [sortByTime.insertByTime', SortedT]
  | cons y ys ih =>
    unfold sortByTime.insertByTime'
    have hy := List.pairwise_cons.mp h
    split
    · rename_i hlt
      apply List.pairwise_cons.mpr
      refine ⟨?_, ih hy.2⟩
      intro z hz
      have := (insert_perm r ys).mem_iff.mp hz
      rcases List.mem_cons.mp this with e | e
      · subst e; omega
      · exact hy.1 z e
    · rename_i hge
      apply List.pairwise_cons.mpr
      refine ⟨?_, h⟩
      intro z hz
      rcases List.mem_cons.mp hz with e | e
      · subst e; omega
      · have := hy.1 z e; omega

theorem sort_sorted (l : LogSeq) : SortedT (sortByTime l) := by
  induction l with
  | nil => simp [sortByTime, SortedT]
  | cons x xs ih => unfold sortByTime; exact insert_sorted x _ ih

theorem insert_filter (r : Rec) (l : LogSeq) (t : Nat) (h : SortedT l) :
    (sortByTime.insertByTime' r l).filter (·.time = t) = (r :: l).filter (·.time = t) := by
  induction l with
  | nil => simp [sortByTime.insertByTime']
  | cons y ys ih =>
    unfold sortByTime.insertByTime'
    have hy := List.pairwise_cons.mp h
    split
    · rename_i hlt
      simp only [List.filter_cons]
      rw [ih hy.2]
      simp only [List.filter_cons]
      by_cases h1 : y.time = t <;> by_cases h2 : r.time = t <;> simp [h1, h2]
      omega
    · rfl

/-- C05/1.  In the diverged branch the merged patch is a permutation of the local records
the remote does not have yet, followed by the remote records: nothing else is added. -/
theorem merged_is_permutation (l r m : LogSeq) (h : mergePatches l r = .pushRemote m) :
    m.Perm (l.filter (notIn r) ++ r) := by
  unfold mergePatches at h
  split at h
  · cases h
  · cases h; exact sort_perm _

/-- no committed event is lost: the commit of every record of either side is in the merge -/
theorem no_event_lost (l r m : LogSeq) (h : mergePatches l r = .pushRemote m) (x : Rec)
    (hx : x ∈ l ∨ x ∈ r) : x.commit ∈ commits m := by
  have hp := merged_is_permutation l r m h
  have hm : ∀ y, y ∈ l.filter (notIn r) ++ r → y.commit ∈ commits m := by
    intro y hy
    exact List.mem_map_of_mem (hp.mem_iff.mpr hy)
  rcases hx with hx | hx
  · by_cases hin : x.commit ∈ commits r
    · obtain ⟨y, hy, e⟩ := List.mem_map.mp hin
      rw [← e]; exact hm y (List.mem_append_right _ hy)
    · apply hm x
      apply List.mem_append_left
      rw [List.mem_filter]
      refine ⟨hx, ?_⟩
      simp [notIn, hin]
  · exact hm x (List.mem_append_right _ hx)

theorem nothing_added (l r m : LogSeq) (h : mergePatches l r = .pushRemote m) (x : Rec)
    (hx : x ∈ m) : x ∈ l ∨ x ∈ r := by
  have := (merged_is_permutation l r m h).mem_iff.mp hx
  rcases List.mem_append.mp this with h1 | h1
  · exact Or.inl (List.mem_filter.mp h1).1
  · exact Or.inr h1

/-- C05/2.  The merged patch is in timestamp order. -/
theorem merged_in_timestamp_order (l r m : LogSeq) (h : mergePatches l r = .pushRemote m) :
    SortedT m := by
  unfold mergePatches at h
  split at h
  · cases h
  · cases h; exact sort_sorted _

/-- C05/3.  Ties keep their original relative order (local before remote, and each
side's own order): the events of any given timestamp appear exactly as in the input. -/
theorem merged_is_stable (l r m : LogSeq) (h : mergePatches l r = .pushRemote m) (t : Nat) :
    m.filter (·.time = t) = (l.filter (notIn r) ++ r).filter (·.time = t) := by
  unfold mergePatches at h
  split at h
  · cases h
  · cases h
    generalize l.filter (notIn r) ++ r = xs
    induction xs with
    | nil => rfl
    | cons x xs ih =>
      unfold sortByTime
      rw [insert_filter x _ t (sort_sorted xs)]
      simp only [List.filter_cons]
      rw [ih]

/-- C05/4.  When every local commit is already on the remote the remote suffix is taken
as is (no reordering, no duplication). -/
theorem subset_takes_remote (l r : LogSeq)
    (h : ∀ c ∈ commits l, c ∈ commits r) : mergePatches l r = .rewindLocal r := by
  unfold mergePatches
  have : (commits l).all (fun c => (commits r).contains c) = true := by
    simp only [List.all_eq_true, List.contains_iff_mem]
    intro c hc; simpa using h c hc
  rw [if_pos this]

theorem commits_filter_sublist (l r : LogSeq) : (commits (l.filter (notIn r))).Sublist (commits l) :=
  List.Sublist.map _ (List.filter_sublist)

/-- C05/5.  Exactly once: when no commit is repeated WITHIN either side, every commit occurs
exactly once in the merged patch — also when the two sides share events (an event both sides
hold, or the same event made independently on both). -/
theorem exactly_once (l r m : LogSeq) (h : mergePatches l r = .pushRemote m)
    (hl : (commits l).Nodup) (hr : (commits r).Nodup) : (commits m).Nodup := by
  have hp := merged_is_permutation l r m h
  have hp2 : (commits m).Perm (commits (l.filter (notIn r) ++ r)) :=
    List.Perm.map (fun x : Rec => x.commit) hp
  apply hp2.nodup_iff.mpr
  have : commits (l.filter (notIn r) ++ r) = commits (l.filter (notIn r)) ++ commits r := by
    simp [commits]
  rw [this, List.nodup_append]
  refine ⟨(commits_filter_sublist l r).nodup hl, hr, ?_⟩
  intro a ha b hb e
  subst e
  obtain ⟨y, hy, e⟩ := List.mem_map.mp ha
  have := (List.mem_filter.mp hy).2
  simp only [notIn, Bool.not_eq_true', List.contains_eq_mem, decide_eq_false_iff_not] at this
  rw [e] at this
  exact this hb

private def a : Rec := { time := 5, commit := H.leaf [1], bytes := [1] }
private def b : Rec := { time := 6, commit := H.leaf [2], bytes := [2] }
private def d1 : Rec := { time := 7, commit := H.leaf [9], bytes := [9] }
private def d2 : Rec := { time := 8, commit := H.leaf [9], bytes := [9] }

/-- The same event made independently on both sides (e.g. both delete the same secret) is
kept once (the remote's record); before the repair it was kept twice. -/
theorem identical_events_merged_once :
    mergePatches [a, d1] [b, d2] = .pushRemote [a, b, d2] := by decide

/-- An event both sides hold after the ancestor (the ancestor moved before it because an
older event of a third device was merged in front of it) is not added again. -/
theorem shared_event_not_added_again :
    mergePatches [b, d1] [a, b] = .pushRemote [a, b, d1] := by decide

example : mergePatches [a] [b] = .pushRemote [a, b] := by decide
example : mergePatches [a] [a, b] = .rewindLocal [a, b] := by decide
/-! ### a log without a first common event (the FILE log of a young account) -/

private def fa : Rec := { time := 2, commit := H.leaf [1], bytes := [1] }
private def fb : Rec := { time := 3, commit := H.leaf [2], bytes := [2] }

/-- Witness (KNOWN FINDING C05/file-log-without-common-event): the log was empty when the
devices diverged and each made an event (attached its first external file).  The first
device's call pushes its event; for the second device the ancestor search finds no common
commit, which the protocol treats as a hard conflict: the server's log replaces the device's
and the device's own event `fb` is gone, with an outcome that is not an error. -/
theorem first_events_on_two_devices_one_is_lost :
    syncLog [fb] [fa] = ([fa], [fa], .hardConflict) := by decide

end Sos.Props.C05
