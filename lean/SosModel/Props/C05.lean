/-
  C05  Merging never loses, duplicates or resurrects committed edits.
  Theorems about `merge_patches` (the only place where divergent suffixes are
  combined) for all pairs of suffixes of any length, any timestamps (ties, skew).
-/
import SosModel.Sync
namespace Sos.Props.C05
open Sos Sos.Merkle Sos.Log Sos.Sync

def SortedT (l : LogSeq) : Prop := l.Pairwise (fun a b => a.time ≤ b.time)

theorem insert_perm (r : Rec) (l : LogSeq) : (sortByTime.insertByTime' r l).Perm (r :: l) := by
  induction l with
  | nil => exact List.Perm.refl _
  | cons y ys ih =>
    unfold sortByTime.insertByTime'
    split
    · exact (List.Perm.cons y ih).trans (List.Perm.swap r y ys)
    · exact List.Perm.refl _

theorem sort_perm (l : LogSeq) : (sortByTime l).Perm l := by
  induction l with
  | nil => exact List.Perm.refl _
  | cons x xs ih =>
    unfold sortByTime
    exact (insert_perm x (sortByTime xs)).trans (List.Perm.cons x ih)

theorem insert_sorted (r : Rec) (l : LogSeq) (h : SortedT l) :
    SortedT (sortByTime.insertByTime' r l) := by
  induction l with
  | nil => simp [sortByTime.insertByTime', SortedT]
  | cons y ys ih =>
    unfold sortByTime.insertByTime'
    have hy := List.pairwise_cons.mp h
    split
    · rename_i hlt
      apply List.pairwise_cons.mpr
      refine ⟨?_, ih hy.2⟩
      intro z hz
      have := (insert_perm r ys).mem_iff.mp hz
      rcases List.mem_cons.mp this with e | e
      · subst e; omega
      · exact hy.1 z e
    · rename_i hge
      apply List.pairwise_cons.mpr
      refine ⟨?_, h⟩
      intro z hz
      rcases List.mem_cons.mp hz with e | e
      · subst e; omega
      · have := hy.1 z e; omega

theorem sort_sorted (l : LogSeq) : SortedT (sortByTime l) := by
  induction l with
  | nil => simp [sortByTime, SortedT]
  | cons x xs ih => unfold sortByTime; exact insert_sorted x _ ih

theorem insert_filter (r : Rec) (l : LogSeq) (t : Nat) (h : SortedT l) :
    (sortByTime.insertByTime' r l).filter (·.time = t) = (r :: l).filter (·.time = t) := by
  induction l with
  | nil => simp [sortByTime.insertByTime']
  | cons y ys ih =>
    unfold sortByTime.insertByTime'
    have hy := List.pairwise_cons.mp h
    split
    · rename_i hlt
      simp only [List.filter_cons]
      rw [ih hy.2]
      simp only [List.filter_cons]
      by_cases h1 : y.time = t <;> by_cases h2 : r.time = t <;> simp [h1, h2]
      omega
    · rfl

/-- C05/1.  In the diverged branch the merged patch is a permutation of the two
suffixes: nothing is lost, nothing else is added. -/
theorem merged_is_permutation (l r m : LogSeq) (h : mergePatches l r = .pushRemote m) :
    m.Perm (l ++ r) := by
  unfold mergePatches at h
  split at h
  · cases h
  · cases h; exact sort_perm _

theorem no_event_lost (l r m : LogSeq) (h : mergePatches l r = .pushRemote m) (x : Rec)
    (hx : x ∈ l ∨ x ∈ r) : x ∈ m :=
  (merged_is_permutation l r m h).mem_iff.mpr (List.mem_append.mpr hx)

theorem nothing_added (l r m : LogSeq) (h : mergePatches l r = .pushRemote m) (x : Rec)
    (hx : x ∈ m) : x ∈ l ∨ x ∈ r :=
  List.mem_append.mp ((merged_is_permutation l r m h).mem_iff.mp hx)

/-- C05/2.  The merged patch is in timestamp order. -/
theorem merged_in_timestamp_order (l r m : LogSeq) (h : mergePatches l r = .pushRemote m) :
    SortedT m := by
  unfold mergePatches at h
  split at h
  · cases h
  · cases h; exact sort_sorted _

/-- C05/3.  Ties keep their original relative order (local before remote, and each
side's own order): the events of any given timestamp appear exactly as in `l ++ r`. -/
theorem merged_is_stable (l r m : LogSeq) (h : mergePatches l r = .pushRemote m) (t : Nat) :
    m.filter (·.time = t) = (l ++ r).filter (·.time = t) := by
  unfold mergePatches at h
  split at h
  · cases h
  · cases h
    generalize l ++ r = xs
    induction xs with
    | nil => rfl
    | cons x xs ih =>
      unfold sortByTime
      rw [insert_filter x _ t (sort_sorted xs)]
      simp only [List.filter_cons]
      rw [ih]

/-- C05/4.  When every local commit is already on the remote the remote suffix is taken
as is (no reordering, no duplication). -/
theorem subset_takes_remote (l r : LogSeq)
    (h : ∀ c ∈ commits l, c ∈ commits r) : mergePatches l r = .rewindLocal r := by
  unfold mergePatches
  have : (commits l).all (fun c => (commits r).contains c) = true := by
    simp only [List.all_eq_true, List.contains_iff_mem]
    intro c hc; simpa using h c hc
  rw [if_pos this]

/-- C05/5 (partial).  With no byte-identical event on both sides and none repeated on one
side, every commit occurs exactly once in the merged patch. -/
theorem exactly_once_partial (l r m : LogSeq) (h : mergePatches l r = .pushRemote m)
    (hn : (commits (l ++ r)).Nodup) : (commits m).Nodup := by
  have hp := merged_is_permutation l r m h
  have hp2 : (commits m).Perm (commits (l ++ r)) := List.Perm.map (fun x : Rec => x.commit) hp
  exact hp2.nodup_iff.mpr hn

private def a : Rec := { time := 5, commit := H.leaf [1], bytes := [1] }
private def b : Rec := { time := 6, commit := H.leaf [2], bytes := [2] }
private def d1 : Rec := { time := 7, commit := H.leaf [9], bytes := [9] }
private def d2 : Rec := { time := 8, commit := H.leaf [9], bytes := [9] }

/-- Witness (KNOWN FINDING C05/identical-events-duplicated): the same event made
independently on both sides (e.g. both delete the same secret) is kept twice when the
local side also has an event the remote lacks; the full "exactly once" statement is false
of the code. -/
theorem identical_events_duplicated :
    mergePatches [a, d1] [b, d2] = .pushRemote [a, b, d1, d2] := by decide

example : mergePatches [a] [b] = .pushRemote [a, b] := by decide
example : mergePatches [a] [a, b] = .rewindLocal [a, b] := by decide

end Sos.Props.C05
