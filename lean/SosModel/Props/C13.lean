/-
  C13  A crash at any point leaves an account that opens and is consistent.

  Proved for the file-system model of SosModel/Crash.lean (every prefix of the primitive steps
  of an operation, every byte prefix of an appended region):
   * an append of one record leaves, on the next open, the log before or after it;
     an append of several records leaves a prefix of them (never a partial record, never a
     reordered or emptied log) — `…_partial`: a proper prefix of a batch is neither before
     nor after, witness `batch_append_can_leave_part`;
   * rewind is atomic; the repaired vault rewrite is atomic;
   * replace-all has a window in which the log is empty (witness, finding);
   * a folder edit leaves (vault, log) as before, as after, or the vault ONE event ahead of
     the log (witness, finding: served folder ≠ replay) — never the log ahead of the vault;
   * a torn appended vault row makes the vault undecodable (witness, finding).
-/
import SosModel.Crash
import SosModel.Lemmas.Codec
namespace Sos.Props.C13
open Sos Sos.Codec Sos.Crash

/-! ### reading back what was written -/

theorem frame_length (r : Bytes) : (frame r).length = r.length + 8 := by
  simp [frame]; omega

theorem scan_frame (fuel : Nat) (r rest : Bytes) (hr : r.length < 256 ^ 4)
    (hf : (frame r ++ rest).length ≤ fuel + 1) :
    scan (fuel + 1) (frame r ++ rest) = (r :: (scan fuel rest).1, (scan fuel rest).2) := by
  have hlen : (frame r ++ rest).length = r.length + 8 + rest.length := by
    simp [frame]; omega
  have e1 : (frame r ++ rest).take 4 = leBytes 4 r.length := by
    simp only [frame, List.append_assoc]
    exact List.take_left' (by simp)
  have e2 : leVal (leBytes 4 r.length) = r.length := leVal_leBytes 4 _ hr
  have e3 : ((frame r ++ rest).drop 4).take r.length = r := by
    simp only [frame, List.append_assoc]
    rw [List.drop_left' (by simp)]
    exact List.take_left' rfl
  have e4 : (frame r ++ rest).drop (r.length + 8) = rest := by
    exact List.drop_left' (by rw [frame_length])
  conv => lhs; unfold scan
  simp only [e1, e2, e3, e4, hlen]
  have h1 : ¬ (r.length + 8 + rest.length < 4) := by omega
  have h2 : ¬ (r.length + 8 + rest.length < r.length + 8) := by omega
  simp [h1, h2]

theorem encRows_length_cons (r : Bytes) (rs : List Bytes) :
    (encRows (r :: rs)).length = r.length + 8 + (encRows rs).length := by
  simp [encRows, frame_length]

/-- scanning the encoding of complete rows followed by anything yields those rows and then
whatever the scan makes of the rest -/
theorem scan_encRows (rs : List Bytes) (t : Bytes) (fuel : Nat)
    (hr : ∀ r ∈ rs, r.length < 256 ^ 4) (hf : (encRows rs ++ t).length ≤ fuel) :
    scan fuel (encRows rs ++ t) = (rs ++ (scan (fuel - rs.length) t).1, (scan (fuel - rs.length) t).2) := by
  induction rs generalizing fuel with
  | nil => simp [encRows]
  | cons r rs ih =>
    have hl : (encRows (r :: rs) ++ t).length = r.length + 8 + (encRows rs ++ t).length := by
      simp [encRows, frame_length] <;> omega
    obtain ⟨f, rfl⟩ : ∃ f, fuel = f + 1 := ⟨fuel - 1, by omega⟩
    have : encRows (r :: rs) ++ t = frame r ++ (encRows rs ++ t) := by simp [encRows]
    rw [this, scan_frame f r _ (hr r (by simp)) (by rw [← this]; exact hf)]
    rw [ih f (fun x hx => hr x (by simp [hx])) (by omega)]
    simp

/-- a proper byte prefix of a row is a torn tail: no row, all bytes left over -/
theorem scan_torn (fuel : Nat) (r : Bytes) (n : Nat) (hr : r.length < 256 ^ 4)
    (hn : n < (frame r).length) : scan fuel ((frame r).take n) = ([], (frame r).take n) := by
  cases fuel with
  | zero => rfl
  | succ f =>
    unfold scan
    have hl : ((frame r).take n).length = n := by rw [List.length_take]; omega
    by_cases h4 : n < 4
    · simp [hl, h4]
    · have e1 : ((frame r).take n).take 4 = leBytes 4 r.length := by
        rw [List.take_take]
        have : min 4 n = 4 := by omega
        rw [this]
        simp only [frame]
        exact List.take_left' (by simp)
      have e2 : leVal (leBytes 4 r.length) = r.length := leVal_leBytes 4 _ hr
      rw [frame_length] at hn
      simp only [hl, h4, if_false, e1, e2]
      have : n < r.length + 8 := hn
      simp [this]

theorem openLog_encRows (rs : List Bytes) (hr : ∀ r ∈ rs, r.length < 256 ^ 4) :
    openLog (encRows rs) = rs := by
  have := scan_encRows rs [] (encRows rs).length hr (by simp)
  simp only [List.append_nil] at this
  unfold openLog
  rw [this]
  cases (encRows rs).length - rs.length <;> simp [scan]

/-- C13/1.  A torn append of ONE record: the next open reads the log as it was before the
append, for EVERY proper byte prefix of the appended bytes; and as after it for the whole. -/
theorem torn_single_append_opens_before_or_after (rs : List Bytes) (r : Bytes) (n : Nat)
    (hr : ∀ x ∈ rs, x.length < 256 ^ 4) (hr' : r.length < 256 ^ 4) :
    openLog (encRows rs ++ (frame r).take n) = if n < (frame r).length then rs else rs ++ [r] := by
  by_cases hn : n < (frame r).length
  · simp only [hn, if_true]
    unfold openLog
    rw [scan_encRows rs _ _ hr (Nat.le_refl _), scan_torn _ r n hr' hn]
    simp
  · simp only [hn, if_false]
    have : (frame r).take n = frame r := List.take_of_length_le (by omega)
    rw [this]
    have e : encRows rs ++ frame r = encRows (rs ++ [r]) := by
      induction rs with
      | nil => simp [encRows]
      | cons a as ih =>
        simp only [encRows, List.cons_append, List.append_assoc]
        rw [ih (fun x hx => hr x (by simp [hx]))]
    rw [e]
    exact openLog_encRows _ (by
      intro x hx
      simp only [List.mem_append, List.mem_singleton] at hx
      rcases hx with hx | hx
      · exact hr x hx
      · subst hx; exact hr')

/-- a byte prefix of a batch = some complete rows of it + a torn (possibly empty) part of the next -/
theorem take_encRows (new : List Bytes) (n : Nat) :
    ∃ j t, (encRows new).take n = encRows (new.take j) ++ t ∧
      (t = [] ∨ ∃ r m, r ∈ new ∧ t = (frame r).take m ∧ m < (frame r).length) := by
  induction new generalizing n with
  | nil => exact ⟨0, [], by simp [encRows], Or.inl rfl⟩
  | cons r rs ih =>
    by_cases h : n < (frame r).length
    · refine ⟨0, (frame r).take n, ?_, ?_⟩
      · simp only [encRows, List.take_zero, List.nil_append]
        rw [List.take_append_of_le_length (by omega)]
      · exact Or.inr ⟨r, n, by simp, rfl, h⟩
    · obtain ⟨j, t, h1, h2⟩ := ih (n - (frame r).length)
      refine ⟨j + 1, t, ?_, ?_⟩
      · simp only [encRows, List.take_succ_cons, List.append_assoc]
        rw [List.take_append (l₁ := frame r)]
        rw [List.take_of_length_le (by omega), h1]
      · rcases h2 with h2 | ⟨x, m, hx, ht, hm⟩
        · exact Or.inl h2
        · exact Or.inr ⟨x, m, by simp [hx], ht, hm⟩

/-- C13/2 (partial).  A torn append of a BATCH of records: the next open reads the old log
followed by a prefix of the batch — complete records in order; never a partial record, a
reordered or an emptied log.  (Not "before or after": see `batch_append_can_leave_part`.) -/
theorem torn_batch_append_opens_prefix_partial (rs new : List Bytes) (n : Nat)
    (hr : ∀ x ∈ rs, x.length < 256 ^ 4) (hn : ∀ x ∈ new, x.length < 256 ^ 4) :
    ∃ j, openLog (encRows rs ++ (encRows new).take n) = rs ++ new.take j := by
  obtain ⟨j, t, h1, h2⟩ := take_encRows new n
  refine ⟨j, ?_⟩
  have hj : ∀ x ∈ rs ++ new.take j, x.length < 256 ^ 4 := by
    intro x hx
    simp only [List.mem_append] at hx
    rcases hx with hx | hx
    · exact hr x hx
    · exact hn x (List.mem_of_mem_take hx)
  have e : ∀ (a b : List Bytes), encRows a ++ encRows b = encRows (a ++ b) := by
    intro a b
    induction a with
    | nil => simp [encRows]
    | cons x xs ih => simp only [encRows, List.cons_append, List.append_assoc]; rw [ih]
  rw [h1, ← List.append_assoc, e]
  unfold openLog
  rw [scan_encRows _ _ _ hj (Nat.le_refl _)]
  rcases h2 with h2 | ⟨x, m, hx, ht, hm⟩
  · subst h2
    cases (encRows (rs ++ List.take j new) ++ []).length - (rs ++ List.take j new).length <;> simp [scan]
  · subst ht
    rw [scan_torn _ x m (hn x hx) hm]
    simp

/-- witness: a batch of two records torn after the first is neither the log before nor after -/
theorem batch_append_can_leave_part :
    ∃ (rs new : List Bytes) (n : Nat),
      openLog (encRows rs ++ (encRows new).take n) ≠ rs ∧
      openLog (encRows rs ++ (encRows new).take n) ≠ rs ++ new :=
  ⟨[[1]], [[2], [3]], 9, by decide, by decide⟩

/-! ### operations as primitive steps -/

theorem mem_append_states {s s' : FS} {p : P} {b : Bytes} :
    s' ∈ Prim.crashStates s (.append p b) ↔
      ∃ n, n ≤ b.length ∧ s' = s.set p (some ((s.get p).getD [] ++ b.take n)) := by
  simp only [Prim.crashStates, List.mem_map, List.mem_range]
  constructor
  · rintro ⟨n, hn, rfl⟩; exact ⟨n, by omega, rfl⟩
  · rintro ⟨n, hn, rfl⟩; exact ⟨n, by omega, rfl⟩

theorem mem_setLen_states {s s' : FS} {p : P} {n : Nat} :
    s' ∈ Prim.crashStates s (.setLen p n) ↔ s' = s ∨ s' = s.set p ((s.get p).map (·.take n)) := by
  simp [Prim.crashStates, Prim.run]
theorem mem_create_states {s s' : FS} {p : P} :
    s' ∈ Prim.crashStates s (.create p) ↔ s' = s ∨ s' = s.set p (some []) := by
  simp [Prim.crashStates, Prim.run]
theorem mem_rename_states {s s' : FS} {a b : P} :
    s' ∈ Prim.crashStates s (.rename a b) ↔ s' = s ∨ s' = (s.set b (s.get a)).set a none := by
  simp [Prim.crashStates, Prim.run]
theorem mem_remove_states {s s' : FS} {p : P} :
    s' ∈ Prim.crashStates s (.remove p) ↔ s' = s ∨ s' = s.set p none := by
  simp [Prim.crashStates, Prim.run]
theorem mem_copy_states {s s' : FS} {a b : P} :
    s' ∈ Prim.crashStates s (.copy a b) ↔ s' = s ∨ s' = s.set b (s.get a) := by
  simp [Prim.crashStates, Prim.run]

def s0 (hdr : Bytes) (vault : Bytes) (rs : List Bytes) : FS :=
  { vault := some vault, log := some (hdr ++ encRows rs), tmp := none, snap := none }

theorem logView_s0 (hdr vault : Bytes) (rs : List Bytes) (hr : ∀ x ∈ rs, x.length < 256 ^ 4) :
    logView hdr.length (s0 hdr vault rs) = rs := by
  simp [logView, s0, openLog_encRows rs hr]

/-- the log file after the header and the old rows has received `n` bytes of `frame r` -/
theorem logView_torn (hdr v : Bytes) (rs : List Bytes) (r : Bytes) (n : Nat) (t : Option Bytes) (sn : Option Bytes)
    (hr : ∀ x ∈ rs, x.length < 256 ^ 4) (hr' : r.length < 256 ^ 4) :
    logView hdr.length { vault := some v, log := some (hdr ++ encRows rs ++ (frame r).take n), tmp := t, snap := sn } = rs ∨
    logView hdr.length { vault := some v, log := some (hdr ++ encRows rs ++ (frame r).take n), tmp := t, snap := sn } = rs ++ [r] := by
  have := torn_single_append_opens_before_or_after rs r n hr hr'
  simp only [logView, Option.getD_some, List.append_assoc, List.drop_left' (l₁ := hdr) rfl]
  rw [this]
  by_cases h : n < (frame r).length <;> simp [h]

/-- C13/3.  `apply_records` of one record, crashed anywhere (including inside the write):
the log opens as before or as after. -/
theorem apply_one_record_crash (hdr vault : Bytes) (rs : List Bytes) (r : Bytes)
    (hr : ∀ x ∈ rs, x.length < 256 ^ 4) (hr' : r.length < 256 ^ 4) :
    ∀ s ∈ crashStates (s0 hdr vault rs) (applyRecords [r]),
      (logView hdr.length s = rs ∨ logView hdr.length s = rs ++ [r]) ∧ s.vault = some vault := by
  intro s hs
  simp only [crashStates, applyRecords, List.mem_append, mem_append_states, List.mem_singleton,
    encRows, List.append_nil] at hs
  rcases hs with ⟨n, _, rfl⟩ | rfl
  · exact ⟨by simpa [FS.set, FS.get, s0] using logView_torn hdr vault rs r n none none hr hr', by simp [FS.set, s0]⟩
  · refine ⟨?_, by simp [Prim.run, FS.set, s0]⟩
    have := logView_torn hdr vault rs r (frame r).length none none hr hr'
    simpa [Prim.run, FS.set, FS.get, s0] using this

/-- C13/4.  `rewind` is a single `set_len`: the only crash states are before and after. -/
theorem rewind_atomic (hdr vault : Bytes) (rs : List Bytes) (keep : Nat) :
    ∀ s ∈ crashStates (s0 hdr vault rs) (rewind hdr.length rs keep),
      s = s0 hdr vault rs ∨ s = runAll (s0 hdr vault rs) (rewind hdr.length rs keep) := by
  intro s hs
  simp only [crashStates, rewind, List.mem_append, mem_setLen_states, List.mem_singleton] at hs
  simp only [rewind, runAll, Prim.run]
  rcases hs with (h | h) | h <;> simp [h, Prim.run]

theorem encRows_append (a b : List Bytes) : encRows (a ++ b) = encRows a ++ encRows b := by
  induction a with
  | nil => simp [encRows]
  | cons x xs ih => simp only [encRows, List.cons_append, List.append_assoc]; rw [ih]

/-- after a completed rewind the log opens as the first `keep` records -/
theorem rewind_result (hdr vault : Bytes) (rs : List Bytes) (keep : Nat)
    (hr : ∀ x ∈ rs, x.length < 256 ^ 4) :
    logView hdr.length (runAll (s0 hdr vault rs) (rewind hdr.length rs keep)) = rs.take keep := by
  have e : encRows rs = encRows (rs.take keep) ++ encRows (rs.drop keep) := by
    rw [← encRows_append, List.take_append_drop]
  simp only [rewind, runAll, Prim.run, FS.get, FS.set, s0, logView, Option.map_some, Option.getD_some]
  rw [e, ← List.append_assoc, List.take_left' (by simp), List.drop_left' rfl]
  exact openLog_encRows _ (fun x hx => hr x (List.mem_of_mem_take hx))

/-- C13/5.  The repaired vault rewrite (temporary file + rename): in every crash state the
vault file holds the old or the new content, whole; the log is untouched. -/
theorem vault_rewrite_atomic (hdr vault new : Bytes) (rs : List Bytes) :
    ∀ s ∈ crashStates (s0 hdr vault rs) (vaultRewrite new),
      (s.vault = some vault ∨ s.vault = some new) ∧ s.log = (s0 hdr vault rs).log := by
  intro s hs
  simp only [crashStates, vaultRewrite, List.mem_append, mem_create_states, mem_append_states,
    mem_rename_states, List.mem_singleton, Prim.run] at hs
  rcases hs with (h | h) | ⟨n, _, h⟩ | (h | h) | h <;> subst h <;> simp [FS.set, FS.get, s0]

/-- C13/6 (finding).  `replace_all_events` truncates before it writes: there is a crash state
in which the log opens EMPTY although it was non-empty before and is non-empty after, and
nothing on the open path restores the snapshot. -/
theorem replace_all_window_emptied :
    ∃ (hdr vault : Bytes) (rs new : List Bytes),
      ∃ s ∈ crashStates (s0 hdr vault rs) (replaceAll hdr new),
        logView hdr.length s = [] ∧ rs ≠ [] ∧ new ≠ [] :=
  ⟨[83, 79], [], [[1]], [[2]],
   { vault := some [], log := some [83, 79], tmp := none, snap := some ([83, 79] ++ encRows [[1]]) },
   by decide, by decide, by decide, by decide⟩

theorem openLog_take_new (new : List Bytes) (hn : ∀ x ∈ new, x.length < 256 ^ 4) (n : Nat) :
    ∃ j, openLog ((encRows new).take n) = new.take j := by
  have := torn_batch_append_opens_prefix_partial [] new n (by simp) hn
  simpa [encRows] using this

/-- C13/6 (partial).  In every crash state of replace-all the log opens as the old records,
as nothing, or as a prefix of the new records — never a mixture of old and new. -/
theorem replace_all_crash_states_partial (hdr vault : Bytes) (rs new : List Bytes)
    (hr : ∀ x ∈ rs, x.length < 256 ^ 4) (hn : ∀ x ∈ new, x.length < 256 ^ 4) :
    ∀ s ∈ crashStates (s0 hdr vault rs) (replaceAll hdr new),
      logView hdr.length s = rs ∨ ∃ j, logView hdr.length s = new.take j := by
  intro s hs
  simp only [crashStates, replaceAll, List.mem_append, mem_copy_states, mem_setLen_states,
    mem_append_states, mem_remove_states, List.mem_singleton, Prim.run] at hs
  have old : openLog (encRows rs) = rs := openLog_encRows rs hr
  have hdrn : ∀ n, (List.take n hdr).drop hdr.length = [] := by
    intro n; apply List.drop_eq_nil_of_le; rw [List.length_take]; omega
  rcases hs with (h | h) | (h | h) | ⟨n, _, h⟩ | ⟨n, _, h⟩ | (h | h) | h
  all_goals subst h
  all_goals simp only [logView, FS.set, FS.get, s0, Option.map_some, Option.getD_some, List.take_zero,
    List.nil_append, List.drop_left' (l₁ := hdr) rfl]
  · exact Or.inl old
  · exact Or.inl old
  · exact Or.inl old
  · right; exact ⟨0, by simp [openLog, scan]⟩
  · right; exact ⟨0, by rw [hdrn]; simp [openLog, scan]⟩
  · right; exact openLog_take_new new hn n
  · right; simpa using openLog_take_new new hn (encRows new).length
  · right; simpa using openLog_take_new new hn (encRows new).length
  · right; simpa using openLog_take_new new hn (encRows new).length

/-- C13/7 (partial).  A folder edit whose vault part is a rewrite: in every crash state the
pair (vault file, log as opened) is the pair before, the pair after, or the NEW vault with
the OLD log — the vault at most one event ahead, never behind. -/
theorem folder_edit_crash_states_partial (hdr vault new : Bytes) (rs : List Bytes) (ev : Bytes)
    (hr : ∀ x ∈ rs, x.length < 256 ^ 4) (he : ev.length < 256 ^ 4) :
    ∀ s ∈ crashStates (s0 hdr vault rs) (folderEdit (vaultRewrite new) ev),
      (s.vault = some vault ∧ logView hdr.length s = rs) ∨
      (s.vault = some new ∧ logView hdr.length s = rs) ∨
      (s.vault = some new ∧ logView hdr.length s = rs ++ [ev]) := by
  intro s hs
  have old : ∀ v t sn, logView hdr.length { vault := v, log := some (hdr ++ encRows rs), tmp := t, snap := sn } = rs := by
    intro v t sn
    simp [logView, openLog_encRows rs hr]
  simp only [folderEdit, vaultRewrite, applyRecords, List.cons_append, List.nil_append, crashStates,
    List.mem_append, mem_create_states, mem_append_states, mem_rename_states, List.mem_singleton,
    Prim.run, encRows, List.append_nil] at hs
  rcases hs with (h | h) | ⟨n, _, h⟩ | (h | h) | ⟨n, _, h⟩ | h
  all_goals subst h
  all_goals simp only [FS.set, FS.get, s0, Option.getD_some, List.nil_append]
  · left; exact ⟨trivial, old _ _ _⟩
  · left; exact ⟨trivial, old _ _ _⟩
  · left; exact ⟨trivial, old _ _ _⟩
  · left; exact ⟨trivial, old _ _ _⟩
  · right; left; exact ⟨trivial, old _ _ _⟩
  · rcases logView_torn hdr new rs ev n none none hr he with k | k
    · right; left; exact ⟨trivial, k⟩
    · right; right; exact ⟨trivial, k⟩
  · have k := logView_torn hdr new rs ev (frame ev).length none none hr he
    simp only [List.take_length] at k
    rcases k with k | k
    · right; left; exact ⟨trivial, k⟩
    · right; right; exact ⟨trivial, k⟩

/-- C13/7 (finding).  The middle case is reachable: after the vault has been rewritten and
before the event is appended, the vault file (what is served) is ahead of the log (what is
replayed). -/
theorem folder_edit_gap_reachable (hdr vault new : Bytes) (rs : List Bytes) (ev : Bytes)
    (hr : ∀ x ∈ rs, x.length < 256 ^ 4) :
    ∃ s ∈ crashStates (s0 hdr vault rs) (folderEdit (vaultRewrite new) ev),
      s.vault = some new ∧ logView hdr.length s = rs := by
  refine ⟨{ vault := some new, log := some (hdr ++ encRows rs), tmp := none, snap := none }, ?_, rfl, ?_⟩
  · simp only [folderEdit, vaultRewrite, applyRecords, List.cons_append, List.nil_append, crashStates,
      List.mem_append, mem_create_states, mem_append_states, mem_rename_states, List.mem_singleton, Prim.run]
    right; right; left; right
    simp [FS.set, FS.get, s0]
  · simp [logView, openLog_encRows rs hr]

/-- C13/8 (finding).  A vault row appended by `insert_secret` and torn anywhere inside makes
the vault file undecodable (the event log tolerates a torn tail, the vault decoder does not). -/
theorem torn_vault_row_fails_open (rows : List Bytes) (row : Bytes) (n : Nat)
    (hr : ∀ x ∈ rows, x.length < 256 ^ 4) (hr' : row.length < 256 ^ 4)
    (h0 : 0 < n) (hn : n < (frame row).length) :
    openVault (encRows rows ++ (frame row).take n) = none := by
  unfold openVault
  rw [scan_encRows rows _ _ hr (Nat.le_refl _), scan_torn _ row n hr' hn]
  have : (frame row).take n ≠ [] := by
    intro h
    have h2 := congrArg List.length h
    rw [List.length_take] at h2
    simp only [List.length_nil] at h2
    omega
  simp [this]

/-- C13/partial header.  Whatever part of the header a crash inside the header rewrite left
(any file shorter than the header), the next start initialises the log again, and a record
appended afterwards is read back by the start after that. -/
theorem short_log_is_initialised_and_stays_usable (hdr junk r : Bytes) (v t sn : Option Bytes)
    (hj : junk.length < hdr.length) (hr : r.length < 256 ^ 4) :
    let s0 : FS := { vault := v, log := some junk, tmp := t, snap := sn }
    logView hdr.length (initLog hdr s0) = [] ∧
    logView hdr.length (Prim.run (initLog hdr s0) (.append .log (frame r))) = [r] := by
  intro s0
  have hinit : initLog hdr s0 = { s0 with log := some hdr } := by
    simp [initLog, s0, hj]
  rw [hinit]
  constructor
  · simp [logView, openLog, scan]
  · simp only [Prim.run, FS.get, FS.set, logView, Option.getD_some, List.drop_left']
    have := openLog_encRows [r] (by intro x hx; simp at hx; subst hx; exact hr)
    simpa [encRows] using this

private def hdr6 : Bytes := [1, 2, 3, 4, 5, 6]
private def rec1 : Bytes := [9]

/-- Witness of the repaired defect: with the old initialisation a four-byte file (identity
without version) stays as it is; the appended record lands two bytes early and the next
start, which skips six bytes, reads nothing of it. -/
theorem partial_header_misaligned_the_log_before_the_repair :
    let s0 : FS := { vault := none, log := some [1, 2, 3, 4], tmp := none, snap := none }
    logView hdr6.length (Prim.run (initLogOld hdr6 s0) (.append .log (frame rec1))) ≠ [rec1] := by decide

/-- and a vault of complete rows decodes to them -/
theorem openVault_encRows (rows : List Bytes) (hr : ∀ x ∈ rows, x.length < 256 ^ 4) :
    openVault (encRows rows) = some rows := by
  have := scan_encRows rows [] (encRows rows).length hr (by simp)
  simp only [List.append_nil] at this
  unfold openVault
  rw [this]
  cases (encRows rows).length - rows.length <;> simp [scan]

/-! ### database backend -/

/-- C13/9 (partial).  A folder edit on the database backend (two transactions): in every crash
state the rows of the folder and its log are as before, as after, or the NEW rows with the OLD
log; the log never holds part of an operation. -/
theorem db_folder_edit_crash_states_partial (s : DB) (newVault : List Bytes) (ev : Bytes) :
    ∀ t ∈ dbCrashStates s (dbFolderEdit newVault ev),
      t = s ∨ t = { vault := newVault, log := s.log } ∨ t = { vault := newVault, log := s.log ++ [ev] } := by
  intro t ht
  simp only [dbFolderEdit, dbCrashStates, Txn.run, List.mem_cons, List.mem_singleton, List.not_mem_nil, or_false] at ht
  rcases ht with h | h | h <;> simp [h]

/-- C13/9 (finding).  The middle state is a crash state: rows one event ahead of the log. -/
theorem db_folder_edit_gap_reachable (s : DB) (newVault : List Bytes) (ev : Bytes) :
    { vault := newVault, log := s.log } ∈ dbCrashStates s (dbFolderEdit newVault ev) := by
  simp [dbFolderEdit, dbCrashStates, Txn.run]

/-- C13/10.  On the database backend a batch append, a rewind and a replace-all are single
transactions: the log is as before or as after (no part of a batch, no empty window). -/
theorem db_log_operations_atomic (s : DB) (op : Txn) :
    ∀ t ∈ dbCrashStates s [op], t = s ∨ t = op.run s := by
  intro t ht
  simp only [dbCrashStates, List.mem_cons, List.mem_singleton, List.not_mem_nil, or_false] at ht
  exact ht

/- the hypotheses are satisfiable by a concrete non-trivial state -/
example : ∃ s ∈ crashStates (s0 [83, 79] [9] [[1, 2]]) (folderEdit (vaultRewrite [9, 9]) [7]),
    s.vault = some [9, 9] ∧ logView 2 s = [[1, 2]] :=
  folder_edit_gap_reachable [83, 79] [9] [9, 9] [[1, 2]] [7] (by decide)

end Sos.Props.C13
