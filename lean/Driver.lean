import SosModel.Drv.Merkle
import SosModel.Drv.Log
import SosModel.Drv.Codec
import SosModel.Drv.Sync
import SosModel.Drv.Folder
import SosModel.Drv.Auth
import SosModel.Drv.Integrity
import SosModel.Drv.Crypto
import SosModel.Drv.Archive
import SosModel.Drv.Crash
open Sos

/-- State threaded through a session (stateful domains add fields here). -/
structure DrvState where
  log : Sos.Drv.Log.St := {}
  folder : Sos.Drv.Folder.St := {}

def stepLine (st : DrvState) (line : String) : DrvState × String :=
  let toks := (line.trimAscii.toString.splitOn " ").filter (· ≠ "")
  match toks with
  | "merkle" :: rest => (st, Sos.Drv.Merkle.step rest)
  | "archive" :: rest => (st, Sos.Drv.Archive.step rest)
  | "crash" :: rest => (st, Sos.Drv.Crash.step rest)
  | "crypto" :: rest => (st, Sos.Drv.Crypto.step rest)
  | "integrity" :: rest => (st, Sos.Drv.Integrity.step rest)
  | "auth" :: rest => (st, Sos.Drv.Auth.step rest)
  | "folder" :: rest =>
    let (f, o) := Sos.Drv.Folder.step st.folder rest
    ({ st with folder := f }, o)
  | "sync" :: rest => (st, Sos.Drv.Sync.step rest)
  | "codec" :: rest => (st, Sos.Drv.Codec.step rest)
  | "log" :: rest =>
    let (l, o) := Sos.Drv.Log.step st.log rest
    ({ st with log := l }, o)
  | _ => (st, "bad-op")

partial def loop (h : IO.FS.Stream) (out : IO.FS.Stream) (st : DrvState) : IO Unit := do
  let line ← h.getLine
  if line.isEmpty then return ()
  if line.startsWith "#" then
    loop h out st
  else
    let (st', o) := stepLine st line
    out.putStrLn o
    loop h out st'

def main : IO Unit := do
  let stdin ← IO.getStdin
  let stdout ← IO.getStdout
  loop stdin stdout {}
