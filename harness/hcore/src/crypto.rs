//! C10: differential tests of the real ciphers and KDFs (these are tests, they tie the
//! symbolic model's definitions to the code), and correspondence of open/derive verdicts.
use hcommon::{Cli, Report, Rng};
use secrecy::SecretString;
use serde_json::json;
use sos_core::crypto::{AeadPack, Cipher, DerivedPrivateKey, KeyDerivation, Nonce, PrivateKey, Seed};

fn rt() -> tokio::runtime::Runtime { tokio::runtime::Builder::new_current_thread().build().unwrap() }
fn name(c: &Cipher) -> &'static str { match c { Cipher::XChaCha20Poly1305 => "xchacha", Cipher::AesGcm256 => "aesgcm", _ => "x25519" } }

pub fn run(cli: &Cli) {
    let property = cli.extra.get("property").cloned().unwrap_or("C10".into());
    let mut rep = Report::new(&property, "crypto", cli.seed, &cli.tier);
    let thorough = cli.tier == "thorough";
    let mut rng = Rng::new(cli.seed);
    let rt = rt();
    let mut ops = vec![]; let mut imp = vec![];
    let ciphers = [Cipher::XChaCha20Poly1305, Cipher::AesGcm256];
    let keys: Vec<PrivateKey> = (0..3).map(|_| PrivateKey::Symmetric(DerivedPrivateKey::generate())).collect();
    let sizes: Vec<usize> = if thorough { vec![0, 1, 15, 16, 17, 4096, 1 << 20, 4 << 20] } else { vec![0, 1, 17, 4096, 1 << 20] };
    rt.block_on(async {
        for c in &ciphers {
            for (ki, key) in keys.iter().enumerate() {
                for sz in &sizes {
                    let pt: Vec<u8> = (0..*sz).map(|_| rng.below(256) as u8).collect();
                    let pack = c.encrypt_symmetric(key, &pt, None).await.expect("encrypt");
                    // round trip
                    let back = c.decrypt_symmetric(key, &pack).await;
                    rep.case(&format!("rt:{}:{}:{}", name(c), ki, sz), true);
                    if back.as_ref().ok() != Some(&pt) {
                        rep.spec_fail(&format!("c10-decrypt-does-not-return-plaintext:{}", name(c)), json!({"size": sz}), "decrypt(encrypt(p)) != p");
                    }
                    ops.push(format!("crypto open sealed={} key={} with={} wkey={} tamper=0", name(c), ki, name(c), ki)); imp.push(if back.is_ok() { "opens" } else { "fails" }.into());
                    // other keys
                    for (kj, other) in keys.iter().enumerate() {
                        if kj == ki { continue; }
                        let r = c.decrypt_symmetric(other, &pack).await;
                        rep.case(&format!("wrongkey:{}:{}:{}:{}", name(c), ki, kj, sz), true);
                        if r.is_ok() { rep.spec_fail(&format!("c10-decrypts-with-other-key:{}", name(c)), json!({"size": sz}), "decryption with another key returned data"); }
                        ops.push(format!("crypto open sealed={} key={} with={} wkey={} tamper=0", name(c), ki, name(c), kj)); imp.push(if r.is_ok() { "opens" } else { "fails" }.into());
                    }
                    // the other cipher (nonce length gate)
                    for c2 in &ciphers {
                        if name(c2) == name(c) { continue; }
                        let r = c2.decrypt_symmetric(key, &pack).await;
                        if r.is_ok() { rep.spec_fail("c10-opened-by-other-cipher", json!({"sealed": name(c), "with": name(c2)}), "a pack sealed by one cipher was opened by the other"); }
                        ops.push(format!("crypto open sealed={} key={} with={} wkey={} tamper=0", name(c), ki, name(c2), ki)); imp.push(if r.is_ok() { "opens" } else { "fails" }.into());
                    }
                    // tamper: every single bit for small packs, sampled bits for large ones
                    let nonce_bytes: Vec<u8> = match &pack.nonce { Nonce::Nonce12(b) => b.to_vec(), Nonce::Nonce24(b) => b.to_vec() };
                    let total_bits = (nonce_bytes.len() + pack.ciphertext.len()) * 8;
                    let bits: Vec<usize> = if total_bits <= 8 * 64 { (0..total_bits).collect() } else { (0..(if thorough { 256 } else { 48 })).map(|_| rng.below(total_bits as u64) as usize).collect() };
                    for bit in bits {
                        let mut nb = nonce_bytes.clone(); let mut ct = pack.ciphertext.clone();
                        let byte = bit / 8;
                        if byte < nb.len() { nb[byte] ^= 1 << (bit % 8); } else { ct[byte - nb.len()] ^= 1 << (bit % 8); }
                        let nonce = if nb.len() == 12 { Nonce::Nonce12(nb.clone().try_into().unwrap()) } else { Nonce::Nonce24(nb.clone().try_into().unwrap()) };
                        let r = c.decrypt_symmetric(key, &AeadPack { nonce, ciphertext: ct }).await;
                        rep.case(&format!("bit:{}:{}:{}:{}", name(c), ki, sz, bit), true);
                        if r.is_ok() { rep.spec_fail(&format!("c10-tampered-pack-decrypts:{}", name(c)), json!({"size": sz, "bit": bit}), "a pack with one flipped bit decrypted instead of failing"); }
                    }
                    ops.push(format!("crypto open sealed={} key={} with={} wkey={} tamper=1", name(c), ki, name(c), ki)); imp.push("fails".into());
                    // structural: truncation, extension, swapping parts with another pack
                    let other_pack = c.encrypt_symmetric(key, b"another plaintext", None).await.expect("encrypt");
                    let mut variants: Vec<(&str, AeadPack)> = vec![];
                    if !pack.ciphertext.is_empty() { let mut t = pack.ciphertext.clone(); t.pop(); variants.push(("truncated", AeadPack { nonce: pack.nonce.clone(), ciphertext: t })); }
                    { let mut e = pack.ciphertext.clone(); e.push(0); variants.push(("extended", AeadPack { nonce: pack.nonce.clone(), ciphertext: e })); }
                    variants.push(("nonce-swapped", AeadPack { nonce: other_pack.nonce.clone(), ciphertext: pack.ciphertext.clone() }));
                    variants.push(("empty", AeadPack { nonce: pack.nonce.clone(), ciphertext: vec![] }));
                    // the nonce re-wrapped in the other variant: extended by a tail (12 -> 24) or cut to its head (24 -> 12)
                    match &pack.nonce {
                        Nonce::Nonce12(b) => { for tail in [0u8, 0xA5] { let mut n = [tail; 24]; n[..12].copy_from_slice(b); variants.push(("nonce-extended-to-24", AeadPack { nonce: Nonce::Nonce24(n), ciphertext: pack.ciphertext.clone() })); } }
                        Nonce::Nonce24(b) => { let mut n = [0u8; 12]; n.copy_from_slice(&b[..12]); variants.push(("nonce-cut-to-12", AeadPack { nonce: Nonce::Nonce12(n), ciphertext: pack.ciphertext.clone() })); }
                    }
                    for (what, v) in variants {
                        let r = c.decrypt_symmetric(key, &v).await;
                        rep.case(&format!("struct:{}:{}:{}:{}", name(c), ki, sz, what), true);
                        if r.is_ok() { rep.spec_fail(&format!("c10-tampered-pack-decrypts:{}:{}", name(c), what), json!({"size": sz}), "a structurally modified pack decrypted instead of failing"); }
                    }
                    rep.count(&format!("{}:size{}", name(c), sz));
                }
            }
        }
    });
    // the third cipher: X25519 (age) for shared folders
    rt.block_on(async {
        let c = Cipher::X25519;
        let ids: Vec<age::x25519::Identity> = (0..3).map(|_| age::x25519::Identity::generate()).collect();
        for (ki, id) in ids.iter().enumerate() {
            let key = PrivateKey::Asymmetric(id.clone());
            for sz in &sizes {
                if *sz > (1 << 20) { continue; }
                let pt: Vec<u8> = (0..*sz).map(|_| rng.below(256) as u8).collect();
                let pack = match c.encrypt_asymmetric(&key, &pt, vec![id.to_public()]).await { Ok(p) => p, Err(e) => { rep.spec_fail("c10-x25519-encrypt-error", json!({"size": sz}), &e.to_string()); continue; } };
                let back = c.decrypt_asymmetric(&key, &pack).await;
                rep.case(&format!("rt:x25519:{}:{}", ki, sz), true);
                if back.as_ref().ok() != Some(&pt) { rep.spec_fail("c10-decrypt-does-not-return-plaintext:x25519", json!({"size": sz}), "decrypt(encrypt(p)) != p"); }
                for (kj, other) in ids.iter().enumerate() {
                    if kj == ki { continue; }
                    let r = c.decrypt_asymmetric(&PrivateKey::Asymmetric(other.clone()), &pack).await;
                    rep.case(&format!("wrongkey:x25519:{}:{}:{}", ki, kj, sz), true);
                    if r.is_ok() { rep.spec_fail("c10-decrypts-with-other-key:x25519", json!({"size": sz}), "decryption with another identity returned data"); }
                }
                // a symmetric cipher must not open it, nor a symmetric key
                for c2 in &ciphers { if c2.decrypt_symmetric(&keys[0], &pack).await.is_ok() { rep.spec_fail("c10-opened-by-other-cipher", json!({"sealed": "x25519", "with": name(c2)}), "an age pack was opened by a symmetric cipher"); } }
                if c.decrypt_asymmetric(&keys[0], &pack).await.is_ok() { rep.spec_fail("c10-x25519-opened-with-symmetric-key", json!({}), "asymmetric decryption accepted a symmetric key"); }
                // tamper with the ciphertext (header, stanza, payload) and the nonce field
                let n = pack.ciphertext.len();
                let positions: Vec<usize> = if n * 8 <= 8 * 400 && !pack.ciphertext.is_empty() { (0..n * 8).step_by(if thorough { 1 } else { 7 }).collect() } else { (0..(if thorough { 400 } else { 60 })).map(|_| rng.below((n * 8) as u64) as usize).collect() };
                for bit in positions {
                    let mut ct = pack.ciphertext.clone(); ct[bit / 8] ^= 1 << (bit % 8);
                    let r = c.decrypt_asymmetric(&key, &AeadPack { nonce: pack.nonce.clone(), ciphertext: ct }).await;
                    rep.case(&format!("bit:x25519:{}:{}:{}", ki, sz, bit), true);
                    if let Ok(out) = r { if out != pt || true { rep.spec_fail("c10-tampered-pack-decrypts:x25519", json!({"size": sz, "bit": bit, "same_plaintext": out == pt}), "an age pack with one flipped bit decrypted instead of failing"); } }
                }
                // the nonce field of an age pack (random filler the age format never reads)
                for (what, nonce) in [("nonce-field-flipped", { let mut b = pack.nonce.as_ref().to_vec(); b[0] ^= 1; sos_core::crypto::Nonce::Nonce12(b.try_into().unwrap_or([0u8; 12])) }), ("nonce-field-replaced", sos_core::crypto::Nonce::Nonce24([7u8; 24]))] {
                    if pack.nonce.as_ref().len() != 12 { continue; }
                    let r = c.decrypt_asymmetric(&key, &AeadPack { nonce, ciphertext: pack.ciphertext.clone() }).await;
                    rep.case(&format!("struct:x25519:{}:{}:{}", ki, sz, what), true);
                    if let Ok(out) = r { rep.spec_fail(&format!("c10-tampered-pack-decrypts:x25519:{what}"), json!({"size": sz, "same_plaintext": out == pt}), "an age pack whose nonce field was modified decrypted instead of failing"); }
                }
                let mut variants: Vec<(&str, Vec<u8>)> = vec![];
                if n > 0 { let mut t = pack.ciphertext.clone(); t.pop(); variants.push(("truncated", t)); }
                { let mut e = pack.ciphertext.clone(); e.push(0); variants.push(("extended", e)); }
                variants.push(("empty", vec![]));
                for (what, ct) in variants {
                    let r = c.decrypt_asymmetric(&key, &AeadPack { nonce: pack.nonce.clone(), ciphertext: ct }).await;
                    rep.case(&format!("struct:x25519:{}:{}:{}", ki, sz, what), true);
                    if r.is_ok() { rep.spec_fail(&format!("c10-tampered-pack-decrypts:x25519:{what}"), json!({"size": sz}), "a structurally modified age pack decrypted instead of failing"); }
                }
                rep.count(&format!("x25519:size{}", sz));
            }
        }
    });
    // key derivation: distinct (password ++ seed, salt) give distinct keys; same inputs the same key
    let pws = ["correct horse", "correct horse battery", "p"];
    let salts: Vec<_> = (0..2).map(|_| KeyDerivation::generate_salt()).collect();
    let seeds: Vec<Option<Seed>> = vec![None, Some(Seed([7u8; 32])), Some(Seed([8u8; 32]))];
    for (ai, alg) in [KeyDerivation::Argon2Id, KeyDerivation::BalloonHash].iter().enumerate() {
        if ai == 1 && !thorough { continue; } // balloon hash is slow
        let mut derived: Vec<(String, Vec<u8>)> = vec![];
        for pw in &pws { for (si, salt) in salts.iter().enumerate() { for (di, seed) in seeds.iter().enumerate() {
            let k = alg.deriver().derive(&SecretString::from(pw.to_string()), salt, seed.as_ref()).expect("derive");
            let k2 = alg.deriver().derive(&SecretString::from(pw.to_string()), salt, seed.as_ref()).expect("derive");
            if k.as_ref() != k2.as_ref() { rep.spec_fail("c10-derive-not-deterministic", json!({"pw": pw}), "same inputs derived different keys"); }
            let seed_hex = seed.as_ref().map(|s| hex::encode(s.as_ref())).unwrap_or("-".into());
            derived.push((format!("alg={} pw={} salt={} seed={}", ai + 1, hex::encode(pw.as_bytes()), hex::encode(format!("s{si}").as_bytes()), seed_hex), k.as_ref().to_vec()));
            let _ = di;
        } } }
        for i in 0..derived.len() { for j in (i + 1)..derived.len() {
            let same = derived[i].1 == derived[j].1;
            rep.case(&format!("kdf:{}:{}:{}", ai, i, j), true);
            if same { rep.spec_fail("c10-distinct-inputs-derive-same-key", json!({"a": derived[i].0, "b": derived[j].0}), "different password/salt/seed derived the same key"); }
            let b = derived[j].0.replace("alg=", "alg2=").replace(" pw=", " pw2=").replace(" salt=", " salt2=").replace(" seed=", " seed2=");
            ops.push(format!("crypto derive {} {}", derived[i].0, b)); imp.push(if same { "same-key" } else { "different-key" }.into());
        } }
        rep.count(&format!("kdf:{}", ai));
    }
    rep.diff_streams("corr:crypto", &ops, &imp);
    rep.sample(json!({"ciphers": ["xchacha20poly1305", "aes-gcm-256"], "sizes": sizes}));
    rep.rule = "the two symmetric ciphers x 3 random keys (and X25519/age x 3 identities: round trip, other identities, symmetric ciphers and keys refused, bit flips over header / stanza / payload, truncation, extension) x plaintext sizes (0 .. multi-MB): round trip, every other key, the other cipher (nonce-length gate), every single-bit flip of nonce and ciphertext for packs up to 64 bytes and sampled bits above, \\
        truncation / extension / nonce swap / empty ciphertext; KDF: all pairs of a pool of passwords x salts x seeds (Argon2id; BalloonHash in the thorough tier). These are differential TESTS of the primitives the model takes as definitions.".into();
    rep.write(&cli.out);
}
