//! C14 / C15 for the secret kinds (real code only: these types are not in the Lean model):
//! round trip of one structure-aware value per kind (optional fields present and absent,
//! comments, recovery notes, nested custom fields), and the mutation streams of codec.rs
//! (truncation at every offset, bit flips, hostile lengths, splices) into the real decoders
//! under catch_unwind and allocation tracking.
use hcommon::Rng;
use secrecy::SecretString;
use sos_core::{SecretId, UtcDateTime};
use sos_vault::secret::{AgeVersion, FileContent, IdentityKind, Secret, SecretMeta, SecretRow, SecretSigner, UserData};
use std::collections::{HashMap, HashSet};

fn ss(s: &str) -> SecretString { s.to_string().into() }

const CERT: &str = "-----BEGIN CERTIFICATE-----\nMIIBtjCCAVugAwIBAgITBmyf1XSXNmY/Owua2eiedgPySjAKBggqhkjOPQQDAjA5\nMQswCQYDVQQGEwJVUzEPMA0GA1UEChMGQW1hem9uMRkwFwYDVQQDExBBbWF6b24g\nUm9vdCBDQSAzMB4XDTE1MDUyNjAwMDAwMFoXDTQwMDUyNjAwMDAwMFowOTELMAkG\n-----END CERTIFICATE-----\n";

pub fn user_data(rng: &mut Rng, depth: usize) -> UserData {
    let mut u = UserData::default();
    if rng.chance(1, 2) { u.set_comment(Some(format!("comment {} ü", rng.below(100)))); }
    if rng.chance(1, 3) { u.set_recovery_note(Some("recovery\nnote".into())); }
    if depth > 0 && rng.chance(1, 2) {
        for i in 0..rng.range(1, 2) {
            let k2 = rng.below(5) as usize; let (m, s) = secret_of_kind(rng, k2, depth - 1);
            let _ = i;
            u.push(SecretRow::new(SecretId::new_v4(), m, s));
        }
    }
    u
}

fn time(rng: &mut Rng) -> UtcDateTime {
    let t = time::OffsetDateTime::from_unix_timestamp(rng.range(0, 4_000_000_000) as i64).unwrap();
    t.into()
}

pub const KINDS: usize = 15;

pub fn secret_of_kind(rng: &mut Rng, kind: usize, depth: usize) -> (SecretMeta, Secret) {
    let ud = user_data(rng, depth);
    let opt = |rng: &mut Rng, s: &str| if rng.chance(1, 2) { Some(ss(s)) } else { None };
    let secret = match kind {
        0 => Secret::Note { text: ss(*rng.pick(&["", "note text", "ünïcödé 🔐\nline"])), user_data: ud },
        1 => Secret::Account { account: format!("acct{}", rng.below(100)), password: ss("p@ss"), url: if rng.chance(1, 2) { vec!["https://example.com/a?b=c".parse().unwrap(), "http://10.0.0.1:8080/".parse().unwrap()] } else { vec![] }, user_data: ud },
        2 => Secret::Password { password: ss("hunter2"), name: opt(rng, "name"), user_data: ud },
        3 => Secret::Link { url: ss("https://example.com/x"), label: opt(rng, "label"), title: opt(rng, "title"), user_data: ud },
        4 => { let mut items = HashMap::new(); for i in 0..rng.below(4) { items.insert(format!("key{i}"), ss(&format!("value{i}"))); } Secret::List { items, user_data: ud } }
        5 => Secret::Pem { certificates: pem::parse_many(CERT).unwrap(), user_data: ud },
        6 => Secret::Page { title: "Title ü".into(), mime: "text/markdown".into(), document: ss("# heading\nbody"), user_data: ud },
        7 => { let bytes: Vec<u8> = (0..32).map(|_| rng.below(256) as u8).collect(); let k = secrecy::SecretBox::new(Box::new(bytes)); Secret::Signer { private_key: if rng.chance(1, 2) { SecretSigner::SinglePartyEcdsa(k) } else { SecretSigner::SinglePartyEd25519(k) }, user_data: ud } }
        8 => { let text = format!("BEGIN:VCARD\nVERSION:4.0\nFN:Jane Doe {}\nEND:VCARD", rng.below(100)); let vcard: vcard4::Vcard = text.as_str().try_into().unwrap(); Secret::Contact { vcard: Box::new(vcard), user_data: ud } }
        9 => { let totp = totp_rs::TOTP::new(totp_rs::Algorithm::SHA1, 6, 1, 30, "MockSecretWhichMustBeAtLeast80Bytes".as_bytes().to_vec(), Some("MockIssuer".to_string()), "mock@example.com".to_string()).unwrap(); Secret::Totp { totp, user_data: ud } }
        10 => Secret::Card { number: ss("4111111111111111"), expiry: if rng.chance(1, 2) { Some(time(rng)) } else { None }, cvv: ss("123"), name: opt(rng, "Jane Doe"), atm_pin: opt(rng, "1234"), user_data: ud },
        11 => Secret::Bank { number: ss("12345678"), routing: ss("00-00-00"), iban: opt(rng, "DE89 3704 0044 0532 0130 00"), swift: opt(rng, "DEUTDEFF"), bic: opt(rng, "DEUTDEFF500"), user_data: ud },
        12 => Secret::Identity { id_kind: rng.pick(&[IdentityKind::PersonalIdNumber, IdentityKind::IdCard, IdentityKind::Passport, IdentityKind::DriverLicense, IdentityKind::SocialSecurity, IdentityKind::TaxNumber, IdentityKind::MedicalCard]).clone(), number: ss("X123"), issue_place: if rng.chance(1, 2) { Some("Paris".into()) } else { None }, issue_date: if rng.chance(1, 2) { Some(time(rng)) } else { None }, expiry_date: if rng.chance(1, 2) { Some(time(rng)) } else { None }, user_data: ud },
        13 => Secret::Age { version: AgeVersion::default(), key: age::x25519::Identity::generate().to_string(), user_data: ud },
        _ => { let body: Vec<u8> = (0..rng.range(0, 300)).map(|_| rng.below(256) as u8).collect(); let checksum: [u8; 32] = hcommon::sha256(&body);
            let content = if rng.chance(1, 2) { FileContent::Embedded { name: "file.bin".into(), mime: "application/octet-stream".into(), checksum, buffer: secrecy::SecretBox::new(Box::new(body)) } } else { FileContent::External { name: "ext.bin".into(), mime: "image/png".into(), checksum, size: body.len() as u64, path: None } };
            Secret::File { content, user_data: ud } }
    };
    let mut meta = SecretMeta::new(format!("label {} 名前", rng.below(1000)), secret.kind());
    if rng.chance(1, 2) { meta.set_favorite(true); }
    if rng.chance(1, 2) { let mut t = HashSet::new(); t.insert("tag-a".to_string()); if rng.chance(1, 2) { t.insert("ταγ".to_string()); } meta.set_tags(t); }
    if rng.chance(1, 3) { meta.set_urn(Some("urn:sos:verif".parse().unwrap())); }
    (meta, secret)
}

/// Deeply nested custom fields: `hcore nest --depth N` decodes a Secret whose user data nests N levels
/// (each level is a note with one custom field).  Run in a child process: a stack overflow aborts.
pub fn nest_probe(cli: &hcommon::Cli) {
    let depth: usize = cli.extra.get("depth").and_then(|s| s.parse().ok()).unwrap_or(1000);
    let rt = tokio::runtime::Builder::new_current_thread().build().unwrap();
    let inner = Secret::Note { text: ss("x"), user_data: UserData::default() };
    let mut ud = UserData::default();
    ud.push(SecretRow::new(SecretId::nil(), SecretMeta::new("f".into(), inner.kind()), inner.clone()));
    let outer = Secret::Note { text: ss("x"), user_data: ud };
    let (e0, e1) = rt.block_on(async { (sos_core::encode(&inner).await.unwrap(), sos_core::encode(&outer).await.unwrap()) });
    // e1 = P ++ e0 ++ S
    let pos = (0..=e1.len() - e0.len()).rev().find(|i| &e1[*i..*i + e0.len()] == &e0[..]).expect("inner encoding inside outer");
    let (p, s) = (&e1[..pos], &e1[pos + e0.len()..]);
    let mut bytes = Vec::with_capacity(depth * (p.len() + s.len()) + e0.len());
    for _ in 0..depth { bytes.extend_from_slice(p); }
    bytes.extend_from_slice(&e0);
    for _ in 0..depth { bytes.extend_from_slice(s); }
    eprintln!("nest depth={depth} bytes={}", bytes.len());
    let r: Result<Secret, _> = rt.block_on(async { sos_core::decode(&bytes).await });
    match r { Ok(v) => { println!("decoded ok"); std::mem::forget(v); } Err(e) => println!("error: {e}") }
}
