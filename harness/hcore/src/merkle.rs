//! corr:merkle/* — real `CommitTree` / `CommitProof` vs the Lean model, and
//! the C08 oracle (prefix relation computed on the raw sequences).
use hcommon::{sha256, Cli, Report, Rng};
use rs_merkle::{algorithms::Sha256, MerkleProof};
use serde_json::json;
use sos_core::commit::{CommitHash, CommitProof, CommitTree, Comparison};

type Seq = Vec<u8>;

fn leaf(b: u8) -> [u8; 32] {
    sha256(&[b])
}
fn tree(seq: &[u8]) -> CommitTree {
    let mut t = CommitTree::new();
    let mut leaves: Vec<[u8; 32]> = seq.iter().map(|b| leaf(*b)).collect();
    if !leaves.is_empty() {
        t.append(&mut leaves);
        t.commit();
    }
    t
}
fn show_seq(seq: &[u8]) -> String {
    if seq.is_empty() {
        "-".into()
    } else {
        seq.iter().map(|b| format!("{:02x}", b)).collect::<Vec<_>>().join(",")
    }
}
fn show_proof(p: &CommitProof) -> String {
    let hs = p.proof.proof_hashes();
    let hs = if hs.is_empty() {
        "-".to_string()
    } else {
        hs.iter().map(hex::encode).collect::<Vec<_>>().join(";")
    };
    format!(
        "{}|{}|{}|{}",
        p.root,
        hs,
        p.length,
        p.indices.iter().map(|i| i.to_string()).collect::<Vec<_>>().join(",")
    )
}
fn show_cmp(c: &Result<Comparison, sos_core::Error>) -> String {
    match c {
        Err(_) => "err".into(),
        Ok(Comparison::Equal) => "equal".into(),
        Ok(Comparison::Unknown) => "unknown".into(),
        Ok(Comparison::Contains(ix)) => format!(
            "contains:{}",
            ix.iter().map(|i| i.to_string()).collect::<Vec<_>>().join(",")
        ),
    }
}
fn is_prefix(r: &[u8], l: &[u8]) -> bool {
    l.len() >= r.len() && &l[..r.len()] == r
}
fn lcp(a: &[u8], b: &[u8]) -> usize {
    a.iter().zip(b.iter()).take_while(|(x, y)| x == y).count()
}

struct Ctx {
    ops: Vec<String>,
    imp: Vec<String>,
}

fn case_cmp(ctx: &mut Ctx, rep: &mut Report, l: &Seq, r: &Seq) {
    let op = format!("merkle cmp local={} remote={}", show_seq(l), show_seq(r));
    let lt = tree(l);
    let rt = tree(r);
    let root_l = lt.root().map(|h| h.to_string()).unwrap_or("-".into());
    let line = match rt.head() {
        Err(_) => format!("rootL={} head=- cmp=-", root_l),
        Ok(p) => {
            let c = lt.compare(&p);
            // oracle (C08 statement) on the raw sequences
            if !l.is_empty() {
                let expect = if l == r {
                    "equal".to_string()
                } else if is_prefix(r, l) {
                    format!("contains:{}", r.len() - 1)
                } else {
                    "unknown".to_string()
                };
                let got = show_cmp(&c);
                if got != expect {
                    let class = match (got.as_str(), expect.as_str()) {
                        (g, "unknown") if g.starts_with("contains") => "compare-contains-not-prefix",
                        ("equal", _) => "compare-equal-not-same",
                        ("unknown", _) => "compare-unknown-but-prefix",
                        _ => "compare-other",
                    };
                    rep.spec_fail(
                        class,
                        json!({"op": op, "local": show_seq(l), "remote": show_seq(r)}),
                        &format!("CommitTree::compare answered {got}, sequences say {expect}"),
                    );
                }
                rep.count(&format!("cmp:{}", got.split(':').next().unwrap()));
            }
            format!("rootL={} head={} cmp={}", root_l, show_proof(&p), show_cmp(&c))
        }
    };
    let nontrivial = !l.is_empty() && !r.is_empty();
    rep.case(&op, nontrivial);
    ctx.ops.push(op);
    ctx.imp.push(line);
}

fn case_vl(ctx: &mut Ctx, rep: &mut Report, l: &Seq, r: &Seq, idx: usize) {
    let op = format!("merkle vl local={} remote={} idx={}", show_seq(l), show_seq(r), idx);
    let rt = tree(r);
    let leaves: Vec<[u8; 32]> = l.iter().map(|b| leaf(*b)).collect();
    let line = match rt.proof(&[idx]) {
        Err(_) => "proof=- vl=-".to_string(),
        Ok(p) => {
            let (ok, _) = p.verify_leaves(&leaves);
            if idx < r.len() {
                let expect = l.get(idx) == Some(&r[idx]);
                if ok != expect {
                    let class = if expect { "verify-leaves-rejects-agreeing-position" } else { "verify-leaves-accepts-different-leaf" };
                    rep.spec_fail(
                        class,
                        json!({"op": op, "local_len": l.len(), "remote_len": r.len(), "idx": idx}),
                        &format!("verify_leaves = {ok}, positions agree = {expect}"),
                    );
                }
                rep.count(&format!("vl:{}:{}", ok, if l.len() == r.len() { "samelen" } else { "difflen" }));
            }
            format!("proof={} vl={} match={}", show_proof(&p), ok, ok)
        }
    };
    rep.case(&op, idx < r.len() && !l.is_empty());
    ctx.ops.push(op);
    ctx.imp.push(line);
}

/// The client's ancestor search built from the real proof primitives
/// (`CommitTree::proof`, `CommitProof::verify_leaves`, head of the local prefix),
/// in the order `scan_log` + `iterate_scan_proofs` use them.
fn case_scan(ctx: &mut Ctx, rep: &mut Report, l: &Seq, r: &Seq) {
    let op = format!("merkle scan local={} remote={}", show_seq(l), show_seq(r));
    let rt = tree(r);
    let leaves: Vec<[u8; 32]> = l.iter().map(|b| leaf(*b)).collect();
    let mut line = String::new();
    let mut found: Option<usize> = None;
    if r.is_empty() {
        line = "scan=exhausted".into();
    } else {
        let first = rt.proof(&[0]).unwrap();
        if !first.verify_leaves(&leaves).0 {
            line = "scan=hard".into();
        } else {
            for idx in (0..r.len()).rev() {
                let p = rt.proof(&[idx]).unwrap();
                let (ok, proved) = p.verify_leaves(&leaves);
                if ok {
                    let commit = CommitHash(*proved.last().unwrap());
                    let mut nl = leaves[0..=idx].to_vec();
                    let mut nt = CommitTree::new();
                    nt.append(&mut nl);
                    nt.commit();
                    let cp = nt.head().unwrap();
                    line = format!("scan=found:{}:{}:{}", idx, commit, show_proof(&cp));
                    found = Some(idx);
                    break;
                }
            }
            if line.is_empty() {
                line = "scan=exhausted".into();
            }
        }
    }
    // oracle: ancestor = end of the longest common prefix
    let k = lcp(l, r);
    let expect: Option<usize> = if k == 0 { None } else { Some(k - 1) };
    if !r.is_empty() {
        if found != expect {
            let class = match (found, expect) {
                // the recorded finding: stops at the newest position where both sides agree
                (Some(f), Some(e)) if f > e && l.get(f) == r.get(f)
                    && ((f + 1)..r.len()).all(|j| l.get(j) != r.get(j)) => "scan-ancestor-after-divergence",
                (Some(f), Some(e)) if f > e => "scan-ancestor-at-disagreeing-position",
                (Some(_), None) => "scan-ancestor-without-common-prefix",
                (None, Some(_)) => "scan-misses-ancestor",
                _ => "scan-ancestor-too-early",
            };
            rep.spec_fail(
                class,
                json!({"op": op, "lcp": k, "found": found}),
                &format!("scan found {:?}, longest common prefix ends at {:?}", found, expect),
            );
        }
        rep.count(&format!("scan:{}", line.split(':').next().unwrap()));
    }
    rep.case(&op, !l.is_empty() && !r.is_empty());
    ctx.ops.push(op);
    ctx.imp.push(line);
}

fn case_forged(ctx: &mut Ctx, rep: &mut Report, rng: &mut Rng, l: &Seq) {
    // root: random leaf bytes or real root of a (possibly related) list
    let (root_arg, root): (String, [u8; 32]) = if rng.chance(1, 2) {
        let mut r: Seq = l.clone();
        match rng.below(3) {
            0 => { r.truncate(rng.below(l.len() as u64 + 1) as usize); }
            1 => { r.push(rng.below(4) as u8 + 1); }
            _ => { if !r.is_empty() { let i = rng.below(r.len() as u64) as usize; r[i] = rng.below(4) as u8 + 1; } }
        }
        if r.is_empty() { r.push(1); }
        (format!("R:{}", show_seq(&r)), tree(&r).root().unwrap().0)
    } else {
        let b = rng.below(256) as u8;
        (format!("{:02x}", b), leaf(b))
    };
    let nh = rng.below(5) as usize;
    let hashes: Seq = (0..nh).map(|_| rng.below(4) as u8 + 1).collect();
    let len = match rng.below(6) { 0 => 0, 1 => l.len() as u64, 2 => l.len() as u64 + 1, 3 => rng.below(40), 4 => 1, _ => rng.below(8) } as usize;
    let idx = match rng.below(4) { 0 => len.saturating_sub(1), 1 => rng.below(10) as usize, 2 => len, _ => 0 };
    let op = format!(
        "merkle forged local={} root={} hashes={} len={} idx={}",
        show_seq(l), root_arg, show_seq(&hashes), len, idx
    );
    let proof = CommitProof {
        root: CommitHash(root),
        proof: MerkleProof::<Sha256>::new(hashes.iter().map(|b| leaf(*b)).collect()),
        length: len,
        indices: vec![idx],
    };
    let lt = tree(l);
    let leaves: Vec<[u8; 32]> = l.iter().map(|b| leaf(*b)).collect();
    let c = lt.compare(&proof);
    let (vl, _) = proof.verify_leaves(&leaves);
    // oracle: `contains` for any proof only if claimed root is root of local prefix of claimed length
    // (only for head-shaped proofs: a proof of another position claims just that leaf)
    if let (Ok(Comparison::Contains(_)), true) = (&c, idx + 1 == len) {
        let ok = len >= 1 && len <= l.len() && tree(&l[..len]).root().map(|h| h.0) == Some(root);
        if !ok {
            rep.spec_fail(
                "compare-contains-forged-proof",
                json!({"op": op}),
                "compare answered contains although the claimed root is not the root of the local prefix of the claimed length",
            );
        }
    }
    rep.count(&format!("forged:{}", show_cmp(&c).split(':').next().unwrap()));
    rep.case(&op, true);
    ctx.ops.push(op);
    ctx.imp.push(format!("cmp={} vl={}", show_cmp(&c), vl));
}

fn all_seqs(alpha: u8, max_len: usize) -> Vec<Seq> {
    let mut out: Vec<Seq> = vec![vec![]];
    let mut frontier: Vec<Seq> = vec![vec![]];
    for _ in 0..max_len {
        let mut next = vec![];
        for s in &frontier {
            for a in 1..=alpha {
                let mut t = s.clone();
                t.push(a);
                next.push(t);
            }
        }
        out.extend(next.iter().cloned());
        frontier = next;
    }
    out
}

fn flush(ctx: &mut Ctx, rep: &mut Report) {
    if ctx.ops.is_empty() {
        return;
    }
    rep.diff_streams("corr:merkle", &ctx.ops, &ctx.imp);
    ctx.ops.clear();
    ctx.imp.clear();
}

pub fn run(cli: &Cli) {
    let mut rep = Report::new("C08", "merkle", cli.seed, &cli.tier);
    let thorough = cli.tier == "thorough";
    let mut ctx = Ctx { ops: vec![], imp: vec![] };
    if let Some(path) = &cli.replay {
        // replay file: JSON with an "op" line
        let v: serde_json::Value = serde_json::from_str(&std::fs::read_to_string(path).unwrap()).unwrap();
        let op = v["case"]["op"].as_str().or(v["op"].as_str()).unwrap_or("").to_string();
        let get = |k: &str| -> Seq {
            op.split(' ').find_map(|t| t.strip_prefix(&format!("{k}="))).map(|s| {
                if s == "-" { vec![] } else { s.split(',').map(|x| u8::from_str_radix(x, 16).unwrap()).collect() }
            }).unwrap_or_default()
        };
        let idx = op.split(' ').find_map(|t| t.strip_prefix("idx=")).and_then(|s| s.parse().ok()).unwrap_or(0usize);
        let kind = op.split(' ').nth(1).unwrap_or("");
        match kind {
            "cmp" => case_cmp(&mut ctx, &mut rep, &get("local"), &get("remote")),
            "vl" => case_vl(&mut ctx, &mut rep, &get("local"), &get("remote"), idx),
            "scan" => case_scan(&mut ctx, &mut rep, &get("local"), &get("remote")),
            _ => eprintln!("replay supports cmp/vl/scan ops"),
        }
        flush(&mut ctx, &mut rep);
        rep.write(&cli.out);
        return;
    }
    // 1. exhaustive enumeration over a 3-letter alphabet
    let max_len = if thorough { 6 } else { 4 };
    let seqs = all_seqs(3, max_len);
    let vl_len = if thorough { 5 } else { 4 };
    for l in &seqs {
        for r in &seqs {
            case_cmp(&mut ctx, &mut rep, l, r);
            if l.len() <= vl_len && r.len() <= vl_len {
                for idx in 0..r.len() {
                    case_vl(&mut ctx, &mut rep, l, r, idx);
                }
                case_scan(&mut ctx, &mut rep, l, r);
            }
        }
        if ctx.ops.len() > 200_000 {
            flush(&mut ctx, &mut rep);
        }
    }
    flush(&mut ctx, &mut rep);
    rep.sample(json!({"op": "merkle cmp local=01,02,03 remote=01,02", "kind": "exhaustive pair"}));
    rep.exhaustive = true;
    // 2. random longer pairs
    let mut rng = Rng::new(cli.seed);
    let n_rand = if thorough { 6000 } else { 600 };
    for k in 0..n_rand {
        let alpha = *rng.pick(&[2u64, 3, 4, 16]);
        let n = rng.range(1, if thorough { 300 } else { 120 }) as usize;
        let l: Seq = (0..n).map(|_| rng.below(alpha) as u8 + 1).collect();
        let mut r = l.clone();
        match rng.below(6) {
            0 => { r.truncate(rng.range(1, n as u64) as usize); }
            1 => { let m = rng.range(1, 40); for _ in 0..m { r.push(rng.below(alpha) as u8 + 1); } }
            2 => { let i = rng.below(n as u64) as usize; r[i] = (r[i] % alpha as u8) + 1; }
            3 => { let i = rng.below(n as u64) as usize; r.truncate(i + 1); r[i] = (r[i] % alpha as u8) + 1;
                   let m = rng.below(6); for _ in 0..m { r.push(rng.below(alpha) as u8 + 1); } }
            4 => { let cut = rng.below(n as u64) as usize; r.truncate(cut); let m = rng.range(1, 10); for _ in 0..m { r.push(rng.below(alpha) as u8 + 1); } }
            _ => {}
        }
        let (l, r) = if rng.chance(1, 2) { (l, r) } else { (r, l) };
        case_cmp(&mut ctx, &mut rep, &l, &r);
        if !r.is_empty() {
            let idx = rng.below(r.len() as u64) as usize;
            case_vl(&mut ctx, &mut rep, &l, &r, idx);
            case_vl(&mut ctx, &mut rep, &l, &r, r.len() - 1);
        }
        if k % 4 == 0 {
            case_scan(&mut ctx, &mut rep, &l, &r);
        }
        if k < 3 {
            rep.sample(json!({"op": ctx.ops.last().unwrap(), "impl": ctx.imp.last().unwrap(), "kind": "random pair"}));
        }
    }
    // 3. forged / stale single-index proofs
    let n_forged = if thorough { 20000 } else { 3000 };
    for k in 0..n_forged {
        let n = rng.range(1, 12) as usize;
        let l: Seq = (0..n).map(|_| rng.below(4) as u8 + 1).collect();
        case_forged(&mut ctx, &mut rep, &mut rng, &l);
        if k < 2 {
            rep.sample(json!({"op": ctx.ops.last().unwrap(), "impl": ctx.imp.last().unwrap(), "kind": "forged proof"}));
        }
    }
    flush(&mut ctx, &mut rep);
    rep.rule = format!(
        "exhaustive: all pairs of leaf sequences over a 3-letter alphabet up to length {max_len} \
         (compare), up to length {vl_len} (single-leaf proofs at every index, ancestor scan); \
         plus {n_rand} random pairs up to length 300 (prefix / extension / single mutation / divergence) \
         and {n_forged} forged or stale single-index proofs; non-trivial = both sequences non-empty; \
         distinct = distinct canonical op line"
    );
    rep.write(&cli.out);
}
