mod merkle;
mod codec;
mod secrets;
mod crypto;

#[global_allocator]
static GLOBAL: codec::Tracking = codec::Tracking;
use hcommon::parse_cli;

fn main() {
    let cli = parse_cli();
    match cli.domain.as_str() {
        "merkle" => merkle::run(&cli),
        "codec" => codec::run(&cli),
        "crypto" => crypto::run(&cli),
        "nest" => secrets::nest_probe(&cli),
        d => {
            eprintln!("unknown domain {d}");
            std::process::exit(2);
        }
    }
}
