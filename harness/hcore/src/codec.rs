//! corr:codec/* and corr:decode/* — the real `sos_core` encoders/decoders vs the
//! Lean byte-level model; C14 (round-trip, determinism) and C15 (no panic, no
//! out-of-proportion allocation) oracles on the implementation.
use binary_stream::futures::{BinaryReader, Decodable, Encodable};
use hcommon::{sha256, Cli, Report, Rng};
use rs_merkle::{algorithms::Sha256, MerkleProof};
use serde_json::json;
use sos_core::{
    commit::{CommitHash, CommitProof, CommitState, CommitTree, Comparison},
    crypto::{AeadPack, Nonce},
    device::{DevicePublicKey, TrustedDevice},
    encoding::encoding_options,
    events::{AccountEvent, DeviceEvent, EventRecord, FileEvent, WriteEvent},
    ExternalFileName, SecretId, SecretPath, UtcDateTime, VaultCommit, VaultEntry, VaultFlags, VaultId,
};
use std::alloc::{GlobalAlloc, Layout, System};
use std::cell::Cell;
use std::io::Cursor;
use std::sync::Mutex;
use tokio::io::BufReader;

// ---- allocation tracking --------------------------------------------------
pub struct Tracking;
thread_local! {
    static MAX_REQ: Cell<usize> = const { Cell::new(0) };
    static TRACK: Cell<bool> = const { Cell::new(false) };
}
static CURRENT: Mutex<String> = Mutex::new(String::new());
const BOMB: usize = 1 << 30;

unsafe impl GlobalAlloc for Tracking {
    unsafe fn alloc(&self, layout: Layout) -> *mut u8 {
        note(layout.size());
        System.alloc(layout)
    }
    unsafe fn dealloc(&self, ptr: *mut u8, layout: Layout) {
        System.dealloc(ptr, layout)
    }
    unsafe fn alloc_zeroed(&self, layout: Layout) -> *mut u8 {
        note(layout.size());
        System.alloc_zeroed(layout)
    }
    unsafe fn realloc(&self, ptr: *mut u8, layout: Layout, new_size: usize) -> *mut u8 {
        note(new_size);
        System.realloc(ptr, layout, new_size)
    }
}
fn note(size: usize) {
    let tracking = TRACK.try_with(|t| t.get()).unwrap_or(false);
    if tracking {
        let _ = MAX_REQ.try_with(|m| if size > m.get() { m.set(size) });
        if size >= BOMB {
            // a decoder asked for >= 1 GiB: record the case and stop (the request would abort the process)
            TRACK.with(|t| t.set(false));
            let case = CURRENT.lock().map(|s| s.clone()).unwrap_or_default();
            let _ = std::fs::write("/verif/run/alloc_bomb.json",
                format!("{{\"op\": \"{}\", \"request_bytes\": {}}}", case, size));
            std::process::exit(42);
        }
    }
}

fn rt() -> tokio::runtime::Runtime {
    tokio::runtime::Builder::new_current_thread().build().unwrap()
}

async fn dec_pos<T: Decodable + Default>(buf: &[u8]) -> std::io::Result<(T, u64)> {
    let mut stream = BufReader::new(Cursor::new(buf));
    let mut reader = BinaryReader::new(&mut stream, encoding_options());
    let mut v = T::default();
    v.decode(&mut reader).await?;
    let pos = reader.stream_position().await?;
    Ok((v, pos))
}

enum Verdict { Ok(String, usize), Error, Panic }

/// Decode with the real decoder (under catch_unwind and allocation tracking) and
/// re-encode the value: `ok <hex> rest=<n>` / `error` / `panic`.
fn real_dec<T>(ty: &str, buf: &[u8], rep: &mut Report, op: &str) -> String
where T: Decodable + Encodable + Default + Send + Sync {
    *CURRENT.lock().unwrap() = op.to_string();
    MAX_REQ.with(|m| m.set(0));
    let b = buf.to_vec();
    let r = std::panic::catch_unwind(move || {
        let rt = rt();
        TRACK.with(|t| t.set(true));
        let out = rt.block_on(async {
            match dec_pos::<T>(&b).await {
                Ok((v, pos)) => {
                    TRACK.with(|t| t.set(false));
                    let re = sos_core::encode(&v).await;
                    match re {
                        Ok(bytes) => Verdict::Ok(hex::encode(bytes), b.len() - pos as usize),
                        Err(_) => Verdict::Error,
                    }
                }
                Err(_) => Verdict::Error,
            }
        });
        TRACK.with(|t| t.set(false));
        out
    });
    TRACK.with(|t| t.set(false));
    let max_req = MAX_REQ.with(|m| m.get());
    // C15 oracle: no allocation request beyond the 16 MiB cap (+ slack for buffers)
    if max_req > 16 * 1024 * 1024 + 65536 {
        rep.spec_fail(&format!("decode-allocation-out-of-proportion:{ty}"), json!({"op": op}),
            &format!("single allocation request of {max_req} bytes while decoding {} input bytes", buf.len()));
    }
    match r {
        Ok(Verdict::Ok(h, rest)) => format!("ok {} rest={}", h, rest),
        Ok(Verdict::Error) => "error".into(),
        Ok(Verdict::Panic) | Err(_) => {
            rep.spec_fail(&format!("decode-panics:{ty}"), json!({"op": op}), "decoder panicked on input bytes");
            "panic".into()
        }
    }
}

/// C14 oracle on one value: decode(encode v) == v, encode deterministic.
fn roundtrip<T>(ty: &str, v: &T, rep: &mut Report) -> Vec<u8>
where T: Decodable + Encodable + Default + PartialEq + std::fmt::Debug {
    let rt = rt();
    let (a, b, back) = rt.block_on(async {
        let a = sos_core::encode(v).await.expect("encode");
        let b = sos_core::encode(v).await.expect("encode");
        let back: Result<T, _> = sos_core::decode(&a).await;
        (a, b, back)
    });
    if a != b {
        rep.spec_fail(&format!("encode-not-deterministic:{ty}"), json!({"value": format!("{:?}", v).chars().take(300).collect::<String>()}), "two encodings of the same value differ");
    }
    match back {
        Ok(w) if &w == v => {}
        Ok(w) => rep.spec_fail(&format!("roundtrip-differs:{ty}"), json!({"bytes": hex::encode(&a), "value": format!("{:?}", v).chars().take(300).collect::<String>(), "decoded": format!("{:?}", w).chars().take(300).collect::<String>()}), "decode(encode v) != v"),
        Err(e) => rep.spec_fail(&format!("roundtrip-error:{ty}"), json!({"bytes": hex::encode(&a)}), &e.to_string()),
    }
    a
}

fn rand_bytes(rng: &mut Rng, n: usize) -> Vec<u8> { (0..n).map(|_| rng.below(256) as u8).collect() }
fn rand_len(rng: &mut Rng) -> usize { match rng.below(10) { 0 => 0, 1 => 1, 2 => rng.range(200, 3000) as usize, _ => rng.range(1, 60) as usize } }
fn rand_string(rng: &mut Rng) -> String {
    let pool = ["", "a", "Default", "名前", "héllo wörld", "🔐 secrets", "x\u{0}y", "عربى", "long-name-with-many-characters-0123456789"];
    let mut s = rng.pick(&pool).to_string();
    if rng.chance(1, 4) { let extra: &str = *rng.pick(&pool); s.push_str(extra); }
    s
}
fn rand_hash(rng: &mut Rng) -> [u8; 32] { sha256(&rand_bytes(rng, 4)) }
fn rand_uuid(rng: &mut Rng) -> uuid::Uuid { uuid::Uuid::from_u128(((rng.next() as u128) << 64) | rng.next() as u128) }
fn rand_aead(rng: &mut Rng) -> AeadPack {
    let nonce = if rng.chance(1, 2) { let mut n = [0u8; 12]; n.copy_from_slice(&rand_bytes(rng, 12)); Nonce::Nonce12(n) } else { let mut n = [0u8; 24]; n.copy_from_slice(&rand_bytes(rng, 24)); Nonce::Nonce24(n) };
    let l = rand_len(rng);
    AeadPack { nonce, ciphertext: rand_bytes(rng, l) }
}
fn rand_time(rng: &mut Rng) -> UtcDateTime {
    let secs: i64 = match rng.below(8) { 0 => 0, 1 => -1, 2 => 253402300799, 3 => -377705116800, 4 => 1, _ => rng.range(0, 4_000_000_000) as i64 - 1_000_000_000 };
    let nanos: i64 = match rng.below(4) { 0 => 0, 1 => 999_999_999, _ => rng.below(1_000_000_000) as i64 };
    let t = time::OffsetDateTime::from_unix_timestamp(secs).unwrap() + time::Duration::nanoseconds(nanos);
    t.into()
}
fn rand_proof(rng: &mut Rng) -> CommitProof {
    if rng.chance(1, 10) { return CommitProof::default(); }
    let n = rng.range(1, 40) as usize;
    let mut t = CommitTree::new();
    let mut leaves: Vec<[u8; 32]> = (0..n).map(|_| rand_hash(rng)).collect();
    t.append(&mut leaves);
    t.commit();
    if rng.chance(1, 2) { t.head().unwrap() } else { t.proof(&[rng.below(n as u64) as usize]).unwrap() }
}
fn rand_commit(rng: &mut Rng) -> VaultCommit { VaultCommit(CommitHash(rand_hash(rng)), VaultEntry(rand_aead(rng), rand_aead(rng))) }

struct Ctx { ops: Vec<String>, imp: Vec<String> }

fn feed<T>(ctx: &mut Ctx, rep: &mut Report, ty: &str, bytes: &[u8], kind: &str)
where T: Decodable + Encodable + Default + Send + Sync {
    let op = format!("codec dec {} {}", ty, if bytes.is_empty() { "-".to_string() } else { hex::encode(bytes) });
    let out = real_dec::<T>(ty, bytes, rep, &op);
    rep.count(&format!("{}:{}:{}", ty, kind, out.split(' ').next().unwrap()));
    rep.case(&op, kind != "random");
    ctx.ops.push(op);
    ctx.imp.push(out);
}

/// the secret codec: the real re-encoding writes tags and list items in hash order, so the model and the
/// implementation are compared on an order-insensitive summary of the re-encoding (length, sum and sum of
/// squares of the bytes), the verdict and the number of unread bytes; the C15 oracles of `real_dec` apply.
/// A reply `extern` of the model (the verdict depends on an external parser) is not compared.
fn feed_real_only<T>(ctx: &mut Ctx, rep: &mut Report, ty: &str, bytes: &[u8], kind: &str)
where T: Decodable + Encodable + Default + Send + Sync {
    let op = format!("codec dec {} {}", ty, if bytes.is_empty() { "-".to_string() } else { hex::encode(bytes) });
    let out = real_dec::<T>(ty, bytes, rep, &op);
    rep.count(&format!("{}:{}:{}", ty, kind, out.split(' ').next().unwrap()));
    rep.case(&format!("{ty}:{kind}:{}", hex::encode(&sha256(bytes)[..6])), kind != "random");
    let imp = if let Some(r) = out.strip_prefix("ok ") {
        let mut it = r.split(' ');
        let e = hex::decode(it.next().unwrap_or("")).unwrap_or_default();
        let rest = it.next().unwrap_or("");
        let s1: u64 = e.iter().map(|x| *x as u64).sum();
        let s2: u64 = e.iter().map(|x| (*x as u64) * (*x as u64)).sum();
        format!("ok len={} s1={} s2={} {}", e.len(), s1, s2, rest)
    } else { out };
    ctx.ops.push(op);
    ctx.imp.push(imp);
}

fn exercise_real_only<T>(ctx: &mut Ctx, rep: &mut Report, rng: &mut Rng, ty: &str, enc: &[u8], thorough: bool)
where T: Decodable + Encodable + Default + Send + Sync {
    feed_real_only::<T>(ctx, rep, ty, enc, "valid");
    let step = if enc.len() > 96 && !thorough { enc.len() / 48 } else { 1 };
    let mut i = 0;
    while i < enc.len() { feed_real_only::<T>(ctx, rep, ty, &enc[..i], "truncated"); i += step.max(1); }
    for _ in 0..(if thorough { 24 } else { 8 }) {
        if enc.is_empty() { break; }
        let mut m = enc.to_vec();
        let p = rng.below(m.len() as u64) as usize;
        m[p] ^= 1 << rng.below(8);
        feed_real_only::<T>(ctx, rep, ty, &m, "bitflip");
    }
    for _ in 0..(if thorough { 16 } else { 6 }) {
        if enc.len() < 4 { break; }
        let mut m = enc.to_vec();
        let p = rng.below((m.len() - 3) as u64) as usize;
        let val: u32 = *rng.pick(&[0xffff_ffffu32, 0x0100_0001, 0x0100_0000, 0x00ff_ffff, 0x8000_0000, 0, 1]);
        m[p..p + 4].copy_from_slice(&val.to_le_bytes());
        feed_real_only::<T>(ctx, rep, ty, &m, "length-edit");
    }
    if enc.len() > 8 {
        let a = rng.below(enc.len() as u64) as usize; let b = rng.below(enc.len() as u64) as usize;
        let mut m = enc[..a].to_vec(); m.extend_from_slice(&enc[b..]);
        feed_real_only::<T>(ctx, rep, ty, &m, "splice");
    }
}

/// valid encoding + mutation streams for one value
fn exercise<T>(ctx: &mut Ctx, rep: &mut Report, rng: &mut Rng, ty: &str, v: &T, thorough: bool)
where T: Decodable + Encodable + Default + PartialEq + std::fmt::Debug + Send + Sync {
    let enc = roundtrip(ty, v, rep);
    exercise_bytes::<T>(ctx, rep, rng, ty, enc, thorough);
}

/// mutation streams around one valid encoding
fn exercise_bytes<T>(ctx: &mut Ctx, rep: &mut Report, rng: &mut Rng, ty: &str, enc: Vec<u8>, thorough: bool)
where T: Decodable + Encodable + Default + Send + Sync {
    feed::<T>(ctx, rep, ty, &enc, "valid");
    // trailing bytes are left unread
    let mut ext = enc.clone(); ext.extend_from_slice(&[0xaa, 0xbb]);
    feed::<T>(ctx, rep, ty, &ext, "extended");
    // truncation at every offset (bounded for long encodings)
    let step = if enc.len() > 96 && !thorough { enc.len() / 48 } else { 1 };
    let mut i = 0;
    while i < enc.len() { feed::<T>(ctx, rep, ty, &enc[..i], "truncated"); i += step.max(1); }
    // bit flips
    let flips = if thorough { 24 } else { 8 };
    for _ in 0..flips {
        if enc.is_empty() { break; }
        let mut m = enc.clone();
        let p = if rng.chance(1, 2) { rng.below(m.len().min(12) as u64) as usize } else { rng.below(m.len() as u64) as usize };
        m[p] ^= 1 << rng.below(8);
        feed::<T>(ctx, rep, ty, &m, "bitflip");
    }
    // length-field edits: overwrite any aligned 4 bytes with hostile lengths
    for _ in 0..(if thorough { 12 } else { 4 }) {
        if enc.len() < 4 { break; }
        let mut m = enc.clone();
        let p = rng.below((m.len() - 3) as u64) as usize;
        let val: u32 = *rng.pick(&[0xffff_ffffu32, 0x0100_0001, 0x0100_0000, 0x00ff_ffff, 0x8000_0000, 0, 1]);
        m[p..p + 4].copy_from_slice(&val.to_le_bytes());
        feed::<T>(ctx, rep, ty, &m, "length-edit");
    }
    // splice with itself
    if enc.len() > 8 {
        let a = rng.below(enc.len() as u64) as usize;
        let b = rng.below(enc.len() as u64) as usize;
        let mut m = enc[..a].to_vec(); m.extend_from_slice(&enc[b..]);
        feed::<T>(ctx, rep, ty, &m, "splice");
    }
}

fn flush(ctx: &mut Ctx, rep: &mut Report) {
    if ctx.ops.is_empty() { return; }
    let model = hcommon::run_model(&ctx.ops);
    if model.len() != ctx.ops.len() {
        rep.disagree("corr:codec", "<stream>", &format!("{} ops", ctx.ops.len()), &format!("{} replies", model.len()));
    }
    for (i, op) in ctx.ops.iter().enumerate() {
        let m = model.get(i).cloned().unwrap_or_default();
        if m == "unmodelled" { rep.count("unmodelled"); continue; }
        if m == "extern" { rep.count("model-verdict-depends-on-external-parser"); continue; }
        // the model also reports its allocation bound; compare verdict + canonical bytes only
        let m_cmp = m.split(" alloc=").next().unwrap_or("").to_string();
        if m_cmp != ctx.imp[i] {
            rep.disagree("corr:codec", op, &ctx.imp[i], &m);
        }
    }
    ctx.ops.clear(); ctx.imp.clear();
}

pub fn run(cli: &Cli) {
    let property = cli.extra.get("property").cloned().unwrap_or("C14".into());
    let mut rep = Report::new(&property, "codec", cli.seed, &cli.tier);
    let thorough = cli.tier == "thorough";
    let mut ctx = Ctx { ops: vec![], imp: vec![] };
    let _ = std::fs::remove_file("/verif/run/alloc_bomb.json");
    // panics of the code under test are verdicts here, not diagnostics
    std::panic::set_hook(Box::new(|_| {}));
    if let Some(path) = &cli.replay {
        let v: serde_json::Value = serde_json::from_str(&std::fs::read_to_string(path).unwrap()).unwrap();
        let op = v["case"]["op"].as_str().unwrap_or("").to_string();
        let toks: Vec<&str> = op.split(' ').collect();
        if toks.len() == 4 {
            let bytes = if toks[3] == "-" { vec![] } else { hex::decode(toks[3]).unwrap_or_default() };
            dispatch(&mut ctx, &mut rep, toks[2], &bytes, "replay");
        }
        flush(&mut ctx, &mut rep);
        rep.write(&cli.out);
        return;
    }
    let mut rng = Rng::new(cli.seed);
    let n = if thorough { 400 } else { 40 };
    for k in 0..n {
        let t = rand_time(&mut rng);
        exercise(&mut ctx, &mut rep, &mut rng, "DateTime", &t, thorough);
        let p = rand_proof(&mut rng);
        exercise(&mut ctx, &mut rep, &mut rng, "CommitProof", &p, thorough);
        let cs = CommitState(CommitHash(rand_hash(&mut rng)), rand_proof(&mut rng));
        exercise(&mut ctx, &mut rep, &mut rng, "CommitState", &cs, thorough);
        let cmp = match rng.below(3) { 0 => Comparison::Equal, 1 => Comparison::Contains((0..rng.below(5)).map(|_| rng.below(1 << 40) as usize).collect()), _ => Comparison::Unknown };
        exercise(&mut ctx, &mut rep, &mut rng, "Comparison", &cmp, thorough);
        let a = rand_aead(&mut rng);
        exercise(&mut ctx, &mut rep, &mut rng, "AeadPack", &a, thorough);
        let e = VaultEntry(rand_aead(&mut rng), rand_aead(&mut rng));
        exercise(&mut ctx, &mut rep, &mut rng, "VaultEntry", &e, thorough);
        let c = rand_commit(&mut rng);
        exercise(&mut ctx, &mut rep, &mut rng, "VaultCommit", &c, thorough);
        // every variant of every event type
        let bits: u64 = rng.below(1024);
        let wevs = vec![
            WriteEvent::CreateVault({ let l = rand_len(&mut rng); rand_bytes(&mut rng, l) }),
            WriteEvent::SetVaultName(rand_string(&mut rng)),
            WriteEvent::SetVaultFlags(VaultFlags::from_bits(bits).unwrap()),
            WriteEvent::SetVaultMeta(rand_aead(&mut rng)),
            WriteEvent::CreateSecret(rand_uuid(&mut rng), rand_commit(&mut rng)),
            WriteEvent::UpdateSecret(rand_uuid(&mut rng), rand_commit(&mut rng)),
            WriteEvent::DeleteSecret(rand_uuid(&mut rng)),
        ];
        for w in &wevs { exercise(&mut ctx, &mut rep, &mut rng, "WriteEvent", w, thorough); }
        let aevs = vec![
            AccountEvent::RenameAccount(rand_string(&mut rng)),
            AccountEvent::UpdateIdentity({ let l = rand_len(&mut rng); rand_bytes(&mut rng, l) }),
            AccountEvent::CreateFolder(rand_uuid(&mut rng), { let l = rand_len(&mut rng); rand_bytes(&mut rng, l) }),
            AccountEvent::RenameFolder(rand_uuid(&mut rng), rand_string(&mut rng)),
            AccountEvent::UpdateFolder(rand_uuid(&mut rng), rand_bytes(&mut rng, 9)),
            AccountEvent::CompactFolder(rand_uuid(&mut rng), rand_bytes(&mut rng, 5)),
            AccountEvent::ChangeFolderPassword(rand_uuid(&mut rng), rand_bytes(&mut rng, 7)),
            AccountEvent::DeleteFolder(rand_uuid(&mut rng)),
        ];
        for w in &aevs { exercise(&mut ctx, &mut rep, &mut rng, "AccountEvent", w, thorough); }
        let mut pk = [0u8; 32]; pk.copy_from_slice(&rand_bytes(&mut rng, 32));
        let devs = vec![DeviceEvent::Revoke(DevicePublicKey::from(pk)),
            DeviceEvent::Trust(TrustedDevice::new(DevicePublicKey::from(pk), None, None))];
        for w in &devs { exercise(&mut ctx, &mut rep, &mut rng, "DeviceEvent", w, thorough); }
        let sp = |rng: &mut Rng| SecretPath(VaultId::from(rand_uuid(rng)), SecretId::from(rand_uuid(rng)));
        let fevs = vec![
            FileEvent::CreateFile(sp(&mut rng), ExternalFileName::from(rand_hash(&mut rng))),
            FileEvent::DeleteFile(sp(&mut rng), ExternalFileName::from(rand_hash(&mut rng))),
            FileEvent::MoveFile { name: ExternalFileName::from(rand_hash(&mut rng)), from: sp(&mut rng), dest: sp(&mut rng) },
        ];
        for w in &fevs { exercise(&mut ctx, &mut rep, &mut rng, "FileEvent", w, thorough); }
        let l = rand_len(&mut rng);
        let rec = EventRecord::new(rand_time(&mut rng), CommitHash(rand_hash(&mut rng)), CommitHash(rand_hash(&mut rng)), rand_bytes(&mut rng, l));
        exercise(&mut ctx, &mut rep, &mut rng, "EventRecord", &rec, thorough);
        // secret kinds (real decoders only)
        {
            use sos_vault::secret::{Secret, SecretMeta, SecretRow};
            let kind = (k as usize) % crate::secrets::KINDS;
            let (meta, secret) = crate::secrets::secret_of_kind(&mut rng, kind, 2);
            let row = SecretRow::new(SecretId::from(rand_uuid(&mut rng)), meta.clone(), secret.clone());
            let rt_ = rt();
            let (e_meta, e_secret, e_row, back) = rt_.block_on(async {
                let a = sos_core::encode(&meta).await.expect("encode meta");
                let b = sos_core::encode(&secret).await.expect("encode secret");
                let c = sos_core::encode(&row).await.expect("encode row");
                let bm: Result<SecretMeta, _> = sos_core::decode(&a).await;
                let bs: Result<Secret, _> = sos_core::decode(&b).await;
                let br: Result<SecretRow, _> = sos_core::decode(&c).await;
                (a, b, c, (bm, bs, br))
            });
            let kname = format!("{:?}", secret.kind());
            let canon_meta = |m: &SecretMeta| serde_json::to_value(m).map(|mut v| { let mut w = json!({"m": v.take()}); sort_sets(&mut w); w.to_string() }).unwrap_or_default();
            match back.0 { Ok(m2) if canon_meta(&m2) == canon_meta(&meta) => {}, Ok(_) => rep.spec_fail("roundtrip-differs:SecretMeta", json!({"bytes": hex::encode(&e_meta)}), "decode(encode v) != v"), Err(e) => rep.spec_fail("roundtrip-error:SecretMeta", json!({"bytes": hex::encode(&e_meta)}), &e.to_string()) }
            // semantic comparison through the serde form (sorted maps): `PartialEq for Secret` zips two HashMap iterators
            fn sort_sets(v: &mut serde_json::Value) {
                match v {
                    serde_json::Value::Object(m) => { for (k, x) in m.iter_mut() { if k == "tags" { if let serde_json::Value::Array(a) = x { a.sort_by_key(|e| e.to_string()); } } sort_sets(x); } }
                    serde_json::Value::Array(a) => { for x in a.iter_mut() { sort_sets(x); } }
                    _ => {}
                }
            }
            let canon = |s: &Secret| serde_json::to_value(s).map(|mut v| { sort_sets(&mut v); v.to_string() }).unwrap_or_default();
            let canon_row = |r: &SecretRow| serde_json::to_value(r).map(|mut v| { sort_sets(&mut v); v.to_string() }).unwrap_or_default();
            match back.1 { Ok(s2) if canon(&s2) == canon(&secret) => {}, Ok(s2) => rep.spec_fail(&format!("roundtrip-differs:Secret:{kname}"), json!({"bytes": hex::encode(&e_secret), "before": canon(&secret).chars().take(600).collect::<String>(), "after": canon(&s2).chars().take(600).collect::<String>()}), "decode(encode v) != v"), Err(e) => rep.spec_fail(&format!("roundtrip-error:Secret:{kname}"), json!({"bytes": hex::encode(&e_secret)}), &e.to_string()) }
            match back.2 { Ok(r2) if canon_row(&r2) == canon_row(&row) => {}, Ok(_) => rep.spec_fail(&format!("roundtrip-differs:SecretRow:{kname}"), json!({"bytes": hex::encode(&e_row)}), "decode(encode v) != v"), Err(e) => rep.spec_fail(&format!("roundtrip-error:SecretRow:{kname}"), json!({"bytes": hex::encode(&e_row)}), &e.to_string()) }
            rep.count(&format!("secret-kind:{kname}"));
            exercise_real_only::<SecretMeta>(&mut ctx, &mut rep, &mut rng, "SecretMeta", &e_meta, thorough);
            exercise_real_only::<Secret>(&mut ctx, &mut rep, &mut rng, "Secret", &e_secret, thorough);
            exercise_real_only::<SecretRow>(&mut ctx, &mut rep, &mut rng, "SecretRow", &e_row, thorough);
        }
        // vault header and contents
        {
            use sos_core::crypto::{Cipher, KeyDerivation, Seed};
            use sos_vault::{Header, Summary, Vault, VaultMeta};
            let cipher = match rng.below(3) { 0 => Cipher::XChaCha20Poly1305, 1 => Cipher::AesGcm256, _ => Cipher::X25519 };
            let kdf = if rng.chance(1, 2) { KeyDerivation::Argon2Id } else { KeyDerivation::BalloonHash };
            let flags = VaultFlags::from_bits(rng.below(1024)).unwrap();
            let summary = Summary::new(rng.below(3) as u16 + 1, VaultId::from(rand_uuid(&mut rng)), rand_string(&mut rng), cipher.clone(), kdf.clone(), flags.clone());
            exercise(&mut ctx, &mut rep, &mut rng, "Summary", &summary, thorough);
            let mut header = Header::new(VaultId::from(rand_uuid(&mut rng)), rand_string(&mut rng), cipher.clone(), kdf.clone(), flags.clone());
            if rng.chance(2, 3) { header.set_salt(Some(KeyDerivation::generate_salt().to_string())); }
            if rng.chance(1, 2) { let mut sd = [0u8; 32]; sd.copy_from_slice(&rand_bytes(&mut rng, 32)); header.set_seed(Some(Seed(sd))); }
            if rng.chance(2, 3) { header.set_meta(Some(rand_aead(&mut rng))); }
            exercise(&mut ctx, &mut rep, &mut rng, "Header", &header, thorough);
            let mut vault = Vault::new(VaultId::from(rand_uuid(&mut rng)), rand_string(&mut rng), cipher, kdf, flags);
            *vault.header_mut() = header.clone();
            for _ in 0..rng.below(4) { vault.insert_entry(SecretId::from(rand_uuid(&mut rng)), rand_commit(&mut rng)); }
            exercise(&mut ctx, &mut rep, &mut rng, "Vault", &vault, thorough);
            // VaultMeta has no PartialEq: compare its fields
            let mut vm = VaultMeta::default();
            vm.set_description(rand_string(&mut rng));
            let rt_ = rt();
            let (enc1, back) = rt_.block_on(async { let a = sos_core::encode(&vm).await.expect("encode"); std::thread::sleep(std::time::Duration::from_millis(2)); let b: Result<VaultMeta, _> = sos_core::decode(&a).await; (a, b) });
            match back {
                Ok(w) => if w.description() != vm.description() || w.date_created() != vm.date_created() {
                    rep.spec_fail("roundtrip-differs:VaultMeta", json!({"bytes": hex::encode(&enc1), "created": vm.date_created().to_rfc3339().unwrap_or_default(), "decoded_created": w.date_created().to_rfc3339().unwrap_or_default()}), "decode(encode v) != v");
                },
                Err(e) => rep.spec_fail("roundtrip-error:VaultMeta", json!({"bytes": hex::encode(&enc1)}), &e.to_string()),
            }
            exercise_bytes::<VaultMeta>(&mut ctx, &mut rep, &mut rng, "VaultMeta", enc1, thorough);
        }
        if k == 0 {
            rep.sample(json!({"op": ctx.ops[0], "impl": ctx.imp[0]}));
            rep.sample(json!({"op": ctx.ops[ctx.ops.len() / 2], "impl": ctx.imp[ctx.imp.len() / 2]}));
        }
        if ctx.ops.len() > 30_000 { flush(&mut ctx, &mut rep); }
    }
    // kind-tag substitution over the tag space for the four event decoders
    let tags: Vec<u32> = if thorough { (0..65536).collect() } else { (0..80).chain([255, 256, 257, 0x7fff, 0x8000, 0xfffe, 0xffff]).chain((0..300).map(|_| rng.below(65536) as u32)).collect() };
    let body = rand_bytes(&mut rng, 120);
    for t in tags {
        let mut b = (t as u16).to_le_bytes().to_vec();
        b.extend_from_slice(&body);
        for ty in ["WriteEvent", "AccountEvent", "DeviceEvent", "FileEvent"] { dispatch(&mut ctx, &mut rep, ty, &b, "tag-substitution"); }
        if ctx.ops.len() > 30_000 { flush(&mut ctx, &mut rep); }
    }
    // short random strings into every decoder
    let nr = if thorough { 4000 } else { 400 };
    for _ in 0..nr {
        let l = rng.below(24) as usize;
        let b = rand_bytes(&mut rng, l);
        for ty in TYPES { dispatch(&mut ctx, &mut rep, ty, &b, "random"); }
        if ctx.ops.len() > 30_000 { flush(&mut ctx, &mut rep); }
    }
    // directed edge cases for the secret kinds whose payload goes through an external parser (vCard, PEM, TOTP JSON,
    // URL / JSON, age identity): empty and minimal payloads that a mutation stream rarely produces
    {
        let ud: Vec<u8> = vec![0, 0, 0, 0, 0, 0];
        let st = |s: &str| { let mut v = (s.len() as u32).to_le_bytes().to_vec(); v.extend_from_slice(s.as_bytes()); v };
        let payloads = ["", " ", "\r\n", "BEGIN:VCARD", "BEGIN:VCARD\r\nEND:VCARD\r\n", "BEGIN:VCARD\r\nVERSION:4.0\r\nEND:VCARD\r\n", "-----BEGIN X-----", "-----BEGIN X-----\n-----END X-----\n", "[]", "{}", "null", "\"\"", "AGE-SECRET-KEY-1", "http://", "[\"http://\"]"];
        for kind in [1u8, 5, 9, 10, 15] {
            for p in payloads.iter() {
                let mut b = vec![kind];
                match kind {
                    1 => { b.extend(st("a")); b.extend(st("b")); b.push(1); b.extend(st(p)); }
                    15 => { b.push(1); b.extend(st(p)); }
                    _ => b.extend(st(p)),
                }
                b.extend_from_slice(&ud);
                feed_real_only::<sos_vault::secret::Secret>(&mut ctx, &mut rep, "Secret", &b, "directed-external-payload");
            }
        }
    }
    // nesting depth: custom fields nest (a field is a SecretRow whose secret has user data with fields ...); the decoder
    // recurses once per level.  Decoded in a child process because a stack overflow aborts the process.
    for depth in [50usize, 3000] {
        let exe = std::env::current_exe().unwrap();
        let out = std::process::Command::new(exe).args(["nest", "--seed", "1", "--tier", "quick", "--out", "/dev/null", "--depth", &depth.to_string()]).output();
        rep.case(&format!("nest:{depth}"), true);
        match out {
            Ok(o) => {
                let so = String::from_utf8_lossy(&o.stdout).to_string();
                let verdict = if so.contains("decoded ok") { "ok" } else if so.contains("error:") { "error" } else { "aborted" };
                rep.count(&format!("nest:{depth}:{verdict}"));
                if verdict == "aborted" {
                    rep.spec_fail("decode-aborts-process:Secret:nested-custom-fields", json!({"depth": depth, "bytes": depth * 69, "status": format!("{:?}", o.status), "stderr": String::from_utf8_lossy(&o.stderr).chars().take(200).collect::<String>()}), "decoding a secret whose custom fields nest deeply overflows the stack and aborts the process");
                }
            }
            Err(e) => rep.notes.push(format!("nest probe could not run: {e}")),
        }
    }
    flush(&mut ctx, &mut rep);
    rep.notes.push("modelled_types: DateTime CommitHash CommitProof CommitState Comparison AeadPack VaultEntry VaultCommit EventKind WriteEvent AccountEvent DeviceEvent(Revoke) FileEvent EventRecord String VaultMeta Auth Summary SharedAccess(no recipients) Header Contents Vault".into());
    rep.notes.push("tested_only_types (real round-trip and malformed-input streams, no Lean model): DeviceEvent::Trust (serde_json payload), SecretMeta, Secret (all 15 kinds), SecretRow".into());
    rep.rule = format!("{n} rounds; per round one structure-aware value of every modelled type and every event variant (boundary timestamps, empty/long buffers, non-ASCII names, all flag subsets), \
        each fed as valid encoding, with trailing bytes, truncated at every offset, bit-flipped, with hostile length fields, spliced; plus kind-tag substitution over the u16 space and short random strings into every decoder; \
        non-trivial = derived from a valid encoding or a tag substitution; distinct = distinct (type, bytes)");
    rep.write(&cli.out);
}

const TYPES: [&str; 16] = ["DateTime", "CommitProof", "CommitState", "Comparison", "AeadPack", "VaultEntry", "VaultCommit", "WriteEvent", "AccountEvent", "DeviceEvent", "FileEvent", "EventRecord", "VaultMeta", "Summary", "Header", "Vault"];

fn dispatch(ctx: &mut Ctx, rep: &mut Report, ty: &str, b: &[u8], kind: &str) {
    match ty {
        "DateTime" => feed::<UtcDateTime>(ctx, rep, ty, b, kind),
        "CommitProof" => feed::<CommitProof>(ctx, rep, ty, b, kind),
        "CommitState" => feed::<CommitState>(ctx, rep, ty, b, kind),
        "Comparison" => feed::<Comparison>(ctx, rep, ty, b, kind),
        "AeadPack" => feed::<AeadPack>(ctx, rep, ty, b, kind),
        "VaultEntry" => feed::<VaultEntry>(ctx, rep, ty, b, kind),
        "VaultCommit" => feed::<VaultCommit>(ctx, rep, ty, b, kind),
        "WriteEvent" => feed::<WriteEvent>(ctx, rep, ty, b, kind),
        "AccountEvent" => feed::<AccountEvent>(ctx, rep, ty, b, kind),
        "DeviceEvent" => feed::<DeviceEvent>(ctx, rep, ty, b, kind),
        "FileEvent" => feed::<FileEvent>(ctx, rep, ty, b, kind),
        "EventRecord" => feed::<EventRecord>(ctx, rep, ty, b, kind),
        "VaultMeta" => feed::<sos_vault::VaultMeta>(ctx, rep, ty, b, kind),
        "Summary" => feed::<sos_vault::Summary>(ctx, rep, ty, b, kind),
        "Header" => feed::<sos_vault::Header>(ctx, rep, ty, b, kind),
        "Vault" => feed::<sos_vault::Vault>(ctx, rep, ty, b, kind),
        _ => {}
    }
}

#[allow(dead_code)]
fn unused(_: MerkleProof<Sha256>) {}
