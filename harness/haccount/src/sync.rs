//! C04 / C05 / C09: generated edit histories on 2..3 real devices + real server
//! storage, syncs in generated orders; convergence and merge oracles.
use crate::world::{Recs, World};
use hcommon::{Cli, Report, Rng};
use serde_json::json;
use sos_account::Account;
use sos_vault::secret::{Secret, SecretId, SecretMeta};
use std::collections::BTreeMap;

fn note(label: &str, text: &str) -> (SecretMeta, Secret) {
    let s = Secret::Note { text: text.to_string().into(), user_data: Default::default() };
    let m = SecretMeta::new(label.to_string(), s.kind());
    (m, s)
}

#[derive(Default)]
pub struct Tokens { map: BTreeMap<String, usize> }
impl Tokens {
    fn tok(&mut self, commit: &str) -> String {
        let n = self.map.len();
        let i = *self.map.entry(commit.to_string()).or_insert(n);
        format!("{:04x}", i)
    }
    fn seq(&mut self, r: &Recs) -> String {
        if r.is_empty() { "-".into() } else { r.iter().map(|x| format!("{}/{}", x.1, self.tok(&x.0))).collect::<Vec<_>>().join(",") }
    }
}

pub struct Corr { pub ops: Vec<String>, pub imp: Vec<String> }

/// one sync call of device k, with the per-log transition recorded for the model
async fn sync_traced(w: &World, k: usize, toks: &mut Tokens, corr: &mut Corr, rep: &mut Report) -> Result<String, String> {
    let lb = w.device_logs(k).await;
    let sb = w.server_logs().await;
    let r = w.sync(k).await;
    let la = w.device_logs(k).await;
    let sa = w.server_logs().await;
    if r.is_ok() {
        for (name, l0) in &lb {
            if !(name.starts_with("folder:") || name == "account") { continue; }
            let (Some(s0), Some(l1), Some(s1)) = (sb.get(name), la.get(name), sa.get(name)) else { continue };
            if l0.is_empty() || s0.is_empty() { continue; }
            corr.ops.push(format!("sync synclog local={} remote={}", toks.seq(l0), toks.seq(s0)));
            corr.imp.push(format!("local={} remote={}", toks.seq(l1), toks.seq(s1)));
            rep.count(if l0 == s0 { "synclog:in-sync" } else if l1 == s1 { "synclog:converged" } else { "synclog:still-different" });
        }
    }
    r
}

pub async fn run_case(backend: &str, seed: u64, rep: &mut Report, corr: &mut Corr) -> anyhow::Result<()> {
    let mut rng = Rng::new(seed);
    let mut toks = Tokens::default();
    // pre-history: none / one device / all devices edited (no conflict, soft conflict) / server ahead / stale ancestor
    let pre = *rng.pick(&[0u64, 1, 2, 2, 3, 3, 3, 4, 4, 4, 5, 5, 6, 6]);
    let n_dev = if pre == 4 { 3 } else { rng.range(2, 3) as usize };
    let w = World::new(n_dev, backend).await?;
    let mut script: Vec<String> = vec![format!("world devices={n_dev} backend={backend}")];
    // pre-history 6: the FILE log is the only log in which two devices both made events (each attaches an external
    // file in a folder of its own): one folder per device, made before the devices diverge
    let mut own_folder: Vec<sos_core::VaultId> = vec![];
    if pre == 6 {
        let mut a = w.devices[0].lock().await;
        for k in 0..n_dev { own_folder.push(*a.create_folder(sos_client_storage::NewFolderOptions::new(format!("folder-of-d{k}"))).await?.folder.id()); }
        rep.count("pre-history:files-only-conflict");
    }
    // shared pool of secrets created before divergence
    let mut pool: Vec<SecretId> = vec![];
    {
        let mut a = w.devices[0].lock().await;
        for i in 0..rng.range(1, 3) {
            let (m, s) = note(&format!("base{i}"), "v0");
            let ch = a.create_secret(m, s, Default::default()).await?;
            pool.push(ch.id);
        }
    }
    // half of the cases start with a shared, non-empty FILE log (an external file made before the devices diverge)
    let with_files = pre == 6 || rng.chance(1, 2);
    let mut file_no = 0u32;
    if with_files {
        let mut a = w.devices[0].lock().await;
        let p = w.tmp.path().join(format!("ext-{file_no}.bin")); file_no += 1;
        std::fs::write(&p, format!("shared external file {seed}").as_bytes())?;
        let secret: sos_vault::secret::Secret = p.try_into()?;
        let meta = sos_vault::secret::SecretMeta::new("shared-file".into(), secret.kind());
        a.create_secret(meta, secret, Default::default()).await?;
        script.push("base external file".into());
    }
    for k in 0..n_dev { let r = w.sync(k).await; script.push(format!("sync d{k} -> {:?}", r)); }
    for k in 0..n_dev { let r = w.sync(k).await; script.push(format!("sync d{k} -> {:?}", r)); }
    // ancestor state
    let ancestor = w.server_logs().await;
    // offline edits
    let mut committed: BTreeMap<String, Vec<(String, i128)>> = BTreeMap::new();
    let mut committed_by: BTreeMap<String, Vec<(usize, (String, i128))>> = BTreeMap::new();
    if pre == 5 {
        // one device rebuilds the default folder's log (compaction) and syncs: the other devices share no
        // ancestor with the server any more (hard conflict -> fetch and force merge)
        let r = { let mut a = w.devices[0].lock().await; match a.default_folder().await { Some(f) => a.compact_folder(f.id()).await.map(|_| ()).map_err(|e| e.to_string()), None => Err("no default folder".into()) } };
        script.push(format!("d0 compacts the default folder -> {:?}", r.is_ok()));
        let r = w.sync(0).await; script.push(format!("sync d0 -> {:?}", r));
        rep.count("pre-history:compaction-on-one-device");
    }
    if pre == 4 {
        // stale ancestor: d1 makes an old offline edit; d0 edits and syncs; d2 catches up; d0 edits and syncs again;
        // d2 edits offline.  server [..x,s2], d1 [..a1], d2 [..x,b1]: when d1's event is merged in front of x,
        // d2's common ancestor with the server lies before the event x both hold.
        for (k, label, sync_after) in [(1usize, "a1", vec![]), (0, "x", vec![0usize, 2]), (0, "s2", vec![0]), (2, "b1", vec![])] {
            let before = w.device_logs(k).await;
            { let mut a = w.devices[k].lock().await; let (m, s) = note(&format!("{label}-{}", rng.below(1000)), "x"); let _ = a.create_secret(m, s, Default::default()).await; }
            script.push(format!("edit d{k} create ({label})"));
            let after = w.device_logs(k).await;
            for (name, recs) in &after {
                let b = before.get(name).map(|v| v.len()).unwrap_or(0);
                for r in recs.iter().skip(b) { committed.entry(name.clone()).or_default().push(r.clone()); committed_by.entry(name.clone()).or_default().push((k, r.clone())); }
            }
            for j in sync_after { let r = w.sync(j).await; script.push(format!("sync d{j} -> {:?}", r)); }
        }
        rep.count("pre-history:stale-ancestor");
    }
    for k in 0..n_dev {
        let n_edits = if pre == 4 { rng.range(0, 1) } else if pre == 6 { 0 } else { rng.range(0, 4) };
        let before = w.device_logs(k).await;
        if pre == 6 && k < 2 {
            let mut a = w.devices[k].lock().await;
            let p = w.tmp.path().join(format!("ext-{file_no}.bin")); file_no += 1;
            std::fs::write(&p, format!("external file {seed} {file_no} of d{k} in its own folder").as_bytes())?;
            let secret: sos_vault::secret::Secret = p.try_into()?;
            let meta = sos_vault::secret::SecretMeta::new(format!("file-d{k}-own-folder"), secret.kind());
            let r = a.create_secret(meta, secret, sos_client_storage::AccessOptions { folder: Some(own_folder[k]), ..Default::default() }).await;
            script.push(format!("edit d{k} external-file in its own folder -> {}", r.is_ok()));
        }
        for _ in 0..n_edits {
            let mut a = w.devices[k].lock().await;
            match rng.below(8) {
                0 => { let (m, s) = note(&format!("n{}", rng.below(1000)), "x"); let _ = a.create_secret(m, s, Default::default()).await; script.push(format!("edit d{k} create")); }
                5 | 6 => {
                    // an external file: a file event in the FILE log (and a secret in the default folder)
                    let p = w.tmp.path().join(format!("ext-{file_no}.bin")); file_no += 1;
                    std::fs::write(&p, format!("external file {seed} {file_no} of d{k}").as_bytes())?;
                    let secret: sos_vault::secret::Secret = p.try_into()?;
                    let meta = sos_vault::secret::SecretMeta::new(format!("file-d{k}-{file_no}"), secret.kind());
                    let r = a.create_secret(meta, secret, Default::default()).await;
                    script.push(format!("edit d{k} external-file -> {}", r.is_ok()));
                }
                7 if pre != 5 => {
                    // sync switched off and on again around an edit, all in one offline batch
                    if let Some(f) = a.default_folder().await {
                        let flags = f.flags().clone();
                        let r1 = a.update_folder_flags(f.id(), flags.clone() | sos_core::VaultFlags::NO_SYNC).await.is_ok();
                        let (m, s) = note(&format!("while-no-sync-{}", rng.below(1000)), "x"); let _ = a.create_secret(m, s, Default::default()).await;
                        let r2 = a.update_folder_flags(f.id(), flags).await.is_ok();
                        script.push(format!("edit d{k} no-sync-toggle -> {r1} {r2}"));
                    }
                }
                1 | 2 if !pool.is_empty() => {
                    let id = *rng.pick(&pool);
                    let (m, s) = note(&format!("upd-d{k}-{}", rng.below(100)), "y");
                    let r = a.update_secret(&id, m, Some(s), Default::default()).await;
                    script.push(format!("edit d{k} update {} -> {}", id, r.is_ok()));
                }
                3 if !pool.is_empty() => {
                    let id = *rng.pick(&pool);
                    let r = a.delete_secret(&id, Default::default()).await;
                    script.push(format!("edit d{k} delete {} -> {}", id, r.is_ok()));
                }
                _ => {
                    if let Some(f) = a.default_folder().await {
                        let name = *rng.pick(&["A", "B"]);
                        let r = a.rename_folder(f.id(), name.to_string()).await;
                        script.push(format!("edit d{k} rename {name} -> {}", r.is_ok()));
                    }
                }
            }
        }
        let after = w.device_logs(k).await;
        for (name, recs) in &after {
            let b = before.get(name).map(|v| v.len()).unwrap_or(0);
            for r in recs.iter().skip(b) { committed.entry(name.clone()).or_default().push(r.clone()); committed_by.entry(name.clone()).or_default().push((k, r.clone())); }
        }
    }
    // sync rounds in a generated order
    let mut order: Vec<usize> = (0..n_dev).collect();
    for i in (1..order.len()).rev() { let j = rng.below(i as u64 + 1) as usize; order.swap(i, j); }
    let rounds = 3;
    let mut all_ok = true;
    for round in 0..rounds {
        for &k in &order {
            // a history rewrite (compaction) travels through the ACCOUNT log and makes the receiving device rebuild its
            // folder log: outside the single-log model, so these cases are not replayed on it (oracles still apply)
            let mut scratch = Corr { ops: vec![], imp: vec![] };
            let corr_here: &mut Corr = if pre == 5 { &mut scratch } else { &mut *corr };
            match sync_traced(&w, k, &mut toks, corr_here, rep).await {
                Ok(r) => { if r != "ok" { all_ok = false; } script.push(format!("sync d{k} round{round} -> {r}")); }
                Err(e) => { all_ok = false; script.push(format!("sync d{k} round{round} -> error {e}")); rep.count("sync:error"); }
            }
        }
    }
    // quiescence: statuses
    let ss = w.server_status().await;
    let mut converged = true;
    for k in 0..n_dev {
        let ds = w.device_status(k).await;
        if ds != ss { converged = false; }
    }
    let slogs = w.server_logs().await;
    let mut diverged_logs = vec![];
    for k in 0..n_dev {
        let dl = w.device_logs(k).await;
        for (name, recs) in &slogs {
            if dl.get(name) != Some(recs) { diverged_logs.push(format!("d{k}:{name}")); }
        }
    }
    rep.count(if converged { "converged" } else { "not-converged" });
    let mut seqs = serde_json::Map::new();
    if !converged {
        let short = |r: &Recs| r.iter().map(|x| x.0[..6].to_string()).collect::<Vec<_>>().join(",");
        for name in diverged_logs.iter().map(|d| d.split_once(':').unwrap().1.to_string()).collect::<std::collections::BTreeSet<_>>() {
            let mut m = serde_json::Map::new();
            m.insert("ancestor".into(), json!(ancestor.get(&name).map(short)));
            m.insert("server".into(), json!(slogs.get(&name).map(short)));
            for k in 0..n_dev { let dl = w.device_logs(k).await; m.insert(format!("d{k}"), json!(dl.get(&name).map(short))); }
            seqs.insert(name, serde_json::Value::Object(m));
        }
    }
    // gap predicate of the recorded findings: some commit hash occurs more than once among
    // the events made since the ancestor (byte-identical events, made twice or independently)
    let has_dups = |name: &str| -> bool {
        let mut seen = std::collections::BTreeSet::new();
        committed.get(name).map(|v| v.iter().any(|r| !seen.insert(r.0.clone()))).unwrap_or(false)
    };
    if !converged {
        let any_dup = diverged_logs.iter().any(|d| has_dups(d.split_once(':').unwrap().1));
        let class = format!("{}{}", if all_ok { "success-reported-but-replicas-differ" } else { "no-convergence-after-3-rounds" },
            if any_dup { "-with-byte-identical-events" } else { "-all-events-distinct" });
        rep.spec_fail(&format!("c04-{class}"), json!({"case_seed": seed, "backend": backend, "script": script, "diverged": diverged_logs, "sequences": seqs}), "devices and server do not report the same sync status after editing stopped and every device synced 3 times");
    } else if pre != 5 {
        // C05: every committed event present exactly once in the converged log, nothing else added
        // (not after a history rewrite: the property excludes compaction between ancestor and merge)
        for (name, recs) in &slogs {
            let anc: &Recs = ancestor.get(name).map(|v| v).unwrap_or(&EMPTY);
            let mut expect: Vec<&(String, i128)> = anc.iter().collect();
                        // byte-identical events made independently (on different devices) count as one:
            // expected multiplicity of a commit = the largest number of times one device committed it
            let mut per_dev: BTreeMap<(usize, String), usize> = BTreeMap::new();
            for (k, c) in committed_by.get(name).map(|v| v.as_slice()).unwrap_or(&[]) { *per_dev.entry((*k, c.0.clone())).or_insert(0) += 1; }
            let mut mult: BTreeMap<String, usize> = BTreeMap::new();
            for ((_, c), n) in &per_dev { let e = mult.entry(c.clone()).or_insert(0); if *n > *e { *e = *n; } }
            let owned: Vec<(String, i128)> = mult.iter().flat_map(|(c, n)| std::iter::repeat((c.clone(), 0i128)).take(*n)).collect();
            for e in &owned { expect.push(e); }
            let mut got: Vec<&String> = recs.iter().map(|r| &r.0).collect();
            let mut want: Vec<&String> = expect.iter().map(|r| &r.0).collect();
            got.sort(); want.sort();
            // divergent events interleaved in timestamp order
            let suffix: Vec<i128> = recs.iter().skip(anc.len()).map(|r| r.1).collect();
            if anc.len() <= recs.len() && recs[..anc.len()] == anc[..] && suffix.windows(2).any(|p| p[0] > p[1]) {
                rep.spec_fail(&format!("c05-merged-events-not-in-timestamp-order{}", if has_dups(name) { "-with-byte-identical-events" } else { "-all-events-distinct" }), json!({"case_seed": seed, "backend": backend, "log": name, "script": script}), "events after the ancestor are not in timestamp order");
            }
            if got != want {
                // gap predicate of a recorded finding: the FILE log had no event at all when the devices diverged and
                // more than one device made file events (no common event to start the merge from)
                let file_devs: std::collections::BTreeSet<usize> = committed_by.get(name).map(|v| v.iter().map(|x| x.0).collect()).unwrap_or_default();
                let no_common_file_event = name == "files" && anc.is_empty() && file_devs.len() > 1;
                let class = format!("{}{}", if got.len() > want.len() { "c05-event-duplicated-or-added" } else { "c05-event-lost" },
                    if no_common_file_event { "-file-log-without-common-event" } else if has_dups(name) { "-with-byte-identical-events" } else { "-all-events-distinct" });
                rep.spec_fail(&class, json!({"case_seed": seed, "backend": backend, "log": name, "script": script, "got": got.len(), "want": want.len()}), "converged log is not ancestor + each committed event exactly once");
            }
        }
    }
    // C02 after merges: on every device the served default folder equals the replay of its log
    for k in 0..n_dev {
        let mut a = w.devices[k].lock().await;
        if let Some(f) = a.default_folder().await {
            let id = *f.id();
            let sv = crate::folder::served(&mut a, &id).await;
            let rv = crate::folder::replayed(&a, &id).await;
            match (sv, rv) {
                (Ok(sv), Ok(rv)) => {
                    let mut x = sv.secrets.clone(); let mut y = rv.secrets.clone(); x.sort(); y.sort();
                    if sv.name != rv.name || sv.flags != rv.flags || sv.desc != rv.desc || x != y {
                        let what = if x != y { "secrets" } else { "attributes" };
                        // gap predicate of the recorded finding: the merged patch was replayed onto a vault that
                        // was not rewound (only possible after an auto-merge, i.e. when this device had offline edits)
                        let had_offline = committed_by.values().any(|v| v.iter().any(|(d, _)| *d == k));
                        let dupsfx = if has_dups(&format!("folder:{}", id)) { "-with-byte-identical-events" } else { "-all-events-distinct" };
                        // gap predicate of the recorded finding: the log holds an event that the access point
                        // ignores but the reducer applies (update of an id deleted earlier, create of a present id)
                        let inapplicable = {
                            use futures::StreamExt; use sos_core::events::{EventLog, WriteEvent}; use sos_sync::StorageEventLogs;
                            let log = a.folder_log(&id).await.map_err(|e| anyhow::anyhow!(e.to_string()))?; let l = log.read().await;
                            let st = l.event_stream(false).await; futures::pin_mut!(st);
                            let mut present = std::collections::BTreeSet::new(); let mut bad = false;
                            while let Some(r) = st.next().await { if let Ok((_, ev)) = r { match ev {
                                WriteEvent::CreateSecret(i, _) => { if !present.insert(i) { bad = true; } }
                                WriteEvent::UpdateSecret(i, _) => { if !present.contains(&i) { bad = true; present.insert(i); } }
                                WriteEvent::DeleteSecret(i) => { present.remove(&i); }
                                _ => {} } } }
                            bad };
                        let gapsfx = if what == "secrets" && inapplicable { "-log-has-update-of-deleted-or-create-of-present" } else { "" };
                        // gap predicate: another device rebuilt this folder's log (compaction) while a rename / re-flag was made concurrently
                        let rwsfx = if pre == 5 && what == "attributes" { "-after-history-rewrite-on-another-device" } else { "" };
                        rep.spec_fail(&format!("c02-served-differs-from-replay-after-{}-{what}{gapsfx}{dupsfx}{rwsfx}", if had_offline { "auto-merge" } else { "fast-forward-merge" }),
                            json!({"case_seed": seed, "backend": backend, "script": script, "device": k, "served": sv.secrets.len(), "replay": rv.secrets.len(), "served_attrs": format!("{}|{}|{}", sv.name, sv.flags, sv.desc), "replay_attrs": format!("{}|{}|{}", rv.name, rv.flags, rv.desc)}),
                            "after syncing, the folder served by a device differs from the replay of its own event log");
                    }
                }
                (Err(e), _) | (_, Err(e)) => rep.spec_fail("c02-view-error-after-merge", json!({"case_seed": seed, "backend": backend, "script": script, "device": k}), &e),
            }
        }
    }
    // C02 after a reload: what a device serves after signing out and in again (the persisted vault) equals the replay of its log
    {
        let key: sos_core::crypto::AccessKey = w.password.clone().into();
        for k in 0..n_dev {
            let mut a = w.devices[k].lock().await;
            if a.sign_out().await.is_err() { continue; }
            if let Err(e) = a.sign_in(&key).await { rep.spec_fail("c02-sign-in-after-sync-fails", json!({"case_seed": seed, "backend": backend, "script": script, "device": k}), &e.to_string()); continue; }
            let _ = a.initialize_search_index().await;
            let folders: Vec<sos_core::VaultId> = a.list_folders().await.map(|v| v.iter().map(|s| *s.id()).collect()).unwrap_or_default();
            for id in folders {
                if let (Ok(sv), Ok(rv)) = (crate::folder::served(&mut a, &id).await, crate::folder::replayed(&a, &id).await) {
                    let mut x = sv.secrets.clone(); let mut y = rv.secrets.clone(); x.sort(); y.sort();
                    if sv.name != rv.name || sv.flags != rv.flags || sv.desc != rv.desc || x != y {
                        let inapplicable = {
                            use futures::StreamExt; use sos_core::events::{EventLog, WriteEvent}; use sos_sync::StorageEventLogs;
                            let log = a.folder_log(&id).await.map_err(|e| anyhow::anyhow!(e.to_string()))?; let l = log.read().await;
                            let st = l.event_stream(false).await; futures::pin_mut!(st);
                            let mut present = std::collections::BTreeSet::new(); let mut bad = false;
                            while let Some(r) = st.next().await { if let Ok((_, ev)) = r { match ev {
                                WriteEvent::CreateSecret(i, _) => { if !present.insert(i) { bad = true; } }
                                WriteEvent::UpdateSecret(i, _) => { if !present.contains(&i) { bad = true; present.insert(i); } }
                                WriteEvent::DeleteSecret(i) => { present.remove(&i); }
                                _ => {} } } }
                            bad };
                        let what = if x != y { "secrets" } else { "attributes" };
                        let gapsfx = if what == "secrets" && inapplicable { "-log-has-update-of-deleted-or-create-of-present" } else { "" };
                        let dupsfx = if has_dups(&format!("folder:{}", id)) { "-with-byte-identical-events" } else { "-all-events-distinct" };
                        rep.spec_fail(&format!("c02-served-differs-from-replay-after-reload-merge-{what}{gapsfx}{dupsfx}"), json!({"case_seed": seed, "backend": backend, "script": script, "device": k, "served": sv.secrets.len(), "replay": rv.secrets.len()}), "after syncing and signing in again, the folder served by a device differs from the replay of its own event log");
                    }
                }
            }
        }
    }
    rep.case(&script.join(";"), committed.values().map(|v| v.len()).sum::<usize>() > 0);
    if seed % 50 == 0 { rep.sample(json!({"script": script})); }
    Ok(())
}

static EMPTY: Recs = Vec::new();

pub fn run(cli: &Cli) {
    let property = cli.extra.get("property").cloned().unwrap_or("C04".into());
    let mut rep = Report::new(&property, "sync", cli.seed, &cli.tier);
    let rt = tokio::runtime::Builder::new_multi_thread().worker_threads(4).enable_all().build().unwrap();
    let n: u64 = cli.extra.get("cases").and_then(|s| s.parse().ok()).unwrap_or(if cli.tier == "thorough" { 240 } else { 40 });
    let mut corr = Corr { ops: vec![], imp: vec![] };
    if let Some(path) = &cli.replay {
        let v: serde_json::Value = serde_json::from_str(&std::fs::read_to_string(path).unwrap()).unwrap();
        let seed = v["case"]["case_seed"].as_u64().unwrap_or(cli.seed);
        let backend = v["case"]["backend"].as_str().unwrap_or("fs").to_string();
        let _ = rt.block_on(run_case(&backend, seed, &mut rep, &mut corr));
        finish(&mut rep, &mut corr);
        rep.write(&cli.out);
        return;
    }
    for backend in ["fs", "db"] {
        for k in 0..n {
            let case_seed = cli.seed.wrapping_mul(1_000_003).wrapping_add(k);
            if let Err(e) = rt.block_on(run_case(backend, case_seed, &mut rep, &mut corr)) {
                rep.notes.push(format!("case {backend}/{case_seed} aborted: {e}"));
            }
        }
    }
    // merge_patches correspondence on generated suffix pairs (ties, skew, identical events)
    rt.block_on(merge_corr(cli.seed, if cli.tier == "thorough" { 20000 } else { 2000 }, &mut rep, &mut corr));
    finish(&mut rep, &mut corr);
    rep.rule = format!("{n} generated histories per backend: 2-3 real devices + real server storage in one process, 1-3 shared secrets, 0-4 offline edits per device \
        (create / update same secret / delete same secret / rename folder to one of two names, so byte-identical events are common), then 3 rounds of syncs in a generated device order; \
        each sync call's per-log transition is also replayed on the Lean model; plus generated suffix pairs for merge_patches; non-trivial = at least one offline edit");
    rep.write(&cli.out);
}

fn finish(rep: &mut Report, corr: &mut Corr) {
    let model = hcommon::run_model(&corr.ops);
    for (i, op) in corr.ops.iter().enumerate() {
        let m = model.get(i).cloned().unwrap_or_default();
        let m_cmp = m.split(" outcome=").next().unwrap_or("").to_string();
        if m_cmp != corr.imp[i] {
            let which = if op.starts_with("sync merge") { "corr:sync/merge_patches" } else { "corr:sync/synclog" };
            rep.disagree(which, op, &corr.imp[i], &m);
        }
    }
}

async fn merge_corr(seed: u64, n: usize, rep: &mut Report, corr: &mut Corr) {
    use sos_core::{commit::CommitHash, events::EventRecord};
    use sos_remote_sync::{AutoMerge, AutoMergeStatus};
    let w = match World::new(1, "fs").await { Ok(w) => w, Err(e) => { rep.notes.push(format!("merge_corr world: {e}")); return; } };
    let mut rng = Rng::new(seed ^ 0x5151);
    let mk = |t: i128, b: u8| -> EventRecord {
        let time: sos_core::UtcDateTime = time::OffsetDateTime::from_unix_timestamp_nanos(t).unwrap().into();
        EventRecord::new(time, Default::default(), CommitHash(hcommon::sha256(&[b])), vec![b])
    };
    for _ in 0..n {
        let base: i128 = 1_700_000_000_000_000_000;
        let mut gen = |rng: &mut Rng| -> Vec<(i128, u8)> {
            let len = rng.below(5);
            let mut t = base + rng.below(5) as i128;
            (0..len).map(|_| { match rng.below(4) { 0 => {}, 1 => t -= 2, _ => t += rng.range(1, 4) as i128 }; (t, rng.range(1, 6) as u8) }).collect()
        };
        let l = gen(&mut rng);
        let r = gen(&mut rng);
        let show = |v: &Vec<(i128, u8)>| if v.is_empty() { "-".to_string() } else { v.iter().map(|(t, b)| format!("{}/{:02x}", t, b)).collect::<Vec<_>>().join(",") };
        let op = format!("sync merge local={} remote={}", show(&l), show(&r));
        let lr: Vec<EventRecord> = l.iter().map(|(t, b)| mk(*t, *b)).collect();
        let rr: Vec<EventRecord> = r.iter().map(|(t, b)| mk(*t, *b)).collect();
        let out = match w.bridges[0].merge_patches(lr, rr).await {
            Ok(AutoMergeStatus::RewindLocal(v)) => format!("rewind-local {}", show(&v.iter().map(|x| (crate::world::nanos(x.time()), x.event_bytes()[0])).collect())),
            Ok(AutoMergeStatus::PushRemote(v)) => format!("push-remote {}", show(&v.iter().map(|x| (crate::world::nanos(x.time()), x.event_bytes()[0])).collect())),
            Err(e) => format!("error {e}"),
        };
        // C05 on the implementation: in the diverged branch the result is (local events the remote lacks) ++ remote, stably sorted by time
        if let Some(rest) = out.strip_prefix("push-remote ") {
            let got: Vec<String> = if rest == "-" { vec![] } else { rest.split(',').map(|x| x.to_string()).collect() };
            // an event (commit) the remote already has is not added again
            let rset: std::collections::BTreeSet<u8> = r.iter().map(|x| x.1).collect();
            let mut want: Vec<(i128, u8, usize)> = l.iter().filter(|x| !rset.contains(&x.1)).chain(r.iter()).enumerate().map(|(i, (t, b))| (*t, *b, i)).collect();
            want.sort_by(|a, b| a.0.cmp(&b.0).then(a.2.cmp(&b.2)));
            let want: Vec<String> = want.iter().map(|(t, b, _)| format!("{}/{:02x}", t, b)).collect();
            if got != want {
                let mut g = got.clone(); let mut w2 = want.clone(); g.sort(); w2.sort();
                let class = if g != w2 { if g.len() < w2.len() { "c05-merge-patches-loses-records" } else { "c05-merge-patches-adds-records" } } else { "c05-merge-patches-wrong-order" };
                rep.spec_fail(class, json!({"op": op, "got": got, "want": want}), "merge_patches result is not the stable time-sorted union of both suffixes (each event once)");
            }
        }
        rep.count(out.split(' ').next().unwrap());
        rep.case(&op, !l.is_empty() && !r.is_empty());
        corr.ops.push(op);
        corr.imp.push(out);
    }
}

/// C09: the devices' sync calls run concurrently; the harness scheduler releases one
/// request at a time in a generated order (request-granularity interleaving).
pub async fn run_concurrent_case(backend: &str, seed: u64, rep: &mut Report) -> anyhow::Result<()> {
    use crate::bridge::{Gate, Waiting};
    use sos_protocol::{AsConflict, SyncOptions};
    use sos_remote_sync::AutoMerge;
    let mut rng = Rng::new(seed ^ 0xC09);
    // pre-history: none / one device / all devices edited (no conflict, soft conflict) / server ahead / stale ancestor
    let pre = *rng.pick(&[0u64, 1, 2, 2, 3, 3, 3, 4, 4, 4, 5, 5]);
    let n_dev = if pre == 4 { 3 } else { rng.range(2, 3) as usize };
    let w = World::new(n_dev, backend).await?;
    let mut script: Vec<String> = vec![format!("world devices={n_dev} backend={backend}")];
    let mut pool: Vec<SecretId> = vec![];
    {
        let mut a = w.devices[0].lock().await;
        for i in 0..2 { let (m, s) = note(&format!("base{i}"), "v0"); pool.push(a.create_secret(m, s, Default::default()).await?.id); }
    }
    for _ in 0..2 { for k in 0..n_dev { let _ = w.sync(k).await; } }
    let mut committed: BTreeMap<String, Vec<String>> = BTreeMap::new();
    if pre == 3 {
        // the server is ahead: device 0 edits and syncs first, the others then edit offline
        let mut a = w.devices[0].lock().await;
        for _ in 0..rng.range(1, 2) { let (m, s) = note(&format!("s{}", rng.below(100000)), "x"); let _ = a.create_secret(m, s, Default::default()).await; }
        drop(a);
        let _ = w.sync(0).await;
        script.push("edit d0 create + sync (server ahead)".into());
    }
    if pre == 4 {
        // d1 edits offline first (oldest event, never sees what follows); d0 edits and syncs; d2 catches up;
        // d0 edits and syncs again; d2 edits offline: server [..x,s2], d1 [..a1], d2 [..x,b1], d0 in sync
        { let mut a = w.devices[1].lock().await; let (m, s) = note(&format!("a1-{}", rng.below(100000)), "x"); let _ = a.create_secret(m, s, Default::default()).await; }
        { let mut a = w.devices[0].lock().await; let (m, s) = note(&format!("x-{}", rng.below(100000)), "x"); let _ = a.create_secret(m, s, Default::default()).await; }
        let _ = w.sync(0).await; let _ = w.sync(2).await;
        { let mut a = w.devices[0].lock().await; for _ in 0..rng.range(1, 2) { let (m, s) = note(&format!("s2-{}", rng.below(100000)), "x"); let _ = a.create_secret(m, s, Default::default()).await; } }
        let _ = w.sync(0).await;
        { let mut a = w.devices[2].lock().await; let (m, s) = note(&format!("b1-{}", rng.below(100000)), "x"); let _ = a.create_secret(m, s, Default::default()).await; }
        script.push("pre-history stale-ancestor: d1 old offline edit; d0 edit+sync; d2 sync; d0 edit+sync; d2 offline edit".into());
    }
    // pre-history 5: a second folder every device has; d0 adds a secret to it and makes an account event (new folder),
    // d1 deletes the folder; both offline.  A schedule d1:status d0:status d0:sync d1:sync makes d1's sync request stale.
    let mut forced: Vec<usize> = vec![];
    if pre == 5 {
        use sos_client_storage::{AccessOptions, NewFolderOptions};
        let shared = { let mut a = w.devices[0].lock().await; let f = *a.create_folder(NewFolderOptions::new("shared".into())).await?.folder.id();
            let (m, s) = note("in-shared", "v0"); a.create_secret(m, s, AccessOptions { folder: Some(f), ..Default::default() }).await?; f };
        for _ in 0..2 { for k in 0..n_dev { let _ = w.sync(k).await; } }
        let variant = rng.below(4);
        { let mut a = w.devices[0].lock().await;
          match variant {
            // d0 also deletes the folder / renames it / (default) adds a secret to it
            1 => { let r = a.delete_folder(&shared).await; script.push(format!("d0 deletes the shared folder too -> {}", r.is_ok())); }
            2 => { let r = a.rename_folder(&shared, format!("renamed-{}", rng.below(100000))).await; script.push(format!("d0 renames the shared folder -> {}", r.is_ok())); }
            _ => { let (m, s) = note(&format!("late-{}", rng.below(100000)), "x"); let _ = a.create_secret(m, s, AccessOptions { folder: Some(shared), ..Default::default() }).await; }
          }
          if rng.chance(3, 4) { let _ = a.create_folder(NewFolderOptions::new(format!("other-{}", rng.below(100000)))).await; } }
        rep.count(&format!("folder-deleted-vs:{}", ["secret-added", "deleted-too", "renamed", "secret-added"][variant as usize]));
        { let mut a = w.devices[1].lock().await; let r = a.delete_folder(&shared).await; script.push(format!("pre-history folder-deleted-vs-edited: d0 secret into shared folder (+ new folder); d1 delete shared folder -> {}", r.is_ok())); }
        if rng.chance(2, 3) { forced = vec![1, 1, 0, 0, 0, 0, 0, 0, 0, 0, 0, 0]; }
    }
    for k in 0..n_dev {
        if pre == 5 || pre == 4 || pre == 0 || (pre == 1 && k > 0) || (pre == 3 && k == 0) { continue; }
        let before = w.device_logs(k).await;
        let mut a = w.devices[k].lock().await;
        for _ in 0..rng.range(1, 3) {
            match rng.below(3) {
                0 => { let (m, s) = note(&format!("n{}-{}", k, rng.below(100000)), "x"); let _ = a.create_secret(m, s, Default::default()).await; script.push(format!("edit d{k} create")); }
                1 => { let id = *rng.pick(&pool); let (m, s) = note(&format!("u{}-{}", k, rng.below(100000)), "y"); let r = a.update_secret(&id, m, Some(s), Default::default()).await; script.push(format!("edit d{k} update -> {}", r.is_ok())); }
                _ => { if let Some(f) = a.default_folder().await { let r = a.rename_folder(f.id(), format!("name-{}-{}", k, rng.below(100000))).await; script.push(format!("edit d{k} rename -> {}", r.is_ok())); } }
            }
        }
        drop(a);
        let after = w.device_logs(k).await;
        for (name, recs) in &after { let b = before.get(name).map(|v| v.len()).unwrap_or(0); for r in recs.iter().skip(b) { committed.entry(name.clone()).or_default().push(r.0.clone()); } }
    }
    rep.count(&format!("pre-history:{}", ["none", "one-device", "all-devices", "server-ahead-others-edited", "stale-ancestor", "folder-deleted-vs-edited"][pre as usize]));
    // concurrent sync calls under the scheduler
    let (tx, mut rx) = tokio::sync::mpsc::unbounded_channel::<Waiting>();
    let mut handles = vec![];
    for k in 0..n_dev {
        let mut b = w.bridges[k].clone();
        b.client.gate = Gate { tx: Some(tx.clone()) };
        handles.push(tokio::spawn(async move {
            match b.execute_sync(&SyncOptions::default()).await {
                Ok(_) => "ok".to_string(),
                Err(e) => if e.is_hard_conflict() { "conflict:hard".into() } else if e.is_conflict() { "conflict:soft".into() } else { format!("error:{e}") },
            }
        }));
    }
    drop(tx);
    let mut waiting: Vec<Option<Waiting>> = (0..n_dev).map(|_| None).collect();
    let mut done = vec![false; n_dev];
    let mut ever: BTreeMap<String, std::collections::BTreeSet<String>> = BTreeMap::new();
    let note_server = |ever: &mut BTreeMap<String, std::collections::BTreeSet<String>>, logs: &BTreeMap<String, Recs>| {
        for (n, r) in logs { for x in r { ever.entry(n.clone()).or_default().insert(x.0.clone()); } }
    };
    note_server(&mut ever, &w.server_logs().await);
    let deadline = std::time::Instant::now() + std::time::Duration::from_secs(40);
    let mut hang = false;
    let mut steps: usize = 0;
    let mut stale_drop = false;
    let mut last: Option<usize> = None;
    'outer: loop {
        for k in 0..n_dev {
            while !done[k] && waiting[k].is_none() {
                if handles[k].is_finished() { done[k] = true; break; }
                match rx.try_recv() {
                    Ok(wt) => { let d = wt.device; waiting[d] = Some(wt); }
                    Err(_) => tokio::time::sleep(std::time::Duration::from_millis(1)).await,
                }
                if std::time::Instant::now() > deadline { hang = true; break 'outer; }
            }
        }
        let ready: Vec<usize> = (0..n_dev).filter(|k| waiting[*k].is_some()).collect();
        if ready.is_empty() { break; }
        // bursts: keep releasing the same device's requests with probability 2/3
        let k = match last { _ if steps < forced.len() && ready.contains(&forced[steps]) => forced[steps], Some(l) if ready.contains(&l) && rng.chance(2, 3) => l, _ => *rng.pick(&ready) };
        last = Some(k);
        let wt = waiting[k].take().unwrap();
        let before = w.server_logs().await;
        script.push(format!("step d{k}:{}", wt.request));
        let req = wt.request;
        let _ = wt.release.send(());
        loop {
            if handles[k].is_finished() { done[k] = true; break; }
            match rx.try_recv() {
                Ok(w2) => { let d = w2.device; waiting[d] = Some(w2); if d == k { break; } }
                Err(_) => tokio::time::sleep(std::time::Duration::from_millis(1)).await,
            }
            if std::time::Instant::now() > deadline { hang = true; break 'outer; }
        }
        steps += 1;
        let after = w.server_logs().await;
        note_server(&mut ever, &after);
        // the server's logs only ever change by whole accepted patches: old ++ patch, or (rewound prefix) ++ patch
        let account_changed = before.get("account") != after.get("account");
        for (name, old) in &before {
            let new = after.get(name).cloned().unwrap_or_default();
            if &new == old { continue; }
            if name.starts_with("folder:") && !after.contains_key(name) {
                // the folder is gone: only an accepted account patch (with the delete event) may do that
                if !account_changed {
                    rep.spec_fail("c09-refused-account-patch-changed-server-folders", json!({"case_seed": seed, "backend": backend, "script": script, "log": name, "request": req, "events": old.len()}), "a request whose account patch was not applied removed a folder and the events the server had accepted for it");
                }
                continue;
            }
            let common = old.iter().zip(new.iter()).take_while(|(a, b)| a == b).count();
            let is_append = common == old.len();
            if !is_append && req != "patch" && req != "update" {
                rep.spec_fail("c09-server-log-rewritten-by-non-patch-request", json!({"case_seed": seed, "backend": backend, "script": script, "log": name, "request": req}), "server log changed other than by appending during a request that must not rewind");
            }
            // accepted events dropped by this request
            let newset: std::collections::BTreeSet<&String> = new.iter().map(|r| &r.0).collect();
            let dropped: Vec<&String> = old.iter().map(|r| &r.0).filter(|c| !newset.contains(c)).collect();
            if !dropped.is_empty() && new.len() == common {
                // the log is a proper prefix of what it was: the request rewound and applied nothing (a refused patch must roll back)
                rep.spec_fail("c09-refused-patch-left-server-log-rewound", json!({"case_seed": seed, "backend": backend, "script": script, "log": name, "request": req, "dropped": dropped.len()}), "a request that applied no patch left the server log truncated: events the server had accepted are gone");
            } else if !dropped.is_empty() {
                stale_drop = true;
                rep.spec_fail("c09-accepted-event-dropped-by-stale-rewind", json!({"case_seed": seed, "backend": backend, "script": script, "log": name, "request": req, "dropped": dropped.len()}), "a rewind-and-patch request removed events the server had accepted from another device and did not re-apply them");
            }
        }
    }
    if hang {
        rep.spec_fail("c09-sync-call-did-not-end", json!({"case_seed": seed, "backend": backend, "script": script}), "a sync call neither completed nor issued a request within 40 s");
        for h in &handles { h.abort(); }
        rep.case(&script.join(";"), true);
        return Ok(());
    }
    for (k, h) in handles.into_iter().enumerate() {
        let r = h.await.unwrap_or_else(|e| format!("task-panic:{e}"));
        script.push(format!("result d{k} -> {r}"));
        rep.count(&format!("result:{}", r.split(':').next().unwrap()));
        if r.starts_with("error:") { let shape: String = r.chars().take(70).map(|c| if c.is_ascii_hexdigit() && !c.is_ascii_lowercase() || c.is_ascii_digit() { '#' } else { c }).collect(); rep.count(&format!("error-shape:{}", shape.split("'").next().unwrap_or(""))); }
        if r.starts_with("error:") && std::env::var("SDEBUG").is_ok() { eprintln!("CASE {seed} {backend}: {}", script.join(" ; ")); }
        if r.starts_with("task-panic") { rep.spec_fail("c09-sync-call-panicked", json!({"case_seed": seed, "backend": backend, "script": script}), &r); }
    }
    rep.count_n("requests-scheduled", steps as u64);
    // one further sequential round (twice) must converge as in C04
    for _ in 0..2 { for k in 0..n_dev { let r = w.sync(k).await; script.push(format!("sync d{k} -> {:?}", r)); } }
    let ss = w.server_status().await;
    let mut converged = true;
    for k in 0..n_dev { if w.device_status(k).await != ss { converged = false; } }
    if !converged {
        let mut logs = BTreeMap::new();
        let short = |m: BTreeMap<String, Recs>| -> BTreeMap<String, Vec<String>> { m.into_iter().map(|(n, r)| (n, r.into_iter().map(|x| x.0[..6].to_string()).collect())).collect() };
        logs.insert("server".to_string(), short(w.server_logs().await));
        for k in 0..n_dev { logs.insert(format!("d{k}"), short(w.device_logs(k).await)); }
        script.push(format!("logs at the end: {}", serde_json::to_string(&logs).unwrap_or_default()));
        rep.spec_fail(if pre == 5 { "c09-no-convergence-after-extra-round-folder-deleted-vs-edited" } else if stale_drop { "c09-no-convergence-after-stale-rewind-dropped-events" } else { "c09-no-convergence-after-extra-round" }, json!({"case_seed": seed, "backend": backend, "script": script}), "after the concurrent syncs and two further sequential rounds the replicas differ");
    }
    // every event the server ever accepted is still there
    let fin = w.server_logs().await;
    for (name, set) in &ever {
        if name.starts_with("folder:") && !fin.contains_key(name) { continue; }   // deleted folder (checked per step above)
        let have: std::collections::BTreeSet<&String> = fin.get(name).map(|v| v.iter().map(|r| &r.0).collect()).unwrap_or_default();
        let lost = set.iter().filter(|c| !have.contains(c)).count();
        if lost > 0 {
            rep.spec_fail("c09-accepted-event-missing-at-end", json!({"case_seed": seed, "backend": backend, "script": script, "log": name, "lost": lost}), "an event the server had accepted is not in its final log");
        }
    }
    rep.count(if converged { "converged" } else { "not-converged" });
    rep.case(&script.join(";"), pre > 0);
    if seed % 20 == 0 { rep.sample(json!({"script": script})); }
    let _ = committed;
    Ok(())
}

pub fn run_sched(cli: &Cli) {
    let property = cli.extra.get("property").cloned().unwrap_or("C09".into());
    let mut rep = Report::new(&property, "sched", cli.seed, &cli.tier);
    let rt = tokio::runtime::Builder::new_multi_thread().worker_threads(4).enable_all().build().unwrap();
    let n: u64 = cli.extra.get("cases").and_then(|s| s.parse().ok()).unwrap_or(if cli.tier == "thorough" { 300 } else { 60 });
    if let Some(path) = &cli.replay {
        let v: serde_json::Value = serde_json::from_str(&std::fs::read_to_string(path).unwrap()).unwrap();
        let seed = v["case"]["case_seed"].as_u64().unwrap_or(cli.seed);
        let backend = v["case"]["backend"].as_str().unwrap_or("fs").to_string();
        let _ = rt.block_on(run_concurrent_case(&backend, seed, &mut rep));
        rep.write(&cli.out);
        return;
    }
    for backend in ["fs", "db"] {
        for k in 0..n {
            let case_seed = cli.seed.wrapping_mul(1_000_003).wrapping_add(k);
            if let Err(e) = rt.block_on(run_concurrent_case(backend, case_seed, &mut rep)) {
                rep.notes.push(format!("case {backend}/{case_seed} aborted: {e}"));
            }
        }
    }
    rep.rule = format!("{n} cases per backend: 2-3 real devices whose sync calls run concurrently against one real server storage; the harness releases one request \
        (status / sync / scan / diff / patch) at a time in a generated order; pre-histories: no edits, one device edited (fast-forward), all devices edited (soft conflict, distinct events), server ahead, stale ancestor (an old offline edit of a third device is merged before another device's ancestor), folder deleted on one device while another adds events to it and to the account log (two thirds of these with the order exists(d1), status(d1), d0's whole sync, then d1's now stale sync request); bursty schedules; \
        then two sequential rounds; non-trivial = some device had edits");
    rep.write(&cli.out);
}
