//! C11: a live in-process server on loopback; every route x method x credential form x
//! access configuration, before and after device revocation.  HTTP status and server
//! state before/after are compared with the Lean `authenticate` decision.
use crate::bridge::BridgeG;
use hcommon::{Cli, Report, Rng};
use secrecy::SecretString;
use serde_json::json;
use sos_account::{Account, LocalAccount};
use sos_backend::BackendTarget;
use sos_core::{
    crypto::AccessKey,
    device::{DevicePublicKey, TrustedDevice},
    events::{DeviceEvent, EventLog, EventLogType},
    AccountId, Origin, Paths,
};
use sos_protocol::{
    network_client::{HttpClient, HttpClientOptions},
    DiffRequest, PatchRequest, ScanRequest, SyncOptions, WireEncodeDecode,
};
use sos_remote_sync::AutoMerge;
use sos_server_storage::ServerAccountStorage;
use sos_server::{AccessControlConfig, Server, ServerBackend, ServerConfig, State};
use sos_signer::ed25519::{BinaryEd25519Signature, BoxedEd25519Signer, SingleParty};
use sos_signer::Signer;
use sos_sync::{StorageEventLogs, SyncPacket, SyncStorage};
use std::collections::HashSet;
use std::net::SocketAddr;
use std::sync::Arc;
use tokio::sync::{Mutex, RwLock};

pub struct Live {
    pub addr: SocketAddr,
    pub backend: ServerBackend,
    pub handle: axum_server::Handle,
    pub _tmp: tempfile::TempDir,
}

pub async fn start_server(access: Option<AccessControlConfig>) -> anyhow::Result<Live> { start_server_backend(access, false).await }

/// a live server on loopback over the file-system or the database (sqlite) storage backend
pub async fn start_server_backend(access: Option<AccessControlConfig>, database: bool) -> anyhow::Result<Live> {
    let base = std::path::Path::new("/verif/run/tmp");
    std::fs::create_dir_all(base)?;
    let tmp = tempfile::Builder::new().prefix("srv").tempdir_in(base)?;
    let cfg_path = tmp.path().join("config.toml");
    std::fs::create_dir_all(tmp.path().join("data"))?;
    std::fs::write(&cfg_path, if database { "[storage]\npath = \"data\"\ndatabase = \"data/server.db\"\n" } else { "[storage]\npath = \"data\"\n" })?;
    let mut config = ServerConfig::load(&cfg_path).await?;
    config.access = access;
    config.set_bind_address("127.0.0.1:0".parse()?);
    let backend = config.backend().await?;
    let backend: ServerBackend = Arc::new(RwLock::new(backend));
    let state = Arc::new(RwLock::new(State::new(config)));
    let handle = axum_server::Handle::new();
    let h2 = handle.clone();
    let b2 = backend.clone();
    tokio::spawn(async move {
        let server = Server::new().await.expect("server");
        let _ = server.start(state, b2, h2).await;
    });
    let addr = loop {
        if let Some(a) = handle.listening().await { break a; }
    };
    Ok(Live { addr, backend, handle, _tmp: tmp })
}

pub struct Acct {
    pub account: Arc<Mutex<LocalAccount>>,
    pub id: AccountId,
    pub signer: BoxedEd25519Signer,
    _tmp: tempfile::TempDir,
}

pub async fn new_account(name: &str) -> anyhow::Result<Acct> {
    let base = std::path::Path::new("/verif/run/tmp");
    let tmp = tempfile::Builder::new().prefix("acct").tempdir_in(base)?;
    let paths = Paths::new_client(tmp.path());
    Paths::scaffold(paths.documents_dir()).await?;
    let password: SecretString = "correct horse battery staple verif".to_string().into();
    let mut a = LocalAccount::new_account(name.to_string(), password.clone(), BackendTarget::FileSystem(paths)).await?;
    let key: AccessKey = password.into();
    a.sign_in(&key).await?;
    let id = *a.account_id();
    let signer: BoxedEd25519Signer = a.device_signer().await?.into();
    Ok(Acct { account: Arc::new(Mutex::new(a)), id, signer, _tmp: tmp })
}

fn origin(addr: &SocketAddr) -> Origin {
    Origin::new("verif".to_string(), format!("http://{}:{}", addr.ip(), addr.port()).parse().unwrap())
}

pub async fn sync_http(acct: &Acct, addr: &SocketAddr) -> Result<(), String> {
    let client = HttpClient::new(HttpClientOptions {
        account_id: acct.id, origin: origin(addr), device_signer: acct.signer.clone(),
        connection_id: "verif".into(), network_config: Default::default(),
    }).map_err(|e| e.to_string())?;
    let (queue, _) = tokio::sync::broadcast::channel(8);
    let b = BridgeG { account_id: acct.id, account: acct.account.clone(), client, queue };
    b.execute_sync(&SyncOptions::default()).await.map(|_| ()).map_err(|e| e.to_string())
}

pub async fn token(signer: &BoxedEd25519Signer, bytes: &[u8]) -> String {
    let sig = signer.sign(bytes).await.unwrap();
    let b: BinaryEd25519Signature = sig.into();
    bs58::encode(sos_core::encode(&b).await.unwrap()).into_string()
}

/// what the server holds for an account: sync status + file listing, as a string
async fn server_state(live: &Live, id: &AccountId) -> String {
    let r = live.backend.read().await;
    let accounts = r.accounts();
    let accounts = accounts.read().await;
    match accounts.get(id) {
        None => "no-account".into(),
        Some(a) => {
            let a = a.read().await;
            let st = a.sync_status().await.map(|s| format!("{:?}", s.root)).unwrap_or("?".into());
            let devs = a.list_device_keys().len();
            format!("{st}/devices={devs}")
        }
    }
}

/// the device keys the server checks against (its cache) and the length of its device log
async fn server_devices(live: &Live, id: &AccountId, names: &[(DevicePublicKey, u32)]) -> String {
    let r = live.backend.read().await;
    let accounts = r.accounts();
    let accounts = accounts.read().await;
    match accounts.get(id) {
        None => "no-account".into(),
        Some(a) => {
            let a = a.read().await;
            let mut ks: Vec<u32> = a.list_device_keys().iter().map(|k| names.iter().find(|n| &n.0 == *k).map(|n| n.1).unwrap_or(9)).collect();
            ks.sort();
            let n = match a.device_log().await { Ok(l) => l.read().await.tree().len(), Err(_) => 0 };
            format!("trusted={} log={}", ks.iter().map(|k| k.to_string()).collect::<Vec<_>>().join(","), n)
        }
    }
}

#[derive(Clone, Copy, PartialEq, Eq, Debug)]
enum CredKind { None, Malformed, Dotted, UnknownKey, RevokedKey, OtherBytes, OtherAccountKey, NoAccountHeader, Valid }

pub async fn run_config(cfg_name: &str, rep: &mut Report, ops: &mut Vec<String>, imp: &mut Vec<String>, rng: &mut Rng) -> anyhow::Result<()> {
    // account 1 is the subject; account 2 exists on the same server (its device key is "a valid key of another account")
    let a1 = new_account("one").await?;
    let a2 = new_account("two").await?;
    let access = match cfg_name {
        "none" => None,
        "allow" => Some(AccessControlConfig { allow: Some(HashSet::from([a1.id, a2.id])), deny: None }),
        "allow-excluded" => Some(AccessControlConfig { allow: Some(HashSet::from([a2.id])), deny: None }),
        "deny" => Some(AccessControlConfig { allow: None, deny: Some(HashSet::from([a1.id])) }),
        "deny-other" => Some(AccessControlConfig { allow: None, deny: Some(HashSet::from([AccountId::random()])) }),
        // both lists: the subject is on both (denied entries take precedence), or only on the allow list
        "both-denied" => Some(AccessControlConfig { allow: Some(HashSet::from([a1.id, a2.id])), deny: Some(HashSet::from([a1.id])) }),
        "both-allowed" => Some(AccessControlConfig { allow: Some(HashSet::from([a1.id, a2.id])), deny: Some(HashSet::from([AccountId::random()])) }),
        "both-neither" => Some(AccessControlConfig { allow: Some(HashSet::from([a2.id])), deny: Some(HashSet::from([AccountId::random()])) }),
        _ => None,
    };
    let excluded = matches!(cfg_name, "allow-excluded" | "deny" | "both-denied" | "both-neither");
    let live = start_server(access).await?;
    // register the accounts (an excluded account cannot be created through the API: create it in storage directly)
    for a in [&a1, &a2] {
        if excluded && a.id == a1.id {
            let cs = { let acc = a.account.lock().await; acc.create_set().await? };
            let mut w = live.backend.write().await;
            w.create_account(&a.id, cs).await?;
        } else {
            sync_http(a, &live.addr).await.map_err(|e| anyhow::anyhow!("register: {e}"))?;
        }
    }
    // second device of account 1: trusted, synced, then revoked
    let dev_b = SingleParty::new_random();
    let dev_b_pub: DevicePublicKey = dev_b.verifying_key().to_bytes().into();
    let dev_b: BoxedEd25519Signer = Box::new(dev_b);
    // third device: trusted by a normal sync, revoked at the end by a forced update of the device log (update_account)
    let dev_c = SingleParty::new_random();
    let dev_c_pub: DevicePublicKey = dev_c.verifying_key().to_bytes().into();
    let dev_c: BoxedEd25519Signer = Box::new(dev_c);
    let unknown: BoxedEd25519Signer = Box::new(SingleParty::new_random());
    let mut revoked = false;
    // device-log history as the server received it (model: Auth.DevStore)
    let own_key: Option<DevicePublicKey> = { let r = live.backend.read().await; let accs = r.accounts(); let accs = accs.read().await;
        match accs.get(&a1.id) { Some(a) => a.read().await.list_device_keys().iter().next().map(|k| (*k).clone()), None => None } };
    let mut names: Vec<(DevicePublicKey, u32)> = vec![(dev_b_pub.clone(), 2), (dev_c_pub.clone(), 3)];
    if let Some(k) = own_key { names.push((k, 1)); }
    let mut dev_ops: Vec<String> = vec![];
    if !excluded { ops.push("auth devices create=t1 ops=-".into()); imp.push(server_devices(&live, &a1.id, &names).await); }
    if !excluded {
        let a = a1.account.lock().await;
        let log = a.device_log().await?;
        log.write().await.apply(&[DeviceEvent::Trust(TrustedDevice::new(dev_b_pub.clone(), None, None)), DeviceEvent::Trust(TrustedDevice::new(dev_c_pub.clone(), None, None))]).await?;
        drop(a);
        sync_http(&a1, &live.addr).await.map_err(|e| anyhow::anyhow!("sync trust: {e}"))?;
        dev_ops.push("p:t2.t3".into());
        ops.push(format!("auth devices create=t1 ops={}", dev_ops.join(";"))); imp.push(server_devices(&live, &a1.id, &names).await);
    }
    let http = reqwest::Client::builder().build()?;
    let base = format!("http://{}:{}/api/v1", live.addr.ip(), live.addr.port());
    // the authenticated routes (must equal the generated route table; the model line carries the handler name)
    let fid = uuid::Uuid::new_v4(); let sid = uuid::Uuid::new_v4(); let fname = hex::encode(hcommon::sha256(b"blob"));
    let file_path = format!("/sync/file/{fid}/{sid}/{fname}");
    let status = { let a = a1.account.lock().await; a.sync_status().await? };
    let bodies: Vec<(&str, &str, String, Option<Vec<u8>>, bool)> = vec![
        // (method, handler, path, body, destructive)
        ("HEAD", "account_exists", "/sync/account".into(), None, false),
        ("GET", "fetch_account", "/sync/account".into(), None, false),
        ("GET", "sync_status", "/sync/account/status".into(), None, false),
        ("GET", "event_scan", "/sync/account/events".into(), Some(ScanRequest { log_type: EventLogType::Identity, limit: 4, offset: 0 }.encode().await?), false),
        ("POST", "event_diff", "/sync/account/events".into(), Some(DiffRequest { log_type: EventLogType::Identity, from_hash: None }.encode().await?), false),
        ("PATCH", "event_patch", "/sync/account/events".into(), Some(PatchRequest { log_type: EventLogType::Identity, commit: None, proof: status.identity.1.clone(), patch: vec![] }.encode().await?), false),
        ("PATCH", "sync_account", "/sync/account".into(), Some(SyncPacket { status: status.clone(), diff: Default::default(), compare: None }.encode().await?), false),
        ("PUT", "create_account", "/sync/account".into(), Some({ let a = a1.account.lock().await; a.create_set().await?.encode().await? }), false),
        ("POST", "compare_files", "/sync/files".into(), Some(sos_protocol::transfer::FileSet(Default::default()).encode().await?), false),
        ("GET", "send_file", file_path.clone(), None, false),
        ("PUT", "receive_file", file_path.clone(), Some(b"blob".to_vec()), true),
        ("POST", "move_file", format!("{file_path}?vault_id={}&secret_id={}&name={fname}", uuid::Uuid::new_v4(), uuid::Uuid::new_v4()), None, true),
        ("DELETE", "delete_file", file_path.clone(), None, true),
        ("POST", "update_account", "/sync/account".into(), Some(b"not-an-update-set".to_vec()), true),
        ("DELETE", "delete_account", "/sync/account".into(), None, true),
        // the change-notification socket: a real websocket handshake (without the upgrade headers the request is refused
        // before authentication is reached); the handler answers 400 for every authentication failure, so only the
        // implementation-side oracles apply (no model line)
        ("GET", "upgrade", "/sync/changes".into(), None, false),
    ];
    for phase in ["before-revocation", "after-revocation"] {
        if phase == "after-revocation" {
            if excluded { break; }
            let a = a1.account.lock().await;
            let log = a.device_log().await?;
            // in some configurations the revocation arrives in one patch together with a repeated Trust of the same,
            // already trusted key (re-paired, then revoked, before the next sync): the net change of that patch is
            // empty although the key must leave the trusted set
            let repeated_trust = matches!(cfg_name, "allow" | "deny-other" | "both-allowed");
            if repeated_trust {
                log.write().await.apply(&[DeviceEvent::Trust(TrustedDevice::new(dev_b_pub.clone(), None, None)), DeviceEvent::Revoke(dev_b_pub.clone())]).await?;
            } else {
                log.write().await.apply(&[DeviceEvent::Revoke(dev_b_pub.clone())]).await?;
            }
            drop(a);
            sync_http(&a1, &live.addr).await.map_err(|e| anyhow::anyhow!("sync revoke: {e}"))?;
            revoked = true;
            dev_ops.push(if repeated_trust { "p:t2.r2".into() } else { "p:r2".into() });
            rep.count(if repeated_trust { "revocation:trust-and-revoke-in-one-patch" } else { "revocation:single-event" });
            ops.push(format!("auth devices create=t1 ops={}", dev_ops.join(";"))); imp.push(server_devices(&live, &a1.id, &names).await);
        }
        for (method, handler, path, body, destructive) in &bodies {
            let signed_path = format!("/api/v1{}", path.split('?').next().unwrap());
            let signs_body = matches!(*handler, "event_scan" | "event_diff" | "event_patch" | "sync_account" | "create_account" | "update_account");
            let right: Vec<u8> = if signs_body { body.clone().unwrap_or_default() } else { signed_path.as_bytes().to_vec() };
            for cred in [CredKind::None, CredKind::Malformed, CredKind::Dotted, CredKind::UnknownKey, CredKind::RevokedKey, CredKind::OtherBytes, CredKind::OtherAccountKey, CredKind::NoAccountHeader, CredKind::Valid] {
                // a valid credential on a destructive endpoint is exercised only once, at the very end
                if (cred == CredKind::Valid || (cred == CredKind::RevokedKey && !revoked)) && *destructive { continue; }
                let (hdr_acct, tok): (Option<AccountId>, Option<String>) = match cred {
                    CredKind::None => (Some(a1.id), None),
                    CredKind::Malformed => (Some(a1.id), Some("!!!not-base58!!!".into())),
                    CredKind::Dotted => (Some(a1.id), Some(format!("{}.{}", token(&a1.signer, &right).await, token(&a1.signer, &right).await))),
                    CredKind::UnknownKey => (Some(a1.id), Some(token(&unknown, &right).await)),
                    CredKind::RevokedKey => (Some(a1.id), Some(token(&dev_b, &right).await)),
                    CredKind::OtherBytes => { let mut other = right.clone(); other.push(rng.below(255) as u8); (Some(a1.id), Some(token(&a1.signer, &other).await)) }
                    CredKind::OtherAccountKey => (Some(a1.id), Some(token(&a2.signer, &right).await)),
                    CredKind::NoAccountHeader => (None, Some(token(&a1.signer, &right).await)),
                    CredKind::Valid => (Some(a1.id), Some(token(&a1.signer, &right).await)),
                };
                let before = server_state(&live, &a1.id).await;
                let m = reqwest::Method::from_bytes(method.as_bytes())?;
                let sep = if path.contains('?') { "&" } else { "?" };
                let mut rq = http.request(m, format!("{base}{path}{sep}connection_id=verif"));
                if let Some(h) = hdr_acct { rq = rq.header("X-SOS-ACCOUNT-ID", h.to_string()); }
                if let Some(t) = &tok { rq = rq.header("Authorization", format!("Bearer {t}")); }
                if let Some(b) = body { rq = rq.header("content-type", "application/x-protobuf").body(b.clone()); }
                if *handler == "upgrade" { rq = rq.header("Connection", "Upgrade").header("Upgrade", "websocket").header("Sec-WebSocket-Version", "13").header("Sec-WebSocket-Key", "dGhlIHNhbXBsZSBub25jZQ=="); }
                let resp = rq.send().await;
                let code = match &resp { Ok(r) => r.status().as_u16(), Err(_) => 0 };
                if std::env::var("HTRACE").is_ok() && cred == CredKind::Valid { if let Ok(r) = resp { eprintln!("{} {} -> {} {:?}", method, path, code, r.text().await.ok().map(|t| t.chars().take(200).collect::<String>())); } }
                let after = server_state(&live, &a1.id).await;
                // model inputs: key identity and whether the signed bytes are the authenticated ones
                let key_id = match cred { CredKind::UnknownKey => 9, CredKind::RevokedKey => 2, CredKind::OtherAccountKey => 3, _ => 1 };
                let trusted = if revoked { "1" } else { "1,2" };
                let cred_s = match cred { CredKind::None => "none".to_string(), CredKind::Malformed | CredKind::Dotted => "malformed".to_string(),
                    _ => format!("token:{}:{}", key_id, if cred == CredKind::OtherBytes { 8 } else { 7 }) };
                let cfg_s = match cfg_name { "none" => "none".to_string(), "allow" => "allow:1,5".into(), "allow-excluded" => "allow:5".into(), "deny" => "deny:1".into(), "both-denied" => "both:1,5:1".into(), "both-allowed" => "both:1,5:6".into(), "both-neither" => "both:5:6".into(), _ => "deny:6".into() };
                let op = format!("auth req handler={} hdr={} cred={} signed=7 cfg={} trusted={}", handler, if hdr_acct.is_some() { "1" } else { "-" }, cred_s, cfg_s, trusted);
                let decision = if code == 403 { "forbidden" } else if code == 400 || code == 0 { "bad-request" } else { "allow" };
                // the properties' own statement, checked on the implementation
                let should_pass = cred == CredKind::Valid && !excluded || (cred == CredKind::RevokedKey && !revoked && !excluded);
                let passed = !(code == 400 || code == 403 || code == 401 || code == 0);
                if passed && !should_pass {
                    rep.spec_fail(&format!("c11-request-accepted-with-{:?}-credential:{}", cred, handler), json!({"config": cfg_name, "phase": phase, "method": method, "path": path, "status": code}), "an endpoint acted on a request that is not signed by a currently trusted device over the authenticated bytes");
                }
                if !passed && should_pass && !(code == 400 && !signs_body) {
                    rep.spec_fail(&format!("c11-valid-request-refused:{}", handler), json!({"config": cfg_name, "phase": phase, "method": method, "path": path, "status": code}), "a correctly signed request of a trusted device was refused");
                }
                if !should_pass && before != after {
                    rep.spec_fail(&format!("c11-refused-request-changed-state:{}", handler), json!({"config": cfg_name, "phase": phase, "method": method, "path": path, "status": code, "cred": format!("{:?}", cred)}), "server state changed although the request had to be refused");
                }
                rep.count(&format!("{}:{:?}:{}", cfg_name, cred, code));
                rep.case(&format!("{cfg_name}|{phase}|{op}|{method}|{path}"), true);
                if *handler != "upgrade" {
                    ops.push(op);
                    imp.push(decision.to_string());
                }
            }
        }
    }
    // body-carrying routes that authenticate the path only: is a different body accepted under the same signature?
    if !excluded {
        for (method, handler, path, body, _) in &bodies {
            if *handler != "compare_files" { continue; }
            let signed_path = format!("/api/v1{}", path);
            let tok = token(&a1.signer, signed_path.as_bytes()).await;
            let mut other = sos_protocol::transfer::FileSet(Default::default());
            other.0.insert(sos_core::ExternalFile::new(sos_core::SecretPath(uuid::Uuid::new_v4(), uuid::Uuid::new_v4()), sos_core::ExternalFileName::from(hcommon::sha256(b"x"))));
            let other_body = other.encode().await?;
            let m = reqwest::Method::from_bytes(method.as_bytes())?;
            let resp = http.request(m, format!("{base}{path}?connection_id=verif")).header("X-SOS-ACCOUNT-ID", a1.id.to_string())
                .header("Authorization", format!("Bearer {tok}")).header("content-type", "application/x-protobuf").body(other_body.clone()).send().await;
            let code = resp.map(|r| r.status().as_u16()).unwrap_or(0);
            if code == 200 && Some(&other_body) != body.as_ref() {
                rep.spec_fail(&format!("c11-body-not-covered-by-signature:{handler}"), json!({"config": cfg_name, "method": method, "path": path, "status": code}),
                    "the endpoint accepted a request body that the presented signature does not cover (only the path is signed)");
            }
        }
    }
    // revocation that reaches the server as a forced update of the whole device log (what a client sends after
    // rewriting a log): the revoked key must be refused afterwards exactly as after an ordinary sync
    if !excluded {
        let c_ok_before = {
            let p = "/api/v1/sync/account/status";
            let tok = token(&dev_c, p.as_bytes()).await;
            http.get(format!("{base}/sync/account/status?connection_id=verif")).header("X-SOS-ACCOUNT-ID", a1.id.to_string()).header("Authorization", format!("Bearer {tok}")).send().await.map(|r| r.status().as_u16()).unwrap_or(0)
        };
        rep.count(&format!("forced-revocation:third-device-before:{c_ok_before}"));
        let body = {
            let a = a1.account.lock().await;
            let log = a.device_log().await?;
            log.write().await.apply(&[DeviceEvent::Revoke(dev_c_pub.clone())]).await?;
            let cs = a.create_set().await?;
            let mut t = sos_core::commit::CommitTree::new();
            let mut hashes: Vec<[u8; 32]> = cs.device.records().iter().map(|r| *r.commit().as_ref()).collect();
            t.append(&mut hashes); t.commit();
            let us = sos_sync::UpdateSet { identity: None, account: None, device: Some(sos_core::events::patch::DeviceDiff { last_commit: None, patch: cs.device, checkpoint: t.head()? }), files: None, folders: Default::default() };
            us.encode().await?
        };
        let tok = token(&a1.signer, &body).await;
        let code = http.post(format!("{base}/sync/account?connection_id=verif")).header("X-SOS-ACCOUNT-ID", a1.id.to_string())
            .header("Authorization", format!("Bearer {tok}")).header("content-type", "application/x-protobuf").body(body.clone()).send().await.map(|r| r.status().as_u16()).unwrap_or(0);
        rep.count(&format!("forced-revocation:update_account:{code}"));
        if code == 200 {
            dev_ops.push(if matches!(cfg_name, "allow" | "deny-other" | "both-allowed") { "f:t1.t2.t3.t2.r2.r3".into() } else { "f:t1.t2.t3.r2.r3".into() });
            ops.push(format!("auth devices create=t1 ops={}", dev_ops.join(";"))); imp.push(server_devices(&live, &a1.id, &names).await);
        }
        if code == 200 && c_ok_before == 200 {
            for (method, handler, path, body, destructive) in &bodies {
                if *destructive { continue; }
                let signed_path = format!("/api/v1{}", path.split('?').next().unwrap());
                let signs_body = matches!(*handler, "event_scan" | "event_diff" | "event_patch" | "sync_account" | "create_account" | "update_account");
                let right: Vec<u8> = if signs_body { body.clone().unwrap_or_default() } else { signed_path.as_bytes().to_vec() };
                let tok = token(&dev_c, &right).await;
                let m = reqwest::Method::from_bytes(method.as_bytes())?;
                let mut rq = http.request(m, format!("{base}{path}?connection_id=verif")).header("X-SOS-ACCOUNT-ID", a1.id.to_string()).header("Authorization", format!("Bearer {tok}"));
                if let Some(b) = body { rq = rq.header("content-type", "application/x-protobuf").body(b.clone()); }
                if *handler == "upgrade" { rq = rq.header("Connection", "Upgrade").header("Upgrade", "websocket").header("Sec-WebSocket-Version", "13").header("Sec-WebSocket-Key", "dGhlIHNhbXBsZSBub25jZQ=="); }
                let code = rq.send().await.map(|r| r.status().as_u16()).unwrap_or(0);
                rep.case(&format!("{cfg_name}|after-forced-revocation|{handler}|{method}|{path}"), true);
                rep.count(&format!("{cfg_name}:RevokedByForcedUpdate:{code}"));
                if !(code == 400 || code == 403 || code == 401 || code == 0) {
                    rep.spec_fail(&format!("c11-request-accepted-with-RevokedKey-credential-after-forced-update:{handler}"), json!({"config": cfg_name, "method": method, "path": path, "status": code}),
                        "a device revoked by a forced update of the device log is still accepted");
                }
            }
        } else {
            rep.spec_fail("c11-forced-revocation-not-exercised", json!({"config": cfg_name, "third_device_before": c_ok_before, "update_account": code}), "the forced device-log update could not be set up (third device not accepted before, or update refused)");
        }
    }
    rep.sample(json!({"config": cfg_name, "routes": bodies.iter().map(|b| format!("{} {}", b.0, b.2)).collect::<Vec<_>>()}));
    live.handle.shutdown();
    Ok(())
}

pub fn run(cli: &Cli) {
    let property = cli.extra.get("property").cloned().unwrap_or("C11".into());
    let mut rep = Report::new(&property, "auth", cli.seed, &cli.tier);
    let rt = tokio::runtime::Builder::new_multi_thread().worker_threads(4).enable_all().build().unwrap();
    let mut rng = Rng::new(cli.seed);
    let mut ops = vec![]; let mut imp = vec![];
    for cfg in ["none", "allow", "allow-excluded", "deny", "deny-other", "both-denied", "both-allowed", "both-neither"] {
        if let Err(e) = rt.block_on(run_config(cfg, &mut rep, &mut ops, &mut imp, &mut rng)) {
            rep.notes.push(format!("config {cfg} aborted: {e}"));
            rep.spec_fail("c11-harness-aborted", json!({"config": cfg}), &e.to_string());
        }
    }
    rep.diff_streams("corr:auth", &ops, &imp);
    rep.exhaustive = true;
    rep.rule = "finite product, enumerated completely: 16 authenticated routes (incl. the websocket handshake of /sync/changes) x 9 credential forms (none, malformed, legacy dotted, unknown key, revoked key, valid key over other bytes, valid key of another account, no account header, valid) \\
        x 8 access configurations (none, allow incl., allow excl., deny incl., deny other, allow + deny with the account on both, only on the allow list, on neither) x before/after device revocation, against a live in-process server on loopback; \\
        HTTP status class and server state before/after each request; distinct = distinct (config, phase, route, credential)".into();
    rep.write(&cli.out);
}
