//! corr:server/event_patch — the real `server_helpers::event_patch` on real server storage
//! (both backends), generated rewind-and-patch requests; C07 refused-unchanged oracle and
//! correspondence with the Lean `eventPatch`.
use crate::world::World;
use futures::StreamExt;
use hcommon::{sha256, Cli, Report, Rng};
use rs_merkle::{algorithms::Sha256, MerkleProof};
use serde_json::json;
use sos_core::{
    commit::{CommitHash, CommitProof, CommitTree},
    events::{patch::CheckedPatch, EventLog, EventLogType, EventRecord, WriteEvent},
    SecretId, UtcDateTime,
};
use sos_protocol::{PatchRequest, SyncClient};
use sos_sync::StorageEventLogs;

type Row = (i128, Vec<u8>); // (time, event bytes)

fn show_rows(rs: &[Row]) -> String {
    if rs.is_empty() { "-".into() } else { rs.iter().map(|(t, b)| format!("{}/{}", t, hex::encode(b))).collect::<Vec<_>>().join(",") }
}
fn show_proof(p: &CommitProof) -> String {
    let hs = p.proof.proof_hashes();
    let hs = if hs.is_empty() { "-".to_string() } else { hs.iter().map(hex::encode).collect::<Vec<_>>().join(";") };
    format!("{}|{}|{}|{}", p.root, hs, p.length, p.indices.iter().map(|i| i.to_string()).collect::<Vec<_>>().join(","))
}
fn head_of(seq: &[Vec<u8>]) -> Option<CommitProof> {
    if seq.is_empty() { return None; }
    let mut t = CommitTree::new();
    let mut l: Vec<[u8; 32]> = seq.iter().map(|b| sha256(b)).collect();
    t.append(&mut l); t.commit(); t.head().ok()
}

async fn server_rows(w: &World, lt: &EventLogType) -> (Vec<Row>, Vec<[u8; 32]>) {
    let r = w.server.read().await;
    let s = r.as_ref().unwrap();
    let log = match lt { EventLogType::Folder(id) => s.folder_log(id).await.unwrap(), _ => unreachable!() };
    let log = log.read().await;
    let st = log.record_stream(false).await;
    futures::pin_mut!(st);
    let mut rows = vec![];
    while let Some(r) = st.next().await { if let Ok(r) = r { rows.push((crate::world::nanos(r.time()), r.event_bytes().to_vec())); } }
    (rows, log.tree().leaves().unwrap_or_default())
}

fn observe(out: &str, rows: &[Row], leaves: &[[u8; 32]]) -> String {
    let rs = if rows.is_empty() { "-".to_string() } else { rows.iter().map(|(t, b)| format!("{}:{}:{}", t, hex::encode(sha256(b)), hex::encode(b))).collect::<Vec<_>>().join(",") };
    let ls = if leaves.is_empty() { "-".to_string() } else { leaves.iter().map(hex::encode).collect::<Vec<_>>().join(",") };
    format!("out={} | T0 rows={} tree={} | ", out, rs, ls)
}

pub async fn run_case(backend: &str, seed: u64, rep: &mut Report, ops: &mut Vec<String>, imp: &mut Vec<String>) -> anyhow::Result<()> {
    let mut rng = Rng::new(seed ^ 0xE9A7);
    let w = World::new(1, backend).await?;
    let folder = { use sos_account::Account; let a = w.devices[0].lock().await; *a.default_folder().await.unwrap().id() };
    let lt = EventLogType::Folder(folder);
    let mut script = vec![format!("world backend={backend}")];
    let (rows0, _) = server_rows(&w, &lt).await;
    ops.push("log reset n=1".into()); imp.push("ok".into());
    ops.push(format!("log records o=0 rs={}", show_rows(&rows0)));
    { let (r, l) = server_rows(&w, &lt).await; imp.push(observe("ok", &r, &l)); }
    let mut clock: i128 = rows0.last().map(|r| r.0).unwrap_or(1_700_000_000_000_000_000) + 1_000_000;
    let ids: Vec<SecretId> = (0..3u128).map(|i| SecretId::from_u128(0x5000 + i)).collect();
    let n_req = rng.range(5, 12);
    for _ in 0..n_req {
        let (cur, leaves_before) = server_rows(&w, &lt).await;
        // patch records: valid small folder events
        let n = rng.range(0, 3);
        let mut recs: Vec<(Row, EventRecord)> = vec![];
        for _ in 0..n {
            clock += rng.range(1, 2_000_000_000) as i128;
            let ev = if rng.chance(1, 2) { WriteEvent::DeleteSecret(*rng.pick(&ids)) } else { WriteEvent::SetVaultName(format!("n{}", rng.below(3))) };
            let bytes = sos_core::encode(&ev).await?;
            let time: UtcDateTime = time::OffsetDateTime::from_unix_timestamp_nanos(clock).unwrap().into();
            recs.push(((clock, bytes.clone()), EventRecord::new(time, Default::default(), CommitHash(sha256(&bytes)), bytes)));
        }
        // rewind target
        let (c_desc, commit): (String, Option<CommitHash>) = match rng.below(6) {
            0 => ("-".into(), None),
            1 => { let b = vec![0xEE, rng.below(255) as u8]; (hex::encode(&b), Some(CommitHash(sha256(&b)))) }
            _ => { let i = rng.below(cur.len() as u64) as usize; (hex::encode(&cur[i].1), Some(CommitHash(sha256(&cur[i].1)))) }
        };
        let base_after: Vec<Vec<u8>> = match &commit {
            Some(c) => match cur.iter().rposition(|r| sha256(&r.1) == c.0) { Some(p) => cur[..=p].iter().map(|r| r.1.clone()).collect(), None => cur.iter().map(|r| r.1.clone()).collect() },
            None => cur.iter().map(|r| r.1.clone()).collect(),
        };
        // a third of the patches carry the records the rewind removes (what a client's merged patch does), a third only the oldest of them; the others
        // are refused by the stale-rewind guard unless the target is the newest record
        let carry = rng.below(3);   // 0: every removed record, 1: only the oldest of them, 2: none
        if carry < 2 {
            let mut carried: Vec<(Row, EventRecord)> = vec![];
            for r in cur[base_after.len()..].iter().take(if carry == 0 { usize::MAX } else { 1 }) {
                let time: UtcDateTime = time::OffsetDateTime::from_unix_timestamp_nanos(r.0).unwrap().into();
                carried.push(((r.0, r.1.clone()), EventRecord::new(time, Default::default(), CommitHash(sha256(&r.1)), r.1.clone())));
            }
            carried.extend(recs); recs = carried;
        }
        let stale = cur[base_after.len()..].iter().any(|r| !recs.iter().any(|x| x.0 .1 == r.1));
        // checkpoint
        let (cp_desc, proof, ck): (String, CommitProof, &str) = {
            let show_seq = |s: &Vec<Vec<u8>>| s.iter().map(hex::encode).collect::<Vec<_>>().join(",");
            match rng.below(8) {
                0..=2 => (format!("H:{}", show_seq(&base_after)), head_of(&base_after).unwrap(), "matching-rewound-base"),
                3 => { let all: Vec<Vec<u8>> = cur.iter().map(|r| r.1.clone()).collect(); (format!("H:{}", show_seq(&all)), head_of(&all).unwrap(), "head-before-rewind") }
                4 => { let k = rng.range(1, base_after.len() as u64) as usize; let s = base_after[..k].to_vec(); (format!("H:{}", show_seq(&s)), head_of(&s).unwrap(), "stale-prefix") }
                5 => { let mut s = base_after.clone(); let i = rng.below(s.len() as u64) as usize; s[i] = vec![0xDD, rng.below(200) as u8]; (format!("H:{}", show_seq(&s)), head_of(&s).unwrap(), "diverged") }
                6 => {
                    // right root, wrong position / length
                    let real = head_of(&base_after).unwrap();
                    let len = base_after.len() + rng.below(2) as usize; let idx = rng.below(len as u64 + 1) as usize;
                    let hashes: Vec<Vec<u8>> = (0..rng.below(3)).map(|_| vec![rng.range(1, 9) as u8]).collect();
                    let p = CommitProof { root: real.root, proof: MerkleProof::<Sha256>::new(hashes.iter().map(|b| sha256(b)).collect()), length: len, indices: vec![idx] };
                    (format!("F:R:{}|{}|{}|{}", show_seq(&base_after), if hashes.is_empty() { "-".into() } else { hashes.iter().map(hex::encode).collect::<Vec<_>>().join(",") }, len, idx), p, "right-root-wrong-shape")
                }
                _ => {
                    let root = vec![rng.below(255) as u8]; let len = rng.below(6) as usize; let idx = rng.below(6) as usize;
                    let p = CommitProof { root: CommitHash(sha256(&root)), proof: MerkleProof::<Sha256>::new(vec![]), length: len, indices: vec![idx] };
                    (format!("F:{}|-|{}|{}", hex::encode(&root), len, idx), p, "forged")
                }
            }
        };
        let op = format!("log epatch o=0 c={} cp={} rs={}", c_desc, cp_desc, show_rows(&recs.iter().map(|r| r.0.clone()).collect::<Vec<_>>()));
        script.push(format!("patch c={} cp-kind={} n={}", if c_desc.len() > 12 { &c_desc[..12] } else { &c_desc }, ck, recs.len()));
        let req = PatchRequest { log_type: lt, commit, proof, patch: recs.iter().map(|r| r.1.clone()).collect() };
        let res = w.bridges[0].client.patch(req).await;
        let (after, leaves_after) = server_rows(&w, &lt).await;
        let (out, accepted) = match &res {
            Ok(r) => match &r.checked_patch {
                CheckedPatch::Success(p) => (format!("patched:{}", show_proof(p)), true),
                CheckedPatch::Conflict { head, contains } => (format!("conflict:{}:{}", show_proof(head), contains.as_ref().map(show_proof).unwrap_or("-".into())), false),
            },
            Err(e) => { let e = e.to_string().to_lowercase(); (if e.contains("could not be found") { "err:commit-not-found".to_string() } else if e.contains("does not have a root") { "err:no-root-commit".into() } else { format!("err:other:{}", e.chars().take(50).collect::<String>().replace(' ', "_")) }, false) }
        };
        rep.count(&format!("epatch:{}:{}{}", ck, out.split(':').next().unwrap(), if stale { ":stale-rewind" } else { "" }));
        if stale && accepted {
            rep.spec_fail(&format!("{backend}-server-event-patch-dropped-records-it-did-not-carry"), json!({"case_seed": seed, "backend": backend, "script": script}), "an accepted rewind-and-patch request removed records that its patch does not carry");
        }
        if !accepted && (after != cur || leaves_after != leaves_before) {
            rep.spec_fail(&format!("{backend}-refused-server-event-patch-changed-log"), json!({"case_seed": seed, "backend": backend, "script": script, "before": cur.len(), "after": after.len()}),
                "a refused rewind-and-patch request changed the server's log");
        }
        if accepted {
            let want: Vec<Vec<u8>> = base_after.iter().cloned().chain(recs.iter().map(|r| r.0 .1.clone())).collect();
            let got: Vec<Vec<u8>> = after.iter().map(|r| r.1.clone()).collect();
            if want != got { rep.spec_fail(&format!("{backend}-server-event-patch-applied-on-wrong-base"), json!({"case_seed": seed, "backend": backend, "script": script}), "accepted rewind-and-patch result is not base ++ patch"); }
        }
        ops.push(op);
        imp.push(observe(&out, &after, &leaves_after));
    }
    rep.case(&script.join(";"), true);
    if seed % 25 == 0 { rep.sample(json!({"script": script})); }
    Ok(())
}

pub fn run(cli: &Cli) {
    let property = cli.extra.get("property").cloned().unwrap_or("C07".into());
    let mut rep = Report::new(&property, "epatch", cli.seed, &cli.tier);
    let rt = tokio::runtime::Builder::new_multi_thread().worker_threads(4).enable_all().build().unwrap();
    let n: u64 = cli.extra.get("cases").and_then(|s| s.parse().ok()).unwrap_or(if cli.tier == "thorough" { 300 } else { 25 });
    let mut ops = vec![]; let mut imp = vec![];
    if let Some(path) = &cli.replay {
        let v: serde_json::Value = serde_json::from_str(&std::fs::read_to_string(path).unwrap()).unwrap();
        let seed = v["case"]["case_seed"].as_u64().unwrap_or(cli.seed);
        let backend = v["case"]["backend"].as_str().unwrap_or("fs").to_string();
        let _ = rt.block_on(run_case(&backend, seed, &mut rep, &mut ops, &mut imp));
    } else {
        for backend in ["fs", "db"] {
            for k in 0..n {
                let case_seed = cli.seed.wrapping_mul(1_000_003).wrapping_add(k);
                if let Err(e) = rt.block_on(run_case(backend, case_seed, &mut rep, &mut ops, &mut imp)) {
                    rep.notes.push(format!("case {backend}/{case_seed} aborted: {e}"));
                }
            }
        }
    }
    rep.diff_streams("corr:server/event_patch", &ops, &imp);
    rep.rule = format!("{n} cases per backend: a real account's server storage receives 5-12 generated rewind-and-patch requests on its default folder log through server_helpers::event_patch: \\
        rewind target none / present at any depth / absent; checkpoint = head of the rewound base / head before the rewind / stale prefix / diverged / right root with wrong shape / forged; 0-3 valid folder events as patch; \\
        after every request the full record stream and tree leaves are compared with before (refused) or base ++ patch (accepted) and with the Lean eventPatch");
    rep.write(&cli.out);
}
