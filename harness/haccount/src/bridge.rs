//! In-process `SyncClient` over a real `ServerStorage` (the same calls the HTTP
//! handlers make: take the account lock, call `server_helpers`), a request gate so
//! that a schedule of requests from several devices can be executed exactly, and a
//! `RemoteSyncHandler`/`AutoMerge` implementation over a real `LocalAccount`.
use async_trait::async_trait;
use sos_account::LocalAccount;
use sos_core::{AccountId, Origin};
use sos_protocol::{
    AsConflict, ConflictError, DiffRequest, DiffResponse, PatchRequest, PatchResponse,
    ScanRequest, ScanResponse, SyncClient,
};
use sos_remote_sync::{AutoMerge, RemoteSyncHandler};
use sos_server_storage::{server_helpers, ServerStorage};
use sos_sync::{CreateSet, SyncDirection, SyncPacket, SyncStatus, SyncStorage, UpdateSet};
use std::sync::Arc;
use tokio::sync::{mpsc, oneshot, Mutex, RwLock};

#[derive(Debug, thiserror::Error)]
pub enum HErr {
    #[error(transparent)]
    Conflict(#[from] ConflictError),
    #[error(transparent)]
    RemoteSync(#[from] sos_remote_sync::Error),
    #[error(transparent)]
    Core(#[from] sos_core::Error),
    #[error(transparent)]
    Storage(#[from] sos_backend::StorageError),
    #[error(transparent)]
    Account(#[from] sos_account::Error),
    #[error(transparent)]
    Backend(#[from] sos_backend::Error),
    #[error(transparent)]
    Io(#[from] std::io::Error),
    #[error(transparent)]
    ServerStorage(#[from] sos_server_storage::Error),
    #[error(transparent)]
    Protocol(#[from] sos_protocol::Error),
    #[error("{0}")]
    Other(String),
}

impl AsConflict for HErr {
    fn is_conflict(&self) -> bool {
        matches!(self, HErr::Conflict(_))
    }
    fn is_hard_conflict(&self) -> bool {
        matches!(self, HErr::Conflict(ConflictError::Hard))
    }
    fn take_conflict(self) -> Option<ConflictError> {
        match self {
            HErr::Conflict(e) => Some(e),
            _ => None,
        }
    }
}

/// A request waiting at the gate: (device, request name) and the release channel.
pub struct Waiting {
    pub device: usize,
    pub request: &'static str,
    pub release: oneshot::Sender<()>,
}

#[derive(Clone)]
pub struct Gate {
    pub tx: Option<mpsc::UnboundedSender<Waiting>>,
}

#[derive(Clone)]
pub struct Client {
    pub origin: Origin,
    pub device: usize,
    pub server: Arc<RwLock<Option<ServerStorage>>>,
    pub server_target: sos_backend::BackendTarget,
    pub account_id: AccountId,
    pub gate: Gate,
    pub trace: Arc<std::sync::Mutex<Vec<String>>>,
    /// when set, every request and response is encoded as on the wire and kept for scanning
    pub wire: Option<Arc<std::sync::Mutex<Vec<Vec<u8>>>>>,
}

/// typed capture of every wire message (type name, protobuf bytes) for the `wire` domain (C14 / C15)
pub static WIRE_TYPED_ON: std::sync::atomic::AtomicBool = std::sync::atomic::AtomicBool::new(false);
pub static WIRE_TYPED: std::sync::Mutex<Vec<(String, Vec<u8>)>> = std::sync::Mutex::new(Vec::new());
/// value-level round trip done at capture time: (type, what differs) for every message with decode(encode(v)) != v
pub static WIRE_VALUE_DIFFERS: std::sync::Mutex<Vec<(String, String)>> = std::sync::Mutex::new(Vec::new());
pub static WIRE_VALUES_CHECKED: std::sync::atomic::AtomicU64 = std::sync::atomic::AtomicU64::new(0);

impl Client {
    async fn tap<T: sos_protocol::WireEncodeDecode + Clone + PartialEq + std::fmt::Debug + Send + 'static>(&self, v: &T) {
        let typed = WIRE_TYPED_ON.load(std::sync::atomic::Ordering::Relaxed);
        if self.wire.is_none() && !typed { return; }
        if let Ok(b) = v.clone().encode().await {
            if typed {
                // C14 at the value level: what the receiver decodes is what the sender held
                let n = std::any::type_name::<T>().rsplit("::").next().unwrap_or("?").to_string();
                WIRE_VALUES_CHECKED.fetch_add(1, std::sync::atomic::Ordering::Relaxed);
                match T::decode(bytes::Bytes::copy_from_slice(&b)).await {
                    Ok(back) => if &back != v {
                        let (x, y) = (format!("{:?}", v), format!("{:?}", back));
                        let at = x.bytes().zip(y.bytes()).position(|(p, q)| p != q).unwrap_or(x.len().min(y.len()));
                        let lo = at.saturating_sub(80);
                        let cut = |s: &str| s.chars().skip(lo).take(240).collect::<String>();
                        let mut d = WIRE_VALUE_DIFFERS.lock().unwrap(); if d.len() < 200 { d.push((n, format!("sent …{}… decoded …{}…", cut(&x), cut(&y)))); }
                    },
                    Err(e) => { let mut d = WIRE_VALUE_DIFFERS.lock().unwrap(); if d.len() < 200 { d.push((n, format!("decode error: {e}"))); } }
                }
            }
            if typed { let n = std::any::type_name::<T>().rsplit("::").next().unwrap_or("?").to_string(); let mut t = WIRE_TYPED.lock().unwrap(); if t.len() < 20_000 { t.push((n, b.to_vec())); } }
            if let Some(w) = &self.wire { w.lock().unwrap().push(b.to_vec()); }
        }
    }
    fn tap_create_set(&self, cs: &CreateSet) {
        if let Some(w) = &self.wire {
            let mut buf: Vec<u8> = vec![];
            for r in cs.identity.records() { buf.extend_from_slice(r.event_bytes()); }
            for r in cs.account.records() { buf.extend_from_slice(r.event_bytes()); }
            for r in cs.device.records() { buf.extend_from_slice(r.event_bytes()); }
            for r in cs.files.records() { buf.extend_from_slice(r.event_bytes()); }
            for (_, p) in cs.folders.iter() { for r in p.records() { buf.extend_from_slice(r.event_bytes()); } }
            w.lock().unwrap().push(buf);
        }
    }
    async fn pass(&self, request: &'static str) {
        self.trace.lock().unwrap().push(format!("d{}:{}", self.device, request));
        if let Some(tx) = &self.gate.tx {
            let (rtx, rrx) = oneshot::channel();
            let _ = tx.send(Waiting { device: self.device, request, release: rtx });
            let _ = rrx.await;
        }
    }
}

#[async_trait]
impl SyncClient for Client {
    type Error = HErr;

    fn origin(&self) -> &Origin {
        &self.origin
    }

    async fn account_exists(&self) -> Result<bool, HErr> {
        self.pass("exists").await;
        Ok(self.server.read().await.is_some())
    }

    async fn create_account(&self, account: CreateSet) -> Result<(), HErr> {
        self.pass("create").await;
        self.tap_create_set(&account);
        let mut w = self.server.write().await;
        if w.is_some() {
            return Err(HErr::Other("conflict: account exists".into()));
        }
        let storage = ServerStorage::create_account(
            self.server_target.clone().with_account_id(&self.account_id),
            &self.account_id,
            &account,
        )
        .await?;
        *w = Some(storage);
        Ok(())
    }

    async fn update_account(&self, account: UpdateSet) -> Result<(), HErr> {
        self.pass("update").await;
        let mut w = self.server.write().await;
        let s = w.as_mut().ok_or(HErr::Other("no account".into()))?;
        use sos_sync::ForceMerge;
        let mut outcome = sos_sync::MergeOutcome::default();
        s.force_merge_update(account, &mut outcome).await?;
        Ok(())
    }

    async fn fetch_account(&self) -> Result<CreateSet, HErr> {
        self.pass("fetch").await;
        let r = self.server.read().await;
        let s = r.as_ref().ok_or(HErr::Other("no account".into()))?;
        let cs = s.create_set().await?;
        self.tap_create_set(&cs);
        Ok(cs)
    }

    async fn delete_account(&self) -> Result<(), HErr> {
        self.pass("delete").await;
        let mut w = self.server.write().await;
        *w = None;
        Ok(())
    }

    async fn sync_status(&self) -> Result<SyncStatus, HErr> {
        self.pass("status").await;
        let r = self.server.read().await;
        let s = r.as_ref().ok_or(HErr::Other("no account".into()))?;
        let st = s.sync_status().await?;
        self.tap(&st).await;
        Ok(st)
    }

    async fn sync(&self, packet: SyncPacket) -> Result<SyncPacket, HErr> {
        self.pass("sync").await;
        self.tap(&packet).await;
        let mut w = self.server.write().await;
        let s = w.as_mut().ok_or(HErr::Other("no account".into()))?;
        let (packet, _outcome) =
            server_helpers::sync_account::<_, HErr>(packet, s).await.map_err(|e| { if std::env::var("SDEBUG").is_ok() { eprintln!("server sync_account error: {e:?}"); } e })?;
        self.tap(&packet).await;
        if std::env::var("SDEBUG").is_ok() { eprintln!("d{} sync reply: account={:?} folders={:?} compare={:?}", self.device, packet.diff.account.as_ref().map(|a| matches!(a, sos_sync::MaybeDiff::Diff(_))), packet.diff.folders.iter().map(|(k, v)| (k.to_string()[..6].to_string(), matches!(v, sos_sync::MaybeDiff::Diff(_)))).collect::<Vec<_>>(), packet.compare); }
        Ok(packet)
    }

    async fn scan(&self, request: ScanRequest) -> Result<ScanResponse, HErr> {
        self.pass("scan").await;
        self.tap(&request).await;
        let r = self.server.read().await;
        let s = r.as_ref().ok_or(HErr::Other("no account".into()))?;
        let res = server_helpers::event_scan::<_, HErr>(&request, s).await?;
        self.tap(&res).await;
        Ok(res)
    }

    async fn diff(&self, request: DiffRequest) -> Result<DiffResponse, HErr> {
        self.pass("diff").await;
        self.tap(&request).await;
        let r = self.server.read().await;
        let s = r.as_ref().ok_or(HErr::Other("no account".into()))?;
        let res = server_helpers::event_diff::<_, HErr>(&request, s).await?;
        self.tap(&res).await;
        Ok(res)
    }

    async fn patch(&self, request: PatchRequest) -> Result<PatchResponse, HErr> {
        self.pass("patch").await;
        self.tap(&request).await;
        let mut w = self.server.write().await;
        let s = w.as_mut().ok_or(HErr::Other("no account".into()))?;
        let (res, _outcome) = server_helpers::event_patch::<_, HErr>(request, s).await?;
        self.tap(&res).await;
        Ok(res)
    }
}

#[derive(Clone)]
pub struct BridgeG<C: SyncClient + Clone + Send + Sync + 'static> {
    pub account_id: AccountId,
    pub account: Arc<Mutex<LocalAccount>>,
    pub client: C,
    pub queue: sos_protocol::transfer::FileTransferQueueSender,
}

pub type Bridge = BridgeG<Client>;

#[async_trait]
impl<C> RemoteSyncHandler for BridgeG<C>
where
    C: SyncClient + Clone + Send + Sync + 'static,
    HErr: From<C::Error>,
{
    type Client = C;
    type Account = LocalAccount;
    type Error = HErr;

    fn direction(&self) -> SyncDirection {
        SyncDirection::Push
    }
    fn client(&self) -> &Self::Client {
        &self.client
    }
    fn origin(&self) -> &Origin {
        self.client.origin()
    }
    fn account_id(&self) -> &AccountId {
        &self.account_id
    }
    fn account(&self) -> Arc<Mutex<Self::Account>> {
        self.account.clone()
    }
    fn file_transfer_queue(&self) -> &sos_protocol::transfer::FileTransferQueueSender {
        &self.queue
    }
    async fn execute_sync_file_transfers(&self) -> Result<(), HErr> {
        Ok(())
    }
}

#[async_trait]
impl<C> AutoMerge for BridgeG<C>
where
    C: SyncClient + Clone + Send + Sync + 'static,
    HErr: From<C::Error>,
{
}
