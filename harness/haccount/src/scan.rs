//! The server's paged `scan_log` (through `server_helpers::event_scan`, the handler of
//! GET /sync/account/events) against the model's `scanPage`, on logs longer than a page, and the
//! whole client flow (`execute_sync` -> `scan_proofs` -> `iterate_scan_proofs`) on a divergence
//! that lies more than one page back.
use crate::world::World;
use hcommon::{Cli, Report, Rng};
use serde_json::json;
use sos_account::Account;
use sos_core::events::EventLogType;
use sos_protocol::{ScanRequest, SyncClient};
use sos_vault::secret::{Secret, SecretMeta};

fn note(label: &str, text: &str) -> (SecretMeta, Secret) {
    let secret = Secret::Note { text: text.to_string().into(), user_data: Default::default() };
    (SecretMeta::new(label.to_string(), secret.kind()), secret)
}

fn hex32(s: &str) -> [u8; 32] {
    let mut out = [0u8; 32];
    for i in 0..32 { out[i] = u8::from_str_radix(&s[2 * i..2 * i + 2], 16).unwrap_or(0); }
    out
}

async fn pages_case(backend: &str, seed: u64, rep: &mut Report, ops: &mut Vec<String>, imp: &mut Vec<String>) -> anyhow::Result<()> {
    let mut rng = Rng::new(seed ^ 0x5CA9);
    let w = World::new(1, backend).await?;
    let extra = *rng.pick(&[0u64, 1, 2, 5, 9, 31, 32, 33, 40, 66, 70]);
    let folder = { let mut a = w.devices[0].lock().await; let f = *a.default_folder().await.unwrap().id();
        for i in 0..extra { let (m, s) = note(&format!("n{i}"), "x"); a.create_secret(m, s, Default::default()).await?; } f };
    w.sync(0).await.map_err(|e| anyhow::anyhow!("sync: {e}"))?;
    let logs = w.server_logs().await;
    for (lt, name) in [(EventLogType::Folder(folder), format!("folder:{folder}")), (EventLogType::Identity, "identity".to_string()), (EventLogType::Account, "account".to_string())] {
        let recs = logs.get(&name).cloned().unwrap_or_default();
        let n = recs.len();
        let leaves: Vec<[u8; 32]> = recs.iter().map(|r| hex32(&r.0)).collect();
        let mut requests: Vec<(u16, u64)> = vec![(32, 0), (32, 32), (32, 64), (1, 0), (1, 1), (2, 1), (n as u16, 0), (n as u16 + 3, 0), (3, n as u64), (3, n as u64 + 2), (3, n.saturating_sub(1) as u64)];
        for _ in 0..12 { requests.push((1 + rng.below(40) as u16, rng.below(n as u64 + 2))); }
        // a whole walk with one page size, as the client does it
        let lim = 1 + rng.below(7) as u16;
        let mut off = 0u64;
        let mut walk: Vec<usize> = vec![];
        for k in 0..(requests.len() + n + 2) {
            let (limit, offset, walking) = match requests.get(k) { Some(&(l, o)) => (l, o, false), None => (lim, off, true) };
            if walking && off as usize >= n { break; }
            let op = format!("merkle page n={n} offset={offset} limit={limit}");
            let res = match w.bridges[0].client.scan(ScanRequest { log_type: lt, limit, offset }).await {
                Ok(r) => r,
                Err(e) => { rep.spec_fail("scan-request-failed", json!({"case_seed": seed, "backend": backend, "log": name, "op": op}), &format!("{e}")); break; }
            };
            let ix: Vec<usize> = res.proofs.iter().map(|p| p.indices.first().copied().unwrap_or(usize::MAX)).collect();
            let line = format!("page={} offset={}", ix.iter().map(|i| i.to_string()).collect::<Vec<_>>().join(","), res.offset);
            // oracle: the page holds the positions [n - offset - cnt, n - offset), each proof proves that position of this log
            let cnt = if offset as usize >= n { 0 } else { (limit as usize).min(n - offset as usize) };
            let expect: Vec<usize> = (0..cnt).map(|j| n - offset as usize - cnt + j).collect();
            let expect_off = if offset as usize >= n { n as u64 } else { offset + cnt as u64 };
            let mut bad = None;
            if limit > 0 && (ix != expect || res.offset != expect_off) { bad = Some(format!("positions {:?} offset {} instead of {:?} offset {}", ix, res.offset, expect, expect_off)); }
            for p in &res.proofs {
                let (ok, proved) = p.verify_leaves(&leaves);
                let i = p.indices.first().copied().unwrap_or(usize::MAX);
                if p.length != n || !ok || proved.last() != leaves.get(i) { bad = Some(format!("proof for position {i} does not verify against the log it was made from (length {} of {n})", p.length)); }
            }
            if n > 0 && res.first_proof.as_ref().map(|p| p.indices.clone()) != Some(vec![0]) { bad = Some("first_proof is not the proof of position 0".into()); }
            if let Some(d) = bad {
                rep.spec_fail("scan-page-wrong-positions", json!({"case_seed": seed, "backend": backend, "log": name, "op": op, "got": line}), &d);
            }
            if walking { off = res.offset; walk.extend(ix.iter().rev()); }
            rep.count(&format!("page:{}:{}", if offset == 0 { "first" } else if offset as usize >= n { "past-end" } else { "later" }, if cnt == limit as usize { "full" } else { "short" }));
            rep.case(&format!("{name}:{op}"), offset > 0 && (offset as usize) < n);
            if limit > 0 { ops.push(op); imp.push(line); }
        }
        let all: Vec<usize> = (0..n).rev().collect();
        if walk != all {
            rep.spec_fail("scan-walk-misses-positions", json!({"case_seed": seed, "backend": backend, "log": name, "n": n, "limit": lim, "walk": walk}), "following the returned offsets does not visit every position once from the newest down");
        }
        rep.count(&format!("log-length:{}", if n > 64 { ">64" } else if n > 32 { "33-64" } else { "<=32" }));
    }
    Ok(())
}

/// Deep divergence: the server gains `deep` events after the common prefix, the other device one offline event.
async fn deep_case(backend: &str, seed: u64, rep: &mut Report) -> anyhow::Result<()> {
    let mut rng = Rng::new(seed ^ 0xDEE9);
    let w = World::new(2, backend).await?;
    let deep = *rng.pick(&[3u64, 31, 33, 40, 70]);
    { let mut a = w.devices[0].lock().await; for i in 0..deep { let (m, s) = note(&format!("srv{i}"), "x"); a.create_secret(m, s, Default::default()).await?; } }
    let r0 = w.sync(0).await;
    { let mut a = w.devices[1].lock().await; let (m, s) = note("offline", "y"); a.create_secret(m, s, Default::default()).await?; }
    let mut results = vec![format!("d0 -> {r0:?}")];
    for _ in 0..2 { for k in [1usize, 0] { results.push(format!("d{k} -> {:?}", w.sync(k).await)); } }
    let ss = w.server_status().await;
    let ok = w.device_status(0).await == ss && w.device_status(1).await == ss;
    let n1 = w.device_logs(1).await.iter().filter(|(k, _)| k.starts_with("folder:")).map(|(_, v)| v.len()).max().unwrap_or(0);
    if !ok || (n1 as u64) < deep + 2 {
        rep.spec_fail("scan-deep-divergence-not-merged", json!({"case_seed": seed, "backend": backend, "deep": deep, "results": results}), "a device whose log diverged more than a page of proofs back did not merge with the server (the logs share a prefix)");
    }
    rep.count(&format!("deep-divergence:{}:{}", if deep >= 32 { "beyond-first-page" } else { "first-page" }, if ok { "merged" } else { "not-merged" }));
    rep.case(&format!("deep:{backend}:{seed}:{deep}"), deep >= 32);
    Ok(())
}

pub fn run(cli: &Cli) {
    let property = cli.extra.get("property").cloned().unwrap_or("C08".into());
    let mut rep = Report::new(&property, "scan", cli.seed, &cli.tier);
    let rt = tokio::runtime::Builder::new_multi_thread().worker_threads(4).enable_all().build().unwrap();
    let n: u64 = cli.extra.get("cases").and_then(|s| s.parse().ok()).unwrap_or(if cli.tier == "thorough" { 20 } else { 6 });
    let (mut ops, mut imp) = (vec![], vec![]);
    let replay_seed = cli.replay.as_ref().and_then(|p| std::fs::read_to_string(p).ok()).and_then(|s| serde_json::from_str::<serde_json::Value>(&s).ok()).and_then(|v| v["case"]["case_seed"].as_u64());
    for backend in ["fs", "db"] {
        for k in 0..n {
            let case_seed = replay_seed.unwrap_or(cli.seed.wrapping_mul(1_000_003).wrapping_add(k));
            if let Err(e) = rt.block_on(pages_case(backend, case_seed, &mut rep, &mut ops, &mut imp)) { rep.notes.push(format!("pages case {backend}/{case_seed} aborted: {e}")); }
            if let Err(e) = rt.block_on(deep_case(backend, case_seed, &mut rep)) { rep.notes.push(format!("deep case {backend}/{case_seed} aborted: {e}")); }
            if replay_seed.is_some() { break; }
        }
    }
    rep.diff_streams("corr:merkle/scan_page", &ops, &imp);
    rep.rule = format!("{n} accounts per backend on a real server storage: folder / identity / account logs of 1..72 events; event_scan with fixed and generated (limit, offset) pairs \
        (first page, later pages, past the end, page sizes 1..40 and the production 32) and a whole walk following the returned offsets; each response compared with the model's scanPage and with \
        the oracle (positions, offset, every proof verifies the position it names); plus a device that diverged 3..70 events back syncing through the real client flow; non-trivial = offset inside the log / divergence beyond the first page");
    rep.write(&cli.out);
}
