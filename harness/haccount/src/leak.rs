//! C03: generated histories whose every secret field carries a high-entropy marker; every
//! file under the client and server data directories and every wire buffer is scanned for
//! each marker in raw, hex, base64 and UTF-16 forms.
use crate::world::World;
use hcommon::{Cli, Report, Rng};
use secrecy::SecretString;
use serde_json::json;
use sos_account::Account;
use sos_client_storage::{AccessOptions, NewFolderOptions};
use sos_vault::secret::{Secret, SecretMeta, SecretRow, UserData};
use std::collections::BTreeMap;

fn b64_std(b: &[u8]) -> String {
    const T: &[u8; 64] = b"ABCDEFGHIJKLMNOPQRSTUVWXYZabcdefghijklmnopqrstuvwxyz0123456789+/";
    let mut out = String::new();
    for c in b.chunks(3) {
        let n = (c[0] as u32) << 16 | (*c.get(1).unwrap_or(&0) as u32) << 8 | *c.get(2).unwrap_or(&0) as u32;
        out.push(T[(n >> 18) as usize & 63] as char); out.push(T[(n >> 12) as usize & 63] as char);
        out.push(if c.len() > 1 { T[(n >> 6) as usize & 63] as char } else { '=' });
        out.push(if c.len() > 2 { T[n as usize & 63] as char } else { '=' });
    }
    out
}

/// byte patterns under which a marker would be recognisable
fn forms(marker: &str) -> Vec<(String, Vec<u8>)> {
    let m = marker.as_bytes();
    let mut v: Vec<(String, Vec<u8>)> = vec![("raw".into(), m.to_vec()), ("hex".into(), hex::encode(m).into_bytes()), ("HEX".into(), hex::encode_upper(m).into_bytes())];
    v.push(("utf16le".into(), marker.encode_utf16().flat_map(|c| c.to_le_bytes()).collect()));
    v.push(("utf16be".into(), marker.encode_utf16().flat_map(|c| c.to_be_bytes()).collect()));
    for k in 0..3usize {
        let mut padded = vec![0u8; k]; padded.extend_from_slice(m);
        let s = b64_std(&padded);
        let s = s.trim_end_matches('=');
        let start = [0usize, 2, 3][k];
        if s.len() > start + 4 {
            let core = &s[start..s.len() - 2];
            v.push((format!("base64@{k}"), core.as_bytes().to_vec()));
            v.push((format!("base64url@{k}"), core.replace('+', "-").replace('/', "_").into_bytes()));
        }
    }
    v
}

fn find(hay: &[u8], needle: &[u8]) -> bool {
    !needle.is_empty() && hay.len() >= needle.len() && hay.windows(needle.len()).any(|w| w == needle)
}

fn walk(dir: &std::path::Path, out: &mut Vec<std::path::PathBuf>) {
    if let Ok(rd) = std::fs::read_dir(dir) {
        for e in rd.flatten() {
            let p = e.path();
            if p.is_dir() { walk(&p, out); } else { out.push(p); }
        }
    }
}

/// everything the SDK emits through `tracing` (all levels) while the cases run
static TRACE: std::sync::Mutex<Vec<u8>> = std::sync::Mutex::new(Vec::new());
struct TraceSink;
impl std::io::Write for TraceSink {
    fn write(&mut self, buf: &[u8]) -> std::io::Result<usize> { let mut t = TRACE.lock().unwrap(); if t.len() < 512 << 20 { t.extend_from_slice(buf); } Ok(buf.len()) }
    fn flush(&mut self) -> std::io::Result<()> { Ok(()) }
}

pub async fn run_case(backend: &str, seed: u64, rep: &mut Report) -> anyhow::Result<()> {
    let mut rng = Rng::new(seed ^ 0x1EA4);
    let w = World::new(2, backend).await?;
    let mut markers: BTreeMap<String, String> = BTreeMap::new(); // marker -> where it was put
    markers.insert("correct horse battery staple verif".into(), "account password".into());
    let mut mk = |rng: &mut Rng, place: &str| -> String {
        let s: String = (0..20).map(|_| { let c = rng.below(62) as u8; (if c < 10 { b'0' + c } else if c < 36 { b'a' + c - 10 } else { b'A' + c - 36 }) as char }).collect();
        let m = format!("MK{s}");
        markers.insert(m.clone(), place.to_string());
        m
    };
    let mut script = vec![format!("world backend={backend}")];
    {
        let mut a = w.devices[0].lock().await;
        let default = *a.default_folder().await.unwrap().id();
        let extra = *a.create_folder(NewFolderOptions::new("plain folder name".into())).await?.folder.id();
        a.set_folder_description(&default, mk(&mut rng, "folder description")).await?;
        // every secret kind used here carries markers in every text position
        let mut ud = UserData::default();
        ud.set_comment(Some(mk(&mut rng, "user data comment")));
        ud.set_recovery_note(Some(mk(&mut rng, "recovery note")));
        let field_secret = Secret::Note { text: mk(&mut rng, "custom field value").into(), user_data: Default::default() };
        ud.push(SecretRow::new(sos_core::SecretId::new_v4(), SecretMeta::new(mk(&mut rng, "custom field label"), field_secret.kind()), field_secret));
        let secrets: Vec<(String, Secret)> = vec![
            (mk(&mut rng, "note label"), Secret::Note { text: mk(&mut rng, "note text").into(), user_data: ud }),
            (mk(&mut rng, "login label"), Secret::Account { account: mk(&mut rng, "login account name"), password: SecretString::from(mk(&mut rng, "login password")), url: vec![format!("https://example.com/{}", mk(&mut rng, "login url path")).parse().unwrap()], user_data: Default::default() }),
            (mk(&mut rng, "password label"), Secret::Password { password: SecretString::from(mk(&mut rng, "password value")), name: Some(SecretString::from(mk(&mut rng, "password name"))), user_data: Default::default() }),
            (mk(&mut rng, "list label"), Secret::List { items: { let mut m = std::collections::HashMap::new(); m.insert(mk(&mut rng, "list key"), SecretString::from(mk(&mut rng, "list value"))); m }, user_data: Default::default() }),
            (mk(&mut rng, "link label"), Secret::Link { url: SecretString::from(format!("https://example.org/{}", mk(&mut rng, "link url"))), label: Some(SecretString::from(mk(&mut rng, "link text"))), title: Some(SecretString::from(mk(&mut rng, "link title"))), user_data: Default::default() }),
        ];
        let mut ids = vec![];
        for (label, s) in secrets {
            let mut meta = SecretMeta::new(label, s.kind());
            let mut tags = std::collections::HashSet::new(); tags.insert(mk(&mut rng, "tag")); meta.set_tags(tags);
            let target = if rng.chance(1, 3) { extra } else { default };
            ids.push((a.create_secret(meta, s, AccessOptions { folder: Some(target), ..Default::default() }).await?.id, target));
        }
        // an attachment (external, age-encrypted file)
        let fpath = w.tmp.path().join("attachment-src.txt");
        // the source file itself is the user's own plaintext: keep it outside the scanned directories
        let outside = std::path::Path::new("/verif/run/tmp").join(format!("attach-{}.txt", seed));
        let body = format!("attachment body {}", mk(&mut rng, "attachment contents"));
        std::fs::write(&outside, &body)?;
        let _ = fpath;
        let fs: Result<Secret, _> = outside.clone().try_into();
        if let Ok(fsecret) = fs {
            let meta = SecretMeta::new(mk(&mut rng, "file secret label"), fsecret.kind());
            match a.create_secret(meta, fsecret, AccessOptions { folder: Some(default), ..Default::default() }).await { Ok(_) => script.push("file secret created".into()), Err(e) => script.push(format!("file secret failed: {e}")) }
        }
        let _ = std::fs::remove_file(&outside);
        // an update and a move, so that old versions and moved rows are on disk too
        let (id0, f0) = ids[0];
        let s = Secret::Note { text: mk(&mut rng, "updated note text").into(), user_data: Default::default() };
        a.update_secret(&id0, SecretMeta::new(mk(&mut rng, "updated label"), s.kind()), Some(s), AccessOptions { folder: Some(f0), ..Default::default() }).await?;
        let (id1, f1) = ids[1];
        let dest = if f1 == default { extra } else { default };
        let _ = a.move_secret(&id1, &f1, &dest, Default::default()).await;
        // rewriting operations: every folder is decrypted and sealed again (cipher change), a log is rebuilt (compaction),
        // a folder key is replaced; what they write is scanned like everything else
        if seed % 2 == 0 {
            let key: sos_core::crypto::AccessKey = w.password.clone().into();
            let r = a.change_cipher(&key, &sos_core::crypto::Cipher::XChaCha20Poly1305, None).await;
            script.push(format!("change cipher -> {}", r.is_ok()));
            rep.count(if r.is_ok() { "rewrite:change-cipher" } else { "rewrite:change-cipher-failed" });
        }
        if seed % 3 == 0 { let r = a.compact_folder(&default).await; script.push(format!("compact default folder -> {}", r.is_ok())); rep.count("rewrite:compact-folder"); }
        if seed % 3 == 1 {
            let nk: sos_core::crypto::AccessKey = SecretString::from(mk(&mut rng, "new folder password")).into();
            let r = a.change_folder_password(&extra, nk).await; script.push(format!("change folder password -> {}", r.is_ok())); rep.count("rewrite:change-folder-password");
        }
    }
    for _ in 0..2 { for k in 0..2 { let r = w.sync(k).await; script.push(format!("sync d{k} {:?}", r)); } }
    // second device reads everything (it has to decrypt, and may cache)
    {
        let b = w.devices[1].lock().await;
        for f in b.list_folders().await? { for id in b.list_secret_ids(f.id()).await? { let _ = b.read_secret(&id, Some(f.id())).await; } }
    }
    // scan every file under the world's directories (clients, server, sqlite pages / WAL, snapshots, blobs)
    let mut files = vec![]; walk(w.tmp.path(), &mut files);
    let mut bytes_scanned = 0u64;
    let patterns: Vec<(String, String, String, Vec<u8>)> = markers.iter().flat_map(|(m, place)| forms(m).into_iter().map(move |(f, p)| (m.clone(), place.clone(), f, p))).collect();
    for f in &files {
        let Ok(data) = std::fs::read(f) else { continue };
        bytes_scanned += data.len() as u64;
        for (m, place, form, pat) in &patterns {
            if find(&data, pat) {
                let where_ = if f.starts_with(w.tmp.path().join("server")) { "server-storage" } else { "client-storage" };
                let rel = f.strip_prefix(w.tmp.path()).unwrap_or(f).display().to_string();
                let kind = if rel.contains(".db") { "sqlite" } else if rel.ends_with(".events") { "event-log" } else if rel.ends_with(".vault") { "vault" } else { "other-file" };
                rep.spec_fail(&format!("c03-plaintext-in-{where_}:{}:{kind}", place.replace(' ', "-")), json!({"case_seed": seed, "backend": backend, "file": rel, "form": form, "marker": m, "script": script}), &format!("the plaintext of '{place}' appears ({form}) in a stored file"));
            }
        }
    }
    // a backup archive of device 0: the raw zip bytes and every (decompressed) entry
    {
        let (target, account_id) = { let mut a = w.devices[0].lock().await; let t = a.backend_target().await; let id = *a.account_id(); let _ = a.sign_out().await; (t, id) };
        let zip = std::path::Path::new("/verif/run/tmp").join(format!("leak-archive-{seed}-{backend}-{}.zip", std::process::id()));
        match sos_backend::archive::export_backup_archive(&zip, &target, &account_id).await {
            Ok(_) => {
                let mut bufs: Vec<(String, Vec<u8>)> = vec![("<zip bytes>".into(), std::fs::read(&zip).unwrap_or_default())];
                match crate::archive::read_entries(&zip).await { Ok(es) => bufs.extend(es), Err(e) => rep.notes.push(format!("archive entries unreadable: {e}")) }
                rep.count_n(&format!("{backend}:archive-entries-scanned"), bufs.len() as u64 - 1);
                for (name, data) in &bufs {
                    bytes_scanned += data.len() as u64;
                    for (m, place, form, pat) in &patterns {
                        if find(data, pat) {
                            let kind = if name.ends_with(".vault") { "vault" } else if name.ends_with(".events") { "event-log" } else if name.ends_with(".json") { "json" } else if name.contains(".db") { "sqlite" } else { "other-entry" };
                            rep.spec_fail(&format!("c03-plaintext-in-backup-archive:{}:{kind}", place.replace(' ', "-")), json!({"case_seed": seed, "backend": backend, "entry": name, "form": form, "marker": m}), &format!("the plaintext of '{place}' appears ({form}) in a backup archive"));
                        }
                    }
                }
                // scanner self-check on the archive as well
                if !bufs.iter().any(|(_, d)| find(d, b"plain folder name")) { rep.spec_fail("c03-harness-scanner-self-check", json!({"case_seed": seed, "part": "archive"}), "the scanner did not find the clear folder name in the backup archive"); }
            }
            Err(e) => { rep.notes.push(format!("archive export failed ({backend}/{seed}): {e}")); rep.spec_fail("c03-harness-archive-export-failed", json!({"case_seed": seed, "backend": backend}), &e.to_string()); }
        }
        let _ = std::fs::remove_file(&zip);
    }
    // log output (tracing, every level) produced so far in this case
    {
        let trace = std::mem::take(&mut *TRACE.lock().unwrap());
        bytes_scanned += trace.len() as u64;
        rep.count_n(&format!("{backend}:trace-bytes-scanned"), trace.len() as u64);
        for (m, place, form, pat) in &patterns {
            if find(&trace, pat) {
                rep.spec_fail(&format!("c03-plaintext-in-log-output:{}", place.replace(' ', "-")), json!({"case_seed": seed, "backend": backend, "form": form, "marker": m}), &format!("the plaintext of '{place}' appears ({form}) in the log output (tracing)"));
            }
        }
    }
    let wire = w.wire.lock().unwrap().clone();
    for buf in &wire {
        bytes_scanned += buf.len() as u64;
        for (m, place, form, pat) in &patterns {
            if find(buf, pat) {
                rep.spec_fail(&format!("c03-plaintext-on-the-wire:{}", place.replace(' ', "-")), json!({"case_seed": seed, "backend": backend, "form": form, "marker": m}), &format!("the plaintext of '{place}' appears ({form}) in a sync message"));
            }
        }
    }
    // sanity of the scanner itself: the folder name (allowed in the clear) must be found
    let mut found_name = false;
    for f in &files { if let Ok(d) = std::fs::read(f) { if find(&d, b"plain folder name") { found_name = true; break; } } }
    if !found_name { rep.notes.push(format!("scanner self-check: clear folder name not found in any file ({backend}/{seed})")); rep.spec_fail("c03-harness-scanner-self-check", json!({"case_seed": seed}), "the scanner did not find the folder name that is stored in the clear"); }
    rep.count_n(&format!("{backend}:files-scanned"), files.len() as u64);
    rep.count_n(&format!("{backend}:wire-buffers-scanned"), wire.len() as u64);
    rep.count_n(&format!("{backend}:bytes-scanned"), bytes_scanned);
    rep.count_n(&format!("{backend}:markers"), markers.len() as u64);
    rep.case(&format!("{backend}:{seed}"), true);
    if seed % 4 == 0 { rep.sample(json!({"backend": backend, "markers": markers.values().collect::<Vec<_>>(), "files": files.len(), "wire_buffers": wire.len()})); }
    Ok(())
}

pub fn run(cli: &Cli) {
    let property = cli.extra.get("property").cloned().unwrap_or("C03".into());
    let mut rep = Report::new(&property, "leak", cli.seed, &cli.tier);
    let rt = tokio::runtime::Builder::new_multi_thread().worker_threads(4).enable_all().build().unwrap();
    let n: u64 = cli.extra.get("cases").and_then(|s| s.parse().ok()).unwrap_or(if cli.tier == "thorough" { 40 } else { 4 });
    // capture the SDK's log output at every level
    {
        use tracing_subscriber::{fmt, EnvFilter};
        let _ = fmt().with_env_filter(EnvFilter::new("trace")).with_ansi(false).with_writer(|| TraceSink).try_init();
    }
    for backend in ["fs", "db"] {
        for k in 0..n {
            let case_seed = cli.seed.wrapping_mul(1_000_003).wrapping_add(k);
            if let Err(e) = rt.block_on(run_case(backend, case_seed, &mut rep)) {
                rep.notes.push(format!("case {backend}/{case_seed} aborted: {e}"));
                rep.spec_fail("c03-harness-aborted", json!({"case_seed": case_seed, "backend": backend}), &e.to_string());
            }
        }
    }
    // device pairing through the relay of a live server, both ways of sharing the URL
    for (k, inverted) in [false, true].into_iter().enumerate() {
        if let Err(e) = rt.block_on(crate::pairing::run_case(inverted, cli.seed.wrapping_mul(1_000_003).wrapping_add(900 + k as u64), &mut rep)) {
            rep.notes.push(format!("pairing case inverted={inverted} aborted: {e}"));
            rep.spec_fail("c03-harness-aborted", json!({"pairing": true, "inverted": inverted}), &e.to_string());
        }
    }
    rep.rule = format!("{n} accounts per backend: five secret kinds with a distinct 22-character marker in every text position (labels, tags, values, urls, list keys/values, custom fields, comment, recovery note), folder description, an attachment, an update and a move, then a cipher change of the whole account (every second account), a compaction or a folder password change; two devices synced through real server storage; \\
        every file under both client directories and the server directory (sqlite pages and WAL, vaults, event logs, blobs, snapshots) and every encoded sync request/response is searched for every marker as raw UTF-8, hex, HEX, base64 / base64url at the 3 alignments, UTF-16 LE/BE; the account password is searched too; a backup archive (raw and per entry) and the SDK's complete log output (tracing at TRACE level) are searched as well; \
        two device pairing sessions (URL shared by the offering / by the accepting device) run through the relay of a live server behind a recording TCP proxy: the TCP streams and the unmasked websocket payloads are searched for both device signing keys, the account password and a secret's text");
    rep.write(&cli.out);
}
