mod bridge;
mod world;
mod sync;
mod folder;
mod epatch;
mod auth;
mod integrity;
mod leak;
mod upgrade;
mod archive;
mod files;
mod crash;
mod wire;
mod netfuzz;
mod pairing;
mod scan;
use hcommon::parse_cli;

fn main() {
    let cli = parse_cli();
    match cli.domain.as_str() {
        "sync" => sync::run(&cli),
        "folder" => folder::run(&cli),
        "epatch" => epatch::run(&cli),
        "auth" => auth::run(&cli),
        "integrity" => integrity::run(&cli),
        "leak" => leak::run(&cli),
        "upgrade" => upgrade::run(&cli),
        "archive" => archive::run(&cli),
        "files" => files::run(&cli),
        "crash" => crash::run(&cli),
        "wire" => wire::run(&cli),
        "net" => netfuzz::run(&cli),
        "fprobe" => folder::probe(&cli),
        "fprobe2" => folder::probe2(&cli),
        "amerge" => folder::run_account_merge(&cli),
        "sched" => sync::run_sched(&cli),
        "scan" => scan::run(&cli),
        d => {
            eprintln!("unknown domain {d}");
            std::process::exit(2);
        }
    }
}
