//! C15 for the inputs that arrive over the network as text or HTTP: device pairing URLs
//! (`ServerPairUrl::from_str`), bearer tokens, account-id headers, route parameters and request
//! bodies of every authenticated route of a live in-process server.  Each request must get an HTTP
//! response in time, no panic may happen anywhere in the process (panic hook), and after every batch
//! an untouched second account is still served.
use crate::auth::{new_account, start_server, sync_http, token};
use hcommon::{sha256, Cli, Report, Rng};
use serde_json::json;
use sos_core::events::EventLogType;
use sos_net::pairing::ServerPairUrl;
use sos_protocol::{DiffRequest, PatchRequest, ScanRequest, WireEncodeDecode};
use sos_sync::{SyncPacket, SyncStorage};
use std::str::FromStr;
use std::sync::atomic::{AtomicU64, Ordering};

static PANICS: AtomicU64 = AtomicU64::new(0);
static LAST_PANIC: std::sync::Mutex<String> = std::sync::Mutex::new(String::new());

fn byte_muts(bytes: &[u8], rng: &mut Rng, thorough: bool) -> Vec<(&'static str, Vec<u8>)> {
    let mut muts: Vec<(&'static str, Vec<u8>)> = vec![("empty", vec![]), ("valid", bytes.to_vec())];
    let n = bytes.len();
    if n == 0 { return muts; }
    let step = if thorough { (n / 200).max(1) } else { (n / 24).max(1) };
    let mut i = 1; while i < n { muts.push(("truncated", bytes[..i].to_vec())); i += step; }
    for _ in 0..(if thorough { 48 } else { 10 }) { let mut m = bytes.to_vec(); let p = rng.below(n as u64) as usize; m[p] ^= 1 << rng.below(8); muts.push(("bitflip", m)); }
    for _ in 0..(if thorough { 24 } else { 6 }) { let mut m = bytes.to_vec(); let p = rng.below(n as u64) as usize; m[p] = *rng.pick(&[0u8, 0xff, 0x7f, 0x80, 0x0a, 0x12, 0x1a, 0x08]); muts.push(("byte-set", m)); }
    if n > 8 { for _ in 0..(if thorough { 12 } else { 3 }) { let a = rng.below(n as u64) as usize; let b = rng.below(n as u64) as usize; let mut m = bytes[..a].to_vec(); m.extend_from_slice(&bytes[b..]); muts.push(("splice", m)); } }
    for len in [1usize, 3, 17, 64] { muts.push(("random", (0..len).map(|_| rng.below(256) as u8).collect())); }
    muts
}

fn pairing(rep: &mut Report, rng: &mut Rng, thorough: bool) {
    let id = sos_core::AccountId::random();
    let url = ServerPairUrl::new(id, "https://relay.example.com:5053/path?x=1".parse().unwrap(), (0..32).map(|_| rng.below(256) as u8).collect());
    let s: String = url::Url::from(url).to_string();
    // the valid URL parses back
    match ServerPairUrl::from_str(&s) {
        Ok(u) => { if u.account_id() != &id { rep.spec_fail("pairing-url-roundtrip-differs", json!({"url": s}), "account id differs after parsing the generated URL"); } }
        Err(e) => rep.spec_fail("pairing-url-roundtrip-error", json!({"url": s}), &e.to_string()),
    }
    let mut inputs: Vec<(String, String)> = vec![];
    for (kind, m) in byte_muts(s.as_bytes(), rng, true) { inputs.push((kind.to_string(), String::from_utf8_lossy(&m).to_string())); }
    // every truncation
    for i in 0..s.len() { if s.is_char_boundary(i) { inputs.push(("truncated".into(), s[..i].to_string())); } }
    // parameter edits
    let q = s.find('?').unwrap_or(0);
    let (head, query) = s.split_at(q + 1);
    let pairs: Vec<&str> = query.split('&').collect();
    for i in 0..pairs.len() {
        let mut p = pairs.clone(); p.remove(i); inputs.push(("param-removed".into(), format!("{head}{}", p.join("&"))));
        let mut p = pairs.clone(); p.push(pairs[i]); inputs.push(("param-twice".into(), format!("{head}{}", p.join("&"))));
        let (k, v) = pairs[i].split_once('=').unwrap_or((pairs[i], ""));
        for nv in ["", "0", "zz", "%00", "%ff%fe", &v[..v.len() / 2], &format!("{v}{v}"), &format!("{v}0"), &"f".repeat(if thorough { 1 << 20 } else { 1 << 14 }), "0x", "../../etc"] {
            let mut p: Vec<String> = pairs.iter().map(|x| x.to_string()).collect(); p[i] = format!("{k}={nv}");
            inputs.push((format!("param-value:{k}"), format!("{head}{}", p.join("&"))));
        }
    }
    for other in ["data:text/plain,sos-pair", "data:text/plain,sos-pair?", "data:,", "http://x/?aid=1", "data:text/plain,sos-pair?aid=&url=&key=&psk=", "", " ", "\u{0}", "data:text/plain,sos-pair?aid=0x00&url=data:,&key=00&psk=00"] { inputs.push(("other".into(), other.to_string())); }
    for (kind, input) in inputs {
        let before = PANICS.load(Ordering::SeqCst);
        let t0 = std::time::Instant::now();
        let r = std::panic::catch_unwind(|| ServerPairUrl::from_str(&input).map(|u| u.public_key().len()));
        let took = t0.elapsed();
        rep.case(&format!("pair:{kind}:{}", hex::encode(&sha256(input.as_bytes())[..6])), true);
        rep.count(&format!("pairing-url:{}:{}", kind.split(':').next().unwrap(), match &r { Ok(Ok(_)) => "value", Ok(Err(_)) => "error", Err(_) => "panic" }));
        if r.is_err() || PANICS.load(Ordering::SeqCst) > before { rep.spec_fail("decode-panics:pairing-url", json!({"kind": kind, "input": input.chars().take(300).collect::<String>()}), "parsing a pairing URL panicked"); }
        if took.as_secs() >= 10 { rep.spec_fail("decode-hangs:pairing-url", json!({"kind": kind, "len": input.len(), "ms": took.as_millis() as u64}), "parsing a pairing URL took more than 10 s"); }
    }
}

async fn send(rep: &mut Report, what: String, handler: &str, rq: reqwest::RequestBuilder) {
    let before = PANICS.load(Ordering::SeqCst);
    let r = rq.send().await;
    let (code, err) = match r { Ok(r) => (r.status().as_u16(), String::new()), Err(e) => (0, format!("{e:?}")) };
    rep.case(&what, true);
    rep.count(&format!("http:{handler}:{}:{}", what.split(':').nth(1).unwrap_or("?"), code));
    if PANICS.load(Ordering::SeqCst) > before {
        rep.spec_fail(&format!("decode-panics:http:{handler}"), json!({"request": what, "status": code, "panic": LAST_PANIC.lock().unwrap().clone()}), "a request carrying malformed bytes made the server panic");
    } else if code == 0 {
        let hang = err.contains("TimedOut") || err.contains("timed out");
        rep.spec_fail(&format!("{}:http:{handler}", if hang { "decode-hangs" } else { "decode-aborts-process" }), json!({"request": what, "error": err.chars().take(300).collect::<String>()}), "a request carrying malformed bytes got no HTTP response");
    }
}

async fn http(rep: &mut Report, rng: &mut Rng, thorough: bool) -> anyhow::Result<()> {
    let a1 = new_account("one").await?;
    let a2 = new_account("two").await?;
    let live = start_server(None).await?;
    for a in [&a1, &a2] { sync_http(a, &live.addr).await.map_err(|e| anyhow::anyhow!("register: {e}"))?; }
    let client = reqwest::Client::builder().timeout(std::time::Duration::from_secs(30)).build()?;
    let base = format!("http://{}:{}/api/v1", live.addr.ip(), live.addr.port());
    let fid = uuid::Uuid::new_v4(); let sid = uuid::Uuid::new_v4(); let fname = hex::encode(sha256(b"blob"));
    let file_path = format!("/sync/file/{fid}/{sid}/{fname}");
    let status = { let a = a1.account.lock().await; a.sync_status().await? };
    let routes: Vec<(&str, &str, String, Vec<u8>, bool)> = vec![
        // (method, handler, path, valid body, body is what the token signs)
        ("GET", "event_scan", "/sync/account/events".into(), ScanRequest { log_type: EventLogType::Identity, limit: 4, offset: 0 }.encode().await?, true),
        ("POST", "event_diff", "/sync/account/events".into(), DiffRequest { log_type: EventLogType::Identity, from_hash: None }.encode().await?, true),
        ("PATCH", "event_patch", "/sync/account/events".into(), PatchRequest { log_type: EventLogType::Identity, commit: None, proof: status.identity.1.clone(), patch: vec![] }.encode().await?, true),
        ("PATCH", "sync_account", "/sync/account".into(), SyncPacket { status: status.clone(), diff: Default::default(), compare: None }.encode().await?, true),
        ("PUT", "create_account", "/sync/account".into(), { let a = a1.account.lock().await; a.create_set().await?.encode().await? }, true),
        ("POST", "update_account", "/sync/account".into(), { let a = a1.account.lock().await; a.create_set().await?.encode().await? }, true),
        ("POST", "compare_files", "/sync/files".into(), sos_protocol::transfer::FileSet(Default::default()).encode().await?, false),
        ("PUT", "receive_file", file_path.clone(), b"blob".to_vec(), false),
    ];
    // liveness probe: the untouched account is served
    let probe = |client: reqwest::Client, base: String| { let a2id = a2.id; let signer = a2.signer.clone(); async move {
        let p = "/api/v1/sync/account/status";
        let tok = token(&signer, p.as_bytes()).await;
        let r = client.get(format!("{base}/sync/account/status?connection_id=probe")).header("X-SOS-ACCOUNT-ID", a2id.to_string()).header("Authorization", format!("Bearer {tok}")).send().await;
        r.map(|r| r.status().as_u16()).unwrap_or(0)
    } };
    let first = probe(client.clone(), base.clone()).await;
    if first != 200 { anyhow::bail!("probe before any garbage answered {first}"); }
    for (method, handler, path, body, signs_body) in &routes {
        let m = reqwest::Method::from_bytes(method.as_bytes())?;
        let signed_path = format!("/api/v1{}", path);
        // 1. malformed bodies under a valid signature (the decoder is reached)
        for (k, (kind, bytes)) in byte_muts(body, rng, thorough).into_iter().enumerate() {
            let signed: Vec<u8> = if *signs_body { bytes.clone() } else { signed_path.as_bytes().to_vec() };
            let tok = token(&a1.signer, &signed).await;
            let rq = client.request(m.clone(), format!("{base}{path}?connection_id=verif")).header("X-SOS-ACCOUNT-ID", a1.id.to_string())
                .header("Authorization", format!("Bearer {tok}")).header("content-type", "application/x-protobuf").body(bytes.clone());
            send(rep, format!("{handler}:body-{kind}:{k}:{}", hex::encode(&sha256(&bytes)[..4])), handler, rq).await;
        }
        // 2. malformed bearer tokens and account headers with the valid body
        let good = token(&a1.signer, if *signs_body { body } else { signed_path.as_bytes() }).await;
        let mut toks: Vec<(&str, String)> = vec![("empty", String::new()), ("one-char", "1".into()), ("not-base58", "0OIl+/=".into()), ("dots", "...".into()),
            ("zeros", bs58::encode([0u8; 64]).into_string()), ("short-63", bs58::encode([7u8; 63]).into_string()), ("long-65", bs58::encode([7u8; 65]).into_string()),
            ("huge-length-prefix", bs58::encode([0xffu8; 72]).into_string()), ("long", "z".repeat(if thorough { 60_000 } else { 6_000 }))];
        for (kind, m) in byte_muts(&bs58::decode(&good).into_vec()?, rng, false) { toks.push((kind, bs58::encode(m).into_string())); }
        for i in (1..good.len()).step_by(if thorough { 1 } else { 7 }) { toks.push(("truncated-text", good[..i].to_string())); }
        for (k, (kind, t)) in toks.into_iter().enumerate() {
            let Ok(hv) = reqwest::header::HeaderValue::from_str(&format!("Bearer {t}")) else { continue };
            let rq = client.request(m.clone(), format!("{base}{path}?connection_id=verif")).header("X-SOS-ACCOUNT-ID", a1.id.to_string())
                .header("Authorization", hv).header("content-type", "application/x-protobuf").body(body.clone());
            send(rep, format!("{handler}:token-{kind}:{k}"), handler, rq).await;
        }
        for (k, acct) in ["", "0x", "0x00", "zz", &a1.id.to_string()[..20], &format!("{}00", a1.id), &"a".repeat(5000), "0xZZZZZZZZZZZZZZZZZZZZZZZZZZZZZZZZZZZZZZZZ"].iter().enumerate() {
            let Ok(hv) = reqwest::header::HeaderValue::from_str(acct) else { continue };
            let rq = client.request(m.clone(), format!("{base}{path}?connection_id=verif")).header("X-SOS-ACCOUNT-ID", hv)
                .header("Authorization", format!("Bearer {good}")).header("content-type", "application/x-protobuf").body(body.clone());
            send(rep, format!("{handler}:account-header:{k}"), handler, rq).await;
        }
        let alive = probe(client.clone(), base.clone()).await;
        if alive != 200 { rep.spec_fail("decode-aborts-process:http-server-stopped-serving", json!({"after": handler, "probe_status": alive}), "after a batch of malformed requests the server no longer serves another account"); }
    }
    // 3. route parameters of the file routes and the query of move_file
    let bad_parts = ["x", "00000000-0000-0000-0000-000000000000", "..", "%2e%2e", "%00", &"f".repeat(64), &"f".repeat(63), &"g".repeat(64), &"f".repeat(4096), "0x00"];
    for (method, handler) in [("GET", "send_file"), ("PUT", "receive_file"), ("DELETE", "delete_file"), ("POST", "move_file")] {
        let m = reqwest::Method::from_bytes(method.as_bytes())?;
        for (k, part) in bad_parts.iter().enumerate() {
            for pos in 0..4 {
                let (p_path, query) = match pos {
                    0 => (format!("/sync/file/{part}/{sid}/{fname}"), String::new()),
                    1 => (format!("/sync/file/{fid}/{part}/{fname}"), String::new()),
                    2 => (format!("/sync/file/{fid}/{sid}/{part}"), String::new()),
                    _ => { if handler != "move_file" { continue; } (file_path.clone(), format!("&vault_id={part}&secret_id={part}&name={part}")) }
                };
                let tok = token(&a1.signer, format!("/api/v1{p_path}").as_bytes()).await;
                let rq = client.request(m.clone(), format!("{base}{p_path}?connection_id=verif{query}")).header("X-SOS-ACCOUNT-ID", a1.id.to_string())
                    .header("Authorization", format!("Bearer {tok}")).body(b"blob".to_vec());
                send(rep, format!("{handler}:route-parameter:{k}:{pos}"), handler, rq).await;
            }
        }
        let alive = probe(client.clone(), base.clone()).await;
        if alive != 200 { rep.spec_fail("decode-aborts-process:http-server-stopped-serving", json!({"after": handler, "probe_status": alive}), "after a batch of malformed requests the server no longer serves another account"); }
    }
    live.handle.shutdown();
    Ok(())
}

pub fn run(cli: &Cli) {
    let property = cli.extra.get("property").cloned().unwrap_or("C15".into());
    let mut rep = Report::new(&property, "net", cli.seed, &cli.tier);
    let thorough = cli.tier == "thorough";
    let mut rng = Rng::new(cli.seed ^ 0x4E37);
    std::panic::set_hook(Box::new(|info| { PANICS.fetch_add(1, Ordering::SeqCst); *LAST_PANIC.lock().unwrap() = info.to_string().chars().take(300).collect(); }));
    pairing(&mut rep, &mut rng, thorough);
    let rt = tokio::runtime::Builder::new_multi_thread().worker_threads(4).enable_all().build().unwrap();
    if let Err(e) = rt.block_on(http(&mut rep, &mut rng, thorough)) {
        rep.notes.push(format!("http part aborted: {e}"));
        rep.spec_fail("c15-harness-aborted", json!({}), &e.to_string());
    }
    let _ = std::panic::take_hook();
    rep.rule = "pairing URLs: the generated URL truncated at every offset, bit-flipped, spliced, each query parameter removed / doubled / replaced by empty, odd-length, non-hex, over-long and percent-encoded values, other schemes; \\
        live in-process server on loopback: for 8 body-carrying routes the valid body truncated / bit-flipped / byte-set / spliced / random under a valid signature of the altered bytes, malformed bearer tokens (empty, non-base58, wrong lengths, mutated signature bytes, text truncations, 6-60 kB) and account-id headers, and malformed route / query parameters of the 4 file routes; \\
        each request must get an HTTP response within 30 s, the process-wide panic hook must stay silent, and after every batch a second account's status request must answer 200".replace("\\\n        ", "");
    rep.write(&cli.out);
}
