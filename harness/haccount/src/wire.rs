//! C14 / C15 for the protobuf wire format (`WireEncodeDecode`): every message exchanged by real
//! sync sessions (status, packets, scan / diff / patch requests and responses, create sets) is
//! captured as (type, bytes); for each: decode + re-encode must give the same bytes, and the
//! decoder is fed truncations at every offset, bit flips, field-tag / length edits and splices.
//! A panic anywhere during decoding is counted by a panic hook (the blocking task the decoder
//! runs in contains it, so the caller only sees an error).
use crate::bridge::{WIRE_TYPED, WIRE_TYPED_ON};
use hcommon::{sha256, Cli, Report, Rng};
use serde_json::json;
use sos_protocol::{DiffRequest, DiffResponse, PatchRequest, PatchResponse, ScanRequest, ScanResponse, WireEncodeDecode};
use sos_sync::{CreateSet, SyncPacket, SyncStatus, UpdateSet};
use std::collections::BTreeMap;
use std::sync::atomic::{AtomicU64, Ordering};

static PANICS: AtomicU64 = AtomicU64::new(0);

async fn dec<T: WireEncodeDecode + Send + 'static>(bytes: &[u8]) -> (Result<Vec<u8>, String>, bool) {
    let before = PANICS.load(Ordering::SeqCst);
    let buf = bytes::Bytes::copy_from_slice(bytes);
    let r = match T::decode(buf).await {
        Ok(v) => match v.encode().await { Ok(b) => Ok(b), Err(e) => Err(format!("re-encode: {e}")) },
        Err(e) => Err(e.to_string()),
    };
    (r, PANICS.load(Ordering::SeqCst) > before)
}

async fn dispatch(ty: &str, bytes: &[u8]) -> Option<(Result<Vec<u8>, String>, bool)> {
    Some(match ty {
        "SyncStatus" => dec::<SyncStatus>(bytes).await,
        "SyncPacket" => dec::<SyncPacket>(bytes).await,
        "ScanRequest" => dec::<ScanRequest>(bytes).await,
        "ScanResponse" => dec::<ScanResponse>(bytes).await,
        "DiffRequest" => dec::<DiffRequest>(bytes).await,
        "DiffResponse" => dec::<DiffResponse>(bytes).await,
        "PatchRequest" => dec::<PatchRequest>(bytes).await,
        "PatchResponse" => dec::<PatchResponse>(bytes).await,
        "CreateSet" => dec::<CreateSet>(bytes).await,
        "UpdateSet" => dec::<UpdateSet>(bytes).await,
        "FileSet" => dec::<sos_protocol::transfer::FileSet>(bytes).await,
        "FileTransfersSet" => dec::<sos_protocol::transfer::FileTransfersSet>(bytes).await,
        "NetworkChangeEvent" => dec::<sos_protocol::NetworkChangeEvent>(bytes).await,
        "Origin" => dec::<sos_core::Origin>(bytes).await,
        _ => return None,
    })
}

pub fn run(cli: &Cli) {
    let property = cli.extra.get("property").cloned().unwrap_or("C15".into());
    let mut rep = Report::new(&property, "wire", cli.seed, &cli.tier);
    let thorough = cli.tier == "thorough";
    let rt = tokio::runtime::Builder::new_multi_thread().worker_threads(4).enable_all().build().unwrap();
    // 1. real traffic
    WIRE_TYPED_ON.store(true, Ordering::Relaxed);
    {
        let mut scratch = Report::new("scratch", "sync", cli.seed, &cli.tier);
        let mut corr = crate::sync::Corr { ops: vec![], imp: vec![] };
        let n = if thorough { 24 } else { 6 };
        for backend in ["fs", "db"] {
            for k in 0..n {
                let seed = cli.seed.wrapping_mul(1_000_003).wrapping_add(7000 + k);
                let _ = rt.block_on(crate::sync::run_case(backend, seed, &mut scratch, &mut corr));
            }
        }
        // create / update sets of a real account
        let _ = rt.block_on(async {
            use sos_sync::SyncStorage;
            let w = crate::world::World::new(1, "fs").await?;
            let a = w.devices[0].lock().await;
            let cs = a.create_set().await?;
            let cs_copy = a.create_set().await?;
            if let Ok(b) = cs.encode().await {
                WIRE_TYPED.lock().unwrap().push(("CreateSet".into(), b.to_vec()));
                crate::bridge::WIRE_VALUES_CHECKED.fetch_add(1, Ordering::Relaxed);
                match CreateSet::decode(bytes::Bytes::copy_from_slice(&b)).await {
                    Ok(back) => if back != cs_copy { crate::bridge::WIRE_VALUE_DIFFERS.lock().unwrap().push(("CreateSet".into(), "decoded create set differs from the one encoded".into())); },
                    Err(e) => crate::bridge::WIRE_VALUE_DIFFERS.lock().unwrap().push(("CreateSet".into(), format!("decode error: {e}"))),
                }
            }
            // an update set with the identity log replaced (as a password change sends)
            let cs = a.create_set().await?;
            let mut t = sos_core::commit::CommitTree::new();
            let mut hashes: Vec<[u8; 32]> = cs.identity.records().iter().map(|r| *r.commit().as_ref()).collect();
            t.append(&mut hashes); t.commit();
            if let Ok(cp) = t.head() {
                let us = UpdateSet { identity: Some(sos_core::events::patch::FolderDiff { last_commit: None, patch: cs.identity, checkpoint: cp }), account: None, device: None, files: None, folders: Default::default() };
                let us_copy = us.clone();
                if let Ok(b) = us.encode().await {
                    WIRE_TYPED.lock().unwrap().push(("UpdateSet".into(), b.to_vec()));
                    crate::bridge::WIRE_VALUES_CHECKED.fetch_add(1, Ordering::Relaxed);
                    match UpdateSet::decode(bytes::Bytes::copy_from_slice(&b)).await {
                        Ok(back) => if back != us_copy { crate::bridge::WIRE_VALUE_DIFFERS.lock().unwrap().push(("UpdateSet".into(), "decoded update set differs from the one encoded".into())); },
                        Err(e) => crate::bridge::WIRE_VALUE_DIFFERS.lock().unwrap().push(("UpdateSet".into(), format!("decode error: {e}"))),
                    }
                }
            }
            anyhow::Ok(())
        });
    }
    // generated values of the message types no sync session of the harness sends: file sets (compare_files),
    // change notifications (websocket), origins
    rt.block_on(async {
        use sos_core::{ExternalFile, ExternalFileName, SecretPath};
        use sos_protocol::transfer::{FileSet, FileTransfersSet};
        use sos_sync::{MergeOutcome, TrackedAccountChange, TrackedChanges, TrackedDeviceChange, TrackedFileChange, TrackedFolderChange};
        let mut rng = Rng::new(cli.seed ^ 0xF11E);
        let mut uid = |rng: &mut Rng| uuid::Uuid::from_u128(((rng.next() as u128) << 64) | rng.next() as u128);
        let mut file = |rng: &mut Rng| { let n: [u8; 32] = sha256(&rng.next().to_le_bytes()); ExternalFile::new(SecretPath(uid(rng), uid(rng)), ExternalFileName::from(n)) };
        async fn check<T: WireEncodeDecode + Clone + PartialEq + std::fmt::Debug>(ty: &str, v: T, same: impl Fn(&T, &T) -> bool) {
            crate::bridge::WIRE_VALUES_CHECKED.fetch_add(1, Ordering::Relaxed);
            match v.clone().encode().await {
                Ok(b) => {
                    WIRE_TYPED.lock().unwrap().push((ty.to_string(), b.to_vec()));
                    match T::decode(bytes::Bytes::copy_from_slice(&b)).await {
                        Ok(back) => if !same(&back, &v) { crate::bridge::WIRE_VALUE_DIFFERS.lock().unwrap().push((ty.to_string(), format!("sent {:?} decoded {:?}", v, back).chars().take(500).collect())); },
                        Err(e) => crate::bridge::WIRE_VALUE_DIFFERS.lock().unwrap().push((ty.to_string(), format!("decode error: {e}"))),
                    }
                }
                Err(e) => crate::bridge::WIRE_VALUE_DIFFERS.lock().unwrap().push((ty.to_string(), format!("encode error: {e}"))),
            }
        }
        for round in 0..(if thorough { 60 } else { 12 }) {
            let mut fs = FileSet(Default::default());
            for _ in 0..rng.below(5) { fs.0.insert(file(&mut rng)); }
            check("FileSet", fs.clone(), |a, b| a == b).await;
            let mut dl = FileSet(Default::default());
            for _ in 0..rng.below(4) { dl.0.insert(file(&mut rng)); }
            check("FileTransfersSet", FileTransfersSet { uploads: fs, downloads: dl }, |a, b| a == b).await;
            let mut tracked = TrackedChanges::default();
            let fc = |rng: &mut Rng, id: uuid::Uuid| match rng.below(3) { 0 => TrackedFolderChange::Created(id), 1 => TrackedFolderChange::Updated(id), _ => TrackedFolderChange::Deleted(id) };
            for _ in 0..rng.below(3) { let id = uid(&mut rng); tracked.identity.insert(fc(&mut rng, id)); }
            for _ in 0..rng.below(3) { let k: sos_core::device::DevicePublicKey = sha256(&rng.next().to_le_bytes()).into(); tracked.device.insert(if rng.chance(1, 2) { TrackedDeviceChange::Trusted(k) } else { TrackedDeviceChange::Revoked(k) }); }
            for _ in 0..rng.below(3) { let id = uid(&mut rng); tracked.account.insert(match rng.below(3) { 0 => TrackedAccountChange::FolderCreated(id), 1 => TrackedAccountChange::FolderUpdated(id), _ => TrackedAccountChange::FolderDeleted(id) }); }
            for _ in 0..rng.below(3) {
                let f = file(&mut rng); let g = file(&mut rng);
                tracked.files.insert(match rng.below(3) {
                    0 => TrackedFileChange::Created(SecretPath(*f.vault_id(), *f.secret_id()), *f.file_name()),
                    1 => TrackedFileChange::Moved { name: *f.file_name(), from: SecretPath(*f.vault_id(), *f.secret_id()), dest: SecretPath(*g.vault_id(), *g.secret_id()) },
                    _ => TrackedFileChange::Deleted(SecretPath(*f.vault_id(), *f.secret_id()), *f.file_name()) });
            }
            for _ in 0..rng.below(3) { let vid = uid(&mut rng); let mut set = indexmap::IndexSet::new(); for _ in 0..(1 + rng.below(3)) { let id = uid(&mut rng); set.insert(fc(&mut rng, id)); } tracked.folders.insert(vid, set); }
            let outcome = MergeOutcome { changes: rng.below(1 << 40), tracked, ..Default::default() };
            let root = sos_core::commit::CommitHash(sha256(&rng.next().to_le_bytes()));
            let conn = ["", "conn", "接続-1", "a b\tc"][rng.below(4) as usize].to_string();
            check("NetworkChangeEvent", sos_protocol::NetworkChangeEvent::new(&sos_core::AccountId::random(), conn, root, outcome), |a, b| a == b).await;
            let name = ["", "server", "サーバー", "x\u{0}y"][rng.below(4) as usize].to_string();
            let url = ["https://example.com", "http://127.0.0.1:5053/", "https://sos.example.org:8443/api/v1?x=1#frag", "http://[::1]:80/%E2%9C%93"][rng.below(4) as usize];
            check("Origin", sos_core::Origin::new(name, url.parse().unwrap()), |a, b| a.name() == b.name() && a.url() == b.url()).await;
            let _ = round;
        }
        // every kind of event log in every request that names one
        {
            use sos_core::events::EventLogType;
            let mut t = sos_core::commit::CommitTree::new();
            let mut hs: Vec<[u8; 32]> = (0..5u8).map(|i| sha256(&[i])).collect();
            t.append(&mut hs); t.commit();
            let proof = t.head().unwrap();
            for lt in [EventLogType::Identity, EventLogType::Account, EventLogType::Device, EventLogType::Files, EventLogType::Folder(uid(&mut rng))] {
                check("ScanRequest", ScanRequest { log_type: lt, limit: 1 + rng.below(40) as u16, offset: rng.below(1000) }, |a, b| a == b).await;
                check("DiffRequest", DiffRequest { log_type: lt, from_hash: if rng.chance(1, 2) { None } else { Some(sos_core::commit::CommitHash(sha256(b"from"))) } }, |a, b| a == b).await;
                check("PatchRequest", PatchRequest { log_type: lt, commit: if rng.chance(1, 2) { None } else { Some(sos_core::commit::CommitHash(sha256(b"c"))) }, proof: proof.clone(), patch: vec![] }, |a, b| a == b).await;
            }
        }
    });
    WIRE_TYPED_ON.store(false, Ordering::Relaxed);
    // value-level round trips done while the messages were on their way
    rep.count_n("value-roundtrips-checked", crate::bridge::WIRE_VALUES_CHECKED.load(Ordering::Relaxed));
    for (ty, what) in std::mem::take(&mut *crate::bridge::WIRE_VALUE_DIFFERS.lock().unwrap()) {
        rep.spec_fail(&format!("wire-roundtrip-differs:value:{ty}"), json!({"what": what}), "the message a receiver decodes differs from the value the sender encoded");
    }
    let captured = std::mem::take(&mut *WIRE_TYPED.lock().unwrap());
    // distinct messages, a bounded number per type (largest and smallest first)
    let mut by_type: BTreeMap<String, BTreeMap<[u8; 32], Vec<u8>>> = BTreeMap::new();
    for (t, b) in captured { by_type.entry(t).or_default().insert(sha256(&b), b); }
    std::panic::set_hook(Box::new(|_| { PANICS.fetch_add(1, Ordering::SeqCst); }));
    let mut rng = Rng::new(cli.seed ^ 0x31BE);
    let per_type = if thorough { 40 } else { 8 };
    for (ty, msgs) in &by_type {
        let mut list: Vec<&Vec<u8>> = msgs.values().collect();
        list.sort_by_key(|b| b.len());
        let mut pick: Vec<&Vec<u8>> = vec![];
        for (i, b) in list.iter().enumerate() { if i < per_type / 2 || i + per_type / 2 >= list.len() { pick.push(b); } }
        rep.count_n(&format!("captured:{ty}"), msgs.len() as u64);
        for bytes in pick {
            // C14: decode . encode is the identity on real messages
            match rt.block_on(dispatch(ty, bytes)) {
                None => { rep.count(&format!("type-not-dispatched:{ty}")); break; }
                Some((Ok(b2), p)) => {
                    // a change notification keeps its per-folder changes in a HashMap: the re-encoding may list the folders in
                    // another order (the value-level round trip above is exact); compare the bytes as a multiset there
                    let same = if ty == "NetworkChangeEvent" { let (mut x, mut y) = (b2.clone(), (*bytes).clone()); x.sort(); y.sort(); x == y } else { &b2 == bytes };
                    if !same { rep.spec_fail(&format!("wire-roundtrip-differs:{ty}"), json!({"len": bytes.len(), "reencoded_len": b2.len(), "bytes": hex::encode(&bytes[..bytes.len().min(200)])}), "decode then encode of a real wire message gives different bytes"); }
                    if p { rep.spec_fail(&format!("decode-panics:wire:{ty}"), json!({"kind": "valid"}), "decoding a valid message panicked"); }
                }
                Some((Err(e), p)) => {
                    rep.spec_fail(&format!("wire-roundtrip-error:{ty}"), json!({"len": bytes.len()}), &e);
                    if p { rep.spec_fail(&format!("decode-panics:wire:{ty}"), json!({"kind": "valid"}), "decoding a valid message panicked"); }
                }
            }
            rep.case(&format!("{ty}:valid:{}", hex::encode(&sha256(bytes)[..6])), true);
            // C15: mutations
            let mut muts: Vec<(&str, Vec<u8>)> = vec![("empty", vec![])];
            let step = if bytes.len() > 200 && !thorough { bytes.len() / 100 } else { 1 };
            let mut i = 1; while i < bytes.len() { muts.push(("truncated", bytes[..i].to_vec())); i += step.max(1); }
            for _ in 0..(if thorough { 60 } else { 16 }) { let mut m = bytes.clone(); if m.is_empty() { break; } let p = rng.below(m.len() as u64) as usize; m[p] ^= 1 << rng.below(8); muts.push(("bitflip", m)); }
            for _ in 0..(if thorough { 24 } else { 8 }) { let mut m = bytes.clone(); if m.is_empty() { break; } let p = rng.below(m.len() as u64) as usize; m[p] = *rng.pick(&[0u8, 0xff, 0x7f, 0x80, 0x0a, 0x12, 0x1a, 0x08]); muts.push(("byte-set", m)); }
            if bytes.len() > 8 { for _ in 0..4 { let a = rng.below(bytes.len() as u64) as usize; let b = rng.below(bytes.len() as u64) as usize; let mut m = bytes[..a].to_vec(); m.extend_from_slice(&bytes[b..]); muts.push(("splice", m)); } }
            for (kind, m) in muts {
                let t0 = std::time::Instant::now();
                let out = rt.block_on(async { tokio::time::timeout(std::time::Duration::from_secs(20), dispatch(ty, &m)).await });
                rep.case(&format!("{ty}:{kind}:{}", hex::encode(&sha256(&m)[..6])), true);
                match out {
                    Err(_) => rep.spec_fail(&format!("decode-hangs:wire:{ty}"), json!({"kind": kind, "len": m.len()}), "decoding did not finish within 20 s"),
                    Ok(Some((r, p))) => {
                        rep.count(&format!("{ty}:{kind}:{}", if r.is_ok() { "ok" } else { "error" }));
                        if p { rep.spec_fail(&format!("decode-panics:wire:{ty}"), json!({"kind": kind, "len": m.len(), "bytes": hex::encode(&m[..m.len().min(120)])}), "decoding a malformed wire message panicked (the blocking task contained it: the caller sees an error)"); }
                    }
                    Ok(None) => {}
                }
                let _ = t0;
            }
        }
    }
    let _ = std::panic::take_hook();
    rep.rule = "wire messages captured from real sync sessions of 2-3 devices (soft conflicts, hard conflicts, fast forwards) plus create / update sets: decode . encode must reproduce the bytes; each message is then truncated at every offset (every 1% for long ones in the quick tier), bit-flipped, byte-set with protobuf tag / length values, spliced, and the empty message is sent to every decoder; a panic hook counts panics inside the decoder".into();
    rep.write(&cli.out);
}
