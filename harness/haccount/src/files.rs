//! C17: file secrets on a real account (blobs on disk vs replay of the file event log vs
//! content addressing vs decryption), and uploads to a live server (correct / altered /
//! truncated / empty bodies).
use crate::world::World;
use hcommon::{sha256, Cli, Report, Rng};
use serde_json::json;
use sos_account::Account;
use sos_client_storage::{AccessOptions, NewFolderOptions};
use sos_core::{ExternalFile, SecretId, VaultId};
use sos_reducers::FileReducer;
use sos_sync::StorageEventLogs;
use sos_vault::secret::{Secret, SecretMeta};
use std::collections::{BTreeMap, BTreeSet};

fn show(f: &ExternalFile) -> String { format!("{}", f) }

async fn check_state(w: &World, rep: &mut Report, seed: u64, script: &[String], contents: &BTreeMap<(VaultId, SecretId), Vec<u8>>) {
    let a = w.devices[0].lock().await;
    let paths = a.paths();
    // blobs on disk
    let on_disk: BTreeSet<String> = match sos_external_files::list_external_files(&paths).await { Ok(s) => s.iter().map(show).collect(), Err(e) => { rep.spec_fail("c17-list-external-files-error", json!({"case_seed": seed}), &e.to_string()); return; } };
    // replay of the file log
    let reduced: BTreeSet<String> = { let log = a.file_log().await.unwrap(); let l = log.read().await; match FileReducer::new(&*l).reduce(None).await { Ok(s) => s.iter().map(show).collect(), Err(e) => { rep.spec_fail("c17-file-reducer-error", json!({"case_seed": seed}), &e.to_string()); return; } } };
    if on_disk != reduced {
        let missing = reduced.difference(&on_disk).count(); let extra = on_disk.difference(&reduced).count();
        rep.spec_fail(if extra > 0 { "c17-blob-left-behind" } else { "c17-blob-missing" }, json!({"case_seed": seed, "script": script, "missing": missing, "left_behind": extra}), "blobs on disk differ from the files named by replaying the file event log");
    }
    // content addressing and decryption
    let files = sos_external_files::list_external_files(&paths).await.unwrap_or_default();
    for f in files.iter() {
        let p = paths.into_file_path(f);
        if let Ok(bytes) = std::fs::read(&p) {
            if sha256(&bytes).as_slice() != f.file_name().as_ref() {
                rep.spec_fail("c17-blob-name-is-not-digest-of-bytes", json!({"case_seed": seed, "file": show(f)}), "a stored blob's name is not the SHA-256 of its bytes");
            }
        }
        if let Some(orig) = contents.get(&(*f.vault_id(), *f.secret_id())) {
            match a.download_file(f.vault_id(), f.secret_id(), f.file_name()).await {
                Ok(plain) => if &plain != orig { rep.spec_fail("c17-blob-decrypts-to-other-content", json!({"case_seed": seed, "file": show(f)}), "the attachment does not decrypt to the original file"); },
                Err(e) => rep.spec_fail("c17-blob-does-not-decrypt", json!({"case_seed": seed, "file": show(f)}), &e.to_string()),
            }
        }
    }
    // no blob without a live secret
    let live: BTreeSet<(VaultId, SecretId)> = contents.keys().cloned().collect();
    for f in files.iter() { if !live.contains(&(*f.vault_id(), *f.secret_id())) { rep.spec_fail("c17-blob-for-deleted-secret-or-folder", json!({"case_seed": seed, "script": script, "file": show(f)}), "a blob remains for a secret / folder that was deleted"); } }
    for k in &live { if !files.iter().any(|f| (*f.vault_id(), *f.secret_id()) == *k) { rep.spec_fail("c17-live-file-secret-without-blob", json!({"case_seed": seed, "script": script}), "a live file secret has no blob"); } }
}

pub async fn run_case(backend: &str, seed: u64, rep: &mut Report) -> anyhow::Result<()> {
    let mut rng = Rng::new(seed ^ 0x17);
    let w = World::new(1, backend).await?;
    let mut script = vec![format!("world backend={backend}")];
    let mut contents: BTreeMap<(VaultId, SecretId), Vec<u8>> = BTreeMap::new();
    let srcdir = std::path::Path::new("/verif/run/tmp").join(format!("filesrc-{seed}-{backend}"));
    std::fs::create_dir_all(&srcdir)?;
    let (default, extra) = { let mut a = w.devices[0].lock().await; let d = *a.default_folder().await.unwrap().id(); let e = *a.create_folder(NewFolderOptions::new("files".into())).await?.folder.id(); (d, e) };
    let mut extra_alive = true;
    let n_ops = rng.range(4, if rep.tier == "thorough" { 9 } else { 6 });
    for step in 0..n_ops {
        let keys: Vec<(VaultId, SecretId)> = contents.keys().cloned().collect();
        let kind = rng.below(10);
        let mut a = w.devices[0].lock().await;
        if kind < 4 || keys.is_empty() {
            let body: Vec<u8> = (0..rng.range(1, 2000)).map(|_| rng.below(256) as u8).collect();
            let path = srcdir.join(format!("f{step}.bin")); std::fs::write(&path, &body)?;
            let secret: Secret = path.clone().try_into()?;
            let folder = if extra_alive && rng.chance(1, 3) { extra } else { default };
            match a.create_secret(SecretMeta::new(format!("file{step}"), secret.kind()), secret, AccessOptions { folder: Some(folder), ..Default::default() }).await {
                Ok(ch) => { contents.insert((folder, ch.id), body); script.push(format!("create file secret in {}", if folder == default { "default" } else { "extra" })); }
                Err(e) => rep.spec_fail("c17-create-file-secret-error", json!({"case_seed": seed}), &e.to_string()),
            }
        } else if kind < 6 {
            let (f, s) = *rng.pick(&keys);
            let body: Vec<u8> = (0..rng.range(1, 2000)).map(|_| rng.below(256) as u8).collect();
            let path = srcdir.join(format!("u{step}.bin")); std::fs::write(&path, &body)?;
            let meta = SecretMeta::new(format!("file-upd{step}"), sos_vault::secret::SecretType::File);
            match a.update_file(&s, meta, &path, AccessOptions { folder: Some(f), ..Default::default() }).await {
                Ok(_) => { contents.insert((f, s), body); script.push("replace file content".into()); }
                Err(e) => rep.spec_fail("c17-update-file-error", json!({"case_seed": seed, "script": script}), &e.to_string()),
            }
        } else if kind < 8 && extra_alive {
            let (f, s) = *rng.pick(&keys);
            let dest = if f == default { extra } else { default };
            match a.move_secret(&s, &f, &dest, Default::default()).await {
                Ok(mv) => { if let Some(b) = contents.remove(&(f, s)) { contents.insert((dest, mv.id), b); } script.push("move file secret".into()); }
                Err(e) => rep.spec_fail("c17-move-file-secret-error", json!({"case_seed": seed, "script": script}), &e.to_string()),
            }
        } else if kind < 9 {
            let (f, s) = *rng.pick(&keys);
            match a.delete_secret(&s, AccessOptions { folder: Some(f), ..Default::default() }).await {
                Ok(_) => { contents.remove(&(f, s)); script.push("delete file secret".into()); }
                Err(e) => rep.spec_fail("c17-delete-file-secret-error", json!({"case_seed": seed, "script": script}), &e.to_string()),
            }
        } else if extra_alive {
            match a.delete_folder(&extra).await {
                Ok(_) => { contents.retain(|k, _| k.0 != extra); extra_alive = false; script.push("delete folder".into()); }
                Err(e) => rep.spec_fail("c17-delete-folder-error", json!({"case_seed": seed, "script": script}), &e.to_string()),
            }
        }
        drop(a);
        check_state(&w, rep, seed, &script, &contents).await;
    }
    let _ = std::fs::remove_dir_all(&srcdir);
    rep.case(&format!("{backend}:{}", script.join(";")), !contents.is_empty() || script.len() > 2);
    if seed % 4 == 0 { rep.sample(json!({"backend": backend, "script": script})); }
    Ok(())
}

/// uploads to a live server: the server must accept iff the body hashes to the requested name
pub async fn upload_cases(rep: &mut Report, rng: &mut Rng, n: usize) -> anyhow::Result<()> {
    use crate::auth::{new_account, start_server, sync_http, token};
    let live = start_server(None).await?;
    let acct = new_account("uploader").await?;
    sync_http(&acct, &live.addr).await.map_err(|e| anyhow::anyhow!(e))?;
    let http = reqwest::Client::builder().build()?;
    let base = format!("http://{}:{}/api/v1", live.addr.ip(), live.addr.port());
    let server_files_dir = |live: &crate::auth::Live| -> std::path::PathBuf { live._tmp.path().join("data") };
    for _ in 0..n {
        let body: Vec<u8> = (0..rng.range(1, 3000)).map(|_| rng.below(256) as u8).collect();
        let name = hex::encode(sha256(&body));
        let vault = uuid::Uuid::new_v4(); let secret = uuid::Uuid::new_v4();
        let path = format!("/sync/file/{vault}/{secret}/{name}");
        let variants: Vec<(&str, Vec<u8>)> = vec![
            ("altered", { let mut b = body.clone(); let i = rng.below(b.len() as u64) as usize; b[i] ^= 1; b }),
            ("truncated", body[..body.len() / 2].to_vec()),
            ("empty", vec![]),
            ("extended", { let mut b = body.clone(); b.push(0); b }),
            ("correct", body.clone()),
        ];
        for (what, b) in variants {
            let tok = token(&acct.signer, format!("/api/v1{path}").as_bytes()).await;
            let resp = http.put(format!("{base}{path}?connection_id=verif")).header("X-SOS-ACCOUNT-ID", acct.id.to_string()).header("Authorization", format!("Bearer {tok}")).body(b.clone()).send().await;
            let code = resp.map(|r| r.status().as_u16()).unwrap_or(0);
            // what is on the server afterwards
            let mut found = vec![]; let mut stray = vec![];
            fn walk(d: &std::path::Path, out: &mut Vec<std::path::PathBuf>) { if let Ok(rd) = std::fs::read_dir(d) { for e in rd.flatten() { let p = e.path(); if p.is_dir() { walk(&p, out); } else { out.push(p); } } } }
            let mut all = vec![]; walk(&server_files_dir(&live), &mut all);
            for p in &all { let s = p.display().to_string(); if s.contains(&secret.to_string()) { if s.ends_with(&name) { found.push(p.clone()); } else { stray.push(s); } } }
            let ok = (200..300).contains(&code);
            rep.case(&format!("upload:{what}:{}", body.len()), true);
            rep.count(&format!("upload:{what}:{code}"));
            let correct = what == "correct";
            if ok != correct {
                rep.spec_fail(&format!("c17-server-{}-upload-{what}", if ok { "accepted" } else { "refused" }), json!({"status": code, "len": b.len()}), "the server must accept an upload iff its bytes hash to the requested name");
            }
            if !correct && !found.is_empty() { rep.spec_fail(&format!("c17-refused-upload-left-file-{what}"), json!({"status": code}), "a refused upload left a file under the requested name"); }
            if !stray.is_empty() { rep.spec_fail(&format!("c17-upload-left-partial-file-{what}"), json!({"status": code, "files": stray}), "an upload left a partially received / temporary file visible"); }
            if correct && ok && found.is_empty() { rep.spec_fail("c17-accepted-upload-not-stored", json!({"status": code}), "an accepted upload is not stored under its name"); }
            if correct && ok {
                let tok = token(&acct.signer, format!("/api/v1{path}").as_bytes()).await;
                let got = http.get(format!("{base}{path}?connection_id=verif")).header("X-SOS-ACCOUNT-ID", acct.id.to_string()).header("Authorization", format!("Bearer {tok}")).send().await;
                match got { Ok(r) if r.status().is_success() => { let bytes = r.bytes().await.map(|b| b.to_vec()).unwrap_or_default(); if bytes != body { rep.spec_fail("c17-download-differs-from-upload", json!({"len": bytes.len()}), "download of an accepted upload returns other bytes"); } }
                    other => rep.spec_fail("c17-download-of-accepted-upload-failed", json!({"status": other.map(|r| r.status().as_u16()).unwrap_or(0)}), "download failed") }
            }
            if correct { for p in &found { if let Ok(bytes) = std::fs::read(p) { if bytes != body { rep.spec_fail("c17-accepted-upload-stored-other-bytes", json!({}), "stored upload differs from the body"); } } } }
        }
    }
    live.handle.shutdown();
    Ok(())
}

pub fn run(cli: &Cli) {
    let property = cli.extra.get("property").cloned().unwrap_or("C17".into());
    let mut rep = Report::new(&property, "files", cli.seed, &cli.tier);
    let rt = tokio::runtime::Builder::new_multi_thread().worker_threads(4).enable_all().build().unwrap();
    let n: u64 = cli.extra.get("cases").and_then(|s| s.parse().ok()).unwrap_or(if cli.tier == "thorough" { 20 } else { 2 });
    for backend in ["fs", "db"] {
        for k in 0..n {
            let case_seed = cli.seed.wrapping_mul(1_000_003).wrapping_add(k);
            if let Err(e) = rt.block_on(run_case(backend, case_seed, &mut rep)) {
                rep.notes.push(format!("case {backend}/{case_seed} aborted: {e}"));
                rep.spec_fail("c17-harness-aborted", json!({"case_seed": case_seed, "backend": backend}), &e.to_string());
            }
        }
    }
    let mut rng = Rng::new(cli.seed ^ 0x1717);
    if let Err(e) = rt.block_on(upload_cases(&mut rep, &mut rng, if cli.tier == "thorough" { 40 } else { 6 })) {
        rep.spec_fail("c17-harness-aborted", json!({"part": "upload"}), &e.to_string());
    }
    rep.rule = format!("{n} histories per backend of 4-9 file-secret operations (create with random content, replace content, move between folders, delete secret, delete folder) on a real account (age/scrypt encryption): after every step blobs on disk vs FileReducer replay of the file log, blob name vs SHA-256 of its bytes, decryption vs original content, no blob without a live secret; plus uploads to a live server: correct, one flipped bit, truncated, empty, extended bodies (accept iff hash matches, nothing partial left)");
    rep.write(&cli.out);
}
