//! C17: file secrets on a real account (blobs on disk vs replay of the file event log vs
//! content addressing vs decryption), and uploads to a live server (correct / altered /
//! truncated / empty bodies).
use crate::world::World;
use hcommon::{sha256, Cli, Report, Rng};
use serde_json::json;
use sos_account::Account;
use sos_client_storage::{AccessOptions, NewFolderOptions};
use sos_core::{ExternalFile, SecretId, VaultId};
use sos_reducers::FileReducer;
use sos_sync::StorageEventLogs;
use sos_vault::secret::{Secret, SecretMeta};
use std::collections::{BTreeMap, BTreeSet};

fn show(f: &ExternalFile) -> String { format!("{}", f) }

async fn check_state(w: &World, rep: &mut Report, seed: u64, script: &[String], contents: &BTreeMap<(VaultId, SecretId), Vec<u8>>, alt: &BTreeMap<(VaultId, SecretId), Vec<u8>>) {
    let a = w.devices[0].lock().await;
    let paths = a.paths();
    // blobs on disk
    let on_disk: BTreeSet<String> = match sos_external_files::list_external_files(&paths).await { Ok(s) => s.iter().map(show).collect(), Err(e) => { rep.spec_fail("c17-list-external-files-error", json!({"case_seed": seed}), &e.to_string()); return; } };
    // replay of the file log
    let reduced: BTreeSet<String> = { let log = a.file_log().await.unwrap(); let l = log.read().await; match FileReducer::new(&*l).reduce(None).await { Ok(s) => s.iter().map(show).collect(), Err(e) => { rep.spec_fail("c17-file-reducer-error", json!({"case_seed": seed}), &e.to_string()); return; } } };
    if on_disk != reduced {
        let missing = reduced.difference(&on_disk).count(); let extra = on_disk.difference(&reduced).count();
        rep.spec_fail(if extra > 0 { "c17-blob-left-behind" } else { "c17-blob-missing" }, json!({"case_seed": seed, "script": script, "missing": missing, "left_behind": extra}), "blobs on disk differ from the files named by replaying the file event log");
    }
    // content addressing and decryption
    let files = sos_external_files::list_external_files(&paths).await.unwrap_or_default();
    for f in files.iter() {
        let p = paths.into_file_path(f);
        if let Ok(bytes) = std::fs::read(&p) {
            if sha256(&bytes).as_slice() != f.file_name().as_ref() {
                rep.spec_fail("c17-blob-name-is-not-digest-of-bytes", json!({"case_seed": seed, "file": show(f)}), "a stored blob's name is not the SHA-256 of its bytes");
            }
        }
        if let Some(orig) = contents.get(&(*f.vault_id(), *f.secret_id())) {
            match a.download_file(f.vault_id(), f.secret_id(), f.file_name()).await {
                Ok(plain) => if &plain != orig && alt.get(&(*f.vault_id(), *f.secret_id())) != Some(&plain) { rep.spec_fail("c17-blob-decrypts-to-other-content", json!({"case_seed": seed, "file": show(f)}), "the attachment does not decrypt to the original file"); },
                Err(e) => rep.spec_fail("c17-blob-does-not-decrypt", json!({"case_seed": seed, "file": show(f)}), &e.to_string()),
            }
        }
    }
    // no blob without a live secret
    let live: BTreeSet<(VaultId, SecretId)> = contents.keys().cloned().collect();
    for f in files.iter() { if !live.contains(&(*f.vault_id(), *f.secret_id())) { rep.spec_fail("c17-blob-for-deleted-secret-or-folder", json!({"case_seed": seed, "script": script, "file": show(f)}), "a blob remains for a secret / folder that was deleted"); } }
    for k in &live { if !files.iter().any(|f| (*f.vault_id(), *f.secret_id()) == *k) { rep.spec_fail("c17-live-file-secret-without-blob", json!({"case_seed": seed, "script": script}), "a live file secret has no blob"); } }
    // a secret with two attachments has two blobs
    for k in alt.keys() { let n = files.iter().filter(|f| (*f.vault_id(), *f.secret_id()) == *k).count(); if n != 2 { rep.spec_fail("c17-secret-with-two-attachments-has-other-number-of-blobs", json!({"case_seed": seed, "script": script, "blobs": n}), "a live secret with two attachments does not have exactly two blobs at its place"); } }
}

pub async fn run_case(backend: &str, seed: u64, rep: &mut Report) -> anyhow::Result<()> {
    let mut rng = Rng::new(seed ^ 0x17);
    let w = World::new(1, backend).await?;
    let mut script = vec![format!("world backend={backend}")];
    let mut contents: BTreeMap<(VaultId, SecretId), Vec<u8>> = BTreeMap::new();
    let srcdir = std::path::Path::new("/verif/run/tmp").join(format!("filesrc-{seed}-{backend}"));
    std::fs::create_dir_all(&srcdir)?;
    let (default, extra) = { let mut a = w.devices[0].lock().await; let d = *a.default_folder().await.unwrap().id(); let e = *a.create_folder(NewFolderOptions::new("files".into())).await?.folder.id(); (d, e) };
    let mut extra_alive = true;
    // secrets of another kind that carry their file as an attachment field
    let mut attached: BTreeSet<(VaultId, SecretId)> = BTreeSet::new();
    // second attachment of a secret (same file name as the first, other content)
    let mut alt: BTreeMap<(VaultId, SecretId), Vec<u8>> = BTreeMap::new();
    let mut moved_two = false;
    let n_ops = rng.range(5, if rep.tier == "thorough" { 10 } else { 8 });
    for step in 0..n_ops {
        let keys: Vec<(VaultId, SecretId)> = contents.keys().cloned().collect();
        let mut kind = rng.below(13);
        // a secret with two attachments is moved once as soon as there is one
        let force_move_two = !moved_two && extra_alive && !alt.is_empty();
        if force_move_two { kind = 6; }
        let mut a = w.devices[0].lock().await;
        if kind >= 10 && (kind < 11 || attached.is_empty()) {
            // a secret of another kind (a note) that carries a file as an attachment field
            let body: Vec<u8> = (0..rng.range(1, 2000)).map(|_| rng.below(256) as u8).collect();
            let path = srcdir.join(format!("a{step}.bin")); std::fs::write(&path, &body)?;
            let att: Secret = path.clone().try_into()?;
            let att_meta = SecretMeta::new(format!("attachment{step}"), att.kind());
            let mut note = Secret::Note { text: format!("note {step}").into(), user_data: Default::default() };
            note.add_field(sos_vault::secret::SecretRow::new(SecretId::new_v4(), att_meta, att));
            // half of these carry a second attachment with the SAME file name (from another directory) and other content
            let second: Option<Vec<u8>> = if rng.chance(1, 2) {
                let body2: Vec<u8> = (0..rng.range(1, 2000)).map(|_| rng.below(256) as u8).collect();
                let d2 = srcdir.join("again"); std::fs::create_dir_all(&d2)?;
                let path2 = d2.join(format!("a{step}.bin")); std::fs::write(&path2, &body2)?;
                let att2: Secret = path2.try_into()?;
                let m2 = SecretMeta::new(format!("attachment{step}-again"), att2.kind());
                note.add_field(sos_vault::secret::SecretRow::new(SecretId::new_v4(), m2, att2));
                Some(body2)
            } else { None };
            let folder = if extra_alive && rng.chance(1, 3) { extra } else { default };
            match a.create_secret(SecretMeta::new(format!("note-with-attachment{step}"), note.kind()), note, AccessOptions { folder: Some(folder), ..Default::default() }).await {
                Ok(ch) => { contents.insert((folder, ch.id), body); attached.insert((folder, ch.id)); if let Some(b2) = second { alt.insert((folder, ch.id), b2); rep.count("op:note-with-two-attachments-same-name"); } script.push(format!("create note with an attachment in {}", if folder == default { "default" } else { "extra" })); rep.count("op:note-with-attachment"); }
                Err(e) => rep.spec_fail("c17-create-file-secret-error", json!({"case_seed": seed}), &e.to_string()),
            }
        } else if kind >= 11 {
            // detach: an update that only removes the attachment field
            let (f, s) = *rng.pick(&attached.iter().cloned().collect::<Vec<_>>());
            match a.read_secret(&s, Some(&f)).await {
                Ok((row, _)) => {
                    let mut secret = row.secret().clone();
                    let ids: Vec<SecretId> = secret.user_data().fields().iter().map(|r| *r.id()).collect();
                    for id in ids { secret.remove_field(&id); }
                    match a.update_secret(&s, row.meta().clone(), Some(secret), AccessOptions { folder: Some(f), ..Default::default() }).await {
                        Ok(_) => { contents.remove(&(f, s)); attached.remove(&(f, s)); alt.remove(&(f, s)); script.push("detach the attachment".into()); rep.count("op:detach-attachment"); }
                        Err(e) => rep.spec_fail("c17-update-file-error", json!({"case_seed": seed, "script": script}), &e.to_string()),
                    }
                }
                Err(e) => rep.spec_fail("c17-update-file-error", json!({"case_seed": seed, "script": script}), &e.to_string()),
            }
        } else if kind < 4 || keys.is_empty() {
            let body: Vec<u8> = (0..rng.range(1, 2000)).map(|_| rng.below(256) as u8).collect();
            let path = srcdir.join(format!("f{step}.bin")); std::fs::write(&path, &body)?;
            let secret: Secret = path.clone().try_into()?;
            let folder = if extra_alive && rng.chance(1, 3) { extra } else { default };
            match a.create_secret(SecretMeta::new(format!("file{step}"), secret.kind()), secret, AccessOptions { folder: Some(folder), ..Default::default() }).await {
                Ok(ch) => { contents.insert((folder, ch.id), body); script.push(format!("create file secret in {}", if folder == default { "default" } else { "extra" })); }
                Err(e) => rep.spec_fail("c17-create-file-secret-error", json!({"case_seed": seed}), &e.to_string()),
            }
        } else if kind < 6 && keys.iter().any(|k| !attached.contains(k)) {
            let plain: Vec<(VaultId, SecretId)> = keys.iter().filter(|k| !attached.contains(k)).cloned().collect();
            let (f, s) = *rng.pick(&plain);
            let body: Vec<u8> = (0..rng.range(1, 2000)).map(|_| rng.below(256) as u8).collect();
            let path = srcdir.join(format!("u{step}.bin")); std::fs::write(&path, &body)?;
            let meta = SecretMeta::new(format!("file-upd{step}"), sos_vault::secret::SecretType::File);
            match a.update_file(&s, meta, &path, AccessOptions { folder: Some(f), ..Default::default() }).await {
                Ok(_) => { contents.insert((f, s), body); script.push("replace file content".into()); }
                Err(e) => rep.spec_fail("c17-update-file-error", json!({"case_seed": seed, "script": script}), &e.to_string()),
            }
        } else if kind < 8 && extra_alive {
            let (f, s) = if force_move_two { moved_two = true; *alt.keys().next().unwrap() } else { *rng.pick(&keys) };
            let dest = if f == default { extra } else { default };
            match a.move_secret(&s, &f, &dest, Default::default()).await {
                Ok(mv) => { if let Some(b) = contents.remove(&(f, s)) { contents.insert((dest, mv.id), b); } if attached.remove(&(f, s)) { attached.insert((dest, mv.id)); } if let Some(b) = alt.remove(&(f, s)) { alt.insert((dest, mv.id), b); rep.count("op:move-secret-with-two-attachments"); } script.push("move file secret".into()); }
                Err(e) => rep.spec_fail("c17-move-file-secret-error", json!({"case_seed": seed, "script": script}), &e.to_string()),
            }
        } else if kind < 9 {
            let (f, s) = *rng.pick(&keys);
            match a.delete_secret(&s, AccessOptions { folder: Some(f), ..Default::default() }).await {
                Ok(_) => { contents.remove(&(f, s)); attached.remove(&(f, s)); alt.remove(&(f, s)); script.push("delete file secret".into()); }
                Err(e) => rep.spec_fail("c17-delete-file-secret-error", json!({"case_seed": seed, "script": script}), &e.to_string()),
            }
        } else if extra_alive {
            match a.delete_folder(&extra).await {
                Ok(_) => { contents.retain(|k, _| k.0 != extra); attached.retain(|k| k.0 != extra); alt.retain(|k, _| k.0 != extra); extra_alive = false; script.push("delete folder".into()); }
                Err(e) => rep.spec_fail("c17-delete-folder-error", json!({"case_seed": seed, "script": script}), &e.to_string()),
            }
        }
        drop(a);
        check_state(&w, rep, seed, &script, &contents, &alt).await;
    }
    let _ = std::fs::remove_dir_all(&srcdir);
    rep.case(&format!("{backend}:{}", script.join(";")), !contents.is_empty() || script.len() > 2);
    if seed % 4 == 0 { rep.sample(json!({"backend": backend, "script": script})); }
    Ok(())
}

/// uploads to a live server: the server must accept iff the body hashes to the requested name
pub async fn upload_cases(rep: &mut Report, rng: &mut Rng, n: usize) -> anyhow::Result<()> {
    use crate::auth::{new_account, start_server, sync_http, token};
    let live = start_server(None).await?;
    let acct = new_account("uploader").await?;
    sync_http(&acct, &live.addr).await.map_err(|e| anyhow::anyhow!(e))?;
    let http = reqwest::Client::builder().build()?;
    let base = format!("http://{}:{}/api/v1", live.addr.ip(), live.addr.port());
    let server_files_dir = |live: &crate::auth::Live| -> std::path::PathBuf { live._tmp.path().join("data") };
    for _ in 0..n {
        let body: Vec<u8> = (0..rng.range(1, 3000)).map(|_| rng.below(256) as u8).collect();
        let name = hex::encode(sha256(&body));
        let vault = uuid::Uuid::new_v4(); let secret = uuid::Uuid::new_v4();
        let path = format!("/sync/file/{vault}/{secret}/{name}");
        let variants: Vec<(&str, Vec<u8>)> = vec![
            ("altered", { let mut b = body.clone(); let i = rng.below(b.len() as u64) as usize; b[i] ^= 1; b }),
            ("truncated", body[..body.len() / 2].to_vec()),
            ("empty", vec![]),
            ("extended", { let mut b = body.clone(); b.push(0); b }),
            ("correct", body.clone()),
        ];
        for (what, b) in variants {
            let tok = token(&acct.signer, format!("/api/v1{path}").as_bytes()).await;
            let resp = http.put(format!("{base}{path}?connection_id=verif")).header("X-SOS-ACCOUNT-ID", acct.id.to_string()).header("Authorization", format!("Bearer {tok}")).body(b.clone()).send().await;
            let code = resp.map(|r| r.status().as_u16()).unwrap_or(0);
            // what is on the server afterwards
            let mut found = vec![]; let mut stray = vec![];
            fn walk(d: &std::path::Path, out: &mut Vec<std::path::PathBuf>) { if let Ok(rd) = std::fs::read_dir(d) { for e in rd.flatten() { let p = e.path(); if p.is_dir() { walk(&p, out); } else { out.push(p); } } } }
            let mut all = vec![]; walk(&server_files_dir(&live), &mut all);
            for p in &all { let s = p.display().to_string(); if s.contains(&secret.to_string()) { if s.ends_with(&name) { found.push(p.clone()); } else { stray.push(s); } } }
            let ok = (200..300).contains(&code);
            rep.case(&format!("upload:{what}:{}", body.len()), true);
            rep.count(&format!("upload:{what}:{code}"));
            let correct = what == "correct";
            if ok != correct {
                rep.spec_fail(&format!("c17-server-{}-upload-{what}", if ok { "accepted" } else { "refused" }), json!({"status": code, "len": b.len()}), "the server must accept an upload iff its bytes hash to the requested name");
            }
            if !correct && !found.is_empty() { rep.spec_fail(&format!("c17-refused-upload-left-file-{what}"), json!({"status": code}), "a refused upload left a file under the requested name"); }
            if !stray.is_empty() { rep.spec_fail(&format!("c17-upload-left-partial-file-{what}"), json!({"status": code, "files": stray}), "an upload left a partially received / temporary file visible"); }
            if correct && ok && found.is_empty() { rep.spec_fail("c17-accepted-upload-not-stored", json!({"status": code}), "an accepted upload is not stored under its name"); }
            if correct && ok {
                let tok = token(&acct.signer, format!("/api/v1{path}").as_bytes()).await;
                let got = http.get(format!("{base}{path}?connection_id=verif")).header("X-SOS-ACCOUNT-ID", acct.id.to_string()).header("Authorization", format!("Bearer {tok}")).send().await;
                match got { Ok(r) if r.status().is_success() => { let bytes = r.bytes().await.map(|b| b.to_vec()).unwrap_or_default(); if bytes != body { rep.spec_fail("c17-download-differs-from-upload", json!({"len": bytes.len()}), "download of an accepted upload returns other bytes"); } }
                    other => rep.spec_fail("c17-download-of-accepted-upload-failed", json!({"status": other.map(|r| r.status().as_u16()).unwrap_or(0)}), "download failed") }
            }
            if correct { for p in &found { if let Ok(bytes) = std::fs::read(p) { if bytes != body { rep.spec_fail("c17-accepted-upload-stored-other-bytes", json!({}), "stored upload differs from the body"); } } } }
        }
        // the move and delete routes on the accepted blob: whatever is requested, every file the server holds for this
        // account afterwards must be named by the SHA-256 of its bytes, and a move to the same name must really move it
        {
            let listing = |live: &crate::auth::Live| -> Vec<(String, Vec<u8>)> {
                fn walk(d: &std::path::Path, out: &mut Vec<std::path::PathBuf>) { if let Ok(rd) = std::fs::read_dir(d) { for e in rd.flatten() { let p = e.path(); if p.is_dir() { walk(&p, out); } else { out.push(p); } } } }
                let mut all = vec![]; walk(&server_files_dir(live), &mut all);
                all.into_iter().filter(|p| { let s = p.display().to_string(); s.contains("/files/") || s.contains("/blobs/") }).filter_map(|p| std::fs::read(&p).ok().map(|b| (p.display().to_string(), b))).collect()
            };
            let other_name = hex::encode(sha256(b"some other bytes"));
            let (v2, s2) = (uuid::Uuid::new_v4(), uuid::Uuid::new_v4());
            let requests: Vec<(&str, String)> = vec![
                ("move-to-another-name", format!("vault_id={vault}&secret_id={secret}&name={other_name}")),
                ("move-to-another-name-elsewhere", format!("vault_id={v2}&secret_id={s2}&name={other_name}")),
                ("move-same-name", format!("vault_id={v2}&secret_id={s2}&name={name}")),
            ];
            let mut at = path.clone();
            for (what, q) in requests {
                let tok = token(&acct.signer, format!("/api/v1{at}").as_bytes()).await;
                let code = http.post(format!("{base}{at}?connection_id=verif&{q}")).header("X-SOS-ACCOUNT-ID", acct.id.to_string()).header("Authorization", format!("Bearer {tok}")).send().await.map(|r| r.status().as_u16()).unwrap_or(0);
                rep.case(&format!("server-move:{what}:{}", body.len()), true);
                rep.count(&format!("server-move:{what}:{code}"));
                let files = listing(&live);
                for (p, b) in &files {
                    let fname = p.rsplit('/').next().unwrap_or("");
                    if fname.len() == 64 && fname != hex::encode(sha256(b)) {
                        rep.spec_fail(&format!("c17-server-holds-file-not-named-by-its-digest-after-{what}"), json!({"status": code, "file": p}), "after a move request the server holds a file whose name is not the SHA-256 of its bytes");
                    }
                }
                if what == "move-same-name" {
                    let moved = files.iter().any(|(p, b)| p.contains(&s2.to_string()) && p.ends_with(&name) && b == &body);
                    let stayed = files.iter().any(|(p, _)| p.contains(&secret.to_string()) && p.ends_with(&name));
                    if !(200..300).contains(&code) || !moved || stayed { rep.spec_fail("c17-server-move-does-not-move", json!({"status": code, "moved": moved, "stayed": stayed}), "a move of an uploaded file to another folder / secret under the same name did not move it"); }
                    else { at = format!("/sync/file/{v2}/{s2}/{name}"); }
                }
            }
            // delete: gone afterwards
            let tok = token(&acct.signer, format!("/api/v1{at}").as_bytes()).await;
            let code = http.delete(format!("{base}{at}?connection_id=verif")).header("X-SOS-ACCOUNT-ID", acct.id.to_string()).header("Authorization", format!("Bearer {tok}")).send().await.map(|r| r.status().as_u16()).unwrap_or(0);
            rep.count(&format!("server-delete:{code}"));
            if listing(&live).iter().any(|(p, _)| p.ends_with(&name)) { rep.spec_fail("c17-server-delete-leaves-file", json!({"status": code}), "a deleted file is still on the server"); }
        }
    }
    live.handle.shutdown();
    Ok(())
}

/// Two network devices and a live server: a file secret made on one device reaches the server and the second device;
/// after the first device deletes (or moves) the secret and everybody synced, the blobs on every replica must be exactly
/// the files named by replaying the file event log.
pub async fn transfer_case(rep: &mut Report, seed: u64, action: &str) -> anyhow::Result<()> {
    use crate::auth::start_server_backend;
    use sos_backend::BackendTarget;
    use sos_core::{crypto::AccessKey, Origin, Paths};
    use sos_net::{pairing::{AcceptPairing, OfferPairing}, NetworkAccount};
    use sos_protocol::AccountSync;
    use sos_sync::StorageEventLogs;
    // "delete-folder-db": the server keeps its accounts in the database backend
    let server_db = action.ends_with("-db");
    let action = action.trim_end_matches("-db");
    let live = start_server_backend(None, server_db).await?;
    let url: url::Url = format!("http://{}:{}", live.addr.ip(), live.addr.port()).parse()?;
    let origin = Origin::new("verif".to_string(), url.clone());
    let base = std::path::Path::new("/verif/run/tmp");
    let t1 = tempfile::Builder::new().prefix("xfer-a").tempdir_in(base)?;
    let t2 = tempfile::Builder::new().prefix("xfer-b").tempdir_in(base)?;
    let p1 = Paths::new_client(t1.path()); Paths::scaffold(p1.documents_dir()).await?;
    let p2 = Paths::new_client(t2.path()); Paths::scaffold(p2.documents_dir()).await?;
    let password: secrecy::SecretString = format!("pw-{seed:016x}-transfer-verif").into();
    let key: AccessKey = password.clone().into();
    let mut owner = NetworkAccount::new_account("transfers".to_string(), password.clone(), BackendTarget::FileSystem(p1), Default::default()).await?;
    owner.sign_in(&key).await?;
    owner.add_server(origin.clone()).await?;
    let default = *owner.default_folder().await.ok_or_else(|| anyhow::anyhow!("no default folder"))?.id();
    let other = *owner.create_folder(NewFolderOptions::new("second".to_string())).await?.folder.id();
    let server_dir = live._tmp.path().join("data");
    fn blobs_under(dir: &std::path::Path) -> Vec<String> {
        fn walk(d: &std::path::Path, out: &mut Vec<std::path::PathBuf>) { if let Ok(rd) = std::fs::read_dir(d) { for e in rd.flatten() { let p = e.path(); if p.is_dir() { walk(&p, out); } else { out.push(p); } } } }
        let mut all = vec![]; walk(dir, &mut all);
        let mut v: Vec<String> = all.into_iter().filter(|p| { let s = p.display().to_string(); (s.contains("/files/") || s.contains("/blobs/")) && p.file_name().map(|n| n.len() == 64).unwrap_or(false) })
            .map(|p| { let s = p.display().to_string(); let parts: Vec<&str> = s.rsplit('/').take(3).collect(); format!("{}/{}/{}", parts[2], parts[1], parts[0]) }).collect();
        v.sort(); v
    }
    async fn wait_for(mut f: impl FnMut() -> bool, secs: u64) -> bool { for _ in 0..(secs * 10) { if f() { return true; } tokio::time::sleep(std::time::Duration::from_millis(100)).await; } f() }
    // the file secret: made before the second device exists ("enroll-later") or after it was paired
    let body: Vec<u8> = format!("transfer case {seed} {action} ").into_bytes().into_iter().cycle().take(3000).collect();
    let src = t1.path().join("source.bin"); std::fs::write(&src, &body)?;
    let mut made_id = None;
    if action == "enroll-later" {
        let secret: sos_vault::secret::Secret = src.clone().try_into()?;
        let meta = sos_vault::secret::SecretMeta::new("transferred".into(), secret.kind());
        made_id = Some(owner.create_secret(meta, secret, AccessOptions { folder: Some(default), ..Default::default() }).await?.id);
        if let Some(e) = owner.sync().await.first_error() { anyhow::bail!("owner sync: {e}"); }
        let uploaded = wait_for(|| !blobs_under(&server_dir).is_empty(), 30).await;
        rep.count(&format!("transfer:{action}:uploaded:{uploaded}"));
    } else if let Some(e) = owner.sync().await.first_error() { anyhow::bail!("owner sync: {e}"); }
    // second device by pairing
    let device_meta: sos_core::device::DeviceMetaData = Default::default();
    let mut second = {
        let (_otx, offer_rx) = tokio::sync::mpsc::channel::<()>(1);
        let (_atx, accept_rx) = tokio::sync::mpsc::channel::<()>(1);
        let (mut offer, offer_stream) = OfferPairing::new(&mut owner, url.clone()).await?;
        let share = offer.share_url().clone();
        let (mut accept, accept_stream) = AcceptPairing::new(share, &device_meta, BackendTarget::FileSystem(p2), Default::default()).await?;
        let (a, b) = tokio::join!(offer.run(offer_stream, offer_rx), accept.run(accept_stream, accept_rx));
        a.map_err(|e| anyhow::anyhow!("offer: {e}"))?; b.map_err(|e| anyhow::anyhow!("accept: {e}"))?;
        let mut enrollment = accept.take_enrollment()?;
        enrollment.fetch_account().await?;
        enrollment.finish(&key).await?
    };
    if let Some(e) = owner.sync().await.first_error() { anyhow::bail!("owner sync after pairing: {e}"); }
    if let Some(e) = second.sync().await.first_error() { anyhow::bail!("second device sync: {e}"); }
    if action != "enroll-later" {
        let secret: sos_vault::secret::Secret = src.clone().try_into()?;
        let meta = sos_vault::secret::SecretMeta::new("transferred".into(), secret.kind());
        made_id = Some(owner.create_secret(meta, secret, AccessOptions { folder: Some(if action == "delete-folder" { other } else { default }), ..Default::default() }).await?.id);
        if let Some(e) = owner.sync().await.first_error() { anyhow::bail!("owner sync: {e}"); }
        let uploaded = wait_for(|| !blobs_under(&server_dir).is_empty(), 30).await;
        rep.count(&format!("transfer:{action}:uploaded:{uploaded}"));
        if let Some(e) = second.sync().await.first_error() { anyhow::bail!("second device sync: {e}"); }
    }
    // a device that holds the file log entry but not the blob: the explicit transfer sync compares file sets with the server
    let _ = second.sync_file_transfers(&Default::default()).await;
    let downloaded = wait_for(|| !blobs_under(t2.path()).is_empty(), 30).await;
    rep.count(&format!("transfer:{action}:downloaded-on-second-device:{downloaded}"));
    let made = made_id.unwrap();
    if !downloaded {
        rep.spec_fail(&format!("c17-blob-missing-on-synced-device-{}", if action == "enroll-later" { "enrolled-after-the-file-was-made" } else { "connected-before-the-file-was-made" }), json!({"case_seed": seed, "action": action}), "a file named by the second device's file log is on the server but its blob never reaches the second device");
    }
    if action == "enroll-later" {
        rep.case(&format!("transfer:{action}:{seed}"), true);
        let _ = owner.sign_out().await; let _ = second.sign_out().await;
        live.handle.shutdown();
        return Ok(());
    }
    // the action on the first device
    match action {
        "delete" => { owner.delete_secret(&made, AccessOptions { folder: Some(default), ..Default::default() }).await?; }
        "delete-folder" => { owner.delete_folder(&other).await?; }
        _ => { owner.move_secret(&made, &default, &other, Default::default()).await?; }
    }
    for _ in 0..2 {
        if let Some(e) = owner.sync().await.first_error() { anyhow::bail!("owner sync after {action}: {e}"); }
        tokio::time::sleep(std::time::Duration::from_millis(500)).await;
        if let Some(e) = second.sync().await.first_error() { anyhow::bail!("second sync after {action}: {e}"); }
        let _ = owner.sync_file_transfers(&Default::default()).await;
        let _ = second.sync_file_transfers(&Default::default()).await;
    }
    // let the transfers settle: wait until nothing changes for a while (at most 20 s)
    let mut last = (blobs_under(&server_dir), blobs_under(t1.path()), blobs_under(t2.path())); let mut stable = 0;
    for _ in 0..200 { tokio::time::sleep(std::time::Duration::from_millis(100)).await; let now = (blobs_under(&server_dir), blobs_under(t1.path()), blobs_under(t2.path())); if now == last { stable += 1; if stable >= 30 { break; } } else { stable = 0; last = now; } }
    // expected: the files named by replaying the file log (the same on every replica after the syncs)
    async fn replay(a: &NetworkAccount) -> Result<Vec<String>, String> {
        let log = a.file_log().await.map_err(|e| e.to_string())?; let l = log.read().await;
        let files = sos_reducers::FileReducer::new(&*l).reduce(None).await.map_err(|e| e.to_string())?;
        let mut v: Vec<String> = files.iter().map(|f| format!("{}/{}/{}", f.vault_id(), f.secret_id(), f.file_name())).collect(); v.sort(); Ok(v)
    }
    let want1 = replay(&owner).await.map_err(|e| anyhow::anyhow!(e))?;
    let want2 = replay(&second).await.map_err(|e| anyhow::anyhow!(e))?;
    rep.case(&format!("transfer:{action}:{seed}"), true);
    for (who, dir, want) in [("first-device", t1.path().to_path_buf(), &want1), ("second-device", t2.path().to_path_buf(), &want2), ("server", server_dir.clone(), &want1)] {
        let have = blobs_under(&dir);
        if &have != want {
            let class = if have.len() > want.len() { "left-behind" } else if have.len() < want.len() { "missing" } else { "under-another-path" };
            rep.spec_fail(&format!("c17-blob-{class}-on-{who}-after-remote-{action}"), json!({"case_seed": seed, "action": action, "have": have, "file_log_names": want}), "after the transfers settled the blobs on a replica are not the files named by replaying the file event log");
        }
    }
    if want1 != want2 { rep.spec_fail("c17-file-logs-differ-after-sync", json!({"case_seed": seed, "first": want1, "second": want2}), "the two devices replay different file sets"); }
    let _ = owner.sign_out().await; let _ = second.sign_out().await;
    live.handle.shutdown();
    Ok(())
}

pub fn run(cli: &Cli) {
    let property = cli.extra.get("property").cloned().unwrap_or("C17".into());
    let mut rep = Report::new(&property, "files", cli.seed, &cli.tier);
    let rt = tokio::runtime::Builder::new_multi_thread().worker_threads(4).enable_all().build().unwrap();
    let n: u64 = cli.extra.get("cases").and_then(|s| s.parse().ok()).unwrap_or(if cli.tier == "thorough" { 20 } else { 5 });
    for backend in ["fs", "db"] {
        for k in 0..n {
            let case_seed = cli.seed.wrapping_mul(1_000_003).wrapping_add(k);
            if let Err(e) = rt.block_on(run_case(backend, case_seed, &mut rep)) {
                rep.notes.push(format!("case {backend}/{case_seed} aborted: {e}"));
                rep.spec_fail("c17-harness-aborted", json!({"case_seed": case_seed, "backend": backend}), &e.to_string());
            }
        }
    }
    let mut rng = Rng::new(cli.seed ^ 0x1717);
    if let Err(e) = rt.block_on(upload_cases(&mut rep, &mut rng, if cli.tier == "thorough" { 40 } else { 6 })) {
        rep.spec_fail("c17-harness-aborted", json!({"part": "upload"}), &e.to_string());
    }
    // two network devices and a live server: delete / move on one device, blobs everywhere after the transfers settled
    for (k, action) in ["delete", "move", "enroll-later", "delete-folder", "delete-folder-db", "delete-db"].into_iter().enumerate() {
        for j in 0..(if cli.tier == "thorough" { 3 } else { 1 }) {
            if let Err(e) = rt.block_on(transfer_case(&mut rep, cli.seed.wrapping_mul(1_000_003).wrapping_add(700 + 10 * k as u64 + j), action)) {
                rep.notes.push(format!("transfer case {action} aborted: {e}"));
                rep.spec_fail("c17-harness-aborted", json!({"part": "transfer", "action": action}), &e.to_string());
            }
        }
    }
    rep.rule = format!("{n} histories per backend of 4-9 file-secret operations (create with random content, replace content, move between folders, delete secret, delete folder) on a real account (age/scrypt encryption): after every step blobs on disk vs FileReducer replay of the file log, blob name vs SHA-256 of its bytes, decryption vs original content, no blob without a live secret; plus uploads to a live server: correct, one flipped bit, truncated, empty, extended bodies (accept iff hash matches, nothing partial left), then move requests to another name / elsewhere / under the same name and a delete (every file the server holds must be named by its digest); plus two NetworkAccounts paired through a live server with real file transfers: a file secret made on the first device reaches the server and the second device, the first device deletes / moves it, everybody syncs, and after the transfers settled the blobs on both devices and the server are compared with the replay of the file log");
    rep.write(&cli.out);
}
