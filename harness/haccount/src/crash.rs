//! C13: abandon a mutating operation of a real account at every await boundary (every
//! file-system call / database call is one), and tear every append at byte prefixes; then
//! open the data directory again with a fresh instance and check
//!   (a) the account opens,
//!   (b) every event log equals its state before or after the operation,
//!   (c) every folder served after the normal open path equals the replay of its log.
//!
//! "Abandon at step k": the operation's future is polled until it has returned Pending k
//! times and is then dropped, the runtime is shut down (in-flight blocking calls finish, as a
//! system call that was entered would), and nothing of the in-memory state is used again.
use crate::folder::{mk_secret, replayed, served, FView};
use crate::world::{all_logs, Recs};
use hcommon::{Cli, Report, Rng};
use secrecy::SecretString;
use serde_json::json;
use sos_account::{Account, LocalAccount};
use sos_backend::BackendTarget;
use sos_client_storage::{AccessOptions, NewFolderOptions};
use sos_core::{crypto::AccessKey, AccountId, Paths, SecretId, VaultId};
use std::collections::{BTreeMap, BTreeSet};
use std::future::Future;
use std::path::{Path, PathBuf};
use std::task::Poll;

pub fn copy_dir(src: &Path, dst: &Path) -> std::io::Result<()> {
    std::fs::create_dir_all(dst)?;
    for e in std::fs::read_dir(src)? {
        let e = e?;
        let to = dst.join(e.file_name());
        if e.file_type()?.is_dir() { copy_dir(&e.path(), &to)?; } else {
            // sqlite side files (-wal, -shm) can disappear while a closing connection checkpoints
            match std::fs::copy(e.path(), &to) { Err(x) if x.kind() == std::io::ErrorKind::NotFound => {} r => { r?; } }
        }
    }
    Ok(())
}

struct Wk(tokio::sync::Notify);
impl std::task::Wake for Wk { fn wake(self: std::sync::Arc<Self>) { self.0.notify_one(); } }

/// Poll `fut` until it completes or has returned Pending more than `budget` times.
///
/// The runtime must have exactly ONE blocking-pool thread (`max_blocking_threads(1)`): before
/// every poll that thread is occupied by a gate task, so a file-system call the operation hands
/// to the pool is queued behind the gate and its handle is necessarily Pending -- every blocking
/// call is a step boundary, deterministically.  The gate is then released, the call runs, and
/// the operation is polled again after its wake-up.  Abandoning at step k leaves the k-th call
/// executed and the (k+1)-th not issued.
pub async fn run_budget<F: Future>(fut: F, budget: usize) -> Result<(F::Output, usize), usize> {
    let mut fut = Box::pin(fut);
    let wk = std::sync::Arc::new(Wk(tokio::sync::Notify::new()));
    let waker = std::task::Waker::from(wk.clone());
    let mut n = 0usize;
    loop {
        let (tx, rx) = std::sync::mpsc::channel::<()>();
        let (stx, srx) = tokio::sync::oneshot::channel::<()>();
        let gate = tokio::task::spawn_blocking(move || { let _ = stx.send(()); let _ = rx.recv(); });
        let _ = srx.await;
        let polled = { let mut cx = std::task::Context::from_waker(&waker); fut.as_mut().poll(&mut cx) };
        drop(tx);
        let _ = gate.await;
        match polled {
            Poll::Ready(v) => return Ok((v, n)),
            Poll::Pending => {
                n += 1;
                if n > budget { return Err(n); }
                wk.0.notified().await;
            }
        }
    }
}

pub async fn target(dir: &Path, backend: &str) -> anyhow::Result<BackendTarget> {
    let paths = Paths::new_client(dir);
    if backend == "db" {
        let client = sos_database::open_file(paths.database_file()).await?;
        Ok(BackendTarget::Database(paths, client))
    } else {
        Ok(BackendTarget::FileSystem(paths))
    }
}

pub async fn open(dir: &Path, backend: &str, id: AccountId, key: &AccessKey) -> Result<LocalAccount, String> {
    let t = target(dir, backend).await.map_err(|e| format!("target: {e}"))?;
    let mut a = LocalAccount::new_unauthenticated(id, t).await.map_err(|e| format!("new_unauthenticated: {e}"))?;
    a.sign_in(key).await.map_err(|e| format!("sign_in: {e}"))?;
    Ok(a)
}

#[derive(Clone, Debug)]
pub enum OpKind { CreateSecret, UpdateSecret, DeleteSecret, RenameFolder, Describe, CreateFolder, DeleteFolder, Compact, MoveSecret, ChangeFolderPassword }
const OPS: [OpKind; 10] = [OpKind::CreateSecret, OpKind::UpdateSecret, OpKind::DeleteSecret, OpKind::RenameFolder, OpKind::Describe, OpKind::CreateFolder, OpKind::DeleteFolder, OpKind::Compact, OpKind::MoveSecret, OpKind::ChangeFolderPassword];

#[derive(Clone)]
pub struct Ctx { pub default: VaultId, pub work: VaultId, pub doomed: VaultId, pub ids: Vec<SecretId>, pub seed: u64 }

pub async fn do_op(a: &mut LocalAccount, op: &OpKind, c: &Ctx) -> Result<(), String> {
    let mut rng = Rng::new(c.seed ^ 0x1313);
    let opt = |f: VaultId| AccessOptions { folder: Some(f), ..Default::default() };
    match op {
        OpKind::CreateSecret => { let (m, s) = mk_secret(&mut rng, "crash-new"); a.create_secret(m, s, opt(c.default)).await.map(|_| ()).map_err(|e| e.to_string()) }
        OpKind::UpdateSecret => { let (m, s) = mk_secret(&mut rng, "crash-upd"); a.update_secret(&c.ids[0], m, Some(s), opt(c.default)).await.map(|_| ()).map_err(|e| e.to_string()) }
        OpKind::DeleteSecret => a.delete_secret(&c.ids[1], opt(c.default)).await.map(|_| ()).map_err(|e| e.to_string()),
        OpKind::RenameFolder => a.rename_folder(&c.default, "renamed-in-crash".into()).await.map(|_| ()).map_err(|e| e.to_string()),
        OpKind::Describe => a.set_folder_description(&c.work, "described in crash").await.map(|_| ()).map_err(|e| e.to_string()),
        OpKind::CreateFolder => a.create_folder(NewFolderOptions::new("made-in-crash".into())).await.map(|_| ()).map_err(|e| e.to_string()),
        OpKind::DeleteFolder => a.delete_folder(&c.doomed).await.map(|_| ()).map_err(|e| e.to_string()),
        OpKind::Compact => a.compact_folder(&c.default).await.map(|_| ()).map_err(|e| e.to_string()),
        OpKind::MoveSecret => a.move_secret(&c.ids[2], &c.default, &c.work, Default::default()).await.map(|_| ()).map_err(|e| e.to_string()),
        OpKind::ChangeFolderPassword => { let k: AccessKey = SecretString::from("a new folder password for verif".to_string()).into(); a.change_folder_password(&c.work, k).await.map(|_| ()).map_err(|e| e.to_string()) }
    }
}

/// what a fresh instance sees in a data directory
#[derive(Debug, Clone, Default)]
pub struct Seen { pub open_error: Option<String>, pub logs: BTreeMap<String, Recs>, pub folders: BTreeMap<VaultId, (Result<FView, String>, Result<FView, String>)> }

pub async fn inspect(dir: &Path, backend: &str, id: AccountId, key: &AccessKey) -> Seen {
    let mut seen = Seen::default();
    let mut a = match tokio::time::timeout(std::time::Duration::from_secs(60), open(dir, backend, id, key)).await { Ok(Ok(a)) => a, Ok(Err(e)) => { seen.open_error = Some(e); return seen; } Err(_) => { seen.open_error = Some("HANG on open".into()); return seen; } };
    seen.logs = all_logs(&a).await;
    let folders = a.list_folders().await.unwrap_or_default();
    for s in folders {
        let sv = served(&mut a, s.id()).await;
        let rp = replayed(&a, s.id()).await;
        seen.folders.insert(*s.id(), (sv, rp));
    }
    seen
}

/// After an abandoned database operation the dropped connection's own thread may still be
/// finishing the call that was in flight and closing (checkpointing, removing -wal/-shm).  A
/// killed process has no such thread, so wait for it before looking at the directory.
fn settle(backend: &str) { if backend == "db" { std::thread::sleep(std::time::Duration::from_millis(350)); } }

fn rt() -> tokio::runtime::Runtime { tokio::runtime::Builder::new_multi_thread().worker_threads(2).max_blocking_threads(1).enable_all().build().unwrap() }

fn same(a: &FView, b: &FView) -> bool { let mut x = a.secrets.clone(); let mut y = b.secrets.clone(); x.sort(); y.sort(); a.name == b.name && a.flags == b.flags && a.desc == b.desc && x == y }

/// file name -> (len, digest) relative to dir
pub fn tree(dir: &Path) -> BTreeMap<String, Vec<u8>> {
    fn walk(d: &Path, base: &Path, out: &mut BTreeMap<String, Vec<u8>>) { if let Ok(rd) = std::fs::read_dir(d) { for e in rd.flatten() { let p = e.path(); if p.is_dir() { walk(&p, base, out); } else if let Ok(b) = std::fs::read(&p) { out.insert(p.strip_prefix(base).unwrap().display().to_string(), b); } } } }
    let mut m = BTreeMap::new(); walk(dir, dir, &mut m); m
}

fn kind_of_file(name: &str) -> &'static str {
    if name.ends_with(".events") { if name.contains("vaults/") || name.contains("/vaults") { "folder-log" } else { "account-level-log" } }
    else if name.ends_with(".vault") { "vault" } else if name.ends_with(".db") || name.contains(".db-") { "database" } else { "other" }
}

/// abstract description of how the files differ from `base`
pub fn describe(base: &BTreeMap<String, Vec<u8>>, now: &BTreeMap<String, Vec<u8>>) -> String {
    let mut out = BTreeSet::new();
    for (k, v) in now {
        match base.get(k) {
            None => { out.insert(format!("{}:new", kind_of_file(k))); }
            Some(b) if b == v => {}
            Some(b) => {
                let how = if v.is_empty() { "emptied" } else if v.len() > b.len() && v.starts_with(b) { "appended" } else if v.len() < b.len() && b.starts_with(v) { "truncated" } else { "rewritten" };
                out.insert(format!("{}:{how}", kind_of_file(k)));
            }
        }
    }
    for k in base.keys() { if !now.contains_key(k) { out.insert(format!("{}:removed", kind_of_file(k))); } }
    if out.is_empty() { "unchanged".into() } else { out.into_iter().collect::<Vec<_>>().join(",") }
}

/// canonical log names: folders that did not exist before are called folder:new
fn canon(logs: &BTreeMap<String, Recs>, known: &BTreeSet<String>) -> BTreeMap<String, Vec<String>> {
    let mut m: BTreeMap<String, Vec<String>> = BTreeMap::new();
    for (k, v) in logs { let name = if known.contains(k) || !k.starts_with("folder:") { k.clone() } else { "folder:new".to_string() }; m.insert(name, v.iter().map(|r| r.0.clone()).collect()); }
    m
}

pub struct Judge<'a> { pub before: &'a Seen, pub after: &'a Seen, pub op: String, pub backend: String, pub seed: u64 }

impl<'a> Judge<'a> {
    /// compare what is seen after a crash with the before / after states
    pub fn judge(&self, rep: &mut Report, seen: &Seen, how: &str, point: serde_json::Value, files: &str) {
        let op = &self.op; let be = &self.backend;
        let ctx = |extra: serde_json::Value| json!({"case_seed": self.seed, "backend": be, "op": op, "crash": point, "files": files, "detail": extra});
        if let Some(e) = &seen.open_error {
            rep.spec_fail(&format!("c13-account-does-not-open-after-{how}:{op}:{be}:{files}"), ctx(json!({"error": e})), "after the crash the account cannot be opened");
            return;
        }
        let known: BTreeSet<String> = self.before.logs.keys().cloned().collect();
        let b = canon(&self.before.logs, &known); let a = canon(&self.after.logs, &known); let r = canon(&seen.logs, &known);
        if std::env::var("CRASH_DEBUG").is_ok() { eprintln!("JUDGE {how} {op} {files}: before={:?} after={:?} seen={:?}", b.iter().map(|(k, v)| (k.clone(), v.len())).collect::<Vec<_>>(), a.iter().map(|(k, v)| (k.clone(), v.len())).collect::<Vec<_>>(), r.iter().map(|(k, v)| (k.clone(), v.len())).collect::<Vec<_>>()); }
        let names: BTreeSet<&String> = b.keys().chain(a.keys()).chain(r.keys()).collect();
        for n in names {
            let (bl, al, rl) = (b.get(n), a.get(n), r.get(n));
            let is_before = rl == bl;
            let is_after = match (al, rl) {
                (None, None) => true,
                (Some(al), Some(rl)) => {
                    // same length and the same relation to the old log (the new records carry fresh ids, times and nonces)
                    let bl0 = bl.cloned().unwrap_or_default();
                    let cp = |x: &Vec<String>| x.iter().zip(bl0.iter()).take_while(|(p, q)| p == q).count();
                    al.len() == rl.len() && cp(al) == cp(rl)
                }
                _ => false,
            };
            if !is_before && !is_after {
                let kind = if n.starts_with("folder:") { "folder-log" } else { n.as_str() };
                let shape = match rl { None => "missing".to_string(), Some(rl) if rl.is_empty() => "emptied".to_string(), Some(rl) => format!("{}-records-before-{}-after-{}", rl.len(), bl.map(|x| x.len()).unwrap_or(0), al.map(|x| x.len()).unwrap_or(0)) };
                let shape_class = match rl { None => "missing", Some(rl) if rl.is_empty() => "emptied", _ => "other" };
                rep.spec_fail(&format!("c13-log-neither-before-nor-after-{how}:{op}:{be}:{kind}:{shape_class}"), ctx(json!({"log": n, "shape": shape})), "after the crash an event log is neither in its state before nor after the interrupted operation");
            }
        }
        let norm = |v: &FView| { let mut d: Vec<String> = v.secrets.iter().map(|x| x.1.clone()).collect(); d.sort(); (v.name.clone(), v.flags, v.desc.clone(), d) };
        let slug = |e: &str| -> String { let t: String = e.chars().map(|c| if c.is_ascii_alphanumeric() { c.to_ascii_lowercase() } else { '-' }).collect(); let mut out = String::new(); for part in t.split('-').filter(|p| !p.is_empty() && p.len() < 14 && !p.chars().any(|c| c.is_ascii_digit())).take(6) { if !out.is_empty() { out.push('-'); } out.push_str(part); } out };
        for (id, (sv, rp)) in &seen.folders {
            match (sv, rp) {
                (Ok(s), Ok(p)) => if !same(s, p) {
                    let what = if s.name != p.name { "name" } else if s.flags != p.flags { "flags" } else if s.desc != p.desc { "description" } else { "secrets" };
                    let b = self.before.folders.get(id).and_then(|x| x.0.as_ref().ok());
                    let a = self.after.folders.get(id).and_then(|x| x.0.as_ref().ok());
                    let rel = match (b, a) {
                        (Some(b), Some(a)) if norm(s) == norm(a) && norm(p) == norm(b) => "vault-ahead-of-log",
                        (Some(b), Some(a)) if norm(s) == norm(b) && norm(p) == norm(a) => "log-ahead-of-vault",
                        (Some(b), None) if norm(p) == norm(b) => "vault-ahead-of-log",
                        (None, _) => "new-folder",
                        _ => "other",
                    };
                    rep.spec_fail(&format!("c13-served-differs-from-replay-after-{how}:{op}:{be}:{rel}:{what}"), ctx(json!({"folder": id.to_string(), "served": format!("{s:?}"), "replay": format!("{p:?}")})), "after the crash the folder served by the normal open path differs from the replay of its log");
                },
                (Err(e), _) => rep.spec_fail(&format!("c13-folder-not-served-after-{how}:{op}:{be}:{}", slug(e)), ctx(json!({"folder": id.to_string(), "error": e})), "after the crash a listed folder cannot be read"),
                (_, Err(e)) => rep.spec_fail(&format!("c13-folder-log-does-not-replay-after-{how}:{op}:{be}:{}", slug(e)), ctx(json!({"folder": id.to_string(), "error": e})), "after the crash a folder's log cannot be replayed"),
            }
        }
    }
}

/// the files of one folder only (vault, event log, temporary and snapshot files next to them)
fn folder_files(t: &BTreeMap<String, Vec<u8>>, folder: &VaultId) -> BTreeMap<String, Vec<u8>> {
    let id = folder.to_string();
    t.iter().filter(|(k, _)| k.contains(&id)).map(|(k, v)| (k.clone(), v.clone())).collect()
}

fn corr_folder(op: &OpKind, c: &Ctx) -> Option<VaultId> {
    match op { OpKind::CreateSecret | OpKind::UpdateSecret | OpKind::DeleteSecret | OpKind::RenameFolder => Some(c.default), OpKind::Describe => Some(c.work), _ => None }
}

/// (secret rows, event log) of one folder after a crash: `b`efore / `a`fter / `x` other, each
fn state_code(before: &Seen, after: &Seen, seen: &Seen, folder: &VaultId) -> String {
    let norm = |v: &FView| { let mut d: Vec<String> = v.secrets.iter().map(|x| x.1.clone()).collect(); d.sort(); (v.name.clone(), v.flags, v.desc.clone(), d) };
    let sv = |s: &Seen| s.folders.get(folder).and_then(|x| x.0.as_ref().ok()).map(norm);
    let lg = |s: &Seen| s.logs.get(&format!("folder:{folder}")).map(|l| l.len());
    let v = if sv(seen) == sv(before) { "b" } else if sv(seen) == sv(after) { "a" } else { "x" };
    let l = if lg(seen) == lg(before) { "b" } else if lg(seen) == lg(after) { "a" } else { "x" };
    format!("{v}{l}")
}

pub struct Corr { pub ops: Vec<String>, pub imp: Vec<String> }

pub fn run_case(backend: &str, seed: u64, rep: &mut Report, thorough: bool, corr: &mut Corr, only: &Option<Vec<String>>) -> anyhow::Result<()> {
    let mut rng = Rng::new(seed ^ 0x13);
    let root = PathBuf::from("/verif/run/tmp").join(format!("crash-{seed}-{backend}-{}", std::process::id()));
    let _ = std::fs::remove_dir_all(&root);
    std::fs::create_dir_all(&root)?;
    let password: SecretString = "correct horse battery staple verif".to_string().into();
    let key: AccessKey = password.clone().into();
    // base account
    let base = root.join("base");
    let (account_id, ctx) = {
        let r = rt();
        let out = r.block_on(async {
            std::fs::create_dir_all(&base)?;
            let paths = Paths::new_client(&base);
            let t = if backend == "db" {
                std::fs::create_dir_all(paths.documents_dir())?;
                let mut client = sos_database::open_file(paths.database_file()).await?;
                sos_database::migrations::migrate_client(&mut client).await?;
                BackendTarget::Database(paths, client)
            } else { Paths::scaffold(paths.documents_dir()).await?; BackendTarget::FileSystem(paths) };
            let mut a = LocalAccount::new_account("verif".to_string(), password.clone(), t).await?;
            a.sign_in(&key).await?;
            let default = *a.default_folder().await.unwrap().id();
            let mut ids = vec![];
            for i in 0..3 { let (m, s) = mk_secret(&mut rng, &format!("s{i}")); ids.push(a.create_secret(m, s, AccessOptions { folder: Some(default), ..Default::default() }).await?.id); }
            let work = *a.create_folder(NewFolderOptions::new("work".into())).await?.folder.id();
            let doomed = *a.create_folder(NewFolderOptions::new("doomed".into())).await?.folder.id();
            { let (m, s) = mk_secret(&mut rng, "in-work"); a.create_secret(m, s, AccessOptions { folder: Some(work), ..Default::default() }).await?; }
            { let (m, s) = mk_secret(&mut rng, "in-doomed"); a.create_secret(m, s, AccessOptions { folder: Some(doomed), ..Default::default() }).await?; }
            { let (m, s) = mk_secret(&mut rng, "s0-upd"); a.update_secret(&ids[0], m, Some(s), AccessOptions { folder: Some(default), ..Default::default() }).await?; }
            let id = *a.account_id();
            a.sign_out().await?;
            anyhow::Ok((id, Ctx { default, work, doomed, ids, seed }))
        })?;
        r.shutdown_timeout(std::time::Duration::from_secs(10));
        if backend == "db" { std::thread::sleep(std::time::Duration::from_millis(400)); }
        out
    };
    let base_tree = tree(&base);
    let before = { let r = rt(); let probe = root.join("before"); copy_dir(&base, &probe)?; let s = r.block_on(inspect(&probe, backend, account_id, &key)); r.shutdown_timeout(std::time::Duration::from_secs(10)); let _ = std::fs::remove_dir_all(&probe); s };
    if let Some(e) = &before.open_error { anyhow::bail!("base account does not open: {e}"); }
    let n_ops = if thorough { OPS.len() } else { 4 };
    let mut ops: Vec<OpKind> = OPS.to_vec();
    // rotate so that different seeds cover different operations in the quick tier
    let rot = (seed as usize) % ops.len(); ops.rotate_left(rot);
    let ops: Vec<OpKind> = match only { Some(names) => OPS.iter().filter(|o| names.contains(&format!("{o:?}"))).cloned().collect(), None => ops.into_iter().take(n_ops).collect() };
    for op in ops {
        let opname = format!("{op:?}");
        // run to completion: number of steps and the after state
        let full = root.join("full"); let _ = std::fs::remove_dir_all(&full); copy_dir(&base, &full)?;
        let r = rt();
        let done = r.block_on(async { let mut a = open(&full, backend, account_id, &key).await?; let res = run_budget(do_op(&mut a, &op, &ctx), usize::MAX).await; drop(a); match res { Ok((Ok(()), n)) => Ok(n), Ok((Err(e), _)) => Err(format!("operation failed: {e}")), Err(_) => Err("budget".into()) } });
        r.shutdown_timeout(std::time::Duration::from_secs(10));
        let steps = match done { Ok(n) => n, Err(e) => { rep.notes.push(format!("{opname}/{backend}: {e}")); rep.count(&format!("op-not-run:{opname}")); continue; } };
        let after_tree = tree(&full);
        let after = { let r = rt(); let s = r.block_on(inspect(&full, backend, account_id, &key)); r.shutdown_timeout(std::time::Duration::from_secs(10)); s };
        let judge = Judge { before: &before, after: &after, op: opname.clone(), backend: backend.into(), seed };
        // sanity: the completed operation itself must satisfy the checks
        judge.judge(rep, &after, "completion", json!("none"), "completed");
        rep.count(&format!("steps:{opname}:{backend}={steps}"));
        // crash at every step boundary (sampled in the quick tier)
        let corr_of = if backend == "fs" { corr_folder(&op, &ctx) } else { None };
        let mut observed: BTreeSet<String> = BTreeSet::new();
        if let Some(f) = &corr_of { observed.insert(describe(&folder_files(&base_tree, f), &folder_files(&after_tree, f))); }
        let points: Vec<usize> = if thorough || steps <= 40 || corr_of.is_some() { (0..steps).collect() } else { let stride = (steps + 39) / 40; (0..steps).step_by(stride).collect() };
        let mut seen_states: BTreeSet<String> = BTreeSet::new();
        let mut db_codes: BTreeSet<String> = BTreeSet::new();
        // the completed state and the state before the first call (a process can die before issuing anything)
        if let (true, Some(f)) = (backend == "db", corr_folder(&op, &ctx)) { db_codes.insert(state_code(&before, &after, &after, &f)); db_codes.insert(state_code(&before, &after, &before, &f)); }
        for k in points {
            let trial = root.join("trial"); let _ = std::fs::remove_dir_all(&trial); copy_dir(&base, &trial)?;
            let r = rt();
            let res = r.block_on(async { let mut a = match open(&trial, backend, account_id, &key).await { Ok(a) => a, Err(e) => return Err(e) }; let res = run_budget(do_op(&mut a, &op, &ctx), k).await; drop(a); Ok(res.is_ok()) });
            r.shutdown_timeout(std::time::Duration::from_secs(10));
            settle(backend);
            match res { Err(e) => { rep.notes.push(format!("trial open failed: {e}")); continue; } Ok(_) => {} }
            let trial_tree = tree(&trial);
            let files = describe(&base_tree, &trial_tree);
            if let Some(f) = &corr_of { observed.insert(describe(&folder_files(&base_tree, f), &folder_files(&trial_tree, f))); }
            // identical file states need not be inspected twice (file-system backend)
            let state_key = if backend == "fs" { let t = tree(&trial); let mut h = String::new(); for (k, v) in &t { h.push_str(k); h.push_str(&hex::encode(&hcommon::sha256(v)[..6])); } h } else { format!("k{k}") };
            rep.case(&format!("{backend}:{opname}:step:{files}"), files != "unchanged");
            if !seen_states.insert(state_key) { rep.count("crash-point-with-already-inspected-state"); continue; }
            let r = rt(); let seen = r.block_on(inspect(&trial, backend, account_id, &key)); r.shutdown_timeout(std::time::Duration::from_secs(10));
            rep.count(&format!("state:{opname}:{backend}:{files}"));
            if let (true, Some(f)) = (backend == "db", corr_folder(&op, &ctx)) { db_codes.insert(state_code(&before, &after, &seen, &f)); }
            judge.judge(rep, &seen, "crash", json!({"step": k, "of": steps}), &files);
        }
        if backend == "db" && corr_folder(&op, &ctx).is_some() {
            // database backend: which (rows, log) combinations the crash points left, against the model's transactions
            corr.ops.push("crash dbstates".to_string());
            corr.imp.push(format!("dbstates {}", db_codes.iter().cloned().collect::<Vec<_>>().join("|")));
        }
        if corr_of.is_some() {
            corr.ops.push(format!("crash states op={opname}"));
            corr.imp.push(format!("states {}", observed.iter().cloned().collect::<Vec<_>>().join("|")));
        }
        // torn appends (file-system backend): every file that grew is cut inside the appended region,
        // everything else as after the operation (later writes of the same operation would not have happened:
        // so only files written LAST can be torn with the others complete; we tear each grown file with the
        // files that changed after it left as before -- approximated by tearing in the crash state where it first grew)
        if backend == "fs" {
            for (name, now) in &after_tree {
                let Some(b) = base_tree.get(name) else { continue };
                if !(now.len() > b.len() && now.starts_with(b)) { continue; }
                let appended = now.len() - b.len();
                let cuts: Vec<usize> = if thorough && appended <= 200 { (1..appended).collect() } else if thorough { let stride = appended / 60 + 1; let mut c: BTreeSet<usize> = (1..appended).step_by(stride).collect(); for x in [1, 2, 3, 4, 5, 8, appended - 5, appended - 4, appended - 3, appended - 1] { if x > 0 && x < appended { c.insert(x); } } c.into_iter().collect() } else { let mut c: BTreeSet<usize> = [1, 2, 3, 4, 5, 8, 12, appended / 2, appended - 5, appended - 4, appended - 3, appended - 1].into_iter().filter(|x| *x > 0 && *x < appended).collect(); for _ in 0..6 { c.insert(1 + rng.below((appended - 1) as u64) as usize); } c.into_iter().collect() };
                for cut in cuts {
                    let trial = root.join("trial"); let _ = std::fs::remove_dir_all(&trial); copy_dir(&base, &trial)?;
                    // state: files of the base, this file torn
                    std::fs::write(trial.join(name), &now[..b.len() + cut])?;
                    let r = rt(); let seen = r.block_on(inspect(&trial, backend, account_id, &key)); r.shutdown_timeout(std::time::Duration::from_secs(10));
                    let fk = kind_of_file(name);
                    rep.case(&format!("{backend}:{opname}:torn:{fk}:{}", if cut < 8 { cut } else { 8 + cut % 7 }), true);
                    rep.count(&format!("torn:{opname}:{fk}"));
                    judge.judge(rep, &seen, "torn-append", json!({"file": name, "appended": appended, "kept": cut}), &format!("{fk}:torn"));
                    // model correspondence: what load_tree makes of these bytes
                    if name.ends_with(".events") && seen.open_error.is_none() {
                        let hdr = if fk == "folder-log" || name.contains("identity/") { 4 } else { 6 };
                        let bytes = &now[..b.len() + cut];
                        let logname = if fk == "folder-log" { let stem = Path::new(name).file_stem().unwrap().to_string_lossy().to_string(); format!("folder:{stem}") } else if name.ends_with("account.events") { "account".to_string() } else if name.ends_with("devices.events") { "device".to_string() } else if name.ends_with("files.events") { "files".to_string() } else { "identity".to_string() };
                        if let Some(l) = seen.logs.get(&logname) {
                            let left = std::fs::metadata(trial.join(name)).map(|m| m.len() as usize).unwrap_or(0);
                            if bytes.len() < 6000 {
                                corr.ops.push(format!("crash scan hex={}", hex::encode(&bytes[hdr..])));
                                if left > bytes.len() { rep.spec_fail(&format!("c13-torn-log-grew-on-open:{opname}:{fk}"), json!({"case_seed": seed, "file": name, "kept": cut, "length_before_open": bytes.len(), "length_after_open": left}), "opening a log with a torn tail made the file longer (padding) instead of discarding the partial record"); }
                                corr.imp.push(format!("records={} cut={}", l.len(), bytes.len() as i64 - left as i64));
                            }
                        }
                    }
                }
            }
        }
        let _ = std::fs::remove_dir_all(&full);
    }
    if let Err(e) = run_log_case(backend, seed, rep, thorough, corr, &base, account_id, ctx.default, &root) {
        rep.spec_fail("c13-harness-aborted", json!({"case_seed": seed, "backend": backend, "part": "log"}), &e.to_string());
    }
    if backend == "fs" {
        if let Err(e) = account_log_replace_case(seed, rep, &base, account_id, &root) {
            rep.spec_fail("c13-harness-aborted", json!({"case_seed": seed, "backend": backend, "part": "account-log"}), &e.to_string());
        }
    }
    let _ = std::fs::remove_dir_all(&root);
    Ok(())
}


// ---------------------------------------------------------------------------------------------
// event-log level: apply_records (batch), rewind, replace_all_events on the folder log
// ---------------------------------------------------------------------------------------------
use sos_backend::BackendEventLog;
use sos_core::events::{patch::{Diff, Patch}, EventLog, EventLogType, EventRecord, WriteEvent};
use sos_core::commit::{CommitHash, CommitTree};

type FLog = BackendEventLog<WriteEvent>;

async fn open_log(dir: &Path, backend: &str, account: AccountId, folder: VaultId) -> Result<FLog, String> {
    let paths = Paths::new_client(dir).with_account_id(&account);
    let mut log: FLog = if backend == "db" {
        let client = sos_database::open_file(paths.database_file()).await.map_err(|e| e.to_string())?;
        BackendEventLog::Database(sos_database::DatabaseEventLog::<WriteEvent, sos_backend::Error>::new_folder(client, account, folder).await.map_err(|e| e.to_string())?)
    } else {
        BackendEventLog::FileSystem(sos_filesystem::FileSystemEventLog::<WriteEvent, sos_backend::Error>::new_folder(paths.event_log_path(&folder), account, EventLogType::Folder(folder)).await.map_err(|e| e.to_string())?)
    };
    log.load_tree().await.map_err(|e| format!("load_tree: {e}"))?;
    Ok(log)
}

async fn commits_of(log: &FLog) -> Result<Vec<String>, String> {
    use futures::StreamExt;
    let stream = log.record_stream(false).await;
    futures::pin_mut!(stream);
    let mut out = vec![];
    while let Some(r) = stream.next().await { match r { Ok(r) => out.push(r.commit().to_string()), Err(e) => return Err(e.to_string()) } }
    // the in-memory tree must agree with the stored records
    let leaves: Vec<String> = log.tree().leaves().unwrap_or_default().iter().map(|l| CommitHash(*l).to_string()).collect();
    if leaves != out { return Err(format!("tree has {} leaves, log {} records", leaves.len(), out.len())); }
    Ok(out)
}

#[derive(Clone, Debug)]
enum LogOp { ApplyBatch, Rewind, ReplaceAll }

async fn do_log_op(log: &mut FLog, op: &LogOp, new: &[EventRecord], rewind_to: &CommitHash) -> Result<(), String> {
    match op {
        LogOp::ApplyBatch => log.apply_records(new.to_vec()).await.map_err(|e| e.to_string()),
        LogOp::Rewind => log.rewind(rewind_to).await.map(|_| ()).map_err(|e| e.to_string()),
        LogOp::ReplaceAll => {
            let mut t = CommitTree::new();
            let mut hashes: Vec<[u8; 32]> = new.iter().map(|r| *r.commit().as_ref()).collect();
            t.append(&mut hashes); t.commit();
            let diff = Diff::<WriteEvent> { last_commit: None, patch: Patch::new(new.to_vec()), checkpoint: t.head().map_err(|e| e.to_string())? };
            log.replace_all_events(&diff).await.map_err(|e| e.to_string())
        }
    }
}

/// The ACCOUNT log file has a six-byte header (identity + encoding version; folder logs have four bytes).
/// `replace_all_events` on it is abandoned at every blocking call; a log that opens afterwards must stay usable:
/// one more event is appended and a fresh instance must read what was read before plus that event.
pub fn account_log_replace_case(seed: u64, rep: &mut Report, base: &Path, account: AccountId, root: &Path) -> anyhow::Result<()> {
    use sos_core::events::AccountEvent;
    type ALog = sos_filesystem::FileSystemEventLog<AccountEvent, sos_backend::Error>;
    async fn open_a(dir: &Path, account: AccountId) -> Result<ALog, String> {
        let paths = Paths::new_client(dir).with_account_id(&account);
        let mut log = ALog::new_account(paths.account_events(), account).await.map_err(|e| format!("open: {e}"))?;
        log.load_tree().await.map_err(|e| format!("load_tree: {e}"))?;
        Ok(log)
    }
    async fn commits_a(log: &ALog) -> Result<Vec<String>, String> {
        use futures::StreamExt;
        let stream = log.record_stream(false).await; futures::pin_mut!(stream);
        let mut out = vec![];
        while let Some(r) = stream.next().await { match r { Ok(r) => out.push(r.commit().to_string()), Err(e) => return Err(e.to_string()) } }
        Ok(out)
    }
    async fn replace(log: &mut ALog, new: &[EventRecord]) -> Result<(), String> {
        let mut t = CommitTree::new();
        let mut hashes: Vec<[u8; 32]> = new.iter().map(|r| *r.commit().as_ref()).collect();
        t.append(&mut hashes); t.commit();
        let diff = Diff::<AccountEvent> { last_commit: None, patch: Patch::new(new.to_vec()), checkpoint: t.head().map_err(|e| e.to_string())? };
        log.replace_all_events(&diff).await.map_err(|e| e.to_string())
    }
    let r = rt();
    let (before, new) = r.block_on(async {
        let probe = root.join("aprobe"); let _ = std::fs::remove_dir_all(&probe); copy_dir(base, &probe).map_err(|e| e.to_string())?;
        let log = open_a(&probe, account).await?;
        let before = commits_a(&log).await?;
        let mut new = vec![];
        for i in 0..2 { new.push(EventRecord::encode_event(&AccountEvent::RenameAccount(format!("crash-{seed}-{i}"))).await.map_err(|e| e.to_string())?); }
        let _ = std::fs::remove_dir_all(&probe);
        Ok::<_, String>((before, new))
    }).map_err(|e| anyhow::anyhow!(e))?;
    r.shutdown_timeout(std::time::Duration::from_secs(10));
    let after: Vec<String> = new.iter().map(|r| r.commit().to_string()).collect();
    // number of steps of the complete operation
    let full = root.join("afull"); let _ = std::fs::remove_dir_all(&full); copy_dir(base, &full)?;
    let r = rt();
    let steps = r.block_on(async { let mut log = open_a(&full, account).await?; match run_budget(replace(&mut log, &new), usize::MAX).await { Ok((Ok(()), n)) => Ok(n), Ok((Err(e), _)) => Err(e), Err(_) => Err("budget".to_string()) } });
    r.shutdown_timeout(std::time::Duration::from_secs(10));
    let _ = std::fs::remove_dir_all(&full);
    let steps = match steps { Ok(n) => n, Err(e) => { rep.spec_fail("c13-log-operation-failed:ReplaceAll:fs:account-log", json!({"case_seed": seed}), &e); return Ok(()); } };
    rep.count(&format!("steps:ReplaceAll:fs:account-log={steps}"));
    let mut seen = BTreeSet::new();
    for k in 0..steps {
        let trial = root.join("atrial"); let _ = std::fs::remove_dir_all(&trial); copy_dir(base, &trial)?;
        let r = rt();
        let _ = r.block_on(async { let mut log = open_a(&trial, account).await?; let res = run_budget(replace(&mut log, &new), k).await; drop(log); Ok::<bool, String>(res.is_ok()) });
        r.shutdown_timeout(std::time::Duration::from_secs(10));
        let paths = Paths::new_client(&trial).with_account_id(&account);
        let bytes = std::fs::read(paths.account_events()).unwrap_or_default();
        if !seen.insert(hcommon::sha256(&bytes)) { continue; }
        rep.case(&format!("fs:account-log:ReplaceAll:step:{}", bytes.len()), true);
        let r = rt();
        let verdict = r.block_on(async {
            let l = { let log = open_a(&trial, account).await?; commits_a(&log).await? };
            let extra = EventRecord::encode_event(&AccountEvent::RenameAccount(format!("after-crash-{seed}"))).await.map_err(|e| e.to_string())?;
            let c = extra.commit().to_string();
            { let mut log = open_a(&trial, account).await?; log.apply_records(vec![extra]).await.map_err(|e| format!("append after recovery: {e}"))?; }
            let log = open_a(&trial, account).await.map_err(|e| format!("re-open after an append: {e}"))?;
            let now = commits_a(&log).await.map_err(|e| format!("read after an append: {e}"))?;
            let mut want = l.clone(); want.push(c);
            if now != want { return Err(format!("after an append the log holds {} records, expected {}", now.len(), want.len())); }
            Ok::<Vec<String>, String>(l)
        });
        r.shutdown_timeout(std::time::Duration::from_secs(10));
        match verdict {
            Ok(l) => { rep.count(&format!("account-log:ReplaceAll:state:{}", if l == before { "before" } else if l == after { "after" } else if l.is_empty() { "emptied" } else { "other" })); }
            Err(e) => rep.spec_fail(&format!("c13-log-unusable-after-crash:ReplaceAll:fs:account-log:file-of-{}-bytes", bytes.len().min(99)), json!({"case_seed": seed, "step": k, "of": steps, "file_length": bytes.len()}), &e),
        }
    }
    Ok(())
}

pub fn run_log_case(backend: &str, seed: u64, rep: &mut Report, thorough: bool, corr: &mut Corr, base: &Path, account: AccountId, folder: VaultId, root: &Path) -> anyhow::Result<()> {
    let base_tree = tree(base);
    // before
    let (before, new, rewind_to) = {
        let r = rt();
        let probe = root.join("lprobe"); let _ = std::fs::remove_dir_all(&probe); copy_dir(base, &probe)?;
        let out = r.block_on(async {
            let log = open_log(&probe, backend, account, folder).await.map_err(|e| anyhow::anyhow!(e))?;
            let before = commits_of(&log).await.map_err(|e| anyhow::anyhow!(e))?;
            let mut new = vec![];
            for i in 0..3 { new.push(EventRecord::encode_event(&WriteEvent::SetVaultName(format!("crash-{seed}-{i}"))).await?); }
            anyhow::Ok((before, new))
        })?;
        r.shutdown_timeout(std::time::Duration::from_secs(10));
        let _ = std::fs::remove_dir_all(&probe);
        let k = out.0.len() / 2;
        let target: CommitHash = out.0[k].parse().map_err(|_| anyhow::anyhow!("commit parse"))?;
        (out.0, out.1, target)
    };
    let new_commits: Vec<String> = new.iter().map(|r| r.commit().to_string()).collect();
    for op in [LogOp::ApplyBatch, LogOp::Rewind, LogOp::ReplaceAll] {
        let opname = format!("{op:?}");
        let expected_after: Vec<String> = match op {
            LogOp::ApplyBatch => before.iter().cloned().chain(new_commits.iter().cloned()).collect(),
            LogOp::Rewind => before[..before.len() / 2 + 1].to_vec(),
            LogOp::ReplaceAll => new_commits.clone(),
        };
        let full = root.join("lfull"); let _ = std::fs::remove_dir_all(&full); copy_dir(base, &full)?;
        let r = rt();
        let done = r.block_on(async { let mut log = open_log(&full, backend, account, folder).await?; let res = run_budget(do_log_op(&mut log, &op, &new, &rewind_to), usize::MAX).await; drop(log); match res { Ok((Ok(()), n)) => Ok(n), Ok((Err(e), _)) => Err(format!("operation failed: {e}")), Err(_) => Err("budget".into()) } });
        r.shutdown_timeout(std::time::Duration::from_secs(10));
        let steps = match done { Ok(n) => n, Err(e) => { rep.spec_fail(&format!("c13-log-operation-failed:{opname}:{backend}"), json!({"case_seed": seed}), &e); continue; } };
        rep.count(&format!("steps:{opname}:{backend}={steps}"));
        let after_tree = tree(&full);
        let mut observed: BTreeSet<String> = BTreeSet::new();
        observed.insert(describe(&folder_files(&base_tree, &folder), &folder_files(&after_tree, &folder)));
        let mut check = |rep: &mut Report, dir: &Path, how: &str, point: serde_json::Value| {
            let r = rt();
            let got = r.block_on(async { let log = open_log(dir, backend, account, folder).await?; commits_of(&log).await });
            r.shutdown_timeout(std::time::Duration::from_secs(10));
            let ctx = json!({"case_seed": seed, "backend": backend, "op": opname, "crash": point});
            // a log that opens after the crash must also stay usable: one more record is appended, and a fresh instance
            // must then read what was read before plus that record
            if let Ok(l) = &got {
                let r = rt();
                let again = r.block_on(async {
                    let extra = EventRecord::encode_event(&WriteEvent::SetVaultName(format!("after-crash-{seed}"))).await.map_err(|e| e.to_string())?;
                    let c = extra.commit().to_string();
                    { let mut log = open_log(dir, backend, account, folder).await?; log.apply_records(vec![extra]).await.map_err(|e| format!("append after recovery: {e}"))?; }
                    let log = open_log(dir, backend, account, folder).await.map_err(|e| format!("re-open after append: {e}"))?;
                    let now = commits_of(&log).await.map_err(|e| format!("read after append: {e}"))?;
                    let mut want = l.clone(); want.push(c);
                    if now != want { return Err(format!("after an append the log holds {} records, expected {}", now.len(), want.len())); }
                    Ok::<(), String>(())
                });
                r.shutdown_timeout(std::time::Duration::from_secs(10));
                if let Err(e) = again {
                    let shape = if l.is_empty() { "emptied" } else if l == &before { "before" } else if l == &expected_after { "after" } else { "other" };
                    rep.spec_fail(&format!("c13-log-unusable-after-{how}:{opname}:{backend}:{shape}"), json!({"case": ctx, "records": l.len()}), &e);
                }
            }
            match got {
                Err(e) => rep.spec_fail(&format!("c13-log-does-not-open-after-{how}:{opname}:{backend}"), ctx, &e),
                Ok(l) => if l != before && l != expected_after {
                    let shape = if l.is_empty() { "emptied" } else if l.len() > before.len() && l.starts_with(&before) && expected_after.starts_with(&l) { "part-of-the-batch" } else if expected_after.starts_with(&l) { "part-of-the-new-log" } else { "other" };
                    rep.spec_fail(&format!("c13-log-neither-before-nor-after-{how}:{opname}:{backend}:{shape}"), json!({"case": ctx, "records": l.len(), "before": before.len(), "after": expected_after.len()}), "after the crash the event log is neither in its state before nor after the interrupted operation");
                },
            }
        };
        check(rep, &full, "completion", json!("none"));
        let mut seen_states = BTreeSet::new();
        for k in 0..steps {
            let trial = root.join("ltrial"); let _ = std::fs::remove_dir_all(&trial); copy_dir(base, &trial)?;
            let r = rt();
            let _ = r.block_on(async { let mut log = open_log(&trial, backend, account, folder).await?; let res = run_budget(do_log_op(&mut log, &op, &new, &rewind_to), k).await; drop(log); Ok::<bool, String>(res.is_ok()) });
            r.shutdown_timeout(std::time::Duration::from_secs(10));
            settle(backend);
            let tt = tree(&trial);
            let d = describe(&folder_files(&base_tree, &folder), &folder_files(&tt, &folder));
            rep.case(&format!("{backend}:log:{opname}:step:{d}"), d != "unchanged");
            if backend == "fs" { observed.insert(d.clone()); let key: String = folder_files(&tt, &folder).iter().map(|(k, v)| format!("{k}{}", hex::encode(&hcommon::sha256(v)[..6]))).collect(); if !seen_states.insert(key) { continue; } }
            check(rep, &trial, "crash", json!({"step": k, "of": steps, "files": d}));
        }
        if backend == "fs" {
            let m = match op { LogOp::ApplyBatch => "ApplyRecords", LogOp::Rewind => "Rewind", LogOp::ReplaceAll => "ReplaceAll" };
            corr.ops.push(format!("crash states op={m}"));
            corr.imp.push(format!("states {}", observed.iter().cloned().collect::<Vec<_>>().join("|")));
            // torn batch append: every byte prefix (thorough) of the appended region
            if let LogOp::ApplyBatch = op {
                let name = folder_files(&after_tree, &folder).keys().find(|k| k.ends_with(".events")).cloned().unwrap();
                let (b, now) = (&base_tree[&name], &after_tree[&name]);
                let appended = now.len() - b.len();
                let cuts: Vec<usize> = if thorough { (1..appended).collect() } else { let one = appended / 3; let mut c: BTreeSet<usize> = [1, 3, 4, 5, one - 1, one, one + 1, one + 4, 2 * one, 2 * one + 5, appended - 4, appended - 1].into_iter().filter(|x| *x > 0 && *x < appended).collect(); for _ in 0..6 { c.insert(1 + (seed as usize * 7919 + c.len() * 104729) % (appended - 1)); } c.into_iter().collect() };
                for cut in cuts {
                    let trial = root.join("ltrial"); let _ = std::fs::remove_dir_all(&trial); copy_dir(base, &trial)?;
                    std::fs::write(trial.join(&name), &now[..b.len() + cut])?;
                    rep.case(&format!("fs:log:ApplyBatch:torn:{}", cut % 97), true);
                    corr.ops.push(format!("crash scan hex={}", hex::encode(&now[4..b.len() + cut])));
                    // records as read by a fresh instance and what opening did to the file (measured before the
                    // oracle below appends its own record)
                    let r = rt(); let n = r.block_on(async { match open_log(&trial, backend, account, folder).await { Ok(l) => l.tree().len() as i64, Err(_) => -1 } }); r.shutdown_timeout(std::time::Duration::from_secs(10));
                    let left = std::fs::metadata(trial.join(&name)).map(|m| m.len() as usize).unwrap_or(0);
                    std::fs::write(trial.join(&name), &now[..b.len() + cut])?;
                    check(rep, &trial, "torn-append", json!({"appended": appended, "kept": cut}));
                    if left > b.len() + cut { rep.spec_fail("c13-torn-log-grew-on-open:ApplyBatch:folder-log", json!({"case_seed": seed, "kept": cut, "length_before_open": b.len() + cut, "length_after_open": left}), "opening a log with a torn tail made the file longer (padding) instead of discarding the partial record"); }
                    corr.imp.push(format!("records={} cut={}", n, (b.len() + cut) as i64 - left as i64));
                }
            }
        }
        let _ = std::fs::remove_dir_all(&full);
    }
    Ok(())
}

pub fn run(cli: &Cli) {
    // a detached database thread of /repo unwraps a send to a receiver that is gone when a runtime is shut down
    std::panic::set_hook(Box::new(|_| {}));
    let property = cli.extra.get("property").cloned().unwrap_or("C13".into());
    let mut rep = Report::new(&property, "crash", cli.seed, &cli.tier);
    let thorough = cli.tier == "thorough";
    let n: u64 = cli.extra.get("cases").and_then(|s| s.parse().ok()).unwrap_or(if thorough { 2 } else { 1 });
    let mut corr = Corr { ops: vec![], imp: vec![] };
    let only: Option<Vec<String>> = cli.extra.get("ops").map(|s| s.split(',').map(|x| x.to_string()).collect());
    for backend in ["fs", "db"] {
        for k in 0..n {
            let case_seed = cli.seed.wrapping_mul(1_000_003).wrapping_add(k);
            if let Err(e) = run_case(backend, case_seed, &mut rep, thorough, &mut corr, &only) {
                rep.notes.push(format!("case {backend}/{case_seed} aborted: {e}"));
                rep.spec_fail("c13-harness-aborted", json!({"case_seed": case_seed, "backend": backend}), &e.to_string());
            }
        }
    }
    rep.diff_streams("corr:crash/states+scan", &corr.ops, &corr.imp);
    rep.rule = "accounts with three folders and several secrets; for each mutating account operation (create / update / delete / move secret, rename / describe / create / delete folder, compaction, folder password change): run to completion counting await boundaries, then abandon a fresh copy at every boundary (quick: at most 40 evenly spaced), and (file system) cut every grown file inside the appended region; a fresh instance must open the directory, every log must be in its before or after state, every served folder must equal the replay of its log".into();
    rep.write(&cli.out);
}
