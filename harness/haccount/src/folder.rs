//! C01 / C02 / C12 / C20: generated account histories on a real `LocalAccount`
//! (plus a second device for merges); after every step the served folders, the
//! replay of their logs, the persisted state (fresh sign-in) and the search index
//! are compared; the default folder's history is also replayed on the Lean model.
use crate::world::World;
use hcommon::{sha256, Cli, Report, Rng};
use serde_json::json;
use sos_account::{Account, LocalAccount};
use sos_client_storage::{AccessOptions, NewFolderOptions};
use sos_core::{crypto::AccessKey, SecretId, VaultFlags, VaultId};
use sos_login::DelegatedAccess;
use sos_sync::StorageEventLogs;
use sos_vault::secret::{Secret, SecretMeta, SecretRow};
use sos_vault::SecretAccess;
use std::collections::BTreeMap;

/// canonical view of one folder: (name, flags, description, [(secret id, content digest)])
#[derive(Clone, Debug, PartialEq, Eq)]
pub struct FView {
    pub name: String,
    pub flags: u64,
    pub desc: String,
    pub secrets: Vec<(SecretId, String)>,
}

async fn content_digest(meta: &SecretMeta, secret: &Secret) -> String {
    let bytes = sos_core::encode(secret).await.unwrap_or_default();
    let mut tags: Vec<&String> = meta.tags().iter().collect();
    tags.sort();
    let s = format!("{}|{:?}|{:?}|{}|{}", meta.label(), meta.kind(), tags, meta.favorite(), hex::encode(sha256(&bytes)));
    hex::encode(&sha256(s.as_bytes())[..6])
}

pub fn mk_secret(rng: &mut Rng, label: &str) -> (SecretMeta, Secret) {
    use secrecy::SecretString;
    let text = match rng.below(4) { 0 => String::new(), 1 => "x".into(), 2 => "ünïcödé 🔐 text".into(), _ => format!("value-{}", rng.below(1_000_000)) };
    let secret = match rng.below(6) {
        0 => Secret::Note { text: text.into(), user_data: Default::default() },
        1 => Secret::Account { account: format!("acct{}", rng.below(100)), password: SecretString::from(text), url: Default::default(), user_data: Default::default() },
        2 => Secret::Password { password: SecretString::from(text), name: None, user_data: Default::default() },
        3 => Secret::Link { url: SecretString::from(format!("https://example.com/{}", rng.below(100))), label: None, title: None, user_data: Default::default() },
        4 => Secret::List { items: { let mut m = std::collections::HashMap::new(); m.insert("k".to_string(), SecretString::from(text)); m }, user_data: Default::default() },
        _ => Secret::Note { text: "n".repeat(rng.range(1, 40000) as usize).into(), user_data: Default::default() },
    };
    let mut meta = SecretMeta::new(label.to_string(), secret.kind());
    if rng.chance(1, 4) { meta.set_favorite(true); }
    if rng.chance(1, 3) { let mut t = std::collections::HashSet::new(); t.insert(format!("tag{}", rng.below(3))); meta.set_tags(t); }
    (meta, secret)
}

pub async fn served(a: &mut LocalAccount, id: &VaultId) -> Result<FView, String> {
    use std::time::Duration;
    use tokio::time::timeout;
    let t = Duration::from_secs(20);
    let summaries = timeout(t, a.list_folders()).await.map_err(|_| "HANG list_folders".to_string())?.map_err(|e| e.to_string())?;
    let s = summaries.iter().find(|s| s.id() == id).ok_or("folder not listed")?;
    let desc = timeout(t, a.folder_description(id)).await.map_err(|_| "HANG folder_description".to_string())?.map_err(|e| format!("description: {e}"))?;
    let ids = timeout(t, a.list_secret_ids(id)).await.map_err(|_| "HANG list_secret_ids".to_string())?.map_err(|e| e.to_string())?;
    let mut secrets = vec![];
    for sid in ids {
        let (row, _) = timeout(t, a.read_secret(&sid, Some(id))).await.map_err(|_| "HANG read_secret".to_string())?.map_err(|e| format!("read {sid}: {e}"))?;
        secrets.push((sid, content_digest(row.meta(), row.secret()).await));
    }
    Ok(FView { name: s.name().to_string(), flags: s.flags().bits(), desc, secrets })
}

/// Full replay of the folder's event log (`FolderReducer::new().reduce(log).build(true)`),
/// decrypted with the folder key.
pub async fn replayed(a: &LocalAccount, id: &VaultId) -> Result<FView, String> {
    use sos_reducers::FolderReducer;
    use sos_backend::AccessPoint;
    let key = a.find_folder_password(id).await.map_err(|e| e.to_string())?.ok_or("no folder password")?;
    let log = a.folder_log(id).await.map_err(|e| e.to_string())?;
    let log = log.read().await;
    let vault = FolderReducer::new().reduce(&*log).await.map_err(|e| format!("reduce: {e}"))?.build(true).await.map_err(|e| format!("build: {e}"))?;
    drop(log);
    let mut k = AccessPoint::from_vault(vault);
    k.unlock(&key).await.map_err(|e| format!("unlock replay: {e}"))?;
    view_of(&k).await
}

async fn view_of(k: &sos_backend::AccessPoint) -> Result<FView, String> {
    let meta = k.vault_meta().await.map_err(|e| format!("vault_meta: {e}"))?;
    let mut secrets = vec![];
    let ids: Vec<SecretId> = k.vault().keys().copied().collect();
    for sid in ids {
        if let Some((m, s, _)) = k.read_secret(&sid).await.map_err(|e| format!("replay read {sid}: {e}"))? {
            secrets.push((sid, content_digest(&m, &s).await));
        }
    }
    Ok(FView { name: k.vault().name().to_string(), flags: k.vault().flags().bits(), desc: meta.description().to_string(), secrets })
}

/// Replay up to a commit (`detached_view` = `FolderReducer::new_until_commit`).
pub async fn replayed_until(a: &LocalAccount, id: &VaultId, commit: sos_core::commit::CommitHash) -> Result<FView, String> {
    let view = a.detached_view(id, commit).await.map_err(|e| format!("detached_view: {e}"))?;
    view_of(view.keeper()).await
}


/// C12 (key side): the folder's cipher, its current private key (derived from the stored folder
/// password and the salt / KDF / seed in the header of its creation event), and every encrypted
/// blob the folder stores: in its event log and, on the file system, in its vault file.
pub async fn key_and_blobs(a: &LocalAccount, id: &VaultId) -> Result<(sos_core::crypto::Cipher, sos_core::crypto::PrivateKey, Vec<sos_core::crypto::AeadPack>), String> {
    use sos_core::{crypto::KeyDerivation, events::{EventLog, WriteEvent}, VaultCommit, VaultEntry};
    use sos_vault::Vault;
    let events = { let log = a.folder_log(id).await.map_err(|e| e.to_string())?; let l = log.read().await; l.diff_events(None).await.map_err(|e| e.to_string())?.into_events::<WriteEvent>().await.map_err(|e| e.to_string())? };
    let header: Vault = match events.first() { Some(WriteEvent::CreateVault(buf)) => sos_core::decode(buf).await.map_err(|e| e.to_string())?, _ => return Err("log does not start with create vault".into()) };
    let mut blobs = vec![];
    if let Some(m) = header.header().meta() { blobs.push(m.clone()); }
    for e in &events {
        match e {
            WriteEvent::CreateSecret(_, VaultCommit(_, VaultEntry(m, s))) | WriteEvent::UpdateSecret(_, VaultCommit(_, VaultEntry(m, s))) => { blobs.push(m.clone()); blobs.push(s.clone()); }
            WriteEvent::SetVaultMeta(m) => blobs.push(m.clone()),
            _ => {}
        }
    }
    // the vault mirror on disk (file-system backend)
    let vp = a.paths().vault_path(id);
    if let Ok(bytes) = std::fs::read(&vp) {
        let v: Vault = sos_core::decode(&bytes).await.map_err(|e| format!("vault file: {e}"))?;
        if let Some(m) = v.header().meta() { blobs.push(m.clone()); }
        for (_, VaultCommit(_, VaultEntry(m, s))) in v.iter() { blobs.push(m.clone()); blobs.push(s.clone()); }
    }
    let pw = a.find_folder_password(id).await.map_err(|e| e.to_string())?.ok_or("no folder password")?;
    let salt = KeyDerivation::parse_salt(header.salt().ok_or("no salt")?).map_err(|e| e.to_string())?;
    let key = pw.into_private(header.kdf(), &salt, header.seed()).map_err(|e| e.to_string())?;
    Ok((header.cipher().clone(), key, blobs))
}

fn same_content(a: &FView, b: &FView) -> bool {
    let mut x = a.secrets.clone(); let mut y = b.secrets.clone();
    x.sort(); y.sort();
    a.name == b.name && a.flags == b.flags && a.desc == b.desc && x == y
}

pub struct Tok { ids: BTreeMap<SecretId, usize>, vals: BTreeMap<String, usize> }
impl Tok {
    fn id(&mut self, s: &SecretId) -> usize { let n = self.ids.len(); *self.ids.entry(*s).or_insert(n) }
    fn val(&mut self, s: &str) -> usize { let n = self.vals.len() + 1; *self.vals.entry(s.to_string()).or_insert(n) }
    fn view(&mut self, v: &FView) -> String {
        let secrets = if v.secrets.is_empty() { "-".to_string() } else { v.secrets.iter().map(|(i, c)| format!("{}:{}", self.id(i), self.val(c))).collect::<Vec<_>>().join(",") };
        format!("name={} flags={} desc={} secrets={}", self.val(&format!("N{}", v.name)), v.flags, self.val(&format!("D{}", v.desc)), secrets)
    }
}

struct Ctx<'a> { rep: &'a mut Report, ops: &'a mut Vec<String>, imp: &'a mut Vec<String>, script: Vec<String>, seed: u64, backend: String }

impl<'a> Ctx<'a> {
    fn fail(&mut self, class: &str, detail: &str) {
        let s = self.script.clone();
        // gap predicate of a recorded finding: on the database backend secret rows are unique by secret identifier
        // account-wide, so importing a COPY of a folder (same secret ids under a new folder id) takes the rows away from
        // the original folder; everything observed afterwards in such a case is attributed to that finding
        let class = if self.backend == "db" && s.iter().any(|l| l.starts_with("import-copy")) { format!("{class}-after-a-folder-copy-was-imported-db") } else { class.to_string() };
        self.rep.spec_fail(&class, json!({"case_seed": self.seed, "backend": self.backend, "script": s}), detail);
    }
}

/// gap predicate of the recorded merge-replay finding: the folder's log holds an event the access point ignores but
/// the reducer applies (create of an id that is present, update of an id that was deleted)
pub async fn log_has_inapplicable_event(a: &LocalAccount, id: &VaultId) -> bool {
    use futures::StreamExt; use sos_core::events::{EventLog, WriteEvent};
    let Ok(log) = a.folder_log(id).await else { return false };
    let l = log.read().await;
    let st = l.event_stream(false).await; futures::pin_mut!(st);
    let mut present = std::collections::BTreeSet::new(); let mut bad = false;
    while let Some(r) = st.next().await { if let Ok((_, ev)) = r { match ev {
        WriteEvent::CreateSecret(i, _) => { if !present.insert(i) { bad = true; } }
        WriteEvent::UpdateSecret(i, _) => { if !present.contains(&i) { bad = true; present.insert(i); } }
        WriteEvent::DeleteSecret(i) => { present.remove(&i); }
        _ => {} } } }
    bad
}

/// compare all views of all folders of one device
async fn check_views(cx: &mut Ctx<'_>, a: &mut LocalAccount, live: &BTreeMap<VaultId, BTreeMap<SecretId, String>>, who: &str) {
    let folders = match a.list_folders().await { Ok(f) => f, Err(e) => { cx.fail("c01-list-folders-error", &e.to_string()); return; } };
    for s in folders {
        let id = *s.id();
        let gap = if log_has_inapplicable_event(a, &id).await { "-log-has-update-of-deleted-or-create-of-present" } else { "" };
        if std::env::var("FDEBUG2").is_ok() {
            use sos_vault::SecretAccess;
            let vp = a.paths().vault_path(&id);
            let file_ids: Vec<String> = match std::fs::read(&vp) { Ok(b) => { let v: Result<sos_vault::Vault, _> = sos_core::decode(&b).await; v.map(|v| v.keys().map(|k| k.to_string()[..8].to_string()).collect()).unwrap_or(vec!["<undecodable>".into()]) } Err(_) => vec!["<no file>".into()] };
            let mem: Vec<String> = { let f = a.folder(&id).await.unwrap(); let ap = f.access_point(); let ap = ap.lock().await; ap.vault().keys().map(|k| k.to_string()[..8].to_string()).collect() };
            if file_ids != mem {
                eprintln!("FDEBUG2 after {:?}: folder {} file={file_ids:?} memory={mem:?}", cx.script.last(), &id.to_string()[..8]);
                let _ = std::fs::create_dir_all("/tmp/vault_dbg"); let _ = std::fs::copy(&vp, format!("/tmp/vault_dbg/{}.vault", cx.script.len()));
                // try the mirror's delete directly on a copy
                if let Some(last) = cx.script.last() { if let Some(idtxt) = last.strip_prefix("delete ") { if let Ok(sid) = idtxt.parse::<SecretId>() {
                    let copy = format!("/tmp/vault_dbg/{}-probe.vault", cx.script.len()); let _ = std::fs::copy(&vp, &copy);
                    use sos_vault::EncryptedEntry;
                    let mut wtr = sos_filesystem::VaultFileWriter::<sos_backend::Error>::new(&copy);
                    let r = wtr.delete_secret(&sid).await;
                    let after: Vec<String> = match std::fs::read(&copy) { Ok(b) => { let v: Result<sos_vault::Vault, _> = sos_core::decode(&b).await; v.map(|v| v.keys().map(|k| k.to_string()[..8].to_string()).collect()).unwrap_or(vec!["<undecodable>".into()]) } Err(_) => vec![] };
                    eprintln!("FDEBUG2 direct mirror delete on a copy -> {:?}; rows after = {after:?}", r.map(|x| x.is_some()));
                } } }
            }
        }
        let sv = match served(a, &id).await { Ok(v) => v, Err(e) => {
            if std::env::var("FDEBUG").is_ok() {
                use sos_vault::SecretAccess;
                let vp = a.paths().vault_path(&id);
                let file_ids: Vec<String> = match std::fs::read(&vp) { Ok(b) => { let v: Result<sos_vault::Vault, _> = sos_core::decode(&b).await; v.map(|v| v.keys().map(|k| k.to_string()[..8].to_string()).collect()).unwrap_or_default() } Err(_) => vec![] };
                let raw_rows: Vec<String> = { let mut out = vec![]; if let (Ok(b), Ok(off)) = (std::fs::read(&vp), sos_vault::Header::read_content_offset(&vp).await) { let mut p = off as usize; while p + 20 <= b.len() { let n = u32::from_le_bytes([b[p], b[p+1], b[p+2], b[p+3]]) as usize; out.push(hex::encode(&b[p+4..p+8])); p += n + 8; } } out };
                let listed: Vec<String> = a.list_secret_ids(&id).await.unwrap_or_default().iter().map(|k| k.to_string()[..8].to_string()).collect();
                let mem: Vec<String> = { let f = a.folder(&id).await.unwrap(); let ap = f.access_point(); let ap = ap.lock().await; ap.vault().keys().map(|k| k.to_string()[..8].to_string()).collect() };
                let rp = replayed(a, &id).await.map(|v| v.secrets.iter().map(|x| x.0.to_string()[..8].to_string()).collect::<Vec<_>>());
                eprintln!("FDEBUG served error {e}: file_ids(decoded map)={file_ids:?} raw_rows={raw_rows:?} listed={listed:?} memory={mem:?} replay={rp:?}");
            }
            cx.fail(&format!("c01-served-view-error-{who}{gap}"), &e); continue; } };
        // C01: read-your-writes against the harness's own record of what was last written
        if let Some(expect) = live.get(&id) {
            let got: BTreeMap<SecretId, String> = sv.secrets.iter().cloned().collect();
            if &got != expect {
                let class = if got.len() != expect.len() { "c01-listing-differs-from-live-ids" } else { "c01-read-differs-from-last-write" };
                cx.fail(&format!("{class}-{who}{gap}"), &format!("folder {id}: served {} secrets, expected {}", got.len(), expect.len()));
            }
        }
        // C02: replay of the log equals the served folder
        match replayed(a, &id).await {
            Ok(rv) => {
                if !same_content(&sv, &rv) {
                    let what = if sv.name != rv.name { "name" } else if sv.flags != rv.flags { "flags" } else if sv.desc != rv.desc { "description" } else { "secrets" };
                    cx.fail(&format!("c02-replay-differs-from-served-{what}-{who}"), &format!("folder {id}: served {:?} replay {:?}", (&sv.name, sv.flags, &sv.desc, sv.secrets.len()), (&rv.name, rv.flags, &rv.desc, rv.secrets.len())));
                }
            }
            Err(e) => cx.fail(&format!("c02-replay-error-{who}"), &e),
        }
    }
    // a secret lives in exactly one folder
    let mut seen: BTreeMap<SecretId, usize> = BTreeMap::new();
    for (_, m) in live { for k in m.keys() { *seen.entry(*k).or_insert(0) += 1; } }
    if seen.values().any(|n| *n > 1) && !cx.script.iter().any(|l| l.starts_with("import-copy")) { cx.fail("c01-harness-bookkeeping", "secret recorded in two folders"); }
}

/// C20: index documents equal an index rebuilt from the folders
async fn check_search(cx: &mut Ctx<'_>, a: &mut LocalAccount, live: &BTreeMap<VaultId, BTreeMap<SecretId, String>>, who: &str) {
    let index = match a.search_index().await { Ok(i) => i, Err(_) => return };
    let idx = index.read().await;
    let mut got: Vec<(VaultId, SecretId, String, bool)> = idx.documents().values().map(|d| (*d.folder_id(), *d.id(), d.meta().label().to_string(), d.meta().favorite())).collect();
    got.sort();
    // kind and tags of every document
    let mut extra: BTreeMap<(VaultId, SecretId), (u8, Vec<String>)> = BTreeMap::new();
    for d in idx.documents().values() { let mut t: Vec<String> = d.meta().tags().iter().cloned().collect(); t.sort(); extra.insert((*d.folder_id(), *d.id()), ((*d.meta().kind()).into(), t)); }
    let doc_count = idx.statistics().count().clone();
    drop(idx);
    let archive_id: Option<VaultId> = a.archive_folder().await.map(|s| *s.id());
    // expected: one document per live secret of every folder listed (archive included)
    let mut want: Vec<(VaultId, SecretId)> = vec![];
    for (f, m) in live { for k in m.keys() { want.push((*f, *k)); } }
    want.sort();
    let got_ids: Vec<(VaultId, SecretId)> = got.iter().map(|g| (g.0, g.1)).collect();
    if got_ids != want {
        let class = if got_ids.len() > want.len() { "c20-index-has-stale-or-duplicate-document" } else if got_ids.len() < want.len() { "c20-index-misses-live-secret" } else { "c20-index-documents-differ" };
        cx.fail(&format!("{class}-{who}"), &format!("index has {} documents, folders hold {} live secrets", got_ids.len(), want.len()));
    }
    // labels current
    for g in &got {
        if let Ok((row, _)) = a.read_secret(&g.1, Some(&g.0)).await {
            if row.meta().label() != g.2 || row.meta().favorite() != g.3 {
                cx.fail(&format!("c20-index-document-stale-label-{who}"), "document label / favourite differs from the secret's current meta data");
            }
            if let Some((kind, tags)) = extra.get(&(g.0, g.1)) {
                let k: u8 = (*row.meta().kind()).into();
                let mut t: Vec<String> = row.meta().tags().iter().cloned().collect(); t.sort();
                if &k != kind { cx.fail(&format!("c20-index-document-stale-kind-{who}"), "document kind differs from the secret's current kind"); }
                if &t != tags { cx.fail(&format!("c20-index-document-stale-tags-{who}"), &format!("document tags {:?} differ from the secret's current tags {:?}", tags, t)); }
            }
        }
    }
    // kind counters (documents outside the archive) and tag counters (all documents) equal a recount; zero entries are the
    // same as absent ones
    {
        let mut kinds: BTreeMap<u8, usize> = BTreeMap::new(); let mut tags: BTreeMap<String, usize> = BTreeMap::new();
        for ((f, _), (k, ts)) in &extra { if Some(*f) != archive_id { *kinds.entry(*k).or_insert(0) += 1; } for t in ts { *tags.entry(t.clone()).or_insert(0) += 1; } }
        let have_k: BTreeMap<u8, usize> = doc_count.kinds().iter().filter(|(_, n)| **n > 0).map(|(k, n)| (*k, *n)).collect();
        let have_t: BTreeMap<String, usize> = doc_count.tags().iter().filter(|(_, n)| **n > 0).map(|(k, n)| (k.clone(), *n)).collect();
        if have_k != kinds { cx.fail(&format!("c20-kind-counters-differ-from-recount-{who}"), &format!("kind counters {:?}, recount {:?}", have_k, kinds)); }
        if have_t != tags { cx.fail(&format!("c20-tag-counters-differ-from-recount-{who}"), &format!("tag counters {:?}, recount {:?}", have_t, tags)); }
    }
    // counters equal a recount
    let mut per_folder: BTreeMap<VaultId, usize> = BTreeMap::new();
    for g in &got { *per_folder.entry(g.0).or_insert(0) += 1; }
    for (f, n) in doc_count.vaults() {
        let have = per_folder.get(f).copied().unwrap_or(0);
        if *n != have {
            cx.fail(&format!("c20-folder-counter-differs-from-recount-{who}"), &format!("folder counter {} but {} documents", n, have));
        }
    }
    let favs = got.iter().filter(|g| g.3).count();
    if doc_count.favorites() != favs {
        cx.fail(&format!("c20-favorites-counter-differs-from-recount-{who}"), &format!("favorites counter {} but {} favourite documents", doc_count.favorites(), favs));
    }
}

pub async fn run_case(backend: &str, seed: u64, rep: &mut Report, ops: &mut Vec<String>, imp: &mut Vec<String>) -> anyhow::Result<()> {
    let mut rng = Rng::new(seed ^ 0xF01D);
    let two = rng.chance(1, 2);
    let w = World::new(if two { 2 } else { 1 }, backend).await?;
    let mut cx = Ctx { rep, ops, imp, script: vec![format!("world devices={} backend={}", if two { 2 } else { 1 }, backend)], seed, backend: backend.to_string() };
    let key: AccessKey = w.password.clone().into();
    // harness record: per folder, live secrets and their content digest (device 0's view)
    let mut live: BTreeMap<VaultId, BTreeMap<SecretId, String>> = BTreeMap::new();
    {
        let a = w.devices[0].lock().await;
        for s in a.list_folders().await? { live.insert(*s.id(), BTreeMap::new()); }
    }
    let default = { let a = w.devices[0].lock().await; *a.default_folder().await.unwrap().id() };
    let mut extra_folders: Vec<VaultId> = vec![];
    // half of the single-device cases have an archive folder (kind counters skip its documents)
    let mut archive: Option<VaultId> = None;
    if !two && rng.chance(1, 2) {
        let mut a = w.devices[0].lock().await;
        let mut o = NewFolderOptions::new("Archive".to_string()); o.flags = Some(VaultFlags::ARCHIVE);
        if let Ok(fc) = a.create_folder(o).await { let id = *fc.folder.id(); archive = Some(id); live.insert(id, BTreeMap::new()); let _ = a.initialize_search_index().await; cx.script.push(format!("archive folder {id}")); }
    }
    let mut tok = Tok { ids: BTreeMap::new(), vals: BTreeMap::new() };
    // model session for the default folder
    let mut model_ok = true;
    let mut history: Vec<(sos_core::commit::CommitHash, FView)> = vec![];
    {
        let mut a = w.devices[0].lock().await;
        let v = served(&mut a, &default).await.map_err(|e| anyhow::anyhow!(e))?;
        cx.ops.push(format!("folder new {}", tok.view(&v).replace(" secrets=-", "")));
        cx.imp.push("ok".into());
    }
    // a saved copy of the default folder's log for a later forced overwrite (C02: force merges)
    let mut saved: Option<(sos_core::events::patch::FolderDiff, BTreeMap<SecretId, String>, usize)> = None;
    let mut edits_since_save = 0usize;
    let mut created_since_save = false;
    let mut birth: BTreeMap<SecretId, usize> = BTreeMap::new();
    let n_ops = rng.range(6, 22);
    for step in 0..n_ops {
        let mut a = w.devices[0].lock().await;
        let folder = if !extra_folders.is_empty() && rng.chance(1, 3) { *rng.pick(&extra_folders) } else { default };
        let opts = AccessOptions { folder: Some(folder), ..Default::default() };
        // secrets in order of first appearance (not of their random ids), so that a case seed replays the same history
        for m in live.values() { for k in m.keys() { let n = birth.len(); birth.entry(*k).or_insert(n); } }
        let mut in_folder: Vec<SecretId> = live.get(&folder).map(|m| m.keys().copied().collect()).unwrap_or_default();
        in_folder.sort_by_key(|k| birth.get(k).copied().unwrap_or(usize::MAX));
        let kind = rng.below(100);
        if std::env::var("HTRACE").is_ok() { eprintln!("step {step} kind {kind} script-last {:?}", cx.script.last()); }
        let mut model_line: Option<String> = None;
        let mut reload_now = false;
        let special = rng.below(100);
        let mut special_done = false;
        if special < 9 && archive.is_some() {
            // archive a secret / take one out of the archive
            let arch = archive.unwrap();
            let in_arch: Vec<SecretId> = live.get(&arch).map(|m| m.keys().copied().collect()).unwrap_or_default();
            if !in_arch.is_empty() && rng.chance(1, 2) {
                let id = *rng.pick(&in_arch);
                if let Ok((row, _)) = a.read_secret(&id, Some(&arch)).await {
                    let kind_ = *row.meta().kind();
                    match a.unarchive(&id, &kind_, Default::default()).await {
                        Ok((mv, dest)) => { let d = live.entry(arch).or_default().remove(&id).unwrap_or_default(); live.entry(*dest.id()).or_default().insert(mv.id, d.clone()); cx.script.push(format!("unarchive {id} -> {} as {}", dest.id(), mv.id)); cx.rep.count("op:unarchive");
                            if dest.id() == &default { model_line = Some(format!("folder op create id={} v={}", tok.id(&mv.id), tok.val(&d))); } special_done = true; }
                        Err(e) => { cx.fail("c01-unarchive-error", &e.to_string()); special_done = true; }
                    }
                }
            } else if folder != arch && !in_folder.is_empty() {
                let id = *rng.pick(&in_folder);
                match a.archive(&folder, &id, Default::default()).await {
                    Ok(mv) => { let d = live.entry(folder).or_default().remove(&id).unwrap_or_default(); live.entry(arch).or_default().insert(mv.id, d); cx.script.push(format!("archive {id} from {folder} as {}", mv.id)); cx.rep.count("op:archive");
                        if folder == default { model_line = Some(format!("folder op delete id={}", tok.id(&id))); } special_done = true; }
                    Err(e) => { cx.fail("c01-archive-error", &e.to_string()); special_done = true; }
                }
            }
        } else if special < 16 && !in_folder.is_empty() {
            // an update of the meta data only: other tags, the favourite flag toggled, or another label
            let id = *rng.pick(&in_folder);
            if let Ok((row, _)) = a.read_secret(&id, Some(&folder)).await {
                let mut meta = row.meta().clone();
                let what = rng.below(3);
                match what {
                    0 => { let mut t = std::collections::HashSet::new(); for _ in 0..rng.below(3) { t.insert(format!("tag{}", rng.below(4))); } meta.set_tags(t); }
                    1 => { let f = meta.favorite(); meta.set_favorite(!f); }
                    _ => { meta.set_label(format!("relabelled{}", rng.below(50))); }
                }
                let d = content_digest(&meta, row.secret()).await;
                match a.update_secret(&id, meta, None, opts.clone()).await {
                    Ok(_) => { live.entry(folder).or_default().insert(id, d.clone()); cx.script.push(format!("update-meta {id} {}", ["tags", "favourite", "label"][what as usize])); cx.rep.count(&format!("op:update-meta-{}", ["tags", "favourite", "label"][what as usize]));
                        if folder == default { model_line = Some(format!("folder op update id={} v={}", tok.id(&id), tok.val(&d))); } }
                    Err(e) => { cx.fail("c01-update-secret-error", &e.to_string()); }
                }
                special_done = true;
            }
        } else if special < 20 && !two && !extra_folders.is_empty() {
            // forget a folder (in-memory removal): its documents must leave the index; signing in again brings it back
            let with_docs: Vec<VaultId> = extra_folders.iter().copied().filter(|f| live.get(f).map(|m| !m.is_empty()).unwrap_or(false)).collect();
            let f = if with_docs.is_empty() { *rng.pick(&extra_folders) } else { *rng.pick(&with_docs) };
            if a.forget_folder(&f).await.unwrap_or(false) {
                let mut without = live.clone(); without.remove(&f);
                cx.script.push(format!("forget_folder {f}")); cx.rep.count("op:forget-folder");
                check_search(&mut cx, &mut a, &without, "d0-after-forget-folder").await;
                let listed = a.list_folders().await.map(|v| v.iter().any(|s| s.id() == &f)).unwrap_or(false);
                if listed { cx.fail("c01-forgotten-folder-still-listed", "forget_folder left the folder in the listing"); }
                let _ = a.sign_out().await;
                match a.sign_in(&key).await { Ok(_) => { let _ = a.initialize_search_index().await; cx.script.push("signout-signin".into()) }, Err(e) => { cx.fail("c01-sign-in-after-sign-out-fails", &e.to_string()); return Ok(()); } }
                special_done = true;
            }
        } else if special < 25 && !two && !extra_folders.is_empty() {
            // restore a folder from (a prefix of) its own event records: the folder now is the replay of those records
            use sos_core::events::EventLog;
            let with_docs: Vec<VaultId> = extra_folders.iter().copied().filter(|f| live.get(f).map(|m| !m.is_empty()).unwrap_or(false)).collect();
            let f = if with_docs.is_empty() { *rng.pick(&extra_folders) } else { *rng.pick(&with_docs) };
            let recs: Vec<sos_core::events::EventRecord> = { let log = a.folder_log(&f).await.map_err(|e| anyhow::anyhow!(e.to_string()))?; let l = log.read().await; let d = l.diff_unchecked().await.map_err(|e| anyhow::anyhow!(e.to_string()))?; d.patch.records().to_vec() };
            let keep = if recs.len() > 1 { rng.range(1, recs.len() as u64) as usize } else { recs.len() };
            let before_listed = a.list_folders().await.map(|v| v.len()).unwrap_or(0);
            match a.restore_folder(&f, recs[..keep].to_vec()).await {
                Ok(_) => {
                    cx.script.push(format!("restore_folder {f} from {keep} of {} records", recs.len())); cx.rep.count("op:restore-folder");
                    match served(&mut a, &f).await { Ok(v) => { live.insert(f, v.secrets.into_iter().collect()); } Err(e) => cx.fail("c01-restored-folder-not-served", &e) }
                    let after = a.list_folders().await.map(|v| v.len()).unwrap_or(0);
                    let twice = a.list_folders().await.map(|v| v.iter().filter(|s| s.id() == &f).count()).unwrap_or(0);
                    if after != before_listed || twice != 1 { cx.fail("c01-restored-folder-listed-twice", &format!("{before_listed} folders listed before restore_folder, {after} after; the restored folder appears {twice} times")); }
                }
                Err(e) => { cx.script.push(format!("restore_folder {f} -> error {e}")); cx.rep.count("op:restore-folder-error"); }
            }
            special_done = true;
        }
        // a saved log is forced back soon after a few edits (so that the overwrite drops / restores indexed secrets)
        let force_now = !two && folder == default && saved.is_some() && edits_since_save >= 1 && (kind < 14 || (created_since_save && rng.chance(1, 2)));
        // with a saved log waiting, make sure something is created before it is forced back
        let kind = if !two && folder == default && saved.is_some() && !created_since_save && !force_now && rng.chance(1, 2) { 20 } else { kind };
        let save_now = !two && folder == default && saved.is_none() && !in_folder.is_empty() && kind < 14;
        if !special_done && special >= 25 && special < 37 && !two && !extra_folders.is_empty() {
            // export a folder under a new password and import the buffer again, four ways
            let with_docs: Vec<VaultId> = extra_folders.iter().copied().filter(|f| live.get(f).map(|m| !m.is_empty()).unwrap_or(false)).collect();
            let f = if with_docs.is_empty() { *rng.pick(&extra_folders) } else { *rng.pick(&with_docs) };
            let new_key: AccessKey = secrecy::SecretString::from(format!("exported folder password {}", rng.below(1_000_000))).into();
            match a.export_folder_buffer(&f, new_key.clone(), false).await {
                Err(e) => { cx.script.push(format!("export_folder {f} -> error {e}")); cx.rep.count("op:export-folder-error"); }
                Ok(buffer) => {
                    let at_export = live.get(&f).cloned().unwrap_or_default();
                    // something changes after the export
                    let (m, sc) = { let l = format!("after-export{}", rng.below(50)); mk_secret(&mut rng, &l) };
                    let d = content_digest(&m, &sc).await;
                    if let Ok(ch) = a.create_secret(m, sc, AccessOptions { folder: Some(f), ..Default::default() }).await { live.entry(f).or_default().insert(ch.id, d); }
                    // and half of the time the folder gets another name (so that an imported copy clashes by id only)
                    if rng.chance(1, 2) { let n = format!("renamed-after-export-{}", rng.below(1000)); if a.rename_folder(&f, n.clone()).await.is_ok() { cx.script.push(format!("rename {f} {n}")); } }
                    let way = special - 25;
                    if way < 3 {
                        // a copy beside the original (the identifier exists: it is rotated, the name changed)
                        let before: std::collections::BTreeSet<VaultId> = live.keys().copied().collect();
                        match a.import_folder_buffer(&buffer, new_key.clone(), false).await {
                            Ok(fc) => { let id = *fc.folder.id(); cx.script.push(format!("import-copy of {f} -> {id}")); cx.rep.count("op:import-copy");
                                if before.contains(&id) { cx.fail("c01-import-without-overwrite-replaced-an-existing-folder", &format!("importing a copy of {f} without overwrite returned the identifier of an existing folder")); }
                                else { live.insert(id, at_export.clone()); extra_folders.push(id); } }
                            Err(e) => { cx.script.push(format!("import-copy of {f} -> error {e}")); cx.rep.count("op:import-copy-error"); }
                        }
                    } else if way < 6 {
                        // the folder is deleted, imported again from the buffer and compacted
                        if a.delete_folder(&f).await.is_ok() {
                            live.remove(&f);
                            match a.import_folder_buffer(&buffer, new_key.clone(), false).await {
                                Ok(fc) => { let id = *fc.folder.id(); live.insert(id, at_export.clone()); if id != f { extra_folders.retain(|x| x != &f); extra_folders.push(id); }
                                    let _ = a.compact_folder(&id).await;
                                    cx.script.push(format!("delete-import-compact {f} -> {id}")); cx.rep.count("op:delete-import-compact"); }
                                Err(e) => { extra_folders.retain(|x| x != &f); cx.script.push(format!("delete-import {f} -> error {e}")); cx.rep.count("op:delete-import-error"); }
                            }
                        }
                    } else if way < 9 {
                        // the folder is forgotten (in memory only) and imported again from the older buffer
                        if a.forget_folder(&f).await.unwrap_or(false) {
                            match a.import_folder_buffer(&buffer, new_key.clone(), false).await {
                                Ok(fc) => { let id = *fc.folder.id(); live.remove(&f); live.insert(id, at_export.clone()); if id != f { extra_folders.retain(|x| x != &f); extra_folders.push(id); }
                                    cx.script.push(format!("forget-import {f} -> {id}")); cx.rep.count("op:forget-import"); }
                                Err(e) => { cx.script.push(format!("forget-import {f} -> error {e}")); cx.rep.count("op:forget-import-error");
                                    let _ = a.sign_out().await; match a.sign_in(&key).await { Ok(_) => { let _ = a.initialize_search_index().await; } Err(e) => { cx.fail("c01-sign-in-after-sign-out-fails", &e.to_string()); return Ok(()); } } }
                            }
                        }
                    } else {
                        // overwrite: the folder goes back to what was exported
                        match a.import_folder_buffer(&buffer, new_key.clone(), true).await {
                            Ok(fc) => { let id = *fc.folder.id(); live.insert(id, at_export.clone()); cx.script.push(format!("import-overwrite {f} -> {id}")); cx.rep.count("op:import-overwrite");
                                if id != f { cx.fail("c01-import-with-overwrite-changed-the-identifier", "an import with overwrite gave the folder another identifier"); } }
                            Err(e) => { cx.script.push(format!("import-overwrite {f} -> error {e}")); cx.rep.count("op:import-overwrite-error"); }
                        }
                    }
                    special_done = true;
                    reload_now = true;
                }
            }
        }
        if special_done {
        } else if force_now || save_now {
            // save the log now, or force-merge the saved log (forced overwrite) if there is one
            use sos_core::events::EventLog;
            use sos_sync::{ForceMerge, MergeOutcome};
            match saved.take() {
                None => {
                    let (diff, n) = { let log = a.folder_log(&default).await.map_err(|e| anyhow::anyhow!(e.to_string()))?; let l = log.read().await; (l.diff_unchecked().await.map_err(|e| anyhow::anyhow!(e.to_string()))?, l.tree().len()) };
                    saved = Some((diff, live.get(&default).cloned().unwrap_or_default(), n));
                    cx.script.push(format!("save-log {n} events")); cx.rep.count("op:save-log"); edits_since_save = 0; created_since_save = false;
                }
                Some((diff, live_then, n)) => {
                    let mut outcome = MergeOutcome::default();
                    match a.force_merge_folder(&default, diff, &mut outcome).await {
                        Ok(_) => {
                            live.insert(default, live_then);
                            cx.script.push(format!("force-merge saved log of {n} events"));
                            cx.rep.count("op:force-merge");
                            model_line = Some(format!("folder force keep={n}"));
                            history.clear();
                            reload_now = true;
                            if std::env::var("FDEBUG").is_ok() {
                                let vp = a.paths().vault_path(&default);
                                let n_file = match std::fs::read(&vp) { Ok(b) => { let v: Result<sos_vault::Vault, _> = sos_core::decode(&b).await; v.map(|v| v.len() as i64).unwrap_or(-1) } Err(_) => -2 };
                                let sv = served(&mut a, &default).await.map(|v| v.secrets.len() as i64).unwrap_or(-1);
                                let rp = replayed(&a, &default).await.map(|v| v.secrets.len() as i64).unwrap_or(-1);
                                eprintln!("FDEBUG force-merge: saved-live={} file-rows={} served={} replay={} backend={}", live.get(&default).map(|m| m.len()).unwrap_or(0), n_file, sv, rp, cx.backend);
                            }
                        }
                        Err(e) => cx.fail("c02-force-merge-error", &e.to_string()),
                    }
                }
            }
        } else if kind < 28 {
            let (m, s) = { let l = format!("label{}", rng.below(50)); mk_secret(&mut rng, &l) };
            let d = content_digest(&m, &s).await;
            match a.create_secret(m, s, opts).await {
                Ok(ch) => { live.entry(folder).or_default().insert(ch.id, d.clone()); cx.script.push(format!("create f={} -> {}", folder, ch.id));
                    if folder == default { created_since_save = true; model_line = Some(format!("folder op create id={} v={}", tok.id(&ch.id), tok.val(&d))); } }
                Err(e) => { cx.script.push(format!("create f={} -> error {e}", folder)); cx.fail("c01-create-secret-error", &e.to_string()); }
            }
        } else if kind < 46 && !in_folder.is_empty() {
            let id = *rng.pick(&in_folder);
            let (m, s) = { let l = format!("edited{}", rng.below(50)); mk_secret(&mut rng, &l) };
            let d = content_digest(&m, &s).await;
            match a.update_secret(&id, m, Some(s), opts).await {
                Ok(_) => { live.entry(folder).or_default().insert(id, d.clone()); cx.script.push(format!("update {id}"));
                    if folder == default { model_line = Some(format!("folder op update id={} v={}", tok.id(&id), tok.val(&d))); } }
                Err(e) => { cx.script.push(format!("update {id} -> error {e}")); cx.fail("c01-update-secret-error", &e.to_string()); }
            }
        } else if kind < 56 && !in_folder.is_empty() {
            let id = *rng.pick(&in_folder);
            match a.delete_secret(&id, opts).await {
                Ok(_) => { live.entry(folder).or_default().remove(&id); cx.script.push(format!("delete {id}"));
                    if folder == default { model_line = Some(format!("folder op delete id={}", tok.id(&id))); } }
                Err(e) => { cx.script.push(format!("delete {id} -> error {e}")); cx.fail("c01-delete-secret-error", &e.to_string()); }
            }
        } else if kind < 62 && !in_folder.is_empty() && !extra_folders.is_empty() {
            // move between folders
            let id = *rng.pick(&in_folder);
            let dest = if folder == default { *rng.pick(&extra_folders) } else { default };
            match a.move_secret(&id, &folder, &dest, Default::default()).await {
                Ok(mv) => {
                    let d = live.entry(folder).or_default().remove(&id).unwrap_or_default();
                    live.entry(dest).or_default().insert(mv.id, d.clone());
                    cx.script.push(format!("move {id} {folder} -> {dest} as {}", mv.id));
                    if folder == default { model_line = Some(format!("folder op delete id={}", tok.id(&id))); }
                    else if dest == default { model_line = Some(format!("folder op create id={} v={}", tok.id(&mv.id), tok.val(&d))); }
                }
                Err(e) => { cx.script.push(format!("move -> error {e}")); cx.fail("c01-move-secret-error", &e.to_string()); }
            }
        } else if kind < 68 {
            let name = format!("folder-{}", rng.below(1000));
            match a.create_folder(NewFolderOptions::new(name.clone())).await {
                Ok(fc) => { let id = *fc.folder.id(); extra_folders.push(id); live.insert(id, BTreeMap::new()); cx.script.push(format!("create_folder {name} -> {id}")); }
                Err(e) => { cx.fail("c01-create-folder-error", &e.to_string()); }
            }
        } else if kind < 74 {
            let name = format!("renamed-{}", rng.below(4));
            if a.rename_folder(&folder, name.clone()).await.is_ok() {
                cx.script.push(format!("rename {folder} {name}"));
                if folder == default { model_line = Some(format!("folder op rename n={}", tok.val(&format!("N{name}")))); }
            }
        } else if kind < 79 {
            let extra = rng.pick(&[VaultFlags::LOCAL, VaultFlags::NO_SYNC, VaultFlags::SHARED, VaultFlags::empty()]).clone();
            let summaries = a.list_folders().await?;
            if let Some(s) = summaries.iter().find(|s| s.id() == &folder) {
                let flags = (s.flags().clone() & !(VaultFlags::LOCAL | VaultFlags::SHARED)) | (extra & !VaultFlags::NO_SYNC);
                if a.update_folder_flags(&folder, flags.clone()).await.is_ok() {
                    cx.script.push(format!("flags {folder} {}", flags.bits()));
                    if folder == default { model_line = Some(format!("folder op flags f={}", flags.bits())); }
                }
            }
        } else if kind < 84 {
            let d = format!("description {}", rng.below(5));
            if a.set_folder_description(&folder, d.clone()).await.is_ok() {
                cx.script.push(format!("describe {folder} {d}"));
                if folder == default { model_line = Some(format!("folder op describe d={}", tok.val(&format!("D{d}")))); }
            }
        } else if kind < 88 && !extra_folders.is_empty() {
            let i = rng.below(extra_folders.len() as u64) as usize;
            let id = extra_folders.remove(i);
            if a.delete_folder(&id).await.is_ok() { live.remove(&id); cx.script.push(format!("delete_folder {id}")); }
        } else if kind < 91 && !two {
            // key change (C12): folder password, or account cipher / KDF
            use sos_core::crypto::{Cipher, KeyDerivation};
            let all: Vec<VaultId> = live.keys().copied().collect();
            let which = rng.below(3);
            let targets: Vec<VaultId> = if which == 0 { vec![folder] } else { all.clone() };
            let mut old = vec![];
            let mut before_views = BTreeMap::new();
            for t in &targets {
                match key_and_blobs(&a, t).await {
                    Ok((c, k, blobs)) => {
                        for b in &blobs { if c.decrypt_symmetric(&k, b).await.is_err() { cx.fail("c12-harness-current-key-does-not-open-a-stored-blob", "self-check of the old-key probe failed"); } }
                        old.push((*t, c, k, blobs.len()));
                    }
                    Err(e) => cx.fail("c12-harness-key-probe-error", &e),
                }
                if let Ok(v) = served(&mut a, t).await { before_views.insert(*t, v); }
            }
            let opname; let res;
            if which == 0 {
                opname = "change-folder-password";
                let nk: AccessKey = secrecy::SecretString::from(format!("new folder password {}", rng.below(1_000_000))).into();
                res = a.change_folder_password(&folder, nk).await.map(|_| ()).map_err(|e| e.to_string());
            } else {
                // flip the cipher, keep or flip the KDF
                let cur = old.first().map(|o| o.1.clone()).unwrap_or(Cipher::AesGcm256);
                let nc = if cur == Cipher::AesGcm256 { Cipher::XChaCha20Poly1305 } else { Cipher::AesGcm256 };
                let nk = if which == 1 { None } else { Some(KeyDerivation::BalloonHash) };
                opname = if which == 1 { "change-cipher-same-kdf" } else { "change-cipher-and-kdf" };
                res = a.change_cipher(&key, &nc, nk).await.map(|_| ()).map_err(|e| e.to_string());
            }
            match res {
                Ok(()) => {
                    cx.script.push(format!("{opname} {}", if which == 0 { folder.to_string() } else { "all".into() }));
                    cx.rep.count(&format!("op:{opname}"));
                    for (t, oc, ok_, nblobs) in &old {
                        // data kept
                        match (before_views.get(t), served(&mut a, t).await) {
                            (Some(b), Ok(af)) => if !same_content(b, &af) { let what = if b.flags != af.flags { "flags" } else if b.name != af.name { "name" } else if b.desc != af.desc { "description" } else { "secrets" }; cx.fail(&format!("c12-{opname}-changed-{what}"), "folder differs after the key change"); },
                            (_, Err(e)) => cx.fail(&format!("c12-{opname}-folder-unreadable"), &e),
                            _ => {}
                        }
                        // the replay of the rebuilt log is the same folder
                        if let (Some(b), Ok(rp)) = (before_views.get(t), replayed(&a, t).await) { if !same_content(b, &rp) { cx.fail(&format!("c12-{opname}-log-replays-to-different-folder"), "replay of the rebuilt log differs from the folder before the key change"); } }
                        // no blob under the old key remains
                        match key_and_blobs(&a, t).await {
                            Ok((nc, _nk, blobs)) => {
                                let mut still = 0;
                                for b in &blobs { if oc.decrypt_symmetric(ok_, b).await.is_ok() { still += 1; } }
                                if still > 0 { cx.fail(&format!("c12-blob-still-opens-with-old-key-after-{opname}"), &format!("{still} of {} stored blobs of the folder open with the key used before (there were {nblobs})", blobs.len())); }
                                if which != 0 && &nc == oc { cx.fail(&format!("c12-folder-keeps-old-cipher-after-{opname}"), "folder header still names the old cipher"); }
                                let livec = live.get(t).map(|m| m.len()).unwrap_or(0);
                                let n = { let log = a.folder_log(t).await.map_err(|e| anyhow::anyhow!(e.to_string()))?; let l = log.read().await; use sos_core::events::EventLog; l.tree().len() };
                                if n != 1 + livec { cx.fail(&format!("c12-{opname}-log-shape"), &format!("log has {n} events, expected 1 + {livec}")); }
                            }
                            Err(e) => cx.fail(&format!("c12-{opname}-key-probe-error"), &e),
                        }
                    }
                    if targets.contains(&default) { model_line = Some("folder compact".into()); history.clear(); saved = None; }
                }
                Err(e) => cx.fail(&format!("c12-{opname}-error"), &e),
            }
        } else if kind < 93 {
            // compaction (C12): content unchanged, log = 1 + live
            let before = served(&mut a, &folder).await;
            match a.compact_folder(&folder).await {
                Ok(_) => {
                    cx.script.push(format!("compact {folder}"));
                    let after = served(&mut a, &folder).await;
                    if let (Ok(b), Ok(af)) = (&before, &after) {
                        if !same_content(b, af) { let what = if b.flags != af.flags { "flags" } else if b.name != af.name { "name" } else if b.desc != af.desc { "description" } else { "secrets" }; cx.fail(&format!("c12-compaction-changed-{what}"), "folder differs after compaction"); }
                    }
                    if let (Ok(b), Ok(rp)) = (&before, &replayed(&a, &folder).await) {
                        if !same_content(b, rp) { let what = if b.flags != rp.flags { "flags" } else if b.name != rp.name { "name" } else if b.desc != rp.desc { "description" } else { "secrets" }; cx.fail(&format!("c12-compacted-log-replays-with-different-{what}"), "replay of the compacted log differs from the folder before compaction"); }
                    }
                    let n = { let log = a.folder_log(&folder).await.map_err(|e| anyhow::anyhow!(e.to_string()))?; let l = log.read().await; use sos_core::events::EventLog; l.tree().len() };
                    let livec = live.get(&folder).map(|m| m.len()).unwrap_or(0);
                    if n != 1 + livec { cx.fail("c12-compacted-log-shape", &format!("log has {n} events, expected 1 + {livec}")); }
                    if folder == default { model_line = Some("folder compact".into()); history.clear(); saved = None; }
                }
                Err(e) => cx.fail("c12-compact-error", &e.to_string()),
            }
        } else if kind < 96 {
            // sign out / sign in on the same instance
            let _ = a.sign_out().await;
            match a.sign_in(&key).await { Ok(_) => { let _ = a.initialize_search_index().await; cx.script.push("signout-signin".into()) }, Err(e) => { cx.fail("c01-sign-in-after-sign-out-fails", &e.to_string()); return Ok(()); } }
        } else if two {
            // an edit on device 1 arrives through sync (merge path)
            drop(a);
            {
                let _ = w_sync(&w, 0).await;
                let _ = w_sync(&w, 1).await;
                let (m, s) = { let l = format!("remote{}", rng.below(50)); mk_secret(&mut rng, &l) };
                let d = content_digest(&m, &s).await;
                let mut b = w.devices[1].lock().await;
                let ids: Vec<SecretId> = b.list_secret_ids(&default).await.unwrap_or_default();
                let o = AccessOptions { folder: Some(default), ..Default::default() };
                match rng.below(5) {
                    3 if !extra_folders.is_empty() => {
                        // the other device deletes a folder: its documents must leave this device's index with the merge
                        // prefer a folder that holds secrets (its documents are in this device's index)
                        let with_docs: Vec<usize> = (0..extra_folders.len()).filter(|i| live.get(&extra_folders[*i]).map(|m| !m.is_empty()).unwrap_or(false)).collect();
                        let i = if with_docs.is_empty() { rng.below(extra_folders.len() as u64) as usize } else { *rng.pick(&with_docs) };
                        let id = extra_folders[i];
                        if with_docs.is_empty() {
                            // make sure the folder has a document in this device's index before the remote delete arrives
                            drop(b);
                            { let mut a0 = w.devices[0].lock().await; let (m3, s3) = mk_secret(&mut rng, "doomed"); let d3 = content_digest(&m3, &s3).await; if let Ok(ch) = a0.create_secret(m3, s3, AccessOptions { folder: Some(id), ..Default::default() }).await { live.entry(id).or_default().insert(ch.id, d3); } }
                            let _ = w_sync(&w, 0).await; let _ = w_sync(&w, 1).await; let _ = w_sync(&w, 1).await;
                            b = w.devices[1].lock().await;
                        }
                        let n_docs = live.get(&id).map(|m| m.len()).unwrap_or(0);
                        if b.delete_folder(&id).await.is_ok() { extra_folders.remove(i); live.remove(&id); cx.script.push(format!("remote delete_folder {id} ({n_docs} secrets)")); cx.rep.count(if n_docs > 0 { "op:remote-delete-folder-with-secrets" } else { "op:remote-delete-folder-empty" }); }
                    }
                    4 => {
                        // the other device creates a folder with a secret
                        if let Ok(fc) = b.create_folder(NewFolderOptions::new(format!("remote-folder-{}", rng.below(1000)))).await {
                            let id = *fc.folder.id();
                            let o2 = AccessOptions { folder: Some(id), ..Default::default() };
                            let mut m2 = BTreeMap::new();
                            if let Ok(ch) = b.create_secret(m, s, o2).await { m2.insert(ch.id, d.clone()); }
                            live.insert(id, m2); extra_folders.push(id);
                            cx.script.push(format!("remote create_folder {id}")); cx.rep.count("op:remote-create-folder");
                        }
                    }
                    0 | 3 => { if let Ok(ch) = b.create_secret(m, s, o).await { live.entry(default).or_default().insert(ch.id, d.clone()); cx.script.push(format!("remote create {}", ch.id)); model_line = Some(format!("folder merge evs=c:{}:{}", tok.id(&ch.id), tok.val(&d))); } }
                    1 if !ids.is_empty() => { let id = *rng.pick(&ids); if b.update_secret(&id, m, Some(s), o).await.is_ok() { if live.get(&default).map(|m| m.contains_key(&id)).unwrap_or(false) { live.entry(default).or_default().insert(id, d.clone()); } cx.script.push(format!("remote update {id}")); model_line = Some(format!("folder merge evs=u:{}:{}", tok.id(&id), tok.val(&d))); } }
                    _ if !ids.is_empty() => { let id = *rng.pick(&ids); if b.delete_secret(&id, o).await.is_ok() { live.entry(default).or_default().remove(&id); cx.script.push(format!("remote delete {id}")); model_line = Some(format!("folder merge evs=d:{}", tok.id(&id))); } }
                    _ => {}
                }
            }
            if std::env::var("HTRACE").is_ok() { eprintln!("  two: syncs"); }
            // device 0 must first push its own state so that the remote edit fast-forwards
            // a folder created on the other device travels through the account log first; its own log is only compared
            // from the following sync on (on the creating device as well as on the receiving one): two syncs each
            let r0 = w_sync(&w, 0).await; let r1 = w_sync(&w, 1).await; let _ = w_sync(&w, 1).await; let r2 = w_sync(&w, 0).await;
            let r3 = w_sync(&w, 0).await;
            cx.script.push(format!("sync d0 {:?} d1 {:?} d0 {:?} d0 {:?}", r0, r1, r2, r3));
            if std::env::var("FDEBUG").is_ok() {
                let sl = w.server_logs().await; let d0 = w.device_logs(0).await; let d1 = w.device_logs(1).await;
                for (n, l) in &sl { if n.starts_with("folder:") { eprintln!("FDEBUG {n}: server={} d0={:?} d1={:?}", l.len(), d0.get(n).map(|x| x.len()), d1.get(n).map(|x| x.len())); } }
                let a0 = w.devices[0].lock().await; for f in a0.list_folders().await.unwrap_or_default() { eprintln!("FDEBUG d0 lists {} {}", f.id(), f.name()); }
            }
            // only a clean fast-forward is replayed on the model; conflicts are the sync harness's subject
            if r0.as_deref() != Ok("ok") || r1.as_deref() != Ok("ok") || r2.as_deref() != Ok("ok") { model_line = None; model_ok = false; }
            a = w.devices[0].lock().await;
            // re-read what device 0 now serves as the expected state for later steps when a conflict was merged
            if !model_ok { for (f, m) in live.iter_mut() { if let Ok(v) = served(&mut a, f).await { *m = v.secrets.into_iter().collect(); } } }
        }
        if model_line.as_deref().map(|l| l.starts_with("folder op")).unwrap_or(false) { edits_since_save += 1; }
        if std::env::var("HTRACE").is_ok() { eprintln!("  views"); }
        // views after the step
        check_views(&mut cx, &mut a, &live, "d0").await;
        if std::env::var("HTRACE").is_ok() { eprintln!("  search"); }
        check_search(&mut cx, &mut a, &live, "d0").await;
        if std::env::var("HTRACE").is_ok() { eprintln!("  model"); }
        if let (Some(line), true) = (model_line, model_ok) {
            if let (Ok(sv), Ok(rv)) = (served(&mut a, &default).await, replayed(&a, &default).await) {
                cx.ops.push(line);
                cx.imp.push(format!("vault: {} | replay: {}", tok.view(&sv), tok.view(&rv)));
            }
        }
        // remember the default folder as served at this commit (for replay-until-commit)
        {
            use sos_core::events::EventLog;
            let lc = { let log = a.folder_log(&default).await.map_err(|e| anyhow::anyhow!(e.to_string()))?; let l = log.read().await; l.tree().last_commit() };
            if let (Some(c), Ok(v)) = (lc, served(&mut a, &default).await) { history.push((c, v)); }
        }
        // every few steps: a fresh instance signs in from persisted storage (C01 reload)
        if step % 5 == 4 || reload_now {
            if std::env::var("HTRACE").is_ok() { eprintln!("  fresh"); }
            let target = a.backend_target().await;
            let account_id = *a.account_id();
            drop(a);
            match LocalAccount::new_unauthenticated(account_id, target).await {
                Ok(mut fresh) => match fresh.sign_in(&key).await {
                    Ok(_) => {
                        if std::env::var("HTRACE").is_ok() { eprintln!("  fresh signed in"); }
                        let mut a0 = w.devices[0].lock().await;
                        for (f, _) in live.clone() {
                            if std::env::var("HTRACE").is_ok() { eprintln!("  folder {f} a0"); }
                            let x = served(&mut a0, &f).await;
                            if std::env::var("HTRACE").is_ok() { eprintln!("  folder {f} fresh"); }
                            let y = served(&mut fresh, &f).await;
                            match (x, y) {
                                (Ok(x), Ok(y)) => if !same_content(&x, &y) {
                                    let what = if x.name != y.name { "name" } else if x.flags != y.flags { "flags" } else if x.desc != y.desc { "description" } else { "secrets" };
                                    cx.fail(&format!("c01-reloaded-account-differs-{what}"), &format!("folder {f}: memory {:?} vs fresh sign-in {:?}", (x.secrets.len(), x.flags), (y.secrets.len(), y.flags)));
                                },
                                (_, Err(e)) => cx.fail("c01-reloaded-account-read-error", &e),
                                _ => {}
                            }
                            // C02: what the vault store holds (served by a fresh instance) equals the replay of the log
                            if let (Ok(y), Ok(rp)) = (served(&mut fresh, &f).await, replayed(&fresh, &f).await) {
                                if !same_content(&y, &rp) {
                                    let what = if y.name != rp.name { "name" } else if y.flags != rp.flags { "flags" } else if y.desc != rp.desc { "description" } else { "secrets" };
                                    cx.fail(&format!("c02-persisted-vault-differs-from-replay-after-reload-{what}"), &format!("folder {f}: fresh sign-in serves {:?}, replay of its log {:?}", (y.secrets.len(), y.flags), (rp.secrets.len(), rp.flags)));
                                }
                            }
                        }
                        let _ = fresh.sign_out().await;
                        cx.script.push("fresh-sign-in".into());
                    }
                    Err(e) => cx.fail("c01-fresh-sign-in-fails", &e.to_string()),
                },
                Err(e) => cx.fail("c01-fresh-instance-fails", &e.to_string()),
            }
        }
    }
    // C02 second sentence: replaying up to any earlier commit yields the folder as it was then
    if model_ok {
        let a = w.devices[0].lock().await;
        let all: Vec<sos_core::commit::CommitHash> = {
            use futures::StreamExt; use sos_core::events::EventLog;
            let log = a.folder_log(&default).await.map_err(|e| anyhow::anyhow!(e.to_string()))?; let l = log.read().await;
            let st = l.record_stream(false).await; futures::pin_mut!(st); let mut v = vec![];
            while let Some(r) = st.next().await { if let Ok(r) = r { v.push(*r.commit()); } } v };
        // (the recorded history is cleared whenever the log is rebuilt: compaction, key change)
        {
            for (c, expect) in &history {
                let dup = all.iter().filter(|x| *x == c).count() > 1;
                // with identical events the last snapshot taken at this hash is the one after its FIRST occurrence only if unique
                match replayed_until(&a, &default, *c).await {
                    Ok(v) => if !same_content(&v, expect) && (!dup || history.iter().filter(|(c2, _)| c2 == c).count() == 1) {
                        cx.fail(if dup { "c02-replay-until-commit-stops-at-earlier-identical-event" } else { "c02-replay-until-commit-differs" }, &format!("detached_view({c}) differs from the folder served when that commit was the head"));
                    },
                    Err(e) => cx.fail("c02-replay-until-commit-error", &e),
                }
            }
        }
    }
    // C10: across everything a folder key encrypted in this history, no nonce is used twice
    {
        use futures::StreamExt; use sos_core::events::{EventLog, WriteEvent};
        let a = w.devices[0].lock().await;
        for (fid, _) in live.iter() {
            let Ok(log) = a.folder_log(fid).await else { continue };
            let l = log.read().await;
            let st = l.event_stream(false).await; futures::pin_mut!(st);
            let mut seen: BTreeMap<Vec<u8>, Vec<u8>> = BTreeMap::new();
            let mut packs = 0usize;
            while let Some(r) = st.next().await { if let Ok((_, ev)) = r {
                let mut ps: Vec<sos_core::crypto::AeadPack> = vec![];
                match ev { WriteEvent::CreateSecret(_, c) | WriteEvent::UpdateSecret(_, c) => { ps.push(c.1 .0.clone()); ps.push(c.1 .1.clone()); }
                           WriteEvent::SetVaultMeta(p) => ps.push(p), _ => {} }
                for p in ps {
                    packs += 1;
                    let n: Vec<u8> = match &p.nonce { sos_core::crypto::Nonce::Nonce12(b) => b.to_vec(), sos_core::crypto::Nonce::Nonce24(b) => b.to_vec() };
                    if let Some(prev) = seen.get(&n) { if prev != &p.ciphertext { cx.fail("c10-nonce-reused-under-folder-key", &format!("folder {fid}: two different ciphertexts share a nonce")); } }
                    seen.insert(n, p.ciphertext.clone());
                }
            } }
            cx.rep.count_n("c10:packs-inspected", packs as u64);
        }
    }
    // C10: a folder unlocks, and its password verifies, only with its own password
    {
        use sos_backend::AccessPoint; use sos_reducers::FolderReducer;
        let a = w.devices[0].lock().await;
        let mut keys: Vec<(VaultId, sos_core::crypto::AccessKey)> = vec![];
        for (fid, _) in live.iter() { if let Ok(Some(k)) = a.find_folder_password(fid).await { keys.push((*fid, k)); } }
        let near: sos_core::crypto::AccessKey = secrecy::SecretString::from("correct horse battery staple verif ".to_string()).into();
        for (fid, own) in keys.iter() {
            let Ok(log) = a.folder_log(fid).await else { continue };
            let vault = { let l = log.read().await; match FolderReducer::new().reduce(&*l).await { Ok(r) => match r.build(true).await { Ok(v) => v, Err(_) => continue }, Err(_) => continue } };
            if vault.verify(own).await.is_err() { cx.fail("c10-own-password-does-not-verify", &format!("folder {fid}: Vault::verify refuses the folder's own password")); }
            let mut others: Vec<&sos_core::crypto::AccessKey> = keys.iter().filter(|(f, _)| f != fid).map(|(_, k)| k).take(1).collect();
            others.push(&near);
            for other in others {
                cx.rep.count("c10:foreign-password-tried");
                if vault.verify(other).await.is_ok() { cx.fail("c10-foreign-password-verifies", &format!("folder {fid}: Vault::verify accepts a password that is not the folder's own")); }
                let mut k = AccessPoint::from_vault(vault.clone());
                if k.unlock(other).await.is_ok() { cx.fail("c10-foreign-password-unlocks", &format!("folder {fid}: unlocked with a password that is not its own")); }
                else {
                    // a refused unlock leaves the folder locked: nothing can be written (a row written now would be
                    // sealed under a key that is not the folder's)
                    use sos_vault::SecretAccess;
                    let (m, sct) = note_secret("after-refused-unlock");
                    let row = sos_vault::secret::SecretRow::new(SecretId::new_v4(), m, sct);
                    if k.create_secret(&row).await.is_ok() { cx.fail("c10-folder-usable-after-refused-unlock", &format!("folder {fid}: after unlock with a foreign password was refused a secret could still be written (sealed under the foreign key)")); }
                }
            }
        }
    }
    // C12 epilogue (after the model correspondence is complete): every live folder gets a description that differs
    // from the one it was created with, is compacted, and must be served and replay as before the compaction
    {
        let mut a = w.devices[0].lock().await;
        let fids: Vec<VaultId> = live.keys().cloned().collect();
        for fid in fids {
            if a.set_folder_description(&fid, format!("described late {seed}")).await.is_err() { continue; }
            let before = served(&mut a, &fid).await;
            if a.compact_folder(&fid).await.is_err() { continue; }
            cx.rep.count("c12:describe-then-compact");
            let after = served(&mut a, &fid).await;
            if let (Ok(b), Ok(af)) = (&before, &after) {
                if !same_content(b, af) { let what = if b.flags != af.flags { "flags" } else if b.name != af.name { "name" } else if b.desc != af.desc { "description" } else { "secrets" }; cx.fail(&format!("c12-compaction-changed-{what}"), "folder differs after compaction (epilogue)"); }
            }
            if let (Ok(b), Ok(rp)) = (&before, &replayed(&a, &fid).await) {
                if !same_content(b, rp) { let what = if b.flags != rp.flags { "flags" } else if b.name != rp.name { "name" } else if b.desc != rp.desc { "description" } else { "secrets" }; cx.fail(&format!("c12-compacted-log-replays-with-different-{what}"), "replay of the compacted log differs from the folder before compaction (epilogue)"); }
            }
        }
    }
    let s = cx.script.join(";");
    cx.rep.case(&s, true);
    if seed % 40 == 0 { let sc = cx.script.clone(); cx.rep.sample(json!({"script": sc})); }
    Ok(())
}

fn note_secret(label: &str) -> (SecretMeta, Secret) {
    let secret = Secret::Note { text: "x".to_string().into(), user_data: Default::default() };
    (SecretMeta::new(label.to_string(), secret.kind()), secret)
}

async fn w_sync(w: &World, k: usize) -> Result<String, String> { w.sync(k).await }

pub fn run(cli: &Cli) {
    let property = cli.extra.get("property").cloned().unwrap_or("C01".into());
    let mut rep = Report::new(&property, "folder", cli.seed, &cli.tier);
    let rt = tokio::runtime::Builder::new_multi_thread().worker_threads(4).enable_all().build().unwrap();
    let n: u64 = cli.extra.get("cases").and_then(|s| s.parse().ok()).unwrap_or(if cli.tier == "thorough" { 120 } else { 24 });
    let mut ops = vec![]; let mut imp = vec![];
    let backends: Vec<&str> = if let Some(path) = &cli.replay {
        let v: serde_json::Value = serde_json::from_str(&std::fs::read_to_string(path).unwrap()).unwrap();
        let seed = v["case"]["case_seed"].as_u64().unwrap_or(cli.seed);
        let backend = v["case"]["backend"].as_str().unwrap_or("fs").to_string();
        let _ = rt.block_on(run_case(&backend, seed, &mut rep, &mut ops, &mut imp));
        vec![]
    } else { vec!["fs", "db"] };
    for backend in backends {
        for k in 0..n {
            let case_seed = cli.seed.wrapping_mul(1_000_003).wrapping_add(k);
            if let Err(e) = rt.block_on(run_case(backend, case_seed, &mut rep, &mut ops, &mut imp)) {
                rep.notes.push(format!("case {backend}/{case_seed} aborted: {e}"));
            }
        }
    }
    rep.diff_streams("corr:folder", &ops, &imp);
    rep.rule = format!("{n} generated account histories per backend (fs, sqlite) of 6-22 steps on a real LocalAccount: create / update / delete / move secrets of several kinds (empty, unicode, 40 kB values, tags, favourites), \\
        create / rename / re-flag / describe / delete folders, compaction, sign-out/sign-in, fresh instance sign-in every 5 steps, and (half of the cases) edits of a second device arriving through sync; \\
        after every step: served view vs harness record (C01), replay of the log via detached_view vs served (C02), search index vs live secrets and counters (C20), compaction invariants (C12); \\
        the default folder's operations are replayed on the Lean Folder model (vault and replay views must match)");
    rep.write(&cli.out);
}

/// directed probe (debugging aid): replays the history of a failing thorough case step by step
/// C05 across the ACCOUNT log: two devices make account-level edits while offline (each creates a folder; or one
/// compacts / re-keys / re-describes a folder and keeps editing it while the other creates a folder), then both sync
/// in turn several times.  Every secret either device committed must be readable on both devices afterwards.
pub async fn account_merge_case(backend: &str, seed: u64, variant: &str, rep: &mut Report) -> anyhow::Result<()> {
    let w = World::new(2, backend).await?;
    let mut rng = Rng::new(seed ^ 0xACC0);
    let o = |f: VaultId| AccessOptions { folder: Some(f), ..Default::default() };
    for k in [0usize, 1, 0, 1] { w.sync(k).await.map_err(|e| anyhow::anyhow!("initial sync: {e}"))?; }
    let default = { let a = w.devices[0].lock().await; *a.default_folder().await.unwrap().id() };
    let mut made: Vec<(usize, VaultId, sos_core::SecretId, String)> = vec![];
    // device 1's side
    {
        let mut a = w.devices[1].lock().await;
        match variant {
            "create-create" => {
                let f = *a.create_folder(NewFolderOptions::new("made-on-d1".to_string())).await?.folder.id();
                for i in 0..rng.range(1, 3) { let (m, s) = mk_secret(&mut rng, &format!("d1-{i}")); let id = a.create_secret(m, s, o(f)).await?.id; made.push((1, f, id, "in the folder device 1 created".into())); }
            }
            _ => {
                let (m, s) = mk_secret(&mut rng, "before"); let id = a.create_secret(m, s, o(default)).await?.id; made.push((1, default, id, "before the account-level edit".into()));
                match variant {
                    "compact-create" => { a.compact_folder(&default).await?; }
                    "password-create" => { let nk: AccessKey = secrecy::SecretString::from(format!("new folder password {seed}")).into(); a.change_folder_password(&default, nk).await?; }
                    _ => { a.rename_folder(&default, "renamed on d1".into()).await?; }
                }
                for i in 0..rng.range(1, 3) { let (m, s) = mk_secret(&mut rng, &format!("after-{i}")); let id = a.create_secret(m, s, o(default)).await?.id; made.push((1, default, id, "after the account-level edit".into())); }
            }
        }
    }
    // device 0's side: a new folder with a secret
    {
        let mut a = w.devices[0].lock().await;
        let f = *a.create_folder(NewFolderOptions::new("made-on-d0".to_string())).await?.folder.id();
        let (m, s) = mk_secret(&mut rng, "d0"); let id = a.create_secret(m, s, o(f)).await?.id; made.push((0, f, id, "in the folder device 0 created".into()));
    }
    let order: Vec<usize> = if rng.chance(1, 2) { vec![0, 1, 0, 1, 0, 1] } else { vec![1, 0, 1, 0, 1, 0] };
    let mut script = vec![format!("account-merge {variant} {backend} order={:?}", order)];
    for k in &order { let r = w.sync(*k).await; script.push(format!("sync d{k} {}", match &r { Ok(x) => x.clone(), Err(e) => format!("ERR {e}") })); }
    for d in 0..2usize {
        let a = w.devices[d].lock().await;
        for (who, f, id, what) in &made {
            if let Err(e) = a.read_secret(id, Some(f)).await {
                rep.spec_fail(&format!("c05-secret-lost-after-account-log-merge:{variant}"), json!({"case_seed": seed, "backend": backend, "variant": variant, "made_on": who, "read_on": d, "what": what, "error": e.to_string(), "script": script}),
                    "a secret committed on one device cannot be read after both devices made account-level edits offline and synced");
            }
        }
    }
    rep.case(&format!("account-merge:{variant}:{backend}:{seed}"), true);
    rep.count(&format!("account-merge:{variant}:{backend}"));
    Ok(())
}

pub fn run_account_merge(cli: &Cli) {
    let property = cli.extra.get("property").cloned().unwrap_or("C05".into());
    let mut rep = Report::new(&property, "amerge", cli.seed, &cli.tier);
    let rt = tokio::runtime::Builder::new_multi_thread().worker_threads(4).enable_all().build().unwrap();
    let n: u64 = if cli.tier == "thorough" { 6 } else { 1 };
    for backend in ["fs", "db"] {
        for variant in ["create-create", "compact-create", "password-create", "rename-create"] {
            for k in 0..n {
                let seed = cli.seed.wrapping_mul(1_000_003).wrapping_add(k);
                if let Err(e) = rt.block_on(account_merge_case(backend, seed, variant, &mut rep)) {
                    rep.notes.push(format!("case {backend}/{variant}/{seed} aborted: {e}"));
                    rep.spec_fail("c05-harness-aborted", json!({"backend": backend, "variant": variant, "case_seed": seed}), &e.to_string());
                }
            }
        }
    }
    rep.rule = "two devices and real server storage, both backends x 4 kinds of concurrent account-level edits (each device creates a folder; one device compacts / re-keys / renames a folder and keeps adding secrets while the other creates a folder) x both sync orders, six sync calls; every secret either device committed must be readable on both devices".into();
    rep.write(&cli.out);
}

/// both devices create a folder (with a secret) while offline, then sync in turn
pub fn probe2(cli: &Cli) {
    let rt = tokio::runtime::Builder::new_multi_thread().worker_threads(2).enable_all().build().unwrap();
    let backend = cli.extra.get("backend").cloned().unwrap_or("fs".into());
    rt.block_on(async {
        let w = World::new(2, &backend).await.unwrap();
        let mut rng = Rng::new(cli.seed);
        let o = |f: VaultId| AccessOptions { folder: Some(f), ..Default::default() };
        for k in [0usize, 1, 0, 1] { let _ = w.sync(k).await; }
        let mut made: Vec<(usize, VaultId, sos_core::SecretId)> = vec![];
        let mode = std::env::var("MODE").unwrap_or_default();
        if mode == "delete-vs-edit" {
            // a shared folder: d1 deletes it while d0 adds a secret to it, both offline
            let f = { let mut a = w.devices[0].lock().await; *a.create_folder(NewFolderOptions::new("shared".to_string())).await.unwrap().folder.id() };
            { let mut a = w.devices[0].lock().await; let (m, s) = mk_secret(&mut rng, "old"); a.create_secret(m, s, o(f)).await.unwrap(); }
            for k in [0usize, 1, 0, 1] { let r = w.sync(k).await; println!("sync d{k} {:?}", r); }
            { let mut a = w.devices[1].lock().await; let r = a.delete_folder(&f).await; println!("d1 delete_folder -> {:?}", r.is_ok()); }
            { let mut a = w.devices[0].lock().await; let (m, s) = mk_secret(&mut rng, "new"); let r = a.create_secret(m, s, o(f)).await; println!("d0 create in shared -> {:?}", r.is_ok()); }
            let order: Vec<usize> = if std::env::var("ORDER").unwrap_or_default() == "10" { vec![1, 0, 1, 0, 1, 0] } else { vec![0, 1, 0, 1, 0, 1] };
            for k in order { let r = w.sync(k).await; println!("sync d{k} {:?}", r); }
            for d in 0..2usize {
                let a = w.devices[d].lock().await;
                let folders: Vec<String> = a.list_folders().await.unwrap().iter().map(|s| s.name().to_string()).collect();
                let st = { use sos_sync::SyncStorage; a.sync_status().await.map(|s| format!("{:?}", s.root)).unwrap_or_default() };
                println!("device {d} folders {:?} root {}", folders, st);
            }
            println!("server root {:?}", w.server_status().await.map(|s| format!("{:?}", s.root)));
            return;
        }
        if mode == "files-empty" {
            // the file log is empty on every replica; each device attaches its first external file offline
            let default = { let a = w.devices[0].lock().await; *a.default_folder().await.unwrap().id() };
            for d in 0..2usize {
                let mut a = w.devices[d].lock().await;
                let p = w.tmp.path().join(format!("first-file-{d}.bin")); std::fs::write(&p, format!("first file of d{d}").as_bytes()).unwrap();
                let secret: sos_vault::secret::Secret = p.try_into().unwrap();
                let meta = sos_vault::secret::SecretMeta::new(format!("file-d{d}"), secret.kind());
                let id = a.create_secret(meta, secret, o(default)).await.unwrap().id;
                made.push((d, default, id));
            }
            for k in [0usize, 1, 0, 1, 0, 1] { let r = w.sync(k).await; println!("sync d{k} {:?}", r); }
            for d in 0..2usize {
                let a = w.devices[d].lock().await;
                use sos_sync::StorageEventLogs; use sos_core::events::EventLog;
                let n = a.file_log().await.unwrap().read().await.tree().len();
                let files = { let log = a.file_log().await.unwrap(); let l = log.read().await; sos_reducers::FileReducer::new(&*l).reduce(None).await.unwrap().len() };
                println!("device {d}: file log length {n}, external files after reduce {files}");
            }
            { let r = w.server.read().await; if let Some(s) = r.as_ref() { use sos_sync::StorageEventLogs; use sos_core::events::EventLog; println!("server: file log length {}", s.file_log().await.unwrap().read().await.tree().len()); } }
            return;
        }
        if mode == "compact" || mode == "password" {
            // device 1 compacts (or re-keys) the default folder and then adds a secret; device 0 creates a folder
            let default = { let a = w.devices[0].lock().await; *a.default_folder().await.unwrap().id() };
            {
                let mut a = w.devices[1].lock().await;
                let (m, s) = mk_secret(&mut rng, "before"); a.create_secret(m, s, o(default)).await.unwrap();
                if mode == "compact" { a.compact_folder(&default).await.unwrap(); }
                else { let nk: sos_core::crypto::AccessKey = secrecy::SecretString::from("a new folder password 12345".to_string()).into(); a.change_folder_password(&default, nk).await.unwrap(); }
                let (m, s) = mk_secret(&mut rng, "after"); let id = a.create_secret(m, s, o(default)).await.unwrap().id;
                made.push((1, default, id));
            }
            {
                let mut a = w.devices[0].lock().await;
                let f = *a.create_folder(NewFolderOptions::new("folder-of-d0".to_string())).await.unwrap().folder.id();
                let (m, s) = mk_secret(&mut rng, "in-d0"); let id = a.create_secret(m, s, o(f)).await.unwrap().id;
                made.push((0, f, id));
            }
        } else { for d in 0..2usize {
            let mut a = w.devices[d].lock().await;
            let f = *a.create_folder(NewFolderOptions::new(format!("folder-of-d{d}"))).await.unwrap().folder.id();
            let (m, s) = mk_secret(&mut rng, &format!("in-d{d}"));
            let id = a.create_secret(m, s, o(f)).await.unwrap().id;
            made.push((d, f, id));
        } }
        for k in [0usize, 1, 0, 1, 0, 1] { let r = w.sync(k).await; println!("sync d{k} {:?}", r); }
        for d in 0..2usize {
            let a = w.devices[d].lock().await;
            let folders: Vec<String> = a.list_folders().await.unwrap().iter().map(|s| s.name().to_string()).collect();
            println!("device {d} folders {:?}", folders);
            for (who, f, id) in &made {
                let r = a.read_secret(id, Some(f)).await;
                let n = match a.folder_log(f).await { Ok(l) => { use sos_core::events::EventLog; l.read().await.tree().len() as i64 } Err(_) => -1 };
                println!("  device {d}: secret made on d{who} in folder {} -> {} ; folder log length {}", &f.to_string()[..8], match r { Ok(_) => "readable".to_string(), Err(e) => format!("ERROR {e}") }, n);
            }
        }
    });
}

pub fn probe(_cli: &Cli) {
    let rt = tokio::runtime::Builder::new_multi_thread().worker_threads(2).enable_all().build().unwrap();
    rt.block_on(async {
        let skip: Vec<String> = std::env::var("SKIP").unwrap_or_default().split(',').map(|x| x.to_string()).collect();
        let on = |n: &str| !skip.iter().any(|x| x == n);
        let w = World::new(2, "fs").await.unwrap();
        let key: AccessKey = w.password.clone().into();
        let default = { let a = w.devices[0].lock().await; *a.default_folder().await.unwrap().id() };
        let mut rng = Rng::new(7);
        let o = |f: VaultId| AccessOptions { folder: Some(f), ..Default::default() };
        async fn file_rows(a: &LocalAccount, id: &VaultId) -> usize { let b = std::fs::read(a.paths().vault_path(id)).unwrap(); let v: sos_vault::Vault = sos_core::decode(&b).await.unwrap(); v.len() }
        async fn fresh(w: &World, key: &AccessKey) { let (t, id) = { let a = w.devices[0].lock().await; (a.backend_target().await, *a.account_id()) }; let mut f = LocalAccount::new_unauthenticated(id, t).await.unwrap(); f.sign_in(key).await.unwrap(); let _ = f.sign_out().await; }
        async fn report(w: &World, default: &VaultId, name: &str) { let a = w.devices[0].lock().await; let listed = a.list_secret_ids(default).await.unwrap().len(); let mem = { use sos_vault::SecretAccess; let f = a.folder(default).await.unwrap(); let ap = f.access_point(); let ap = ap.lock().await; ap.vault().len() }; println!("{:<28} file rows {} memory {} listed {}", name, file_rows(&a, default).await, mem, listed); }
        let (m, s) = mk_secret(&mut rng, "a"); let mut ida = None;
        { let mut a = w.devices[0].lock().await; ida = Some(a.create_secret(m, s, o(default)).await.unwrap().id); }
        let (m, s) = mk_secret(&mut rng, "b"); let idb = { let mut a = w.devices[0].lock().await; a.create_secret(m, s, o(default)).await.unwrap().id };
        { let mut a = w.devices[0].lock().await; if on("describe") { a.set_folder_description(&default, "description 3").await.unwrap(); } if on("compact1") { a.compact_folder(&default).await.unwrap(); } }
        let (m, s) = mk_secret(&mut rng, "c"); let _idc = { let mut a = w.devices[0].lock().await; a.create_secret(m, s, o(default)).await.unwrap().id };
        fresh(&w, &key).await;
        { let mut a = w.devices[0].lock().await; a.delete_secret(&idb, o(default)).await.unwrap(); if on("compact2") { a.compact_folder(&default).await.unwrap(); a.compact_folder(&default).await.unwrap(); } }
        let (m, s) = mk_secret(&mut rng, "d"); let idd = { let mut a = w.devices[0].lock().await; a.create_secret(m, s, o(default)).await.unwrap().id };
        let f1 = { let mut a = w.devices[0].lock().await; *a.create_folder(NewFolderOptions::new("f1".into())).await.unwrap().folder.id() };
        if on("fresh") { fresh(&w, &key).await; }
        let _ = w.sync(0).await; let _ = w.sync(1).await;
        let (m, s) = mk_secret(&mut rng, "r"); let idr = { let mut b = w.devices[1].lock().await; b.create_secret(m, s, o(default)).await.unwrap().id };
        for k in [0usize, 1, 1, 0, 0] { let r = w.sync(k).await; println!("sync d{k} {:?}", r); }
        report(&w, &default, "after syncs").await;
        if on("delfolder") { let mut a = w.devices[0].lock().await; a.delete_folder(&f1).await.unwrap(); } report(&w, &default, "delete_folder f1").await;
        if on("flags") { let mut a = w.devices[0].lock().await; a.update_folder_flags(&default, VaultFlags::from_bits(513).unwrap()).await.unwrap(); } report(&w, &default, "flags 513").await;
        if on("flags") { let mut a = w.devices[0].lock().await; a.update_folder_flags(&default, VaultFlags::from_bits(1).unwrap()).await.unwrap(); } report(&w, &default, "flags 1").await;
        let (m, s) = mk_secret(&mut rng, "r2");
        if on("update") { let mut a = w.devices[0].lock().await; a.update_secret(&idr, m, Some(s), o(default)).await.unwrap(); } report(&w, &default, "update r").await;
        fresh(&w, &key).await;
        if on("f2") { let mut a = w.devices[0].lock().await; a.create_folder(NewFolderOptions::new("f2".into())).await.unwrap(); } report(&w, &default, "create_folder f2").await;
        if on("f3") { let mut a = w.devices[0].lock().await; a.create_folder(NewFolderOptions::new("f3".into())).await.unwrap(); } report(&w, &default, "create_folder f3").await;
        {
            use sos_vault::EncryptedEntry;
            let a = w.devices[0].lock().await;
            let vp = a.paths().vault_path(&default);
            let wtr = sos_filesystem::VaultFileWriter::<sos_backend::Error>::new(&vp);
            let r = wtr.read_secret(&idd).await;
            println!("before delete: mirror read_secret(d) -> {:?}; path {}", r.map(|x| x.is_some()), vp.display());
            let b = std::fs::read(&vp).unwrap();
            let off = sos_vault::Header::read_content_offset(&vp).await.unwrap() as usize;
            let mut p = off; let mut rows = vec![];
            while p + 20 <= b.len() { let n = u32::from_le_bytes([b[p], b[p+1], b[p+2], b[p+3]]) as usize; let tail = if p + 8 + n <= b.len() { u32::from_le_bytes([b[p+4+n], b[p+5+n], b[p+6+n], b[p+7+n]]) as usize } else { 0 }; rows.push((p, n, tail, hex::encode(&b[p+4..p+8]))); p += n + 8; }
            println!("file len {} content offset {} rows (pos, len, trailing len, id): {:?}; id d = {}", b.len(), off, rows, &idd.to_string()[..8]);
        }
        { let mut a = w.devices[0].lock().await; a.delete_secret(&idd, o(default)).await.unwrap(); } report(&w, &default, "delete d").await;
        let _ = ida;
    });
}
